"""C19 probe: process pool that runs every call sequence in its OWN child process.

Each pool worker loads libcameleon_gentl.so once and never calls into it ("pristine zygote");
for every sequence it fork()s, the forked child makes the calls and streams one result line per
call through a pipe, then exits.  A panic inside an `extern "C"` function aborts that child
(SIGABRT) - the parent records `panic` as the outcome of the call that was running.  Forking a
pristine process is equivalent to starting a fresh one (no Rust static has been initialised,
there are no threads), but costs ~2 ms instead of ~90 ms, which is what makes the exhaustive
depth-6 enumeration affordable.
"""
import multiprocessing as mp
import os
import signal
import sys

sys.path.insert(0, os.path.dirname(os.path.abspath(__file__)))
import child as childmod  # noqa: E402

_probe = None


def _init(so, good_id, cwd):
    global _probe
    os.chdir(cwd)
    _probe = childmod.Probe(so, good_id)


def run_one(ops, raw=False):
    """returns the list of result strings; if the child died, the last element is the outcome
    of the call that was running (`panic`, `hang`, `signal:N`, `child-error:...`)."""
    r, w = os.pipe()
    pid = os.fork()
    if pid == 0:
        code = 0
        try:
            os.close(r)
            dn = os.open(os.devnull, os.O_WRONLY)
            os.dup2(dn, 2)
            signal.alarm(300)   # wall clock; generous, the box may be heavily loaded
            childmod.RAW = raw
            out = os.fdopen(w, "w")
            for op in ops:
                try:
                    res = _probe.run(op)
                except Exception as e:  # a bug of the probe itself, not an outcome
                    out.write("PYERR %r\n" % (e,))
                    out.flush()
                    code = 3
                    break
                out.write(res + "\n")
                out.flush()
            out.close()
        finally:
            os._exit(code)
    os.close(w)
    with os.fdopen(r, "rb") as f:
        data = f.read()
    _, status = os.waitpid(pid, 0)
    lines = data.decode(errors="replace").splitlines()
    results = lines[:len(ops)]
    if os.WIFSIGNALED(status):
        sig = os.WTERMSIG(status)
        results.append("panic" if sig == signal.SIGABRT else "hang" if sig == signal.SIGALRM else "signal:%d" % sig)
    elif os.WEXITSTATUS(status) != 0:
        results.append("child-error:%d" % os.WEXITSTATUS(status))
    return results


def _run_batch(batch):
    return [run_one(ops, raw) for (ops, raw) in batch]


class Pool:
    def __init__(self, so, good_id, cwd, workers):
        self.pool = mp.get_context("fork").Pool(workers, initializer=_init, initargs=(so, good_id, cwd))

    def run(self, seqs, raw=False, chunk=64):
        """seqs: list of op lists -> list of result lists (same order)"""
        batches = [[(s, raw) for s in seqs[i:i + chunk]] for i in range(0, len(seqs), chunk)]
        out = []
        for res in self.pool.imap(_run_batch, batches):
            out.extend(res)
        return out

    def close(self):
        self.pool.close()
        self.pool.join()
