#!/usr/bin/env python3
"""C19 probe child: loads libcameleon_gentl.so and executes ONE call sequence.

stdin : JSON {"so": path, "ops": ["init", "tlopen 0", ...]}
stdout: one canonical result line per executed op, flushed after every call, so that a
        crash (panic inside extern "C" = abort) leaves the results of the calls before it.
The parent treats a missing line + signal as the outcome of the op that was running.

Must be started with cwd = /repo/gentl (SystemModule::full_path resolves "../" + file!()).
Only the python3 standard library is used.
"""
import ctypes as C
import json
import sys

GUARD = 16
GUARD_BYTE = 0xA5
BIG = 1 << 20          # sizes above this are *claimed* only (see op `read`)
INLINE = 2048          # contents longer than this are reported as "#len:fnv" (module global, may be raised)

FNV_INIT = 0xcbf29ce484222325
FNV_PRIME = 0x100000001b3
M64 = (1 << 64) - 1
RAW = False             # True: always full hex (used by the discovery sequence)


def fnv(bs):
    h = FNV_INIT
    for b in bs:
        h = ((h ^ b) * FNV_PRIME) & M64
    return h


def show_bytes(bs):
    """hex for short contents, '#len:fnv16' for long ones, '-' for empty."""
    if len(bs) == 0:
        return "-"
    if len(bs) <= INLINE or RAW:
        return bytes(bs).hex()
    return "#%d:%016x" % (len(bs), fnv(bs))


def fill_byte(i):
    """prefill pattern of every destination buffer (the model driver uses the same)"""
    return (0x5A + 31 * i) & 0xFF


class StackEntry(C.Structure):
    _fields_ = [("Address", C.c_uint64), ("pBuffer", C.c_void_p), ("Size", C.c_size_t)]


class Buf:
    """destination buffer of `cap` bytes between two guard zones"""

    def __init__(self, cap, data=None):
        self.cap = cap
        self.raw = (C.c_ubyte * (cap + 2 * GUARD))()
        for i in range(GUARD):
            self.raw[i] = GUARD_BYTE
            self.raw[GUARD + cap + i] = GUARD_BYTE
        for i in range(cap):
            self.raw[GUARD + i] = fill_byte(i) if data is None else data[i]
        self.ptr = C.c_void_p(C.addressof(self.raw) + GUARD)

    def contents(self):
        return bytes(self.raw[GUARD:GUARD + self.cap])

    def guards_ok(self):
        return all(self.raw[i] == GUARD_BYTE for i in range(GUARD)) and \
            all(self.raw[GUARD + self.cap + i] == GUARD_BYTE for i in range(GUARD))


def parse_buf(tok):
    """'null:<sizeIn>' -> (None, sizeIn) ; '<cap>' -> (Buf(cap), cap)"""
    if tok.startswith("null:"):
        return None, int(tok[5:])
    cap = int(tok)
    return Buf(cap), cap


def unhex(s):
    return b"" if s == "-" else bytes.fromhex(s)


class Probe:
    def __init__(self, so, good_id=None):
        self.lib = lib = C.CDLL(so)
        vp, u32, u64, i32, sz = C.c_void_p, C.c_uint32, C.c_uint64, C.c_int32, C.c_size_t
        P = C.POINTER
        sig = {
            "GCInitLib": [], "GCCloseLib": [],
            "GCGetLastError": [P(i32), vp, P(sz)],
            "TLOpen": [P(vp)], "TLClose": [vp],
            "TLGetInfo": [vp, i32, P(i32), vp, P(sz)],
            "TLGetInterfaceID": [vp, u32, vp, P(sz)],
            "TLGetInterfaceInfo": [vp, C.c_char_p, i32, P(i32), vp, P(sz)],
            "TLGetNumInterfaces": [vp, P(u32)],
            "TLOpenInterface": [vp, C.c_char_p, P(vp)],
            "TLUpdateInterfaceList": [vp, P(C.c_ubyte), u64],
            "IFClose": [vp], "IFGetInfo": [vp, i32, P(i32), vp, P(sz)],
            "GCGetPortInfo": [vp, i32, P(i32), vp, P(sz)],
            "GCGetPortURL": [vp, vp, P(sz)],
            "GCGetNumPortURLs": [vp, P(u32)],
            "GCGetPortURLInfo": [vp, u32, i32, P(i32), vp, P(sz)],
            "GCReadPort": [vp, u64, vp, P(sz)],
            "GCWritePort": [vp, u64, vp, P(sz)],
            "GCReadPortStacked": [vp, P(StackEntry), P(sz)],
            "GCWritePortStacked": [vp, P(StackEntry), P(sz)],
            "IFGetNumDevices": [vp, P(u32)], "IFUpdateDeviceList": [vp, P(C.c_ubyte), u64],
            "IFGetParentTL": [vp, P(vp)], "IFGetDeviceID": [vp, u32, vp, P(sz)],
            "IFGetDeviceInfo": [vp, C.c_char_p, i32, P(i32), vp, P(sz)],
            "IFOpenDevice": [vp, C.c_char_p, i32, P(vp)],
            "CGCGetInfo": [i32, i32, vp, P(sz)],
        }
        for name, args in sig.items():
            f = getattr(lib, name)
            f.argtypes = args
            f.restype = i32
        # handle slots: None = NULL, ("sys"|"if", ptr) live, "freed"
        self.slots = {}
        self.parent = {}     # interface handle pointer -> system handle pointer it was opened from
        self.null = None     # name of the pointer parameter passed as NULL in the current call
        self.worker = None   # second thread (ops prefixed `t2:`)
        # library initialised?  (tracked from the return codes of GCInitLib / GCCloseLib; a freed
        # handle variable is passed on only while the library is NOT initialised, where the entry
        # points return before looking at any argument)
        self.lib_init = False
        # id of the (only) interface as reported by TLGetInterfaceID in the discovery run
        self.good_id = good_id or b"639290f8-043c-436d-b8d1-cb916e2928e9"

    # ---- helpers -------------------------------------------------------------
    def handle(self, slot):
        """returns (skip?, raw pointer)"""
        v = self.slots.get(slot)
        if v is None:
            return False, C.c_void_p(None)
        if v == "freed":
            if not self.lib_init or self.null:
                # never dereferenced: the init assertion / the NULL-parameter check fails first.
                # Pass a poison pointer.
                return False, C.c_void_p(0x10)
            return True, None
        return False, C.c_void_p(v[1])

    def iface_id(self, kind):
        if kind == "good":
            return self.good_id
        if kind == "bad":
            return b"no-such-interface"
        if kind == "empty":
            return b""
        if kind == "utf8":
            return b"caf\xc3\xa9"
        raise ValueError(kind)

    def P(self, name, ptr):
        """the pointer, or NULL when this call is made with that parameter NULL (`np:<name>`)"""
        return None if self.null == name else ptr

    def info_call(self, fn, pre_args, buftok, with_type=True):
        buf, size_in = parse_buf(buftok)
        size = C.c_size_t(size_in)
        ty = C.c_int32(-77)
        ptr = buf.ptr if buf else C.c_void_p(None)
        if with_type:
            code = fn(*pre_args, self.P("type", C.byref(ty)), ptr, self.P("size", C.byref(size)))
        else:
            code = fn(*pre_args, ptr, self.P("size", C.byref(size)))
        out = "%d" % code
        if with_type:
            out += " t=%s" % ("-" if ty.value == -77 else ty.value)
        out += " n=%d b=%s" % (size.value, "null" if buf is None else show_bytes(buf.contents()))
        if buf is not None and not buf.guards_ok():
            out += " GUARD-BROKEN"
        return out

    def scalar_call(self, fn, pre_args, ctype, sentinel, post_args=()):
        v = ctype(sentinel)
        code = fn(*pre_args, self.P("out", C.byref(v)), *post_args)
        return "%d %s" % (code, "-" if v.value == sentinel else v.value)

    # ---- one op --------------------------------------------------------------
    def run(self, op):
        """`t2:<op>`: make the call on a second, persistent thread of this process (LAST_ERROR is
        thread-local)"""
        if op.startswith("t2:"):
            import queue
            import threading
            if self.worker is None:
                self.jobs, self.answers = queue.Queue(), queue.Queue()

                def loop():
                    while True:
                        self.answers.put(self.run1(self.jobs.get()))
                self.worker = threading.Thread(target=loop, daemon=True)
                self.worker.start()
            self.jobs.put(op[3:])
            return self.answers.get()
        return self.run1(op)

    def run1(self, op):
        t = op.split()
        self.null = None
        if t[0].startswith("np:"):
            self.null = t[0][3:]
            t = t[1:]
        k = t[0]
        lib = self.lib
        if k == "init":
            code = lib.GCInitLib()
            if code == 0:
                self.lib_init = True
            return "%d" % code
        if k == "closelib":
            code = lib.GCCloseLib()
            if code == 0:
                self.lib_init = False
            return "%d" % code
        if k == "gcinfo":
            return "%d" % lib.CGCGetInfo(0, 0, None, None)
        if k == "lasterr":
            buf, size_in = parse_buf(t[1])
            size = C.c_size_t(size_in)
            ec = C.c_int32(-77)
            code = lib.GCGetLastError(self.P("code", C.byref(ec)), buf.ptr if buf else C.c_void_p(None),
                                      self.P("size", C.byref(size)))
            out = "%d e=%s n=%d b=%s" % (code, "-" if ec.value == -77 else ec.value, size.value,
                                        "null" if buf is None else show_bytes(buf.contents()))
            if buf is not None and not buf.guards_ok():
                out += " GUARD-BROKEN"
            return out
        if k == "tlopen":
            dst = int(t[1])
            h = C.c_void_p(None)
            code = lib.TLOpen(self.P("out", C.byref(h)))
            out = "%d" % code
            if code == 0:
                if not h.value:
                    out += " HANDLE-ANOMALY"
                self.slots[dst] = ("sys", h.value)
            elif h.value:
                out += " HANDLE-ANOMALY"
            return out
        # everything below takes a handle slot first
        slot = int(t[1])
        skip, h = self.handle(slot)
        if skip:
            return "skip"
        if k == "tlclose" or k == "ifclose":
            code = (lib.TLClose if k == "tlclose" else lib.IFClose)(h)
            if code == 0:
                self.slots[slot] = "freed"
            return "%d" % code
        if k == "tlupd":
            return self.scalar_call(lib.TLUpdateInterfaceList, (h,), C.c_ubyte, 0xEE, (0,))
        if k == "ifupd":
            return self.scalar_call(lib.IFUpdateDeviceList, (h,), C.c_ubyte, 0xEE, (0,))
        if k == "tlnum":
            return self.scalar_call(lib.TLGetNumInterfaces, (h,), C.c_uint32, 0xEEEEEEEE)
        if k == "numurls":
            return self.scalar_call(lib.GCGetNumPortURLs, (h,), C.c_uint32, 0xEEEEEEEE)
        if k == "ifnum":
            return self.scalar_call(lib.IFGetNumDevices, (h,), C.c_uint32, 0xEEEEEEEE)
        if k == "tlifid":
            return self.info_call(lib.TLGetInterfaceID, (h, int(t[2])), t[3], with_type=False)
        if k == "ifdevid":
            return self.info_call(lib.IFGetDeviceID, (h, int(t[2])), t[3], with_type=False)
        if k == "tlinfo":
            return self.info_call(lib.TLGetInfo, (h, int(t[2])), t[3])
        if k == "tlifinfo":
            return self.info_call(lib.TLGetInterfaceInfo, (h, self.P("id", self.iface_id(t[2])), int(t[3])), t[4])
        if k == "ifdevinfo":
            return self.info_call(lib.IFGetDeviceInfo, (h, self.P("id", self.dev_id(t[2])), int(t[3])), t[4])
        if k == "tlopenif" or k == "ifopendev":
            out_h = C.c_void_p(None)
            if k == "tlopenif":
                dst = int(t[3])
                code = lib.TLOpenInterface(h, self.P("id", self.iface_id(t[2])), self.P("out", C.byref(out_h)))
            else:
                code = lib.IFOpenDevice(h, self.P("id", self.dev_id(t[2])), 3, self.P("out", C.byref(out_h)))
            out = "%d" % code
            if code == 0:
                if not out_h.value:
                    out += " HANDLE-ANOMALY"
                if k == "tlopenif":
                    self.slots[dst] = ("if", out_h.value)
                    self.parent[out_h.value] = h.value
            elif out_h.value:
                out += " HANDLE-ANOMALY"
            return out
        if k == "ifparent":
            ph = C.c_void_p(0x77)
            code = lib.IFGetParentTL(h, self.P("out", C.byref(ph)))
            out = "%d" % code
            if code == 0:
                # not compared with the model (it has no pointer values): the oracle's business
                out += " @parent=%s" % ("ok" if ph.value == self.parent.get(h.value) else "WRONG")
            elif ph.value != 0x77:
                out += " HANDLE-ANOMALY"
            return out
        if k == "ifinfo":
            return self.info_call(lib.IFGetInfo, (h, int(t[2])), t[3])
        if k == "portinfo":
            return self.info_call(lib.GCGetPortInfo, (h, int(t[2])), t[3])
        if k == "porturl":
            return self.info_call(lib.GCGetPortURL, (h,), t[2], with_type=False)
        if k == "urlinfo":
            return self.info_call(lib.GCGetPortURLInfo, (h, int(t[2]), int(t[3])), t[4])
        if k == "read":
            addr, n = int(t[2]), int(t[3])
            # Sizes above BIG are only *claimed*: the real buffer is 64 bytes.  No module's
            # register map is anywhere near 1 MiB, so such a read can never be accepted (and the
            # bytes are copied only after the whole range was accepted).
            buf = Buf(n if n <= BIG else 64)
            size = C.c_size_t(n)
            code = lib.GCReadPort(h, addr, self.P("buf", buf.ptr), self.P("size", C.byref(size)))
            out = "%d n=%d b=%s" % (code, size.value, show_bytes(buf.contents()) if n <= BIG else "claimed")
            if not buf.guards_ok():
                out += " GUARD-BROKEN"
            return out
        if k == "write":
            addr = int(t[2])
            data, n = self.write_data(t[3])
            buf = Buf(len(data), data)
            size = C.c_size_t(n)
            code = lib.GCWritePort(h, addr, self.P("buf", buf.ptr), self.P("size", C.byref(size)))
            out = "%d n=%d" % (code, size.value)
            if buf.contents() != data or not buf.guards_ok():
                out += " SOURCE-MODIFIED"
            return out
        if k == "reads" or k == "writes":
            cnt = int(t[2])
            ents = (StackEntry * max(cnt, 1))()
            bufs, claimed = [], []
            for i in range(cnt):
                addr = int(t[3 + 2 * i])
                if k == "reads":
                    n = int(t[4 + 2 * i])
                    b = Buf(n if n <= BIG else 64)
                else:
                    data, n = self.write_data(t[4 + 2 * i])
                    b = Buf(len(data), data)
                bufs.append(b)
                claimed.append(n > BIG)
                ents[i].Address, ents[i].Size = addr, n
                ents[i].pBuffer = None if (self.null == "entbuf" and i == cnt - 1) else b.ptr.value
            num = C.c_size_t(cnt)
            fn = lib.GCReadPortStacked if k == "reads" else lib.GCWritePortStacked
            code = fn(h, self.P("entries", ents), self.P("count", C.byref(num)))
            out = "%d k=%d" % (code, num.value)
            if k == "reads":
                out += " b=%s" % (",".join("claimed" if c else show_bytes(b.contents()) for b, c in zip(bufs, claimed)) or "-")
            if not all(b.guards_ok() for b in bufs):
                out += " GUARD-BROKEN"
            return out
        raise ValueError("unknown op " + op)

    def write_data(self, tok):
        """hex bytes, or `claim:N`: 64 real zero bytes with a claimed size of N (safe for the same
        reason as claimed reads: the range check fails before any byte is looked at)"""
        if tok.startswith("claim:"):
            return bytes(64), int(tok[6:])
        data = unhex(tok)
        return data, len(data)

    def dev_id(self, kind):
        return {"bad": b"no-such-device", "empty": b""}[kind]


def main():
    global RAW
    req = json.loads(sys.stdin.read())
    RAW = bool(req.get("raw"))
    p = Probe(req["so"], bytes.fromhex(req["good_id"]) if req.get("good_id") else None)
    out = sys.stdout
    for op in req["ops"]:
        out.write("> " + op + "\n")   # marks the op that is about to run
        out.flush()
        res = p.run(op)
        out.write("< " + res + "\n")
        out.flush()
    out.write("done\n")
    out.flush()


if __name__ == "__main__":
    main()
