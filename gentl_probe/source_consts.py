"""C19: read the message texts and string / number constants of the GenTL producer from the CURRENT
source tree, so that rewording a message or bumping a version is not reported as a
model/implementation disagreement (the model takes them as environment parameters; what they must
agree WITH - the embedded XML, each other, the GenTL type strings - is checked by the oracle).

Everything is extracted with anchored regular expressions; anything that cannot be found, or has a
shape the model does not support (a `{0}` placeholder that is not at the end of a message), raises
`ExtractError` with the file and the pattern, and the run fails loudly instead of guessing.
"""
import os
import re

VARIANTS = ["Error", "NotInitialized", "NotImplemented", "ResourceInUse", "AccessDenied", "InvalidHandle", "InvalidId",
            "NoData", "InvalidParameter", "Io", "Timeout", "Abort", "InvalidBuffer", "NotAvailable", "InvalidAddress",
            "BufferTooSmall", "InvalidIndex", "ParsingChunkData", "InvalidValue", "ResourceExhausted", "OutOfMemory",
            "Busy", "Ambiguous"]


class ExtractError(Exception):
    pass


def rust_str(lit):
    """contents of a normal Rust string literal -> bytes"""
    out = []
    i = 0
    while i < len(lit):
        c = lit[i]
        if c == "\\":
            n = lit[i + 1]
            if n == "\n":                       # line continuation
                i += 2
                while i < len(lit) and lit[i] in " \t\n":
                    i += 1
                continue
            out.append({"n": "\n", "t": "\t", "\\": "\\", '"': '"', "'": "'", "0": "\0", "r": "\r"}.get(n, n))
            i += 2
        else:
            out.append(c)
            i += 1
    return "".join(out).encode()


STR = r'"((?:[^"\\]|\\.)*)"'


def find1(path, text, pattern, what):
    m = re.search(pattern, text, re.S)
    if not m:
        raise ExtractError("%s: cannot find %s (pattern %r)" % (path, what, pattern))
    return m


def str_const(path, text, name):
    """value of `const NAME: &str = "…";` or of the constant it aliases"""
    m = find1(path, text, r"const\s+%s\s*:\s*&str\s*=\s*(?:%s|(\w+))\s*;" % (re.escape(name), STR), "const " + name)
    if m.group(2):
        return str_const(path, text, m.group(2))
    return rust_str(m.group(1))


def int_const(path, text, name):
    m = find1(path, text, r"const\s+%s\s*:\s*\w+\s*=\s*(\d+)\s*;" % re.escape(name), "const " + name)
    return int(m.group(1))


def extract(repo):
    src = os.path.join(repo, "gentl", "src")

    def read(rel):
        p = os.path.join(src, rel)
        with open(p) as f:
            return p, f.read()

    c = {}
    # ---- #[error("…")] of GenTlError, in declaration order
    p, lib = read("lib.rs")
    body = find1(p, lib, r"enum\s+GenTlError\s*\{(.*?)\n\}", "enum GenTlError").group(1)
    found = re.findall(r"#\[error\(\s*" + STR + r"\s*\)\]\s*(\w+)", body, re.S)
    names = [n for (_t, n) in found]
    if names != VARIANTS:
        raise ExtractError("%s: GenTlError variants %r differ from the model's %r" % (p, names, VARIANTS))
    texts = []
    for (t, n) in found:
        b = rust_str(t)
        if b"{0}" in b:
            pre, post = b.split(b"{0}", 1)
            if post:
                raise ExtractError("%s: message of %s has text after {0}; the model only supports a trailing placeholder" % (p, n))
            b = pre
        if b"{" in b or b"}" in b:
            raise ExtractError("%s: message of %s uses a format placeholder the model does not support: %r" % (p, n, b))
        texts.append(b)
    c["errtext"] = texts
    # ---- literals of the ffi layer
    p, ffi = read("ffi/mod.rs")
    c["noerror"] = rust_str(find1(p, ffi, STR + r"\s*\.copy_to\(\s*sErrorText", "the no-error text of GCGetLastError").group(1))
    c["notascii"] = rust_str(find1(p, ffi, r"is_ascii\(\)\s*\{\s*return\s+Err\(GenTlError::InvalidValue\(\s*" + STR + r"\s*\.into\(\)",
                                   "the not-ascii message of CopyTo for &str").group(1))
    module_types = dict(re.findall(r"Self::(\w+)\s*=>\s*" + STR, find1(p, ffi, r"impl CopyTo for imp::port::ModuleType(.*?)\n\}",
                                                                    "CopyTo for ModuleType").group(1)))
    p, port = read("imp/port.rs")
    tl_types = dict(re.findall(r"Self::(\w+)\s*=>\s*" + STR, find1(p, port, r"fn as_str\(self\)(.*?)\n    \}", "TlType::as_str").group(1)))
    # ---- common numbers
    p, common = read("imp/genapi_common.rs")
    c["gentl"] = (int_const(p, common, "GENTL_VERSION_MAJOR"), int_const(p, common, "GENTL_VERSION_MINOR"))
    c["schema"] = tuple(int_const(p, common, "SCHEME_%s_VERSION" % k) for k in ("MAJOR", "MINOR", "SUBMINOR"))
    # ---- the two modules
    p_if, u3v = read("imp/interface/u3v.rs")
    if_display = rust_str(find1(p_if, u3v, r"fn display_name\(&self\)\s*->\s*&str\s*\{\s*" + STR, "display_name of the interface").group(1))
    for key, rel, type_const, module in (("sys", "imp/system/genapi.rs", "TL_TYPE", "System"),
                                         ("if", "imp/interface/u3v_genapi.rs", "INTERFACE_TYPE", "Interface")):
        p, g = read(rel)
        ty = find1(p, g, r"const\s+%s\s*:\s*port::TlType\s*=\s*port::TlType::(\w+)\s*;" % type_const, type_const).group(1)
        if ty not in tl_types or module not in module_types:
            raise ExtractError("%s: TlType %s / ModuleType %s has no string" % (p, ty, module))
        c[key] = {
            "id": str_const(p, g, "PRODUCT_GUID"), "vendor": str_const(p, g, "VENDOR_NAME"), "model": str_const(p, g, "MODEL_NAME"),
            "tltype": rust_str(tl_types[ty]), "display": str_const(p, g, "TOOL_TIP") if key == "sys" else if_display,
            "port": str_const(p, g, "PORT_NAME"), "module": rust_str(module_types[module]),
            "major": int_const(p, g, "XML_MAJOR_VERSION"), "minor": int_const(p, g, "XML_MINOR_VERSION"),
            "sub": int_const(p, g, "XML_SUBMINOR_VERSION"),
        }
    return c


def cfg_lines(c):
    """driver configuration lines for the constants"""
    def hx(b):
        return b.hex() if b else "-"
    out = ["cfg errtext.%d %s" % (i, hx(t)) for i, t in enumerate(c["errtext"])]
    out += ["cfg noerror " + hx(c["noerror"]), "cfg notascii " + hx(c["notascii"]),
            "cfgn gentl.major %d" % c["gentl"][0], "cfgn gentl.minor %d" % c["gentl"][1],
            "cfgn schema.major %d" % c["schema"][0], "cfgn schema.minor %d" % c["schema"][1], "cfgn schema.sub %d" % c["schema"][2]]
    for key in ("sys", "if"):
        for f in ("id", "vendor", "model", "tltype", "display", "port", "module"):
            out.append("cfg %s.%s %s" % (key, f, hx(c[key][f])))
        for f in ("major", "minor", "sub"):
            out.append("cfgn %s.%s %d" % (key, f, c[key][f]))
    return out


if __name__ == "__main__":
    import json
    import sys
    r = extract(sys.argv[1] if len(sys.argv) > 1 else "/repo")
    print(json.dumps({k: (v if not isinstance(v, (bytes, list, dict)) else repr(v)) for k, v in r.items()}, indent=1)[:3000])
