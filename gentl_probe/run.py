#!/usr/bin/env python3
"""C19 correspondence harness (script kind): GenTL C API, out of process.

  run.py --tier quick|thorough --seed S --out result.json --camdrv <drv_c19> [--replay file]

1. rebuilds libcameleon_gentl.so from /repo's CURRENT tree (own target dir under /verif/work/C19)
   and the helper bin `c19_xml` (real cameleon-genapi parser);
2. discovery: reads both modules' maps and XML through the C API, parses the XML with the real
   genapi crate, compares Vendor/Model/Version/GUID/ToolTip/port name and the register nodes'
   (address, length, access) with the info queries and with the model's register tables;
3. generates call sequences from the seed (exhaustive state-machine enumeration, info command x
   buffer size sweeps, (address, size) grids for reads / writes / stacked variants, random
   sequences), runs every sequence in its own child process;
4. pipes the same sequences to the Lean model driver and diffs call by call;
5. evaluates the property oracle (oracle.py) on the implementation's outputs;
6. writes result.json in the format of camharness::Report.
Only the python3 standard library is used.
"""
import argparse
import hashlib
import json
import os
import subprocess
import sys
import time

HERE = os.path.dirname(os.path.abspath(__file__))
ROOT = os.path.dirname(HERE)
sys.path.insert(0, HERE)
import child as childmod  # noqa: E402
import oracle as oraclemod  # noqa: E402
import runner  # noqa: E402
import source_consts  # noqa: E402

REPO = os.path.realpath(os.environ.get("VERIF_REPO", "/repo"))
WORK = os.path.join(ROOT, "work", "C19")
HARN = os.path.join(ROOT, "harness")
if REPO != "/repo":
    # development aid of ./check: run against a scratch copy of the repository (own build dirs)
    _alt = os.path.join(ROOT, "work", "alt-" + hashlib.sha1(REPO.encode()).hexdigest()[:8])
    WORK = os.path.join(_alt, "C19")
    if os.path.isdir(os.path.join(_alt, "harness")):
        HARN = os.path.join(_alt, "harness")
TARGET = os.path.join(WORK, "target")
SO = os.path.join(TARGET, "debug", "libcameleon_gentl.so")
CWD = os.path.join(REPO, "gentl")
U64 = 1 << 64
RULE = ("a case = one call sequence run in its own child process; non-trivial = at least one call after "
        "GCInitLib other than init/close-lib/last-error/TLClose/IFClose returned 0 (an info value, port bytes, an "
        "opened handle); distinct by hash of (sequence, results)")


# ---------------------------------------------------------------------------- plumbing
class Rng:
    """splitmix64, same stream as camharness::Rng"""

    def __init__(self, seed):
        self.s = ((seed * 0x9E3779B97F4A7C15) & (U64 - 1)) ^ 0xD1B54A32D192ED03

    def next(self):
        self.s = (self.s + 0x9E3779B97F4A7C15) & (U64 - 1)
        z = self.s
        z = ((z ^ (z >> 30)) * 0xBF58476D1CE4E5B9) & (U64 - 1)
        z = ((z ^ (z >> 27)) * 0x94D049BB133111EB) & (U64 - 1)
        return z ^ (z >> 31)

    def below(self, n):
        return 0 if n == 0 else self.next() % n

    def pick(self, xs):
        return xs[self.below(len(xs))]

    def chance(self, num, den):
        return self.below(den) < num

    def bytes(self, n):
        return bytes(self.next() & 0xFF for _ in range(n))


class Report:
    def __init__(self, args):
        self.args = args
        self.evaluations = 0
        self.nontrivial = set()
        self.samples = []
        self.dist = {}
        self.disagreements = []
        self.n_disagreements = 0
        self.violations = []
        self.n_violations = 0
        self.extra = {}
        self.pending = []   # (request line, implementation answer, ops)

    def count(self, key, n=1):
        self.dist[key] = self.dist.get(key, 0) + n

    def case(self, canonical, nontrivial):
        self.evaluations += 1
        if nontrivial:
            self.nontrivial.add(hashlib.sha1(canonical.encode()).digest()[:8])

    def sample(self, v):
        if len(self.samples) < 12:
            self.samples.append(v)

    def violation(self, sig, what, replay):
        self.n_violations += 1
        if len(self.violations) < 40:
            self.violations.append({"sig": sig, "what": what, "replay": replay})

    def disagree(self, request, impl, model, replay=None):
        self.n_disagreements += 1
        if len(self.disagreements) < 40:
            d = {"request": request[:600], "impl": impl[:600], "model": model[:600]}
            if replay is not None:
                d["replay"] = replay
            self.disagreements.append(d)

    def write(self):
        a = self.args
        v = {
            "property": "C19", "tier": a.tier, "seed": a.seed, "profile": "dev", "rule": RULE,
            "evaluations": self.evaluations, "distinct_nontrivial": len(self.nontrivial),
            "samples": self.samples, "input_distribution": dict(sorted(self.dist.items())),
            "n_disagreements": self.n_disagreements, "disagreements": self.disagreements,
            "n_violations": self.n_violations, "violations": self.violations, "extra": self.extra,
        }
        with open(a.out, "w") as f:
            json.dump(v, f, indent=1)


def sh(cmd, cwd, env=None, timeout=3000):
    p = subprocess.run(cmd, cwd=cwd, env=env, stdout=subprocess.PIPE, stderr=subprocess.STDOUT, text=True, timeout=timeout)
    return p.returncode, p.stdout


SO_RELEASE = os.path.join(TARGET, "release", "libcameleon_gentl.so")


def cargo_lock():
    """the lock ./check takes around its own cargo builds in harness/"""
    import fcntl
    f = open(os.path.join(ROOT, "work", ".cargo.lock"), "w")
    fcntl.flock(f, fcntl.LOCK_EX)
    return f


def build(release=False):
    env = dict(os.environ)
    env.pop("RUSTFLAGS", None)
    env.update({"CARGO_TARGET_DIR": TARGET, "CARGO_NET_OFFLINE": "true", "CARGO_TERM_COLOR": "never"})
    os.makedirs(WORK, exist_ok=True)
    for attempt in range(3):
        rc, out = sh(["cargo", "build", "-p", "cameleon-gentl", "--offline", "--quiet"], REPO, env)
        if rc == 0:
            break
        time.sleep(5)   # another agent may be editing /repo
    if rc != 0:
        sys.stderr.write("cargo build -p cameleon-gentl failed:\n" + out[-3000:])
        sys.exit(3)
    if release:
        rc, out = sh(["cargo", "build", "-p", "cameleon-gentl", "--offline", "--quiet", "--release"], REPO, env)
        if rc != 0:
            sys.stderr.write("cargo build --release -p cameleon-gentl failed:\n" + out[-3000:])
            sys.exit(3)
    env2 = dict(os.environ)
    env2.pop("RUSTFLAGS", None)
    env2.update({"CARGO_NET_OFFLINE": "true", "CARGO_TERM_COLOR": "never"})
    lock = cargo_lock()
    for attempt in range(3):
        rc, out = sh(["cargo", "build", "--quiet", "--bin", "c19_xml"], HARN, env2)
        if rc == 0:
            break
        time.sleep(5)
    lock.close()
    if rc != 0:
        sys.stderr.write("cargo build --bin c19_xml failed:\n" + out[-3000:])
        sys.exit(3)


def run_model(camdrv, lines):
    p = subprocess.run([camdrv], input="".join(l + "\n" for l in lines), stdout=subprocess.PIPE, text=True)
    return p.stdout.splitlines()


def hexs(b):
    return b.hex() if b else "-"


# ---------------------------------------------------------------------------- discovery
def field(res, key):
    for x in res.split()[1:]:
        if x.startswith(key + "="):
            return x[len(key) + 1:]
    return None


def cstr(res):
    """NUL-terminated value of a successful string query"""
    b = bytes.fromhex(field(res, "b"))
    return b.split(b"\0", 1)[0]      # what a C consumer sees; size / termination are the oracle's business


def le(res):
    n = int(field(res, "n"))
    return int.from_bytes(bytes.fromhex(field(res, "b"))[:n], "little")


def parse_xml(path):
    rc, out = sh([os.path.join(HARN, "target", "debug", "c19_xml"), path], WORK)
    d = {"regs": [], "strs": {}, "ports": [], "ints": {}, "enums": {}, "error": None}
    for line in out.splitlines():
        t = line.split("\t")
        if t[0] == "error":
            d["error"] = t[1] if len(t) > 1 else "?"
        elif t[0] == "desc":
            d.update(vendor=t[1], model=t[2], version=t[3], schema=t[4], tooltip=t[5], guid=t[6])
        elif t[0] == "reg":
            d["regs"].append((t[1], t[2], t[3], t[4]))
        elif t[0] == "str":
            d["strs"][t[1]] = t[2] if len(t) > 2 else ""
        elif t[0] == "port":
            d["ports"].append(t[1])
        elif t[0] == "int":
            d["ints"][t[1]] = int(t[2])
        elif t[0] == "enum":
            d["enums"][t[1]] = [e.split("=")[0] for e in (t[2] if len(t) > 2 else "").split(",") if e]
    if rc != 0 and not d["error"]:
        d["error"] = "c19_xml exit code %d" % rc
    return d


def discover(pool, rep, camdrv):
    """returns (env for the model, oracle specs, good id)"""
    ops = ["init", "tlopen 0", "tlifid 0 0 256", "tlinfo 0 6 2048", "tlinfo 0 5 2048",
           "urlinfo 0 0 7 8", "urlinfo 0 0 8 8"]
    res = pool.run([ops], raw=True)[0]
    if len(res) != len(ops) or any(r.split()[0] != "0" for r in res):
        rep.violation({"oracle": "discovery", "step": "system"}, "discovery sequence failed: %r" % (list(zip(ops, res)),),
                      {"ops": ops})
        return None
    good_id = cstr(res[2])
    path_impl, name_impl = cstr(res[3]), cstr(res[4])
    sys_xa, sys_xl = le(res[5]), le(res[6])
    ops2 = ["init", "tlopen 0", "tlopenif 0 good 1", "urlinfo 1 0 7 8", "urlinfo 1 0 8 8",
            "read 0 0 %d" % (sys_xa + sys_xl)]
    pool.close()
    pool = runner.Pool(SO, good_id, CWD, rep.args.workers)
    res2 = pool.run([ops2], raw=True)[0]
    if len(res2) != len(ops2) or any(r.split()[0] != "0" for r in res2):
        rep.violation({"oracle": "discovery", "step": "interface"}, "discovery sequence failed: %r" % (list(zip(ops2, res2)),),
                      {"ops": ops2})
        return None
    if_xa, if_xl = le(res2[3]), le(res2[4])
    sys_img = bytes.fromhex(field(res2[5], "b"))
    # the interface map: everything but the write-only head (found by probing 0..16)
    ops3 = ["init", "tlopen 0", "tlopenif 0 good 1"] + ["read 1 %d %d" % (a, if_xa + if_xl - a) for a in range(0, 17)]
    res3 = pool.run([ops3], raw=True)[0]
    first = next((i for i, r in enumerate(res3[3:]) if r.split()[0] == "0"), None)
    if first is None:
        rep.violation({"oracle": "discovery", "step": "interface image"}, "no readable suffix of the interface map", {"ops": ops3})
        return None
    if_img = bytes(first) + bytes.fromhex(field(res3[3 + first], "b"))
    sys_xml, if_xml = sys_img[sys_xa:sys_xa + sys_xl], if_img[if_xa:if_xa + if_xl]
    # independent expectation of the path: SystemModule::full_path = canonicalize("../" + file!())
    path_exp = os.path.realpath(os.path.join(REPO, "gentl/src/imp/system/mod.rs")).encode()
    rep.extra["discovery"] = {"interface_id": good_id.decode(errors="replace"), "pathname": path_impl.decode(errors="replace"),
                              "system_map_size": len(sys_img), "interface_map_size": len(if_img),
                              "system_xml": [sys_xa, sys_xl], "interface_xml": [if_xa, if_xl],
                              "interface_write_only_prefix": first}

    def agree(cond, what, detail):
        rep.count("agreement_checks")
        if not cond:
            rep.violation({"oracle": "xml_agrees_with_info", "what": what}, "%s: %s" % (what, detail), {"ops": ops})

    agree(path_impl == path_exp, "TL_INFO_PATHNAME", "%r vs canonical %r" % (path_impl, path_exp))
    agree(name_impl == os.path.basename(path_exp), "TL_INFO_NAME", "%r" % name_impl)
    # parse both XMLs with the real cameleon-genapi
    xmls = {}
    for kind, xml in (("sys", sys_xml), ("if", if_xml)):
        p = os.path.join(WORK, "xml_%s.xml" % kind)
        with open(p, "wb") as f:
            f.write(xml)
        xmls[kind] = parse_xml(p)
        agree(xmls[kind]["error"] is None, "embedded XML of the %s module parses" % kind, str(xmls[kind]["error"]))
    # model's register tables
    # message texts and constants of the CURRENT source (environment parameters of the model)
    try:
        consts = source_consts.extract(REPO)
    except source_consts.ExtractError as e:
        rep.disagree("source constants", "-", "cannot read the producer's constants from the source: %s" % e)
        return None
    rep.extra["source_constants"] = {"errtext_AccessDenied": consts["errtext"][4].decode(errors="replace"),
                                     "sys": {k: (v.decode(errors="replace") if isinstance(v, bytes) else v) for k, v in consts["sys"].items()},
                                     "if": {k: (v.decode(errors="replace") if isinstance(v, bytes) else v) for k, v in consts["if"].items()},
                                     "gentl": consts["gentl"], "schema": consts["schema"]}
    cfg = ["cfg path " + hexs(path_exp), "cfg sysxml " + hexs(sys_xml), "cfg ifxml " + hexs(if_xml), "cfg goodid " + hexs(good_id)]
    cfg += source_consts.cfg_lines(consts) + ["layout"]
    ans = run_model(camdrv, cfg)
    if len(ans) != len(cfg) or ans[:-1] != ["ok"] * (len(cfg) - 1):
        rep.disagree("cfg/layout", "-", "driver answered %r" % (ans,))
        return None
    model_tabs = {}
    for part in ans[-1].split(" | "):
        t = part.split()
        model_tabs[t[0]] = {"regs": [tuple(x.split(":")) for x in t[1:] if x.count(":") == 3],
                            "size": int([x for x in t if x.startswith("size=")][0][5:]),
                            "layoutOk": [x for x in t if x.startswith("layoutOk=")][0][9:]}
    specs = {}
    for kind, img, xa, xl in (("sys", sys_img, sys_xa, sys_xl), ("if", if_img, if_xa, if_xl)):
        x = xmls[kind]
        if x["error"]:
            return None
        regs = []
        for (nm, a, l, acc) in x["regs"]:
            if a == "?" or l == "?":
                agree(False, "register node %s has immediate address/length" % nm, "")
                continue
            regs.append((int(a), int(l), acc))
        specs[kind] = oraclemod.ModuleSpec(kind, img, first if kind == "if" else 0, regs, xa, xl)
        # the model's table (from the Rust declarations) vs the XML the implementation publishes
        mt = model_tabs[kind]
        mregs = sorted((int(a), int(l), acc) for (_n, a, l, acc) in mt["regs"] if _n != "Xml")
        if sorted(regs) != mregs:
            rep.disagree("layout " + kind, "XML register nodes %r" % (sorted(regs),), "model table %r" % (mregs,))
        if mt["size"] != len(img) or mt["layoutOk"] != "true":
            rep.disagree("layout " + kind, "map size %d" % len(img), "model size %d layoutOk=%s" % (mt["size"], mt["layoutOk"]))
        rep.count("layout_registers_compared", len(regs))
        agree(xa == max([a + l for (a, l, _) in regs] + [0]), "XML address of %s = end of the register block" % kind, str(xa))
    rep.extra["xml"] = {k: {kk: v[kk] for kk in ("vendor", "model", "version", "schema", "tooltip", "guid", "ports")}
                        for k, v in xmls.items()}
    env = {"cfg": cfg[:-1], "good_id": good_id, "path": path_exp, "xmls": xmls,
           "sys": (len(sys_img), sys_xa, sys_xl), "if": (len(if_img), if_xa, if_xl), "if_wo": first}
    return pool, env, specs


# ---------------------------------------------------------------------------- generators
SM_ALPHABET = ["init", "closelib", "tlopen 0", "tlclose 0", "tlopenif 0 good 1", "ifclose 1", "read 1 4 4", "lasterr null:0"]
OPEN = ["init", "tlopen 0", "tlopenif 0 good 1"]


# the same with a stored-then-failed selector write and its read-back: register memory and event
# queues across close / reopen of the modules and of the library
SM_ALPHABET_MEM = SM_ALPHABET + ["write 0 1028 05000000", "read 0 1028 4"]


def gen_state_machine(depth, alphabet_=None):
    """every sequence over the alphabet of length 1..depth, + a trailing last-error query"""
    seqs = []
    cur = [[]]
    for _ in range(depth):
        cur = [s + [a] for s in cur for a in (alphabet_ or SM_ALPHABET)]
        seqs.extend(cur)
    return [s + ["lasterr 160"] for s in seqs]


def gen_reopen(env):
    """register memory and pending events ACROSS close / reopen: {stored, stored-then-failed,
    double-event writes} x {IFClose+reopen, TLClose+reopen, GCCloseLib+GCInitLib(+reopen)} x
    whole-map digests + one further (empty, accepted) write that would run a stale event"""
    sys_full = "read 0 0 %d" % env["sys"][0]

    def if_full(slot):
        return "read %d %d %d" % (slot, env["if_wo"], env["if"][0] - env["if_wo"])
    sys_writes = [["write 0 1028 05000000"], ["write 0 1028 00000000"], ["write 0 1029 0100"],
                  ["write 0 1028 05000000", "write 0 1030 -"], ["writes 0 2 1028 07000000 1028 00000000"]]
    if_writes = [["write 1 4 07000000"], ["write 1 0 01000000"], ["write 1 0 0100000002000000"], ["write 1 3 0100"],
                 ["write 1 7 03"], ["writes 1 2 4 09000000 0 01000000"], ["write 1 3 0100", "write 1 4 02000000"]]
    # (reopen steps, system slot afterwards, interface slots afterwards)
    reopens = [
        (["ifclose 1", "tlopenif 0 good 1"], 0, [1]),
        (["tlclose 0", "tlopen 0", "tlopenif 0 good 2"], 0, [2, 1]),
        (["closelib", "init"], 0, [1]),
        (["closelib", "init", "ifclose 1", "tlclose 0", "tlopen 0", "tlopenif 0 good 1"], 0, [1]),
        (["ifclose 1", "tlclose 0", "closelib", "init", "tlopen 0", "tlopenif 0 good 1"], 0, [1]),
        (["tlclose 0", "closelib", "init", "tlopen 2", "tlopenif 2 good 3"], 2, [3, 1]),
    ]
    seqs = []
    for writes in sys_writes + if_writes:
        for (steps, sslot, islots) in reopens:
            after = [sys_full.replace("read 0", "read %d" % sslot)] + [if_full(i) for i in islots]
            more = ["write %d 1030 -" % sslot, "write %d 1028 00000000" % sslot] + \
                   [w for i in islots for w in ("write %d 100 -" % i, "write %d 100 -" % i)]
            seqs.append(OPEN + writes + ["lasterr 160"] + steps + after + more + after + ["lasterr 160"])
    return seqs


def gen_threads(rng, count):
    """LAST_ERROR is per thread: the same child makes calls on two threads (`t2:` prefix); a
    failing call on one thread must not show up in, or disturb, the other thread's last error.
    Evaluated by the oracle AND compared with the multi-thread model (Model/GenTLThreads.lean: one
    stored error per thread id, `t2:` = thread 1; theorems thread_isolation_step,
    thread_last_error_tracks_own_history, other_threads_cannot_change_what_is_retrieved)."""
    fails = ["tlinfo 0 99 8", "tlclose 9", "read 0 100000 4", "write 0 0 00", "tlifid 0 7 64", "tlopenif 0 bad 4", "init", "tlinfo 0 0 1",
             "writes 0 2 1028 00000000 1030 01010101", "reads 0 2 1028 4 100000 4", "write 1 4 01000000", "ifdevid 1 0 16"]
    oks = ["tlinfo 0 0 64", "tlnum 0", "read 0 1028 4", "ifnum 1", "writes 0 1 1028 00000000", "closelib ; init"]
    seqs = [
        OPEN + ["tlinfo 0 99 8", "t2:lasterr 160", "lasterr 160", "t2:tlclose 9", "lasterr 160", "t2:lasterr 160",
                "t2:lasterr 4", "t2:lasterr 160", "lasterr null:0"],
        ["t2:tlnum 9", "tlopen 0", "init", "t2:lasterr 160", "lasterr 160"],
        # a refusal outside the init window is stored per thread and survives the re-initialisation
        OPEN + ["tlclose 9", "t2:closelib", "t2:tlnum 0", "lasterr 160", "t2:lasterr 160", "init", "lasterr 160", "t2:lasterr 160"],
        OPEN + ["t2:write 0 1030 01010101", "closelib", "tlnum 0", "t2:init", "lasterr 160", "t2:lasterr 160", "read 0 1028 8"],
    ]
    for _ in range(count):
        ops = list(OPEN)
        for _ in range(10):
            op = rng.pick(fails) if rng.chance(1, 2) else rng.pick(oks) if rng.chance(1, 3) else rng.pick(["lasterr 160", "lasterr null:0", "lasterr 3"])
            th = "t2:" if rng.chance(1, 2) else ""
            ops += [th + x for x in op.split(" ; ")]      # "closelib ; init": both by the same thread
        seqs.append(ops + ["lasterr 160", "t2:lasterr 160"])
    return seqs


INFO_FAMILIES = [
    # (name, op template with {b} for the buffer token, commands, needs)
    ("tlinfo", "tlinfo 0 {c} {b}", list(range(0, 11))),
    ("tlifid", "tlifid 0 {c} {b}", [0]),
    ("tlifinfo", "tlifinfo 0 good {c} {b}", [0, 1, 2]),
    ("ifinfo", "ifinfo 1 {c} {b}", [0, 1, 2]),
    ("portinfo-sys", "portinfo 0 {c} {b}", list(range(0, 13))),
    ("portinfo-if", "portinfo 1 {c} {b}", list(range(0, 13))),
    ("porturl-sys", "porturl 0 {b}", [None]),
    ("porturl-if", "porturl 1 {b}", [None]),
    ("urlinfo-sys", "urlinfo 0 0 {c} {b}", [0, 1, 2, 3, 4, 5, 7, 8, 9]),
    ("urlinfo-if", "urlinfo 1 0 {c} {b}", [0, 1, 2, 3, 4, 5, 7, 8, 9]),
]
INVALID_QUERIES = [
    "tlinfo 0 -1 {b}", "tlinfo 0 11 {b}", "tlinfo 0 1000 {b}", "tlinfo 0 2147483647 {b}", "tlinfo 0 -2147483648 {b}",
    "tlifid 0 1 {b}", "tlifid 0 4294967295 {b}",
    "tlifinfo 0 good 3 {b}", "tlifinfo 0 good -1 {b}", "tlifinfo 0 bad 0 {b}", "tlifinfo 0 empty 0 {b}", "tlifinfo 0 utf8 0 {b}",
    "ifinfo 1 3 {b}", "ifinfo 1 -1 {b}",
    "portinfo 0 13 {b}", "portinfo 0 1000 {b}", "portinfo 1 -1 {b}", "portinfo 1 13 {b}",
    "urlinfo 0 1 0 {b}", "urlinfo 0 0 6 {b}", "urlinfo 0 0 10 {b}", "urlinfo 0 0 11 {b}", "urlinfo 0 0 1000 {b}",
    "urlinfo 1 1 0 {b}", "urlinfo 1 0 6 {b}", "urlinfo 1 0 10 {b}", "urlinfo 1 4294967295 0 {b}", "urlinfo 1 0 -1 {b}",
    # wrong handle kinds / NULL (slot 9 is never assigned)
    "tlinfo 1 0 {b}", "tlinfo 9 0 {b}", "tlifid 1 0 {b}", "tlifid 9 0 {b}", "tlifinfo 1 good 0 {b}", "tlifinfo 9 good 0 {b}",
    "ifinfo 0 0 {b}", "ifinfo 9 0 {b}", "portinfo 9 0 {b}", "porturl 9 {b}", "urlinfo 9 0 0 {b}",
]
IDX_SWEEP = [0, 1, 2, 3, 255, 256, 257, 65535, 65536, 65537, 1 << 31, (1 << 32) - 1]
CMD_SWEEP = list(range(-3, 41)) + [127, 128, 255, 256, 257, 999, 1000, 1001, 65535, 65536, 65537, (1 << 31) - 1, -(1 << 31)]


def gen_index_command_sweeps():
    """A4: every index / command parameter over a dense range + the truncation boundaries"""
    fams = [
        ("tlinfo 0 {x} {b}", CMD_SWEEP), ("tlifid 0 {x} {b}", IDX_SWEEP), ("tlifinfo 0 good {x} {b}", CMD_SWEEP),
        ("ifinfo 1 {x} {b}", CMD_SWEEP), ("portinfo 0 {x} {b}", CMD_SWEEP), ("portinfo 1 {x} {b}", CMD_SWEEP),
        ("urlinfo 0 {x} 0 {b}", IDX_SWEEP), ("urlinfo 1 {x} 0 {b}", IDX_SWEEP), ("urlinfo 0 0 {x} {b}", CMD_SWEEP),
        ("urlinfo 1 0 {x} {b}", CMD_SWEEP), ("urlinfo 0 256 {x} {b}", CMD_SWEEP[:16]),
        ("ifdevid 1 {x} {b}", IDX_SWEEP), ("ifdevinfo 1 bad {x} {b}", CMD_SWEEP[:20]),
    ]
    return [OPEN + [tmpl.format(x=x, b=b) for x in xs for b in ("null:0", "200")] + ["lasterr 160"] for (tmpl, xs) in fams]


ISIZE_MAX = (1 << 63) - 1


def alphabet(h, dst=3):
    """one instance of EVERY entry point on handle slot `h`, plus the variants with a NULL required
    pointer and with sizes no buffer can have (the refusal sweeps are generated from this list)"""
    base = [
        "closelib", "gcinfo", "lasterr 64", "lasterr null:0", "tlopen %d" % dst, "tlclose {h}", "ifclose {h}",
        "tlupd {h}", "tlnum {h}", "tlifid {h} 0 64", "tlinfo {h} 0 64", "tlifinfo {h} good 0 64",
        "tlopenif {h} good %d" % (dst + 1), "ifinfo {h} 0 64", "ifnum {h}", "ifupd {h}", "ifparent {h}",
        "ifdevid {h} 0 64", "ifdevinfo {h} bad 0 64", "ifopendev {h} bad", "portinfo {h} 0 64", "porturl {h} 64",
        "numurls {h}", "urlinfo {h} 0 0 64", "read {h} 0 4", "write {h} 1028 00000000", "write {h} 4 00000000",
        "reads {h} 2 0 4 4 4", "writes {h} 1 1028 00000000", "writes {h} 2 4 00000000 1028 00000000",
        "read {h} 0 %d" % (1 << 63), "read {h} 0 %d" % (U64 - 1), "write {h} 0 claim:%d" % (1 << 63),
        "write {h} 1028 claim:%d" % (U64 - 1), "reads {h} 2 0 4 0 %d" % (U64 - 1), "writes {h} 2 1028 00000000 0 claim:%d" % (1 << 63),
    ]
    nulls = [
        "np:code lasterr 64", "np:size lasterr 64", "np:out tlopen %d" % dst, "np:out tlupd {h}", "np:out tlnum {h}",
        "np:size tlifid {h} 0 64", "np:type tlinfo {h} 0 64", "np:size tlinfo {h} 0 64", "np:size tlinfo {h} 0 null:0",
        "np:id tlifinfo {h} good 0 64", "np:type tlifinfo {h} good 0 64", "np:size tlifinfo {h} good 0 64",
        "np:id tlopenif {h} good %d" % (dst + 1), "np:out tlopenif {h} good %d" % (dst + 1),
        "np:type ifinfo {h} 0 64", "np:size ifinfo {h} 0 64", "np:out ifnum {h}", "np:out ifupd {h}", "np:out ifparent {h}",
        "np:size ifdevid {h} 0 64", "np:id ifdevinfo {h} bad 0 64", "np:type ifdevinfo {h} bad 0 64", "np:size ifdevinfo {h} bad 0 64",
        "np:id ifopendev {h} bad", "np:out ifopendev {h} bad", "np:type portinfo {h} 0 64", "np:size portinfo {h} 0 64",
        "np:size porturl {h} 64", "np:out numurls {h}", "np:type urlinfo {h} 0 0 64", "np:size urlinfo {h} 0 0 64",
        "np:buf read {h} 0 4", "np:buf read {h} 0 0", "np:size read {h} 0 4", "np:buf write {h} 1028 00000000", "np:buf write {h} 1028 -",
        "np:size write {h} 1028 00000000", "np:entries reads {h} 1 0 4", "np:count reads {h} 1 0 4", "np:entbuf reads {h} 2 0 4 4 4",
        "np:entries writes {h} 1 1028 00000000", "np:count writes {h} 1 1028 00000000", "np:entbuf writes {h} 2 4 00000000 1028 00000000",
    ]
    return [o.format(h=h) for o in base + nulls]


def gen_refusal_sweeps():
    """A2 + A1/B2: the whole alphabet x {NULL, live system, live interface, stale} handles
    (a) before GCInitLib, (b) after GCCloseLib, (c) initialised (NULL-pointer / size refusals and
    the wrong-handle-kind refusals of every entry point)"""
    seqs = []
    tail = ["init", "lasterr 160"]

    def chunks(prefix, ops, n=24):
        for i in range(0, len(ops), n):
            seqs.append(prefix + ops[i:i + n] + tail)

    chunks([], alphabet(9))                                             # never initialised, NULL handles
    for h in (0, 1, 9):                                                 # after close, live / NULL handles
        chunks(OPEN + ["closelib"], alphabet(h, dst=5))
    for h in (0, 1):                                                    # after close, stale handle variables
        chunks(OPEN + ["ifclose 1", "tlclose 0", "closelib"], alphabet(h, dst=5))
    # initialised: every call on every handle kind; closelib / tlclose / ifclose would change the
    # state for the following calls, so each call runs in its own sequence
    for h in (0, 1, 9):
        for op in alphabet(h, dst=5):
            seqs.append(OPEN + [op, "lasterr 160"])
    for op in alphabet(1, dst=5):                                       # interface handle whose interface was closed by TLClose
        if not op.startswith(("tlclose", "closelib")):
            seqs.append(OPEN + ["tlclose 0", "tlopen 0", op, "lasterr 160"])
    for h in (0, 2):                                                    # the reopened system / interface
        for op in alphabet(h, dst=5):
            seqs.append(OPEN + ["tlclose 0", "tlopen 0", "tlopenif 0 good 2", op, "lasterr 160"])
    return seqs


# calls that provoke each reachable error, for the GCGetLastError sweep (prefix OPEN)
PROVOKE = [
    ("none", None), ("RESOURCE_IN_USE", "init"), ("INVALID_HANDLE", "tlclose 9"), ("INVALID_ID", "tlopenif 0 bad 2"),
    ("INVALID_ID-empty", "tlopenif 0 empty 2"), ("INVALID_PARAMETER", "tlinfo 0 99 8"), ("NOT_AVAILABLE", "urlinfo 0 0 6 8"),
    ("INVALID_ADDRESS", "read 0 100000 4"), ("ACCESS_DENIED", "write 0 0 00"), ("BUFFER_TOO_SMALL", "tlinfo 0 0 1"),
    ("INVALID_INDEX", "tlifid 0 1 64"), ("NOT_IMPLEMENTED", "write 1 0 01000000"), ("INVALID_ID-utf8", "tlopenif 0 utf8 2"),
]


def sweep_caps(needed):
    return ["null:0", "null:7"] + [str(c) for c in range(0, needed + 2)] + [str(needed + 16)]


def gen_info_phase1():
    """one sequence: every valid query with a NULL buffer -> required sizes"""
    ops = list(OPEN)
    keys = []
    for (name, tmpl, cmds) in INFO_FAMILIES:
        for c in cmds:
            ops.append(tmpl.format(c=c, b="null:0"))
            keys.append((name, c, tmpl))
    return ops, keys


def gen_info_sweeps(sizes):
    seqs = []
    for (name, c, tmpl), needed in sizes:
        seqs.append(OPEN + [tmpl.format(c=c, b=b) for b in sweep_caps(needed)])
    # invalid commands / indexes / ids / handle kinds: a few capacities each
    for q in INVALID_QUERIES:
        seqs.append(OPEN + [q.format(b=b) for b in ("null:0", "0", "1", "64")])
    # port queries on a closed interface (handle still alive after TLClose / never after IFClose)
    closed = OPEN + ["tlclose 0"]
    for q in ("portinfo 1 0 {b}", "portinfo 1 99 {b}", "porturl 1 {b}", "urlinfo 1 0 0 {b}", "urlinfo 1 5 0 {b}", "ifinfo 1 0 {b}"):
        seqs.append(closed + [q.format(b=b) for b in ("null:0", "0", "64", "200")] + ["numurls 1", "lasterr 160"])
    # before init and after close: every query is refused and leaves the outputs alone
    for pre in ([], ["init", "tlopen 0", "tlopenif 0 good 1", "closelib"]):
        seqs.append(pre + [tmpl.format(c=cmds[0], b=b) for (_n, tmpl, cmds) in INFO_FAMILIES for b in ("null:0", "64")]
                    + ["tlupd 0", "tlnum 0", "numurls 0", "lasterr 160", "init", "lasterr 160"])
    return seqs


def gen_lasterr_phase1():
    seqs = []
    for (name, prov) in PROVOKE:
        seqs.append(OPEN + ([prov] if prov else []) + ["lasterr null:0"])
    return seqs


def gen_lasterr_sweeps(sizes):
    seqs = []
    for (name, prov), needed in sizes:
        ops = list(OPEN)
        for b in sweep_caps(needed):
            if prov:
                ops.append(prov)     # a failing GCGetLastError replaces the last error: provoke again
            ops.append("lasterr " + b)
            if not prov:
                break
        if not prov:
            ops = OPEN + ["lasterr " + b for b in ("null:0", "0", "8", "9", "10", "64")]
        seqs.append(ops)
    return seqs


def boundaries(regs, size):
    s = {0, 1, 2, 3, size - 1, size, size + 1, size + 4, size + 4096}
    for (a, l, _acc) in regs:
        for d in (-1, 0, 1):
            s.add(a + d)
            s.add(a + l + d)
        s.add(a + l // 2)
    s |= {1 << 16, 10 ** 6, (1 << 31) - 1, 1 << 31, (1 << 32) - 4, (1 << 32) - 1, 1 << 32, (1 << 32) + 1028, (1 << 32) + 4,
          (1 << 63) - 1, 1 << 63, U64 - size, U64 - 8, U64 - 4, U64 - 1}
    return sorted(x for x in s if 0 <= x < U64)


def sizes_for(addr, regs, size):
    s = {0, 1, 2, 3, 4, 5, 8, 64, size, size + 1}
    for (a, l, _acc) in regs:
        if a == addr:
            s |= {l, l + 1, l - 1}
        if a > addr:
            s.add(a - addr)            # up to the next register boundary
            s.add(a - addr + 1)
    if addr <= size:
        s |= {size - addr, size - addr + 1}
    s |= {U64 - addr, U64 - addr - 1} if addr > (1 << 62) else set()
    return sorted(x for x in s if 0 <= x <= (1 << 20))


def claimed_sizes(addr):
    """sizes that are only claimed (child.py): around 2^32, isize::MAX, u64::MAX and the sizes that
    make address + size = 2^64 - 1, 2^64 (wraps to 0), 2^64 + 1"""
    s = {1 << 32, 1 << 62, ISIZE_MAX - 1, ISIZE_MAX, ISIZE_MAX + 1, U64 - 2, U64 - 1,
         U64 - addr - 1, U64 - addr, U64 - addr + 1, ISIZE_MAX - addr, ISIZE_MAX - addr + 1}
    return sorted(x for x in s if (1 << 20) < x < U64)


def gen_port_reads(slot, regs, size, chunk=60):
    probes = []
    for a in boundaries(regs, size):
        for n in sizes_for(a, regs, size):
            probes.append("read %d %d %d" % (slot, a, n))
        for n in claimed_sizes(a):
            probes.append("read %d %d %d" % (slot, a, n))
        probes.append("np:buf read %d %d 0" % (slot, a))
        probes.append("np:buf read %d %d 4" % (slot, a))
        probes.append("np:size read %d %d 4" % (slot, a))
    return probes


def gen_port_writes(rng, slot, regs, size, readback):
    """self-contained sequences: write, then read back the neighbourhood"""
    seqs = []
    for a in boundaries(regs, size):
        for n in sizes_for(a, regs, size):
            if n > 1100:
                continue
            variants = [rng.bytes(n)]
            if n <= 4:
                variants += [bytes(n)]
                if n:
                    variants += [b"\x01" + bytes(n - 1)]
            for data in variants:
                seqs.append(OPEN + ["write %d %d %s" % (slot, a, hexs(data))] + readback + ["lasterr 160"])
        extra = ["write %d %d claim:%d" % (slot, a, n) for n in claimed_sizes(a)]
        extra += ["np:buf write %d %d -" % (slot, a), "np:buf write %d %d 00000000" % (slot, a), "np:size write %d %d 00" % (slot, a)]
        seqs.append(OPEN + extra + readback + ["lasterr 160"])
    return seqs


def gen_stacked(rng, slot, regs, size, count, readback):
    seqs = []
    bs = boundaries(regs, size)
    small = [b for b in bs if b <= size + 8]
    for _ in range(count):
        k = rng.below(5)
        ents_r, ents_w = [], []
        for _ in range(k):
            a = rng.pick(small) if rng.chance(4, 5) else rng.pick(bs)
            n = rng.pick([0, 1, 2, 4, 4, 4, 8, 64])
            if rng.chance(1, 12):
                big = rng.pick(claimed_sizes(a))
                ents_r += [str(a), str(big)]
                ents_w += [str(a), "claim:%d" % big]
                continue
            ents_r += [str(a), str(n)]
            ents_w += [str(a), hexs(rng.bytes(n) if rng.chance(1, 2) else bytes(n))]
        np_r = rng.pick(["", "", "", "", "np:entries ", "np:count ", "np:entbuf "]) if k else ""
        seqs.append(OPEN + ["reads %d %d %s" % (slot, k, " ".join(ents_r)),
                            "writes %d %d %s" % (slot, k, " ".join(ents_w)),
                            np_r + "reads %d %d %s" % (slot, k, " ".join(ents_r)),
                            np_r + "writes %d %d %s" % (slot, k, " ".join(ents_w))] + readback + ["lasterr 160"])
    return seqs


def gen_stacked_honest(rng, regs, size, count):
    """honest entry lists, biased towards writable registers and zero data so that prefixes of
    several entries succeed before one fails"""
    bs = [b for b in boundaries(regs, size) if b <= size + 8]
    writable = [a for (a, _l, acc) in regs if "W" in acc]
    out = []
    for _ in range(count):
        ents = []
        for _ in range(1 + rng.below(4)):
            if writable and rng.chance(3, 5):
                a, n = rng.pick(writable) + rng.below(3), rng.pick([1, 2, 4])
            else:
                a, n = rng.pick(bs), rng.pick([0, 1, 2, 4, 8])
            ents.append((a, n, bytes(n) if rng.chance(2, 3) else rng.bytes(n)))
        out.append(ents)
    return out


def stacked_vs_singles(rep, orc, pool, stage, kind, slot, lists, readback):
    """write_stacked_is_sequence_of_singles / read_stacked_is_sequence_of_singles, checked on the
    implementation's own outputs: the stacked call is made, then — in a fresh process — the single
    calls up to and including the first failing entry; return code, *piNumEntries, every entry
    buffer, both register maps and the last error must agree.  (Both runs also go to the model.)"""
    tail = readback + ["lasterr 160"]
    for verb, single in (("writes", "write"), ("reads", "read")):
        def arg(e):
            return hexs(e[2]) if verb == "writes" else str(e[1])
        seq_a = [OPEN + ["%s %d %d %s" % (verb, slot, len(e), " ".join("%d %s" % (x[0], arg(x)) for x in e))] + tail
                 for e in lists]
        res_a = pool.run(seq_a)
        evaluate(rep, orc, stage, seq_a, res_a)
        seq_b = []
        for e, r in zip(lists, res_a):
            w = r[len(OPEN)]
            m = len(e) if w.split()[0] == "0" else int(field(w, "k")) + 1
            seq_b.append(OPEN + ["%s %d %d %s" % (single, slot, x[0], arg(x)) for x in e[:m]] + tail)
        res_b = pool.run(seq_b)
        evaluate(rep, orc, stage, seq_b, res_b)
        for e, a, ra, b, rb in zip(lists, seq_a, res_a, seq_b, res_b):
            if any(is_crash(x) for x in ra + rb) or len(ra) != len(a) or len(rb) != len(b):
                continue    # a crash is reported by the oracle
            w = ra[len(OPEN)]
            code, k = w.split()[0], int(field(w, "k"))
            singles = rb[len(OPEN):len(rb) - len(tail)]
            ok = k <= len(singles) and all(x.split()[0] == "0" for x in singles[:k])
            if code == "0":
                ok = ok and k == len(e) == len(singles)
            else:
                ok = ok and len(singles) == k + 1 and singles[k].split()[0] == code
            ok = ok and ra[-len(tail):] == rb[-len(tail):]
            if ok and verb == "reads" and len(e):
                got = field(w, "b").split(",")
                ok = len(got) == len(e) and all(field(singles[i], "b") == got[i] for i in range(len(singles)))
            rep.count("stacked_vs_singles_" + verb)
            if code != "0" and k > 0:
                rep.count("stacked_vs_singles_failure_after_progress")
            if not ok:
                rep.violation({"oracle": "stacked_is_sequence_of_singles", "op": verb, "module": kind},
                              "%s: stacked %r -> %r, singles %r -> %r" % (verb, a[len(OPEN)], ra[len(OPEN):], b[len(OPEN):], rb[len(OPEN):]),
                              {"ops": a, "ops_singles": b})


def gen_random(rng, count, env):
    """depth-6 sequences over the whole alphabet after a random prefix"""
    prefixes = [[], ["init"], ["init", "tlopen 0"], OPEN, OPEN, OPEN + ["tlclose 0"], OPEN + ["closelib"]]
    sys_size, if_size = env["sys"][0], env["if"][0]

    def buf():
        return rng.pick(["null:0", "0", "1", "4", "8", "37", "38", "64", "160"])

    def slot():
        return rng.pick([0, 0, 0, 1, 1, 1, 2, 9])

    def addr(size):
        return rng.pick([0, 4, 1024, 1028, 1030, 1032, 1036, size - 4, size, size + 1, 336, 8, 12, 1 << 32, U64 - 1, U64 - 4, rng.below(size + 16)])

    def one():
        k = rng.below(26)
        if k == 22:
            s = slot()
            n = rng.pick([0, 1, 4, 4])
            return "writes %d 2 %d %s %d %s" % (s, addr(sys_size), hexs(bytes(n)), addr(if_size), hexs(rng.bytes(4)))
        if k == 23:
            return rng.pick(["ifnum %d", "ifupd %d", "ifparent %d", "ifdevid %d 0 64", "ifdevinfo %d bad 0 64", "ifopendev %d bad"]) % slot()
        if k == 24:
            return rng.pick(alphabet(slot()))
        if k == 25:
            s = slot()
            a = addr(sys_size if s == 0 else if_size)
            big = rng.pick(claimed_sizes(a))
            return rng.pick(["read %d %d %d" % (s, a, big), "write %d %d claim:%d" % (s, a, big)])
        if k == 0:
            return "init"
        if k == 1:
            return "closelib"
        if k == 2:
            return "tlopen %d" % rng.pick([0, 0, 2])
        if k == 3:
            return "tlclose %d" % slot()
        if k == 4:
            return "tlopenif %d %s %d" % (slot(), rng.pick(["good", "good", "good", "bad"]), rng.pick([1, 1, 2]))
        if k == 5:
            return "ifclose %d" % slot()
        if k == 6:
            return "tlupd %d" % slot()
        if k == 7:
            return "tlnum %d" % slot()
        if k == 8:
            return "tlifid %d %d %s" % (slot(), rng.pick([0, 0, 1]), buf())
        if k == 9:
            return "tlinfo %d %d %s" % (slot(), rng.pick(list(range(-1, 12))), buf())
        if k == 10:
            return "tlifinfo %d %s %d %s" % (slot(), rng.pick(["good", "good", "bad"]), rng.pick([0, 1, 2, 3]), buf())
        if k == 11:
            return "ifinfo %d %d %s" % (slot(), rng.pick([0, 1, 2, 3]), buf())
        if k == 12:
            return "portinfo %d %d %s" % (slot(), rng.pick(list(range(-1, 14)) + [1000]), buf())
        if k == 13:
            return "porturl %d %s" % (slot(), rng.pick(["null:0", "64", "200"]))
        if k == 14:
            return "urlinfo %d %d %d %s" % (slot(), rng.pick([0, 0, 0, 1]), rng.pick(list(range(0, 12))), buf())
        if k == 15:
            return "numurls %d" % slot()
        if k in (16, 17):
            s = slot()
            return "read %d %d %d" % (s, addr(sys_size if s == 0 else if_size), rng.pick([0, 1, 4, 4, 8, 64]))
        if k in (18, 19):
            s = slot()
            n = rng.pick([0, 1, 2, 4, 4, 4, 8])
            return "write %d %d %s" % (s, addr(sys_size if s == 0 else if_size), hexs(rng.bytes(n) if rng.chance(1, 2) else bytes(n)))
        if k == 20:
            s = slot()
            return "reads %d 2 %d 4 %d 4" % (s, addr(sys_size), addr(if_size))
        return "lasterr %s" % rng.pick(["null:0", "0", "20", "160"])

    seqs = []
    for _ in range(count):
        seqs.append(list(rng.pick(prefixes)) + [one() for _ in range(6)]
                    + ["read 0 0 %d" % sys_size, "read 1 %d %d" % (env["if_wo"], if_size - env["if_wo"]), "lasterr 160"])
    return seqs


# ---------------------------------------------------------------------------- evaluation
def is_crash(r):
    return r in ("panic", "hang") or r.startswith("signal:")


def evaluate(rep, orc, stage, seqs, results, model=True):
    for ops, res in zip(seqs, results):
        if any(r.startswith("PYERR") or r.startswith("child-error") for r in res):
            raise RuntimeError("probe bug on %r: %r" % (ops, res))
        rep.count("stage:" + stage)
        rep.count("calls", len(res))
        nontriv = False
        lib = False
        for op, r in zip(ops, res):
            k = op.split()[0]
            if k.startswith("t2:"):
                k = k[3:]
            if k.startswith("np:"):
                k = "np:" + op.split()[1]
            code = r.split()[0]
            rep.count("op:" + k)
            rep.count("outcome:" + (code if not is_crash(r) else "CRASH") if r != "skip" else "outcome:skipped-freed-handle")
            if k == "init" and code == "0":
                lib = True
            elif code == "0" and lib and k.split(":")[-1] not in ("init", "closelib", "lasterr", "tlclose", "ifclose"):
                nontriv = True
        # '@key=value' tokens are notes for the oracle (pointer identities), not part of the model
        line = " ; ".join(" ".join(x for x in r.split(" ") if not x.startswith("@")) for r in res)
        rep.case(" ; ".join(ops) + " => " + line, nontriv)
        if model:
            rep.pending.append(("seq " + " ; ".join(ops), line, ops))
        before = len(orc.violations)
        orc.run(ops, res)
        for (sig, what, vops) in orc.violations[before:]:
            rep.violation(sig, what, {"ops": vops})
        if nontriv and len(ops) >= 5 and rep.dist.get("sampled:" + stage, 0) < 1:
            rep.count("sampled:" + stage)
            rep.sample({"stage": stage, "ops": [o[:120] for o in ops[:12]], "results": [r[:160] for r in res[:12]]})


def run_with_restart(pool, prefix, probes, chunk):
    """independent probes after a common prefix; a crash ends a child, so the rest of its chunk
    is re-run (after the same prefix) until every probe has an outcome"""
    todo = [probes[i:i + chunk] for i in range(0, len(probes), chunk)]
    seqs_all, res_all = [], []
    while todo:
        seqs = [prefix + c for c in todo]
        results = pool.run(seqs, chunk=4)
        todo = []
        for s, r in zip(seqs, results):
            seqs_all.append(s[:len(r)] if r and is_crash(r[-1]) else s)
            res_all.append(r)
            if r and is_crash(r[-1]) and len(r) > len(prefix):
                rest = s[len(r):]
                if rest:
                    todo.append(rest)
    return seqs_all, res_all


def minimise(rep, pool, orc, specs, limit=6):
    """delta-debug the replay of the first violation of each distinct signature: drop calls one
    at a time as long as a fresh oracle (seeded with the values learnt so far) still reports the
    same signature on a fresh child run"""
    seen = set()
    for v in rep.violations:
        key = json.dumps(v["sig"], sort_keys=True)
        if key in seen or len(seen) >= limit or "ops" not in v["replay"] or v["sig"].get("oracle") in ("discovery", "xml_agrees_with_info"):
            continue
        seen.add(key)

        def bad(ops):
            res = pool.run([ops], chunk=1)[0]
            o = oraclemod.Oracle(specs["sys"], specs["if"])
            o.values = dict(orc.values)
            o.run(ops, res)
            return any(json.dumps(x[0], sort_keys=True) == key for x in o.violations)

        cur = list(v["replay"]["ops"])
        if len(cur) > 400 or not bad(cur):
            continue
        changed = True
        while changed:
            changed = False
            for i in range(len(cur) - 1, -1, -1):
                cand = cur[:i] + cur[i + 1:]
                if cand and bad(cand):
                    cur, changed = cand, True
        v["replay"] = {"ops": cur}
        v["minimised"] = True


def flush_model(rep, env, camdrv):
    pend, rep.pending = rep.pending, []
    if not pend:
        return
    lines = env["cfg"] + [p[0] for p in pend]
    ans = run_model(camdrv, lines)[len(env["cfg"]):]
    if len(ans) != len(pend):
        rep.disagree("<stream>", "%d requests" % len(pend), "%d answers (driver died or desynchronised)" % len(ans))
    for i, (req, imp, ops) in enumerate(pend):
        model = ans[i] if i < len(ans) else "<missing>"
        if model != imp:
            a, b = imp.split(" ; "), model.split(" ; ")
            j = next((j for j in range(min(len(a), len(b))) if a[j] != b[j]), min(len(a), len(b)))
            rep.disagree(req, "call %d `%s`: %s" % (j, ops[j] if j < len(ops) else "?", a[j] if j < len(a) else "<none>"),
                         "call %d: %s" % (j, b[j] if j < len(b) else "<none>"), {"ops": ops})
    rep.count("model_requests", len(pend))


def cross_checks(rep, orc, env):
    """the embedded XML (parsed by the real genapi crate) agrees with the info queries"""
    v = {k: val[1][:-1].decode(errors="replace") if val[1] is not None and val[1][-1:] == b"\0" else val[1]
         for k, val in orc.values.items()}
    x = env["xmls"]

    def agree(a, b, what):
        rep.count("agreement_checks")
        if a is None or b is None or a != b:
            rep.violation({"oracle": "xml_agrees_with_info", "what": what}, "%s: %r vs %r" % (what, a, b), {"ops": OPEN})

    def num(key):
        val = orc.values.get(key)
        return int.from_bytes(val[1], "little") if val and val[1] is not None else None

    agree(v.get(("tlinfo", 0)), x["sys"]["guid"], "TL_INFO_ID = ProductGuid of the system XML")
    agree(v.get(("tlinfo", 1)), x["sys"]["vendor"], "TL_INFO_VENDOR = VendorName")
    agree(v.get(("tlinfo", 2)), x["sys"]["model"], "TL_INFO_MODEL = ModelName")
    agree(v.get(("tlinfo", 3)), x["sys"]["version"], "TL_INFO_VERSION = Major.Minor.SubMinor")
    agree(v.get(("tlinfo", 7)), x["sys"]["tooltip"], "TL_INFO_DISPLAYNAME = ToolTip")
    agree(v.get(("tlinfo", 6)), env["path"].decode(), "TL_INFO_PATHNAME = canonical path")
    agree(v.get(("tlinfo", 5)), os.path.basename(env["path"].decode()), "TL_INFO_NAME = file name")
    agree(v.get(("tlinfo", 0)), x["sys"]["strs"].get("TLID"), "TL_INFO_ID = <String TLID>")
    agree(v.get(("tlinfo", 1)), x["sys"]["strs"].get("TLVendorName"), "TL_INFO_VENDOR = <String TLVendorName>")
    agree(v.get(("tlinfo", 2)), x["sys"]["strs"].get("TLModelName"), "TL_INFO_MODEL = <String TLModelName>")
    agree(v.get(("tlinfo", 3)), x["sys"]["strs"].get("TLVersion"), "TL_INFO_VERSION = <String TLVersion>")
    agree(num(("tlinfo", 9)), x["sys"]["ints"].get("GenTLVersionMajor"), "TL_INFO_GENTL_VER_MAJOR = <Integer GenTLVersionMajor>")
    agree(num(("tlinfo", 10)), x["sys"]["ints"].get("GenTLVersionMinor"), "TL_INFO_GENTL_VER_MINOR = <Integer GenTLVersionMinor>")
    agree(num(("tlinfo", 9)), x["if"]["ints"].get("InterfaceTLVersionMajor"), "TL_INFO_GENTL_VER_MAJOR = <Integer InterfaceTLVersionMajor>")
    agree(num(("tlinfo", 10)), x["if"]["ints"].get("InterfaceTLVersionMinor"), "TL_INFO_GENTL_VER_MINOR = <Integer InterfaceTLVersionMinor>")
    agree(num(("tlinfo", 9)), x["if"]["ints"].get("DeviceTLVersionMajor"), "TL_INFO_GENTL_VER_MAJOR = <Integer DeviceTLVersionMajor>")
    agree(num(("tlinfo", 10)), x["if"]["ints"].get("DeviceTLVersionMinor"), "TL_INFO_GENTL_VER_MINOR = <Integer DeviceTLVersionMinor>")
    agree([v.get(("tlinfo", 4))], x["sys"]["enums"].get("TLType"), "TL_INFO_TLTYPE = the entry of <Enumeration TLType>")
    agree([v.get(("ifinfo", 2))], x["if"]["enums"].get("InterfaceType"), "INTERFACE_INFO_TLTYPE = the entry of <Enumeration InterfaceType>")
    agree(num(("tlinfo", 8)), 0, "TL_INFO_CHAR_ENCODING = ASCII")
    agree(v.get(("tlifid", 0)), env["good_id"].decode(), "TLGetInterfaceID stable")
    agree(v.get(("ifinfo", 0)), v.get(("tlifid", 0)), "INTERFACE_INFO_ID = TLGetInterfaceID")
    agree(v.get(("ifinfo", 0)), x["if"]["strs"].get("InterfaceID"), "INTERFACE_INFO_ID = <String InterfaceID>")
    agree(v.get(("ifinfo", 2)), v.get(("portinfo", "if", 3)), "INTERFACE_INFO_TLTYPE = PORT_INFO_TLTYPE")
    agree(v.get(("tlinfo", 4)), v.get(("portinfo", "sys", 3)), "TL_INFO_TLTYPE = PORT_INFO_TLTYPE")
    for kind, idq in (("sys", v.get(("tlinfo", 0))), ("if", v.get(("tlifid", 0)))):
        agree(v.get(("portinfo", kind, 0)), idq, "PORT_INFO_ID of %s = module id" % kind)
        agree(v.get(("portinfo", kind, 0)), x[kind]["guid"], "PORT_INFO_ID of %s = ProductGuid" % kind)
        agree(v.get(("portinfo", kind, 1)), x[kind]["vendor"], "PORT_INFO_VENDOR of %s = VendorName" % kind)
        agree(v.get(("portinfo", kind, 2)), x[kind]["model"], "PORT_INFO_MODEL of %s = ModelName" % kind)
        agree(v.get(("portinfo", kind, 11)), x[kind]["version"], "PORT_INFO_VERSION of %s = XML version" % kind)
        agree([v.get(("portinfo", kind, 12))], x[kind]["ports"], "PORT_INFO_PORTNAME of %s = <Port> node" % kind)
        agree(v.get(("portinfo", kind, 4)), "TLSystem" if kind == "sys" else "TLInterface", "PORT_INFO_MODULE of %s" % kind)
        le_, be_ = num(("portinfo", kind, 5)), num(("portinfo", kind, 6))
        agree((le_, be_) in ((1, 0), (0, 1)), True, "exactly one endianness flag of %s" % kind)
        flags = [num(("portinfo", kind, c)) for c in (7, 8, 9, 10)]
        agree(all(f in (0, 1) for f in flags) and not (flags[2] and (flags[0] or flags[1])), True, "access flags of %s consistent" % kind)
        _size, xa, xl = env[kind]
        agree(num(("urlinfo", kind, 7)), xa, "URL_INFO_FILE_REGISTER_ADDRESS of %s" % kind)
        agree(num(("urlinfo", kind, 8)), xl, "URL_INFO_FILE_SIZE of %s" % kind)
        ver = "%s.%s.%s" % (num(("urlinfo", kind, 3)), num(("urlinfo", kind, 4)), num(("urlinfo", kind, 5)))
        agree(ver, x[kind]["version"], "URL_INFO_FILE_VER_* of %s = XML version" % kind)
        sch = "%s.%s" % (num(("urlinfo", kind, 1)), num(("urlinfo", kind, 2)))
        agree(sch, ".".join(x[kind]["schema"].split(".")[:2]), "URL_INFO_SCHEMA_VER_* of %s = XML schema version" % kind)
        agree(num(("urlinfo", kind, 9)), 0, "URL_INFO_SCHEME of %s = local" % kind)
        url = v.get(("porturl", kind))
        agree(url, v.get(("urlinfo", kind, 0)), "GCGetPortURL = URL_INFO_URL of %s" % kind)
        want = "local:%s_%s_%s.xml;%X;%X?SchemaVersion=%s" % (x[kind]["vendor"], x[kind]["model"], x[kind]["version"], xa, xl, x[kind]["schema"])
        agree(url, want, "URL of %s names vendor_model_version, address and length of the XML" % kind)


# ---------------------------------------------------------------------------- main
def main():
    ap = argparse.ArgumentParser()
    ap.add_argument("--tier", default="quick")
    ap.add_argument("--seed", type=int, default=1)
    ap.add_argument("--out", default=os.path.join(WORK, "result.json"))
    ap.add_argument("--camdrv", default=os.path.join(ROOT, "lean", ".lake", "build", "bin", "drv_c19"))
    ap.add_argument("--replay")
    ap.add_argument("--workers", type=int, default=min(12, os.cpu_count() or 4))
    ap.add_argument("--no-build", action="store_true")
    args = ap.parse_args()
    thorough = args.tier == "thorough"
    rep = Report(args)
    t0 = time.time()
    if not args.no_build:
        build(release=thorough)
    rep.extra["build_s"] = round(time.time() - t0, 1)
    pool = runner.Pool(SO, None, CWD, args.workers)
    d = discover(pool, rep, args.camdrv)
    if d is None:
        rep.write()
        return 0
    pool, env, specs = d
    orc = oraclemod.Oracle(specs["sys"], specs["if"])
    rng = Rng(args.seed)

    if args.replay:
        with open(args.replay) as f:
            ops = json.load(f)["replay"]["ops"]
        res = pool.run([ops])
        evaluate(rep, orc, "replay", [ops], res)
        rep.sample({"stage": "replay", "ops": ops, "results": res[0]})
        flush_model(rep, env, args.camdrv)
        pool.close()
        rep.write()
        return 0

    # corpus of minimised past failures first
    corpus = []
    cdir = os.path.join(ROOT, "corpus", "C19")
    if os.path.isdir(cdir):
        for fn in sorted(os.listdir(cdir)):
            with open(os.path.join(cdir, fn)) as f:
                corpus.append(json.load(f)["replay"]["ops"])
    if corpus:
        evaluate(rep, orc, "corpus", corpus, pool.run(corpus))

    def sweeps(pool, label, rng):
        """every stage whose sequences do not depend on the build profile's speed: info sweeps,
        refusal sweeps, index / command sweeps, port grids.  `label` tags the stage names."""
        # info command x buffer size sweeps (two phases: required sizes, then 0..needed+1)
        ops, keys = gen_info_phase1()
        res = pool.run([ops])[0]
        evaluate(rep, orc, label + "info-sizes", [ops], [res])
        sizes = []
        for key, r in zip(keys, res[len(OPEN):]):
            if r.split()[0] == "0":
                sizes.append((key, int(field(r, "n"))))
        seqs = gen_info_sweeps(sizes)
        evaluate(rep, orc, label + "info-sweep", seqs, pool.run(seqs, chunk=4))
        rep.count("info_queries_swept", len(sizes))
        rep.count("info_buffer_sizes", sum(n + 5 for _, n in sizes))
        seqs = gen_index_command_sweeps()
        evaluate(rep, orc, label + "index-command-sweep", seqs, pool.run(seqs, chunk=1))
        seqs = gen_lasterr_phase1()
        res = pool.run(seqs, chunk=4)
        evaluate(rep, orc, label + "lasterr-sizes", seqs, res)
        sizes = [(p, int(field(r[-1], "n"))) for p, r in zip(PROVOKE, res) if r and r[-1].split()[0] == "0"]
        seqs = gen_lasterr_sweeps(sizes)
        evaluate(rep, orc, label + "lasterr-sweep", seqs, pool.run(seqs, chunk=2))
        # every entry point x {NULL, live, stale} handles: not initialised / closed / NULL
        # parameters / impossible sizes / wrong handle kind
        seqs = gen_refusal_sweeps()
        evaluate(rep, orc, label + "refusal-sweep", seqs, pool.run(seqs, chunk=16))
        rep.count("refusal_sweep_calls", sum(len(q) for q in seqs))

        # ports: (address, size) grids
        for slot, kind in ((0, "sys"), (1, "if")):
            regs = sorted(set((int(x[1]), int(x[2]), x[3]) for x in env["xmls"][kind]["regs"]))
            size, xa, xl = env[kind]
            regs.append((xa, xl, "RO"))
            probes = gen_port_reads(slot, regs, size)
            sq, r = run_with_restart(pool, OPEN, probes, 40)
            evaluate(rep, orc, label + "port-read-" + kind, sq, r)
            rep.count("port_read_probes_" + kind, len(probes))
            # after every write the WHOLE map is read back (frame condition: nothing else changed)
            readback = ["read 0 0 %d" % env["sys"][0], "read 1 %d %d" % (env["if_wo"], env["if"][0] - env["if_wo"])]
            seqs = gen_port_writes(rng, slot, regs, size, readback)
            if not thorough:
                seqs = [q for i, q in enumerate(seqs) if len(q[3]) < 400 or i % 3 == 0]
            evaluate(rep, orc, label + "port-write-" + kind, seqs, pool.run(seqs))
            rep.count("port_write_probes_" + kind, len(seqs))
            seqs = gen_stacked(rng, slot, regs, size, 1500 if thorough else 300, readback)
            evaluate(rep, orc, label + "port-stacked-" + kind, seqs, pool.run(seqs))
            stacked_vs_singles(rep, orc, pool, label + "stacked-vs-singles-" + kind, kind, slot,
                               gen_stacked_honest(rng, regs, size, 600 if thorough else 150), readback)
        # interface port with the interface closed, NULL handle, stale-event interplay
        full = ["read 0 0 %d" % env["sys"][0], "read 1 %d %d" % (env["if_wo"], env["if"][0] - env["if_wo"])]
        extra = [
            ["init", "tlopen 0", "read 1 4 4", "write 1 4 00000000", "read 9 0 4", "write 9 0 00", "reads 9 1 0 4", "writes 9 1 0 00", "lasterr 160"],
            OPEN + ["ifclose 1", "tlopenif 0 good 2", "read 2 4 4", "write 2 4 00000000", "lasterr 160"],
            OPEN + ["tlclose 0", "read 1 4 4", "write 1 4 00000000", "reads 1 1 4 4", "writes 1 1 4 00000000", "lasterr 160"],
            OPEN + ["write 1 3 0100", "lasterr 160", "write 1 100 -", "lasterr 160", "write 1 100 -", "read 1 4 4"] + full,
            OPEN + ["write 1 0 0100000000000000", "write 1 8 -", "write 1 8 -", "read 1 4 4"] + full,
            OPEN + ["write 0 1028 05000000", "read 0 1028 4", "write 0 1030 -", "write 0 1028 00000000", "write 0 1030 -", "write 0 1026 -", "lasterr 160"] + full,
            OPEN + ["ifparent 1", "tlclose 0", "ifparent 1", "tlopen 0", "tlopenif 0 good 2", "ifparent 2", "ifparent 1", "ifnum 1", "ifupd 1", "ifupd 2"],
        ]
        evaluate(rep, orc, label + "port-extra", extra, pool.run(extra, chunk=1))
        seqs = gen_reopen(env)
        evaluate(rep, orc, label + "memory-across-reopen", seqs, pool.run(seqs, chunk=4))
        seqs = gen_threads(rng, 400 if thorough else 100)
        evaluate(rep, orc, label + "two-threads", seqs, pool.run(seqs, chunk=8))

    sweeps(pool, "", rng)
    cross_checks(rep, orc, env)
    flush_model(rep, env, args.camdrv)
    if thorough and os.path.exists(SO_RELEASE):
        # the same sweeps against the release build (no debug assertions / overflow checks): the
        # model has no profile parameter left, both builds must give the same answers
        rpool = runner.Pool(SO_RELEASE, env["good_id"], CWD, args.workers)
        sweeps(rpool, "release:", Rng(args.seed))
        rpool.close()
        flush_model(rep, env, args.camdrv)
        rep.extra["release_build_compared"] = True

    # state machine: exhaustive to depth D
    depth = 6 if thorough else 5
    seqs = gen_state_machine(depth)
    evaluate(rep, orc, "state-machine", seqs, pool.run(seqs, chunk=256))
    rep.extra["state_machine"] = {"alphabet": SM_ALPHABET, "depth": depth, "sequences": len(seqs)}
    seqs = gen_state_machine(depth - 1, SM_ALPHABET_MEM)
    evaluate(rep, orc, "state-machine-with-memory", seqs, pool.run(seqs, chunk=256))
    rep.extra["state_machine_with_memory"] = {"alphabet": SM_ALPHABET_MEM, "depth": depth - 1, "sequences": len(seqs)}
    flush_model(rep, env, args.camdrv)

    # random depth-6 sequences over the whole alphabet
    seqs = gen_random(rng, 40000 if thorough else 6000, env)
    evaluate(rep, orc, "random", seqs, pool.run(seqs, chunk=128))
    flush_model(rep, env, args.camdrv)
    minimise(rep, pool, orc, specs)
    pool.close()
    rep.extra["oracle_checks"] = orc.n_checks
    rep.extra["wall_s"] = round(time.time() - t0, 1)
    rep.write()
    return 0


if __name__ == "__main__":
    sys.exit(main())
