"""C19 property oracle, evaluated on the IMPLEMENTATION's outputs only.

It is written from the property text / the GenTL rules, not from the Lean model:

* not_initialized_outside  every call while the library is not initialised returns -1002 and
                           leaves its out-parameters alone (GCInitLib itself returns 0);
* reopen_in_use            opening an open system / interface module returns -1004;
* close_then_open_ok       a closed (or never opened) module opens with 0; closing an open one
                           returns 0 (TLClose also closes the interface);
* last_error_tracks        a successful GCGetLastError reports the code of the most recent failing
                           call of this thread (0 if none);
* buffer_protocol          NULL buffer => required size; too small => -1016, buffer / size / type
                           untouched; otherwise value (strings NUL-terminated, no interior NUL),
                           exact size, type; nothing beyond the value is modified; guards intact;
                           the same query always yields the same value;
* port_exact_or_error      reads return exactly the bytes of the module's map (shadow image kept
                           from the discovery read and the writes that were accepted) or an error
                           code with the buffer untouched; in-range readable/writable ranges must
                           succeed (rights taken from the register nodes of the module's own XML);
                           no call crashes the process.
"""
from child import fill_byte, show_bytes

NOT_INIT, NOT_IMPL, IN_USE, DENIED, BAD_HANDLE, BAD_ID = -1002, -1003, -1004, -1005, -1006, -1007
BAD_PARAM, NOT_AVAIL, BAD_ADDR, TOO_SMALL, BAD_INDEX = -1009, -1014, -1015, -1016, -1017
U64 = 1 << 64
ISIZE_MAX = (1 << 63) - 1
BAD_BUFFER = -1013
PARAM_ERRS = {BAD_PARAM, BAD_BUFFER}     # what GenTL allows for an unusable pointer / size parameter
_digest_cache = {}


def shown(bs):
    """show_bytes with a cache (whole-map read-backs repeat the same 10 KB images)"""
    bs = bytes(bs)
    if len(bs) <= 2048:
        return show_bytes(bs)
    r = _digest_cache.get(bs)
    if r is None:
        r = _digest_cache[bs] = show_bytes(bs)
    return r


def wdata(tok):
    """write data token -> (size, bytes or None for a claimed size)"""
    if tok.startswith("claim:"):
        return int(tok[6:]), None
    b = b"" if tok == "-" else bytes.fromhex(tok)
    return len(b), b


def port_sizes(k, t):
    """sizes named by a read / write / stacked op"""
    if k == "read":
        return [int(t[3])]
    if k == "write":
        return [wdata(t[3])[0]]
    if k == "reads":
        return [int(t[4 + 2 * i]) for i in range(int(t[2]))]
    if k == "writes":
        return [wdata(t[4 + 2 * i])[0] for i in range(int(t[2]))]
    return []

# INFO_DATATYPE expected per command (GenTL 1.5 tables)
STRING, INT32, UINT32, UINT64, BOOL8 = 1, 5, 6, 8, 11
TL_TYPES = {0: STRING, 1: STRING, 2: STRING, 3: STRING, 4: STRING, 5: STRING, 6: STRING, 7: STRING,
            8: INT32, 9: UINT32, 10: UINT32}
IF_TYPES = {0: STRING, 1: STRING, 2: STRING}
PORT_TYPES = {0: STRING, 1: STRING, 2: STRING, 3: STRING, 4: STRING, 5: BOOL8, 6: BOOL8, 7: BOOL8,
              8: BOOL8, 9: BOOL8, 10: BOOL8, 11: STRING, 12: STRING}
URL_TYPES = {0: STRING, 1: INT32, 2: INT32, 3: INT32, 4: INT32, 5: INT32, 7: UINT64, 8: UINT64, 9: INT32}
URL_NOT_AVAILABLE = {6, 10}       # no SHA1 hash, no file name for a register-map location


def pattern(n):
    return bytes(fill_byte(i) for i in range(n))


def parse_result(res):
    """'<code> k=v ...' -> (code, fields, flags)"""
    t = res.split()
    code = int(t[0])
    fields, flags = {}, []
    for x in t[1:]:
        if x.startswith("@"):
            k, v = x[1:].split("=", 1)
            fields["@" + k] = v
        elif "=" in x:
            k, v = x.split("=", 1)
            fields[k] = v
        elif x in ("GUARD-BROKEN", "HANDLE-ANOMALY", "SOURCE-MODIFIED"):
            flags.append(x)
        elif x.startswith("@"):
            k, v = x[1:].split("=", 1)
            fields["@" + k] = v
        else:
            fields["v"] = x       # scalar out-parameter ('-' = untouched)
    return code, fields, flags


def contents_of(field):
    """b= field -> bytes, or None when reported as digest / null / claimed"""
    if field == "-":
        return b""
    if field in ("null", "claimed") or field.startswith("#"):
        return None
    return bytes.fromhex(field)


class ModuleSpec:
    """what the oracle knows about one module's register map: size, declared rights (from the
    module's own XML as parsed by cameleon-genapi), shadow image."""

    def __init__(self, name, image, unreadable_prefix, regs, xml_addr, xml_len):
        self.name = name
        self.size = xml_addr + xml_len
        self.init_image = bytes(image)
        # per-byte rights: 'RO' | 'WO' | 'RW' | 'NA'
        self.rights = ["NA"] * self.size
        for (addr, ln, acc) in regs:
            for i in range(addr, min(addr + ln, self.size)):
                self.rights[i] = acc
        for i in range(xml_addr, self.size):
            self.rights[i] = "RO"
        self.unreadable_prefix = unreadable_prefix

    def readable(self, a, n):
        return all(self.rights[i] in ("RO", "RW") for i in range(a, a + n))

    def writable(self, a, n):
        return all(self.rights[i] in ("WO", "RW") for i in range(a, a + n))


def addr_class(addr, n, size):
    if addr + n >= U64:
        return "address+size overflows u64"
    if n == 0:
        return "empty range past the end" if addr > size else "empty range at the end" if addr == size else "empty range inside"
    if addr >= size:
        return "starts past the end"
    if addr + n > size:
        return "crosses the end"
    return "inside"


class Oracle:
    def __init__(self, spec_sys, spec_if, good_id_kind="good"):
        self.spec = {"sys": spec_sys, "if": spec_if}
        self.values = {}      # query key -> (needed, value bytes or None)
        self.violations = []  # (sig, what, ops)
        self.n_checks = 0

    # ------------------------------------------------------------------ plumbing
    def violate(self, sig, what):
        self.violations.append((sig, what, list(self.cur_ops)))

    def require(self, cond, sig, what):
        self.n_checks += 1
        if not cond:
            self.violate(sig, what)
        return cond

    # ------------------------------------------------------------------ one sequence
    def run(self, ops, results):
        self.cur_ops = ops
        self.lib = False
        self.sys_open = False
        self.if_open = False
        self.slots = {}
        self.fails = {}          # thread -> (code, tag) of its most recent failing call
        self.thread = 1
        self.img = {"sys": bytearray(self.spec["sys"].init_image), "if": bytearray(self.spec["if"].init_image)}
        for i, op in enumerate(ops):
            if i >= len(results):
                break
            res = results[i]
            if res in ("panic", "hang") or res.startswith("signal:"):
                self.crash(op, res)
                break
            if res == "skip":
                continue
            self.step(op, res)

    def crash(self, op, res):
        t = op.split()
        if t[0].startswith("t2:"):
            t[0] = t[0][3:]
        sig = {"oracle": "never_crash", "outcome": res}
        if t[0].startswith("np:"):
            sig["null_parameter"] = t[0][3:]
            t = t[1:]
        sig["op"] = t[0]
        sizes = port_sizes(t[0], t)
        if any(n > ISIZE_MAX for n in sizes):
            sig["size"] = "> isize::MAX"
        elif t[0] in ("read", "write"):
            kind = self.slots.get(int(t[1]))
            if kind in ("sys", "if"):
                sig["module"] = kind
                sig["range"] = addr_class(int(t[2]), sizes[0], self.spec[kind].size)
        self.n_checks += 1
        self.violate(sig, "call `%s` crashed the process (%s)" % (op, res))

    # ------------------------------------------------------------------ one call
    def step(self, op, res):
        self.cur_op = op
        t = op.split()
        self.thread = 1
        if t[0].startswith("t2:"):       # the call is made on the child's second thread
            self.thread = 2
            t[0] = t[0][3:]
        np = None
        if t[0].startswith("np:"):
            np = t[0][3:]
            t = t[1:]
        self.cur_t = t
        k = t[0]
        code, f, flags = parse_result(res)
        for fl in flags:
            self.require(False, {"oracle": "memory_safety", "op": k, "flag": fl}, "`%s`: %s" % (op, fl))
        kind = None
        if k not in ("init", "closelib", "lasterr", "tlopen", "gcinfo"):
            kind = self.slots.get(int(t[1]))  # None = NULL, 'sys', 'if', 'freed'
        # ---- not_initialized_outside
        if k != "init" and not self.lib:
            self.require(code == NOT_INIT, {"oracle": "not_initialized_outside", "op": k, "code": code},
                         "`%s` with the library not initialised returned %d, expected -1002" % (op, code))
            self.untouched(op, k, t, f)
            self.fail(code)
            return
        # ---- a required pointer parameter is NULL / a size no buffer can have: refused, nothing written
        if np is not None or any(n > ISIZE_MAX for n in port_sizes(k, t)):
            what = "NULL `%s` parameter" % np if np is not None else "a size above isize::MAX"
            self.require(code in PARAM_ERRS, {"oracle": "invalid_parameter", "op": k, "null_parameter": np, "code": code},
                         "`%s` (%s) returned %d, expected -1009" % (op, what, code))
            self.untouched(op, k, t, f)
            self.fail(code)
            return
        if k == "gcinfo":
            self.require(code == NOT_IMPL, {"oracle": "gcinfo", "code": code}, "GCGetInfo returned %d" % code)
            self.fail(code)
            return
        if k == "init":
            if not self.lib:
                if self.require(code == 0, {"oracle": "init_ok", "code": code}, "GCInitLib returned %d" % code):
                    self.lib = True
            else:
                self.require(code == IN_USE, {"oracle": "reinit_in_use", "code": code},
                             "GCInitLib on an initialised library returned %d, expected -1004" % code)
            self.fail(code)
            return
        if k == "closelib":
            if self.require(code == 0, {"oracle": "closelib_ok", "code": code}, "GCCloseLib returned %d" % code):
                self.lib = False
            self.fail(code)
            return
        if k == "lasterr":
            expected = self.last_fail if self.last_fail is not None else 0
            if self.last_fail_tag == "utf8":
                # Documented assumption: ids are ASCII (TL_INFO_CHAR_ENCODING).  The INVALID_ID text
                # embeds the caller's id; a non-ASCII text cannot be copied out and the query itself
                # fails with INVALID_VALUE.  Outside the property; only the code is pinned down.
                self.require(code == -1019, {"oracle": "last_error_tracks", "what": "non-ascii id", "code": code},
                             "`%s` after an INVALID_ID with a non-ASCII id returned %d" % (op, code))
                self.fail(code)
                return
            ok = self.buffer_protocol(op, ("lasterr", expected, self.last_fail_tag), t[1], code, f, typed=False,
                                      is_string=True, errs=set())
            if code == 0:
                self.require(f.get("e") == str(expected),
                             {"oracle": "last_error_tracks", "expected": expected, "got": f.get("e")},
                             "GCGetLastError reported %s, the most recent failing call returned %d" % (f.get("e"), expected))
            else:
                self.require(f.get("e") == "-", {"oracle": "last_error_tracks", "what": "error code written on failure"},
                             "`%s` failed with %d but wrote piErrorCode" % (op, code))
            self.fail(code)
            return
        if k == "tlopen":
            if self.sys_open:
                self.require(code == IN_USE, {"oracle": "reopen_in_use", "module": "system", "code": code},
                             "TLOpen on an open system module returned %d, expected -1004" % code)
            else:
                self.require(code == 0, {"oracle": "close_then_open_ok", "module": "system", "code": code},
                             "TLOpen on a closed system module returned %d, expected 0" % code)
            if code == 0:
                self.sys_open = True
                self.slots[int(t[1])] = "sys"
            self.fail(code)
            return
        # ---- calls on a handle
        want = "port" if k in ("portinfo", "porturl", "numurls", "urlinfo", "read", "write", "reads", "writes") \
            else "if" if k in ("ifclose", "ifinfo", "ifnum", "ifupd", "ifparent", "ifdevid", "ifdevinfo", "ifopendev") else "sys"
        errs = set()
        if kind is None or (want != "port" and kind != want):
            errs.add(BAD_HANDLE)
        if errs:
            self.require(code in errs, {"oracle": "invalid_handle", "op": k, "code": code},
                         "`%s` on a %s handle returned %d, expected -1006" % (op, kind or "NULL", code))
            self.untouched(op, k, t, f)
            self.fail(code)
            return
        getattr(self, "op_" + k)(op, t, code, f, kind)
        self.fail(code)

    @property
    def last_fail(self):
        return self.fails.get(self.thread, (None, None))[0]

    @property
    def last_fail_tag(self):
        return self.fails.get(self.thread, (None, None))[1]

    def fail(self, code):
        t = self.cur_t
        # GCGetLastError does not store its own failure (it would replace the error it reports);
        # every other failing call is stored in the CALLING THREAD's slot
        if code != 0 and t[0] != "lasterr":
            tag = None          # the INVALID_ID message embeds the id that was passed
            if code == BAD_ID and t[0] in ("tlopenif", "tlifinfo"):
                tag = t[2]
            if code == BAD_ID and t[0] in ("ifdevinfo", "ifopendev"):
                tag = "dev-" + t[2]
            self.fails[self.thread] = (code, tag)

    def untouched(self, op, k, t, f):
        """a call refused before its body ran must not have written any out-parameter"""
        sig = {"oracle": "outputs_untouched_on_refusal", "op": k}
        if "t" in f:
            self.require(f["t"] == "-", sig, "`%s` was refused but wrote piType" % op)
        if "e" in f:
            self.require(f["e"] == "-", sig, "`%s` was refused but wrote piErrorCode" % op)
        if "v" in f:
            self.require(f["v"] == "-", sig, "`%s` was refused but wrote its out-parameter" % op)
        if "b" in f:
            for part in (f["b"].split(",") if k == "reads" else [f["b"]]):
                c = contents_of(part)
                if c is not None:
                    self.require(c == pattern(len(c)), sig, "`%s` was refused but modified the buffer" % op)
        if "n" in f:
            want = None
            if k == "read":
                want = int(t[3])
            elif k == "write":
                want = wdata(t[3])[0]
            elif k == "lasterr":
                want = int(t[1][5:]) if t[1].startswith("null:") else int(t[1])
            elif k not in ("reads", "writes"):
                b = t[-1]
                want = int(b[5:]) if b.startswith("null:") else int(b)
            self.require(want is None or int(f["n"]) == want, sig, "`%s` was refused but wrote the size" % op)
        if "k" in f:
            self.require(int(f["k"]) == int(t[2]), sig, "`%s` was refused but wrote the entry count" % op)

    # ------------------------------------------------------------------ module state machine
    def op_tlclose(self, op, t, code, f, kind):
        if self.sys_open:
            if self.require(code == 0, {"oracle": "close_ok", "module": "system", "code": code},
                            "TLClose of the open system module returned %d" % code):
                self.sys_open = False
                self.if_open = False
                self.slots[int(t[1])] = "freed"
        else:
            self.require(code == NOT_INIT, {"oracle": "close_closed", "module": "system", "code": code},
                         "TLClose of a closed system module returned %d" % code)

    def op_ifclose(self, op, t, code, f, kind):
        if self.require(code == 0, {"oracle": "close_ok", "module": "interface", "code": code},
                        "IFClose returned %d" % code):
            self.if_open = False
            self.slots[int(t[1])] = "freed"

    def op_tlopenif(self, op, t, code, f, kind):
        if t[2] != "good":
            self.require(code == BAD_ID, {"oracle": "invalid_id", "op": "tlopenif", "code": code},
                         "TLOpenInterface with an unknown id returned %d, expected -1007" % code)
            return
        if self.if_open:
            self.require(code == IN_USE, {"oracle": "reopen_in_use", "module": "interface", "code": code},
                         "TLOpenInterface on an open interface returned %d, expected -1004" % code)
        else:
            self.require(code == 0, {"oracle": "close_then_open_ok", "module": "interface", "code": code},
                         "TLOpenInterface on a closed interface returned %d, expected 0" % code)
        if code == 0:
            self.if_open = True
            self.slots[int(t[3])] = "if"

    def op_ifnum(self, op, t, code, f, kind):
        self.require(code == 0 and f.get("v") == "0", {"oracle": "ifnum", "code": code},
                     "IFGetNumDevices returned %d, count %s (no device can be enumerated)" % (code, f.get("v")))

    def op_ifupd(self, op, t, code, f, kind):
        want = NOT_IMPL if self.if_open else NOT_INIT
        self.require(code == want and f.get("v") == "-", {"oracle": "ifupd", "code": code, "want": want},
                     "IFUpdateDeviceList returned %d (out %s), expected %d" % (code, f.get("v"), want))

    def op_ifparent(self, op, t, code, f, kind):
        self.require(code == 0 and f.get("@parent") == "ok", {"oracle": "ifparent", "code": code, "parent": f.get("@parent")},
                     "IFGetParentTL returned %d, parent %s" % (code, f.get("@parent")))

    def op_ifopendev(self, op, t, code, f, kind):
        self.require(code == BAD_ID, {"oracle": "invalid_id", "op": "ifopendev", "code": code},
                     "IFOpenDevice with an unknown device id returned %d, expected -1007" % code)

    def op_ifdevid(self, op, t, code, f, kind):
        self.buffer_protocol(op, ("ifdevid", int(t[2])), t[3], code, f, False, True, {BAD_INDEX})

    def op_ifdevinfo(self, op, t, code, f, kind):
        self.buffer_protocol(op, ("ifdevinfo", t[2], int(t[3])), t[4], code, f, True, True, {BAD_ID})

    def op_tlupd(self, op, t, code, f, kind):
        self.require(code == 0 and f.get("v") == "0", {"oracle": "tlupd", "code": code},
                     "TLUpdateInterfaceList on an open system returned %d, changed=%s" % (code, f.get("v")))

    def op_tlnum(self, op, t, code, f, kind):
        self.require(code == 0 and f.get("v") == "1", {"oracle": "tlnum", "code": code},
                     "TLGetNumInterfaces returned %d, count %s" % (code, f.get("v")))

    # ------------------------------------------------------------------ info queries
    def op_tlinfo(self, op, t, code, f, kind):
        cmd = int(t[2])
        errs = set() if cmd in TL_TYPES else {BAD_PARAM}
        self.buffer_protocol(op, ("tlinfo", cmd), t[3], code, f, True, TL_TYPES.get(cmd) == STRING, errs, TL_TYPES.get(cmd))

    def op_tlifid(self, op, t, code, f, kind):
        errs = set() if int(t[2]) == 0 else {BAD_INDEX}
        self.buffer_protocol(op, ("tlifid", int(t[2])), t[3], code, f, False, True, errs)

    def op_tlifinfo(self, op, t, code, f, kind):
        cmd = int(t[3])
        errs = set()
        if t[2] != "good":
            errs.add(BAD_ID)
        elif cmd not in IF_TYPES:
            errs.add(BAD_PARAM)
        self.buffer_protocol(op, ("ifinfo", cmd), t[4], code, f, True, True, errs, IF_TYPES.get(cmd))

    def op_ifinfo(self, op, t, code, f, kind):
        cmd = int(t[2])
        errs = set() if cmd in IF_TYPES else {BAD_PARAM}
        self.buffer_protocol(op, ("ifinfo", cmd), t[3], code, f, True, True, errs, IF_TYPES.get(cmd))

    def closed_port(self, kind):
        return kind == "if" and not self.if_open

    def op_portinfo(self, op, t, code, f, kind):
        cmd = int(t[2])
        errs = set()
        if self.closed_port(kind):
            errs.add(NOT_INIT)
        elif cmd not in PORT_TYPES:
            errs.add(BAD_PARAM)
        self.buffer_protocol(op, ("portinfo", kind, cmd), t[3], code, f, True, PORT_TYPES.get(cmd) == STRING, errs,
                             PORT_TYPES.get(cmd))

    def op_porturl(self, op, t, code, f, kind):
        errs = {NOT_INIT} if self.closed_port(kind) else set()
        self.buffer_protocol(op, ("porturl", kind), t[2], code, f, False, True, errs)

    def op_numurls(self, op, t, code, f, kind):
        if self.closed_port(kind):
            self.require(code == NOT_INIT, {"oracle": "closed_port", "op": "numurls", "code": code}, "`%s` -> %d" % (op, code))
        else:
            self.require(code == 0 and f.get("v") == "1", {"oracle": "numurls", "code": code}, "`%s` -> %d %s" % (op, code, f.get("v")))

    def op_urlinfo(self, op, t, code, f, kind):
        idx, cmd = int(t[2]), int(t[3])
        errs = set()
        if self.closed_port(kind):
            errs.add(NOT_INIT)
        elif idx != 0:
            errs.add(BAD_INDEX)
        elif cmd in URL_NOT_AVAILABLE:
            errs.add(NOT_AVAIL)
        elif cmd not in URL_TYPES:
            errs.add(BAD_PARAM)
        self.buffer_protocol(op, ("urlinfo", kind, cmd), t[4], code, f, True, URL_TYPES.get(cmd) == STRING, errs,
                             URL_TYPES.get(cmd))

    def buffer_protocol(self, op, key, buftok, code, f, typed, is_string, errs, want_type=None):
        sig = {"oracle": "buffer_protocol", "query": list(key) if isinstance(key, tuple) else key}
        null = buftok.startswith("null:")
        cap = int(buftok[5:]) if null else int(buftok)
        n_out = int(f["n"])
        contents = None if null else contents_of(f["b"])
        if errs:
            self.require(code in errs, dict(sig, what="error code", code=code),
                         "`%s` returned %d, expected one of %s" % (op, code, sorted(errs)))
            if code != 0:
                self.require(n_out == cap and (not typed or f["t"] == "-") and (contents is None or contents == pattern(cap)),
                             dict(sig, what="outputs written on error"), "`%s` failed with %d but wrote outputs" % (op, code))
            return False
        known = self.values.get(key)
        if code == 0:
            if null:
                self.require(f["b"] == "null", dict(sig, what="null"), "")
            else:
                self.require(n_out <= cap, dict(sig, what="size larger than capacity"),
                             "`%s` reported size %d > capacity %d" % (op, n_out, cap))
                if contents is not None and n_out <= cap:
                    self.require(contents[n_out:] == pattern(cap)[n_out:], dict(sig, what="wrote past the value"),
                                 "`%s` modified bytes beyond the reported size %d" % (op, n_out))
                    val = contents[:n_out]
                    if is_string:
                        self.require(n_out >= 1 and val[-1:] == b"\0" and b"\0" not in val[:-1],
                                     dict(sig, what="NUL termination"),
                                     "`%s` value is not a NUL-terminated string: %r" % (op, val))
                    if known and known[1] is not None:
                        self.require(val == known[1], dict(sig, what="value differs between calls"),
                                     "`%s` returned %r, earlier %r" % (op, val, known[1]))
                    known = (n_out, val)
            if known:
                self.require(n_out == known[0], dict(sig, what="size differs between calls"),
                             "`%s` reported size %d, earlier %d" % (op, n_out, known[0]))
            self.values[key] = known if known else (n_out, None)
            if typed:
                self.require(f["t"] != "-" and (want_type is None or int(f["t"]) == want_type),
                             dict(sig, what="type", got=f["t"], want=want_type),
                             "`%s` reported type %s, expected %s" % (op, f["t"], want_type))
            return True
        if code == TOO_SMALL:
            self.require(not null, dict(sig, what="too small on NULL"), "`%s` returned -1016 for a NULL buffer" % op)
            self.require(contents is None or contents == pattern(cap), dict(sig, what="buffer modified on BUFFER_TOO_SMALL"),
                         "`%s` returned -1016 but modified the buffer" % op)
            self.require(n_out == cap and (not typed or f["t"] == "-"), dict(sig, what="size/type modified on BUFFER_TOO_SMALL"),
                         "`%s` returned -1016 but wrote size/type" % op)
            if known:
                self.require(cap < known[0], dict(sig, what="BUFFER_TOO_SMALL with enough room"),
                             "`%s` returned -1016 although %d bytes suffice" % (op, known[0]))
            return False
        self.require(False, dict(sig, what="unexpected code", code=code), "`%s` returned %d" % (op, code))
        return False

    # ------------------------------------------------------------------ ports
    def expected_read(self, kind, addr, n):
        """(must_succeed?, allowed error codes)"""
        sp = self.spec[kind]
        if self.closed_port(kind):
            return False, {NOT_INIT}
        if addr + n >= U64:
            return False, {BAD_ADDR}
        if n == 0:
            return None, {BAD_ADDR}       # either is fine, crash is not
        if addr + n > sp.size:
            return False, {BAD_ADDR}
        if not sp.readable(addr, n):
            return False, {DENIED}
        return True, set()

    def check_read(self, op, kind, addr, n, code, n_out, got):
        sp = self.spec[kind]
        sig = {"oracle": "port_exact_or_error", "op": "read", "module": kind, "range": addr_class(addr, n, sp.size)}
        must, errs = self.expected_read(kind, addr, n)
        if code == 0:
            self.require(must is not False, dict(sig, what="read succeeded where it must fail", want=sorted(errs)),
                         "`%s` returned 0, expected %s" % (op, sorted(errs)))
            self.require(n_out == n, dict(sig, what="size"), "`%s` reported %d bytes" % (op, n_out))
            if addr + n <= sp.size and got != "claimed":
                exp = bytes(self.img[kind][addr:addr + n])
                self.require(got == shown(exp), dict(sig, what="bytes differ from the map"),
                             "`%s` returned %s, the map holds %s" % (op, got[:80], shown(exp)[:80]))
        else:
            self.require(must is not True and code in errs, dict(sig, what="error code", code=code, want=sorted(errs)),
                         "`%s` returned %d, expected %s" % (op, code, "0" if must else sorted(errs)))
            self.require(n_out == n, dict(sig, what="size modified on error"), "`%s` failed but wrote the size" % op)
            if got != "claimed":
                self.require(got == show_bytes(pattern(n)), dict(sig, what="buffer modified on error"),
                             "`%s` failed with %d but modified the buffer" % (op, code))

    def op_read(self, op, t, code, f, kind):
        self.check_read(op, kind, int(t[2]), int(t[3]), code, int(f["n"]), f["b"])

    def expected_write(self, kind, addr, n):
        sp = self.spec[kind]
        if self.closed_port(kind):
            return False, {NOT_INIT}
        if addr + n >= U64:
            return False, {BAD_ADDR}
        if n == 0:
            return None, {BAD_ADDR, BAD_INDEX, NOT_IMPL}
        if addr + n > sp.size:
            return False, {BAD_ADDR}
        if not sp.writable(addr, n):
            return False, {DENIED}
        return True, set()

    def check_write(self, op, kind, addr, n, data, code):
        """returns True when the bytes were transferred (`data` is None for a claimed size)"""
        sp = self.spec[kind]
        sig = {"oracle": "port_exact_or_error", "op": "write", "module": kind, "range": addr_class(addr, n, sp.size)}
        must, errs = self.expected_write(kind, addr, n)
        # A write that was transferred may still report the failure of the action it triggered
        # (selector out of range: -1017; device enumeration not implemented: -1003).
        transferred = code in (0, BAD_INDEX, NOT_IMPL)
        if transferred:
            self.require(must is not False, dict(sig, what="write accepted where it must fail", code=code, want=sorted(errs)),
                         "`%s` returned %d, expected %s" % (op, code, sorted(errs)))
            if addr + n <= sp.size and data is not None:
                self.img[kind][addr:addr + n] = data
        else:
            self.require(must is not True and code in errs, dict(sig, what="error code", code=code, want=sorted(errs)),
                         "`%s` returned %d, expected %s" % (op, code, "transfer" if must else sorted(errs)))
        return transferred

    def op_write(self, op, t, code, f, kind):
        n, data = wdata(t[3])
        self.check_write(op, kind, int(t[2]), n, data, code)
        self.require(int(f["n"]) == n, {"oracle": "port_exact_or_error", "op": "write", "what": "size"},
                     "`%s` reported size %s" % (op, f["n"]))

    def op_reads(self, op, t, code, f, kind):
        cnt = int(t[2])
        k_out = int(f["k"])
        got = f["b"].split(",") if cnt > 0 else []
        sig = {"oracle": "port_exact_or_error", "op": "reads", "module": kind}
        self.require(k_out <= cnt and (code != 0 or k_out == cnt), dict(sig, what="count"),
                     "`%s` -> code %d count %d" % (op, code, k_out))
        for i in range(cnt):
            addr, n = int(t[3 + 2 * i]), int(t[4 + 2 * i])
            if i < k_out:
                self.check_read(op + " [entry %d]" % i, kind, addr, n, 0, n, got[i])
            elif i == k_out:
                must, errs = self.expected_read(kind, addr, n)
                self.require(must is not True and code in errs, dict(sig, what="failing entry code", code=code),
                             "`%s` failed at entry %d with %d, expected %s" % (op, i, code, sorted(errs)))
                self.require(got[i] == "claimed" or got[i] == show_bytes(pattern(n)), dict(sig, what="failing entry buffer modified"), op)
            else:
                self.require(got[i] == "claimed" or got[i] == show_bytes(pattern(n)), dict(sig, what="entry after the failing one modified"), op)

    def op_writes(self, op, t, code, f, kind):
        cnt = int(t[2])
        k_out = int(f["k"])
        sig = {"oracle": "port_exact_or_error", "op": "writes", "module": kind}
        self.require(k_out <= cnt and (code != 0 or k_out == cnt), dict(sig, what="count"),
                     "`%s` -> code %d count %d" % (op, code, k_out))
        for i in range(min(cnt, k_out + 1)):
            addr = int(t[3 + 2 * i])
            n, data = wdata(t[4 + 2 * i])
            self.check_write(op + " [entry %d]" % i, kind, addr, n, data, 0 if i < k_out else code)
