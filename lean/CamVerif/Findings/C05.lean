/-
Known finding F-C05-5 (informational target, not part of the gate): the standard's
two-argument `ROUND(x, precision)` has no production in the parser — the lexer panics on `,`.
Witness evaluated by the kernel on the model; the same input is replayed on the real code by
the harness (`probe_syntax`).
-/
import CamVerif.Proofs.C05Parse
namespace CamVerif.Findings.C05
open CamVerif CamVerif.Formula CamVerif.Formula.Proofs

theorem round_two_arguments_panics :
    @parseChars Unit unitFloatOps "ROUND(1.5, 0)".toList = .panic := by
  decide +kernel

/-- the one-argument form is accepted -/
theorem round_one_argument_parses :
    @parseChars Unit unitFloatOps "ROUND(1.5)".toList = .ok (.unOp .round (.float ())) := by
  decide +kernel

end CamVerif.Findings.C05
