/-
Negation witness for the known finding F-C20-5 (informational target, not part of the gate):
a `String` register accepts a value containing NUL and reads it back truncated, so the
full-strength string round-trip statement of C20 is false.
-/
import CamVerif.Props.C20
namespace CamVerif.Findings.C20
open CamVerif CamVerif.Memory CamVerif.C20

theorem string_roundtrip_full_statement_false : ¬ C20_string_roundtrip_full_statement := by
  intro h
  obtain ⟨m', fired, hw, hr⟩ := h 4 0 .RW ⟨[9, 9, 9, 9, 9], ⟨[0xFF#8, 0xFF#8], 5⟩, []⟩ [0x61, 0, 0x62]
    (by decide) (by decide) (by decide)
  have hw' : (Mem.mk [9, 9, 9, 9, 9] ⟨[0xFF#8, 0xFF#8], 5⟩ []).write (strReg 0 4 .RW) [0x61, 0, 0x62] =
      .ok (⟨[0x61, 0, 0x62, 0, 9], ⟨[0xFF#8, 0xFF#8], 5⟩, []⟩, []) := by decide
  rw [hw'] at hw
  cases hw
  revert hr
  decide

end CamVerif.Findings.C20
