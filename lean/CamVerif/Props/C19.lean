/-
C19 — GenTL C API keeps its state machine, buffer protocol and port safety.

Property theorems only (helper lemmas: `Proofs/C19.lean`).  They are about `Model.GenTL.step`, the
model of one C call, and `run`, the model of a call sequence.  All statements quantify over every
environment (path, XML strings), every state, every call with every argument; the history
theorems are by induction over arbitrary call sequences.
-/
import CamVerif.Proofs.C19
import CamVerif.Model.GenTLThreads
namespace CamVerif.C19
open CamVerif CamVerif.GenTL

/-! ## Vocabulary -/

/-- Specification of the library flag after a call: initialised after `GCInitLib` (whether it
succeeded or reported RESOURCE_IN_USE), not initialised after `GCCloseLib`, unchanged otherwise. -/
def specInit (b : Bool) : Call → Bool
  | .initLib => true
  | .closeLib => false
  | _ => b

/-- code of the most recent failing call of a history (`init` before it); the error query itself
(`GCGetLastError`, `Call.noSave`) is not a call whose failure is recorded -/
def lastFailure (init : Option Int) (crs : List (Call × Result)) : Option Int :=
  crs.foldl (fun acc cr => if cr.2.code ≠ 0 ∧ cr.1.noSave = false then some cr.2.code else acc) init

/-- a concrete environment for the non-vacuity examples -/
def exEnv : Env :=
  { path := asc "/r/mod.rs", sysXml := [], ifXml := [], errText := fun _ => asc "e", noErrorText := asc "No Error",
    notAsciiText := [], sys := ⟨asc "S", asc "V", asc "M", [], [], [], [], 1, 0, 0⟩,
    ifc := ⟨asc "I", asc "V", asc "N", [], [], [], [], 1, 0, 0⟩, gentlMajor := 1, gentlMinor := 6,
    schemaMajor := 1, schemaMinor := 1, schemaSub := 0 }

/-- What the buffer protocol prescribes for a value whose stored image is `img`
(strings: text + NUL) and `INFO_DATATYPE` `ty`, as (code, type written, destination afterwards). -/
def protocol (img : Bytes) (ty : Nat) (d : Dst) : Int × Option Nat × Dst :=
  match d.buf with
  | none => (0, some ty, ⟨none, img.length⟩)
  | some old =>
    if d.size < img.length then (-1016, none, d)
    else (0, some ty, ⟨some (img ++ old.drop img.length), img.length⟩)

private theorem finish_done {save : Bool} {r : Ret} {s' : State} {res : Result}
    (h : finish save r = .done s' res) :
    (s'.libInit = r.st.libInit ∧ s'.sysOpen = r.st.sysOpen ∧ s'.ifOpen = r.st.ifOpen ∧
      s'.sysMem = r.st.sysMem ∧ s'.ifMem = r.st.ifMem ∧ s'.slots = r.st.slots) ∧
    (res.code = 0 → s'.lastErr = r.st.lastErr) ∧
    (save = false → s'.lastErr = r.st.lastErr) ∧
    (res.code ≠ 0 → save = true → ∃ e, s'.lastErr = some e ∧ e.code = res.code) := by
  unfold finish at h
  split at h
  · cases h; simp
  · rename_i e _
    have := Err.code_neg e
    cases save <;> cases h
    · refine ⟨⟨rfl, rfl, rfl, rfl, rfl, rfl⟩, fun _ => rfl, fun _ => rfl, ?_⟩
      intro _ h1; cases h1
    · refine ⟨⟨rfl, rfl, rfl, rfl, rfl, rfl⟩, ?_, ?_, ?_⟩
      · intro h0; simp only at h0; omega
      · intro h1; cases h1
      · intro _ _; exact ⟨e, rfl, rfl⟩
  · cases h

private theorem noAssert_false {c : Call} (hc : c ≠ .initLib) : c.noAssert = false := by
  cases c <;> simp_all [Call.noAssert]

/-! ## 1. Outside GCInitLib … GCCloseLib every call is refused with NOT_INITIALIZED -/

/-- While the library is not initialised every entry point other than `GCInitLib` returns
GC_ERR_NOT_INITIALIZED (-1002), writes no out-parameter, changes nothing but the last error
(which the error query itself, `GCGetLastError`, does not touch either). -/
theorem not_initialized_outside (env : Env) (s : State) (c : Call)
    (h : s.libInit = false) (hc : c ≠ .initLib) :
    step env s c = .done (if c.noSave then s else { s with lastErr := some .notInitialized })
      ⟨-1002, c.untouched⟩ := by
  cases hs : c.noSave <;> simp [step, noAssert_false hc, h, finish, Err.code, hs]

/-- `GCInitLib` on a library that is not initialised succeeds. -/
theorem init_ok (env : Env) (s : State) (h : s.libInit = false) :
    step env s .initLib = .done { s with libInit := true } ⟨0, .plain⟩ := by
  simp [step, Call.noAssert, Call.noSave, usesFreed, Call.handle?, body, h, finish]

/-- One call moves the library flag exactly as the specification says. -/
theorem step_libInit {env : Env} {s s' : State} {c : Call} {r : Result}
    (h : step env s c = .done s' r) : s'.libInit = specInit s.libInit c := by
  unfold step at h
  split at h
  · rename_i hcond
    have hf := (finish_done h).1.1
    simp only [Bool.and_eq_true, Bool.not_eq_true'] at hcond
    rw [hf]
    cases c <;> simp_all [specInit, Call.noAssert]
  · split at h
    · rename_i hfree
      cases h
      cases c <;> simp_all [specInit, usesFreed, Call.handle?]
    · have hf := (finish_done h).1.1
      rw [hf, body_libInit]
      cases c <;> rfl

/-- Induction over an arbitrary call sequence: the library flag is the fold of the specification
over the history. -/
theorem lib_init_tracks_history (env : Env) (cs : List Call) :
    ∀ (s : State) (rs : List Result) (s' : State), run env s cs = (rs, some s') →
      s'.libInit = cs.foldl specInit s.libInit := by
  induction cs with
  | nil => intro s rs s' h; simp [run] at h; rw [← h.2]; rfl
  | cons c cs ih =>
    intro s rs s' h
    unfold run at h
    split at h
    · rename_i s1 r hstep
      simp only [Prod.mk.injEq] at h
      have := ih s1 _ s' (Prod.ext rfl h.2)
      rw [this, step_libInit hstep]
      rfl
    · simp at h

/-- History form of the first clause of the property: after ANY call sequence whose last
`GCInitLib`/`GCCloseLib` was a `GCCloseLib` (or that contains no `GCInitLib` at all, starting from
the initial state), the next call — whatever it is, except `GCInitLib` — returns NOT_INITIALIZED. -/
theorem not_initialized_outside_history (env : Env) (cs : List Call) (s : State) (rs : List Result)
    (s' : State) (c : Call) (hrun : run env s cs = (rs, some s'))
    (hout : cs.foldl specInit s.libInit = false) (hc : c ≠ .initLib) :
    step env s' c = .done (if c.noSave then s' else { s' with lastErr := some .notInitialized })
      ⟨-1002, c.untouched⟩ :=
  not_initialized_outside env s' c ((lib_init_tracks_history env cs s rs s' hrun).trans hout) hc

example : (State.init exEnv).libInit = false ∧
    [Call.initLib, .tlOpen 0, .closeLib].foldl specInit false = false := by decide

/-! ## 2. Opening an open module fails with RESOURCE_IN_USE -/

theorem reopen_in_use_system (env : Env) (s : State) (k : Nat)
    (hi : s.libInit = true) (ho : s.sysOpen = true) :
    step env s (.tlOpen k) = .done { s with lastErr := some .resourceInUse } ⟨-1004, .plain⟩ := by
  simp [step, Call.noAssert, Call.noSave, usesFreed, Call.handle?, body, hi, ho, finish, Err.code, Call.untouched]

theorem reopen_in_use_interface (env : Env) (s : State) (h k : Nat)
    (hi : s.libInit = true) (hh : s.slots h = .sys) (ho : s.ifOpen = true) :
    step env s (.tlOpenInterface h env.ifc.id k) =
      .done { s with lastErr := some .resourceInUse } ⟨-1004, .plain⟩ := by
  simp [step, Call.noAssert, Call.noSave, usesFreed, Call.handle?, body, hi, hh, ho, finish, Err.code,
    Call.untouched, wantSystem]

/-- An open system module stays open under every call except `TLClose` (so, by the theorem above,
every `TLOpen` until then is refused). -/
theorem system_stays_open {env : Env} {s s' : State} {c : Call} {r : Result}
    (h : step env s c = .done s' r) (ho : s.sysOpen = true) (hc : ∀ h, c ≠ .tlClose h) :
    s'.sysOpen = true := by
  unfold step at h
  split at h
  · rw [(finish_done h).1.2.1]; exact ho
  · split at h
    · cases h; exact ho
    · rw [(finish_done h).1.2.1]
      by_cases hk : ∃ k, c = .tlOpen k
      · obtain ⟨k, rfl⟩ := hk
        simp [body, ho]
      · rw [body_sysOpen env s c (fun k hk' => hk ⟨k, hk'⟩) hc]; exact ho

/-- An open interface stays open under every call except `IFClose` and `TLClose` (which closes
the interfaces of the system it closes) — so every `TLOpenInterface` until then is refused. -/
theorem interface_stays_open {env : Env} {s s' : State} {c : Call} {r : Result}
    (h : step env s c = .done s' r) (ho : s.ifOpen = true)
    (h1 : ∀ k, c ≠ .tlClose k) (h2 : ∀ k, c ≠ .ifClose k) : s'.ifOpen = true := by
  unfold step at h
  split at h
  · rw [(finish_done h).1.2.2.1]; exact ho
  · split at h
    · cases h; exact ho
    · rw [(finish_done h).1.2.2.1]
      by_cases hk : ∃ x id k, c = .tlOpenInterface x id k
      · obtain ⟨x, id, k, rfl⟩ := hk
        simp only [body]
        split <;> (try split) <;> (try split) <;> simp [ho, State.setSlot]
      · rw [body_ifOpen env s c (fun x id k hk' => hk ⟨x, id, k, hk'⟩) h1 h2]; exact ho

/-! ## 3. A module that was closed (or never opened) can be opened -/

theorem close_system_ok (env : Env) (s : State) (h : Nat)
    (hi : s.libInit = true) (hh : s.slots h = .sys) (ho : s.sysOpen = true) :
    step env s (.tlClose h) =
      .done (({ s with sysOpen := false, ifOpen := false }).setSlot h .freed) ⟨0, .plain⟩ := by
  simp [step, Call.noAssert, Call.noSave, usesFreed, Call.handle?, body, hi, hh, ho, finish, wantSystem]

theorem open_closed_system_ok (env : Env) (s : State) (k : Nat)
    (hi : s.libInit = true) (ho : s.sysOpen = false) :
    step env s (.tlOpen k) = .done (({ s with sysOpen := true }).setSlot k .sys) ⟨0, .plain⟩ := by
  simp [step, Call.noAssert, Call.noSave, usesFreed, Call.handle?, body, hi, ho, finish]

theorem close_interface_ok (env : Env) (s : State) (h : Nat)
    (hi : s.libInit = true) (hh : s.slots h = .iface) :
    step env s (.ifClose h) = .done (({ s with ifOpen := false }).setSlot h .freed) ⟨0, .plain⟩ := by
  simp [step, Call.noAssert, Call.noSave, usesFreed, Call.handle?, body, hi, hh, finish, wantInterface]

theorem open_closed_interface_ok (env : Env) (s : State) (h k : Nat)
    (hi : s.libInit = true) (hh : s.slots h = .sys) (ho : s.ifOpen = false) :
    step env s (.tlOpenInterface h env.ifc.id k) =
      .done (({ s with ifOpen := true }).setSlot k .iface) ⟨0, .plain⟩ := by
  simp [step, Call.noAssert, Call.noSave, usesFreed, Call.handle?, body, hi, hh, ho, finish, wantSystem]

/-- A closed system module stays closed under every call except `TLOpen`. -/
theorem system_stays_closed {env : Env} {s s' : State} {c : Call} {r : Result}
    (h : step env s c = .done s' r) (ho : s.sysOpen = false) (hc : ∀ k, c ≠ .tlOpen k) :
    s'.sysOpen = false := by
  unfold step at h
  split at h
  · rw [(finish_done h).1.2.1]; exact ho
  · split at h
    · cases h; exact ho
    · rw [(finish_done h).1.2.1]
      by_cases hk : ∃ k, c = .tlClose k
      · obtain ⟨k, rfl⟩ := hk
        simp only [body]
        split <;> simp [ho]
      · rw [body_sysOpen env s c hc (fun k hk' => hk ⟨k, hk'⟩)]; exact ho

/-- A closed interface stays closed under every call except `TLOpenInterface` (so the next
`TLOpenInterface` with the interface's id on a live system handle succeeds,
`open_closed_interface_ok`). -/
theorem interface_stays_closed {env : Env} {s s' : State} {c : Call} {r : Result}
    (h : step env s c = .done s' r) (ho : s.ifOpen = false)
    (hc : ∀ h id k, c ≠ .tlOpenInterface h id k) : s'.ifOpen = false := by
  unfold step at h
  split at h
  · rw [(finish_done h).1.2.2.1]; exact ho
  · split at h
    · cases h; exact ho
    · rw [(finish_done h).1.2.2.1]
      by_cases hk : ∃ k, c = .tlClose k
      · obtain ⟨k, rfl⟩ := hk
        simp only [body]
        split <;> (try split) <;> simp [ho, State.setSlot]
      · by_cases hk2 : ∃ k, c = .ifClose k
        · obtain ⟨k, rfl⟩ := hk2
          simp only [body]
          split <;> simp [ho, State.setSlot]
        · rw [body_ifOpen env s c hc (fun k hk' => hk ⟨k, hk'⟩) (fun k hk' => hk2 ⟨k, hk'⟩)]; exact ho

/-- Over arbitrary call sequences: whatever happens between a successful `TLClose` and the next
`TLOpen` (any calls on any handles, including closing and re-initialising the library), that
`TLOpen` succeeds as soon as the library is initialised. -/
theorem close_then_open_ok (env : Env) (cs : List Call) :
    ∀ (s : State) (rs : List Result) (s' : State) (k : Nat),
      s.sysOpen = false → run env s cs = (rs, some s') → (∀ c ∈ cs, ∀ j, c ≠ .tlOpen j) →
      s'.libInit = true →
      step env s' (.tlOpen k) = .done (({ s' with sysOpen := true }).setSlot k .sys) ⟨0, .plain⟩ := by
  induction cs with
  | nil =>
    intro s rs s' k ho h _ hi
    simp [run] at h
    rw [← h.2] at hi ⊢
    exact open_closed_system_ok env s k hi ho
  | cons c cs ih =>
    intro s rs s' k ho h hno hi
    unfold run at h
    split at h
    · rename_i s1 r hstep
      simp only [Prod.mk.injEq] at h
      have h1 := system_stays_closed hstep ho (hno c (List.mem_cons_self))
      exact ih s1 _ s' k h1 (Prod.ext rfl h.2) (fun c' hc' => hno c' (List.mem_cons_of_mem _ hc')) hi
    · simp at h

/-- `TLClose` returning success leaves the system module (and the interface) closed. -/
theorem tlClose_success_closes {env : Env} {s s' : State} {h : Nat}
    (hstep : step env s (.tlClose h) = .done s' ⟨0, .plain⟩) :
    s'.sysOpen = false ∧ s'.ifOpen = false := by
  unfold step at hstep
  split at hstep
  · simp [finish, Err.code] at hstep
  · split at hstep
    · simp at hstep
    · simp only [body] at hstep
      split at hstep
      · split at hstep
        · simp only [finish] at hstep
          cases hstep
          simp [State.setSlot]
        · have := Err.code_neg .notInitialized
          simp [finish, Err.code] at hstep
      · rename_i e _
        have := Err.code_neg e
        simp only [finish, StepRes.done.injEq, Result.mk.injEq] at hstep
        obtain ⟨_, h0, _⟩ := hstep
        omega
      · simp [finish] at hstep

example : ∃ s', step exEnv ({ State.init exEnv with libInit := true, sysOpen := true }.setSlot 0 .sys)
    (.tlClose 0) = .done s' ⟨0, .plain⟩ := ⟨_, close_system_ok _ _ 0 rfl (by simp [State.setSlot]) rfl⟩

/-! ## 4. Every failing call is retrievable through GCGetLastError -/

/-- A call that returns an error code stores exactly that error — except the error query itself,
which never changes the stored error; a call that returns success leaves it alone too. -/
theorem last_error_tracks_step {env : Env} {s s' : State} {c : Call} {r : Result}
    (h : step env s c = .done s' r) :
    (r.code ≠ 0 → c.noSave = false → ∃ e, s'.lastErr = some e ∧ e.code = r.code) ∧
    (r.code = 0 ∨ c.noSave = true → s'.lastErr = s.lastErr) := by
  unfold step at h
  split at h
  · have := finish_done h
    refine ⟨fun h0 hs => this.2.2.2 h0 (by simp [hs]), ?_⟩
    rintro (h0 | hs)
    · rw [this.2.1 h0]
    · rw [this.2.2.1 (by simp [hs])]
  · split at h
    · cases h; simp
    · have := finish_done h
      refine ⟨fun h0 hs => this.2.2.2 h0 (by simp [hs]), ?_⟩
      rintro (h0 | hs)
      · rw [this.2.1 h0, body_lastErr]
      · rw [this.2.2.1 (by simp [hs]), body_lastErr]

/-- Induction over an arbitrary call sequence: the stored last error always carries the code of
the most recent failing call of the history (error queries aside). -/
theorem last_error_tracks_history (env : Env) (cs : List Call) :
    ∀ (s : State) (rs : List Result) (s' : State), run env s cs = (rs, some s') →
      s'.lastErr.map Err.code = lastFailure (s.lastErr.map Err.code) (cs.zip rs) := by
  induction cs with
  | nil => intro s rs s' h; simp [run] at h; obtain ⟨rfl, rfl⟩ := h; rfl
  | cons c cs ih =>
    intro s rs s' h
    unfold run at h
    split at h
    · rename_i s1 r hstep
      simp only [Prod.mk.injEq] at h
      have := ih s1 _ s' (Prod.ext rfl h.2)
      rw [this, ← h.1]
      simp only [lastFailure, List.zip_cons_cons, List.foldl_cons]
      congr 1
      have hl := last_error_tracks_step hstep
      by_cases h0 : r.code = 0
      · simp [h0, hl.2 (Or.inl h0)]
      · cases hs : c.noSave
        · obtain ⟨e, he, hc⟩ := hl.1 h0 hs
          simp [h0, he, hc, hs]
        · simp [hs, hl.2 (Or.inr hs)]
    · simp at h

/-- The error query never changes anything: whatever its arguments and its outcome (success,
BUFFER_TOO_SMALL, NOT_INITIALIZED), the state — in particular the stored error — is the same
afterwards, so "query the size, then retry" and repeated queries see the same error. -/
theorem error_query_changes_nothing {env : Env} {s s' : State} {d : Dst} {r : Result}
    (h : step env s (.getLastError d) = .done s' r) : s' = s := by
  unfold step at h
  split at h
  · simp only [Call.noSave, finish, Bool.not_true] at h
    cases h; rfl
  · split at h
    · cases h; rfl
    · simp only [body, Call.noSave, Bool.not_true] at h
      repeat' split at h
      all_goals (simp only [finish] at h; first | (cases h; rfl) | cases h | skip)

/-- `GCGetLastError` with a NULL text buffer or a buffer that is large enough returns success and
reports the stored error's code (and its text, NUL-terminated).  Hypothesis: the text is ASCII —
true unless the message texts are not, or INVALID_ID carries a non-ASCII id supplied by the caller. -/
theorem last_error_query (env : Env) (s : State) (e : Err) (d : Dst)
    (hi : s.libInit = true) (he : s.lastErr = some e) (ha : isAscii (e.text env) = true)
    (hd : ∀ old, d.buf = some old → (e.text env).length + 1 ≤ d.size) :
    step env s (.getLastError d) =
      .done s ⟨0, .lastError (some e.code)
        ⟨d.buf.map fun old => e.text env ++ [0] ++ old.drop ((e.text env).length + 1),
        (e.text env).length + 1⟩⟩ := by
  cases hb : d.buf with
  | none =>
    simp [step, Call.noAssert, Call.noSave, usesFreed, Call.handle?, body, hi, he, finish, copyTo, Val.image, ha, hb]
  | some old =>
    have := hd old hb
    have h2 : ¬ d.size < (e.text env).length + 1 := by omega
    simp [step, Call.noAssert, Call.noSave, usesFreed, Call.handle?, body, hi, he, finish, copyTo, Val.image, ha, hb, h2]

/-- `GCGetLastError` with a text buffer that is too small: BUFFER_TOO_SMALL, neither the buffer nor
the size nor `*piErrorCode` is written, and the stored error is still the one that was asked for. -/
theorem last_error_query_too_small (env : Env) (s : State) (e : Err) (old : Bytes) (n : Nat)
    (hi : s.libInit = true) (he : s.lastErr = some e) (ha : isAscii (e.text env) = true)
    (hn : n < (e.text env).length + 1) :
    step env s (.getLastError ⟨some old, n⟩) = .done s ⟨-1016, .lastError none ⟨some old, n⟩⟩ := by
  simp [step, Call.noAssert, Call.noSave, usesFreed, Call.handle?, body, hi, he, finish, copyTo, Val.image, ha, hn,
    Err.code, Call.untouched]

/-- Failing call, then query: the query returns the failing call's code (the library must be
initialised for the query to be answered at all). -/
theorem last_error_tracks (env : Env) (s s' : State) (c : Call) (r : Result) (n : Nat)
    (h : step env s c = .done s' r) (hf : r.code ≠ 0) (hc : c.noSave = false) (hi : s'.libInit = true)
    (ha : ∀ e, s'.lastErr = some e → isAscii (e.text env) = true) :
    ∃ size, step env s' (.getLastError ⟨none, n⟩) = .done s' ⟨0, .lastError (some r.code) ⟨none, size⟩⟩ := by
  obtain ⟨e, he, hc⟩ := (last_error_tracks_step h).1 hf hc
  refine ⟨(e.text env).length + 1, ?_⟩
  rw [← hc]
  have := last_error_query env s' e ⟨none, n⟩ hi he (ha e he) (by simp)
  simpa using this

/-- … and still does after any number of failed attempts to query it with a too-small buffer. -/
theorem last_error_survives_short_queries (env : Env) (s : State) (e : Err) (olds : List (Bytes × Nat)) (n : Nat)
    (hi : s.libInit = true) (he : s.lastErr = some e) (ha : isAscii (e.text env) = true)
    (hn : ∀ on ∈ olds, on.2 < (e.text env).length + 1) :
    ∃ rs, run env s (olds.map fun on => .getLastError ⟨some on.1, on.2⟩) = (rs, some s) ∧
      step env s (.getLastError ⟨none, n⟩) =
        .done s ⟨0, .lastError (some e.code) ⟨none, (e.text env).length + 1⟩⟩ := by
  refine ⟨olds.map fun on => ⟨-1016, .lastError none ⟨some on.1, on.2⟩⟩, ?_, ?_⟩
  · induction olds with
    | nil => rfl
    | cons on olds ih =>
      have h1 := last_error_query_too_small env s e on.1 on.2 hi he ha (hn on List.mem_cons_self)
      have h2 := ih (fun x hx => hn x (List.mem_cons_of_mem _ hx))
      simp [run, h1, h2]
  · have := last_error_query env s e ⟨none, n⟩ hi he ha (by simp)
    simpa using this

example : isAscii (Err.text exEnv (.invalidId (asc "x"))) = true := by decide

/-! ## 5. Buffer protocol -/

/-- NULL buffer ⇒ only the required size is reported. -/
theorem copyTo_null (v : Val) (img : Bytes) (n : Nat) (h : v.image = .ok img) :
    copyTo v ⟨none, n⟩ = .ok ⟨none, img.length⟩ := by
  simp [copyTo, h]

/-- capacity < needed ⇒ BUFFER_TOO_SMALL (and nothing is returned, i.e. nothing was stored). -/
theorem copyTo_too_small (v : Val) (img old : Bytes) (n : Nat) (h : v.image = .ok img)
    (hs : n < img.length) : copyTo v ⟨some old, n⟩ = .err .bufferTooSmall := by
  simp [copyTo, h, hs]

/-- otherwise: exactly the image at the front, the exact size, the rest of the buffer untouched and
the buffer not grown (`n ≤ old.length`: the caller's size does not exceed the real capacity). -/
theorem copyTo_fits (v : Val) (img old : Bytes) (n : Nat) (h : v.image = .ok img)
    (hs : img.length ≤ n) (hcap : n ≤ old.length) :
    ∃ new, copyTo v ⟨some old, n⟩ = .ok ⟨some new, img.length⟩ ∧ new.take img.length = img ∧
      new.drop img.length = old.drop img.length ∧ new.length = old.length := by
  refine ⟨img ++ old.drop img.length, ?_, ?_, ?_, ?_⟩
  · have : ¬ n < img.length := by omega
    simp [copyTo, h, this]
  · simp
  · simp
  · simp [List.length_append, List.length_drop]; omega

/-- String values are stored as the text followed by exactly one NUL; the required size counts it. -/
theorem string_image (s img : Bytes) (h : (Val.str s).image = .ok img) :
    img = s ++ [0] ∧ img.length = s.length + 1 ∧ isAscii s = true := by
  simp only [Val.image] at h
  split at h
  · cases h; simp_all
  · cases h

theorem numeric_image_length :
    (∀ v img, (Val.i32 v).image = .ok img → img.length = 4) ∧
    (∀ v img, (Val.u32 v).image = .ok img → img.length = 4) ∧
    (∀ v img, (Val.u64 v).image = .ok img → img.length = 8) ∧
    (∀ b img, (Val.bool8 b).image = .ok img → img.length = 1) := by
  refine ⟨?_, ?_, ?_, ?_⟩ <;> intro v img h <;> simp only [Val.image] at h <;> cases h <;> simp

/-- **Buffer protocol, every info query.**  For every state and every info entry point with every
handle / index / command / id (`q`), there is one answer that does not depend on the destination:
either the query is refused with an error code and all out-parameters (buffer contents, size,
type) stay as they were, or it has a value `v` — and then, for EVERY destination `d`, the call
behaves exactly as `protocol` prescribes: NULL ⇒ success, required size, type; capacity < needed ⇒
BUFFER_TOO_SMALL, buffer, size and type untouched; else success, the exact image (NUL-terminated
for strings) at the front of the buffer, rest untouched, exact size, type.  A skipped call is one
on a handle variable that was freed (not a valid handle). -/
theorem buffer_protocol (env : Env) (s : State) (q : Query) (hi : s.libInit = true)
    (hh : s.slots q.handle ≠ .freed) :
    (∃ e, queryValue env s q = .err e ∧ ∀ d, step env s (.info q d) =
        .done { s with lastErr := some e } ⟨e.code, .info none d⟩) ∨
    (∃ v, queryValue env s q = .ok v ∧ ∃ e, v.image = .err e ∧ ∀ d, step env s (.info q d) =
        .done { s with lastErr := some e } ⟨e.code, .info none d⟩) ∨
    (∃ v img, queryValue env s q = .ok v ∧ v.image = .ok img ∧ ∀ d,
      let p := protocol img v.dtype d
      step env s (.info q d) =
        .done (if p.1 = 0 then s else { s with lastErr := some .bufferTooSmall })
          ⟨p.1, .info (if q.typed then p.2.1 else none) p.2.2⟩) ∨
    (queryValue env s q = .panic ∧ ∀ d, step env s (.info q d) = .abort) := by
  have hfree : ∀ d, usesFreed s (.info q d) = false := by
    intro d; simp [usesFreed, Call.handle?, hh]
  cases hq : queryValue env s q with
  | err e =>
    left
    refine ⟨e, rfl, fun d => ?_⟩
    simp [step, Call.noAssert, Call.noSave, hi, hfree d, body, hq, finish, Call.untouched]
  | panic =>
    right; right; right
    refine ⟨rfl, fun d => ?_⟩
    simp [step, Call.noAssert, Call.noSave, hi, hfree d, body, hq, finish]
  | ok v =>
    right
    cases himg : v.image with
    | err e =>
      left
      refine ⟨v, rfl, e, himg, fun d => ?_⟩
      cases q.typed <;>
        simp [step, Call.noAssert, Call.noSave, hi, hfree d, body, hq, finish, Call.untouched, infoOut, copyOut, copyTo, himg]
    | panic =>
      exfalso
      cases v <;> simp [Val.image] at himg
      split at himg <;> cases himg
    | ok img =>
      right; left
      refine ⟨v, img, rfl, himg, fun d => ?_⟩
      cases hb : d.buf with
      | none =>
        cases ht : q.typed <;>
          simp [step, Call.noAssert, Call.noSave, hi, hfree d, body, hq, finish, Call.untouched, infoOut, copyOut,
            copyTo, himg, hb, protocol, ht]
      | some old =>
        by_cases hs : d.size < img.length
        · cases ht : q.typed <;>
            simp [step, Call.noAssert, Call.noSave, hi, hfree d, body, hq, finish, Call.untouched, infoOut, copyOut,
              copyTo, himg, hb, protocol, ht, hs, Err.code]
        · cases ht : q.typed <;>
            simp [step, Call.noAssert, Call.noSave, hi, hfree d, body, hq, finish, Call.untouched, infoOut, copyOut,
              copyTo, himg, hb, protocol, ht, hs]

/-- What `protocol` means, in plain terms. -/
theorem protocol_spec (img : Bytes) (ty : Nat) :
    (∀ n, protocol img ty ⟨none, n⟩ = (0, some ty, ⟨none, img.length⟩)) ∧
    (∀ old n, n < img.length → protocol img ty ⟨some old, n⟩ = (-1016, none, ⟨some old, n⟩)) ∧
    (∀ old n, img.length ≤ n → n ≤ old.length → ∃ new,
        protocol img ty ⟨some old, n⟩ = (0, some ty, ⟨some new, img.length⟩) ∧
        new.take img.length = img ∧ new.drop img.length = old.drop img.length ∧
        new.length = old.length) := by
  refine ⟨fun n => rfl, fun old n h => by simp [protocol, h], fun old n h1 h2 => ?_⟩
  refine ⟨img ++ old.drop img.length, ?_, by simp, by simp, ?_⟩
  · have : ¬ n < img.length := by omega
    simp [protocol, this]
  · simp [List.length_append, List.length_drop]; omega

/-- non-vacuity: TLGetInfo(TL_INFO_VENDOR) on an open system has a value (vendor + NUL) -/
example : ∃ v img, queryValue exEnv ({ State.init exEnv with libInit := true }.setSlot 0 .sys)
    (.tlGetInfo 0 1) = .ok v ∧ v.image = .ok img ∧ img.length = 2 :=
  ⟨.str (asc "V"), asc "V" ++ [0], by decide, by decide, by decide⟩

/-! ## 6. Ports: exactly the map's bytes or an error code, never a crash -/

/-- memory of a module -/
def memOf (s : State) : Module → Bytes
  | .system => s.sysMem
  | .interface => s.ifMem

/-- **Reads.**  For every module, every address and every size, `Port::read` either returns
exactly the `size` bytes of the module's map at `address` (and then the range lies inside the
map), or one of INVALID_ADDRESS / ACCESS_DENIED / NOT_INITIALIZED (interface not opened) — it
never panics.  No hypothesis on the state. -/
theorem port_read_exact_or_error (env : Env) (s : State) (m : Module) (address size : Nat) :
    (portRead env s m address size = .ok (((memOf s m).drop (asUsize address)).take size) ∧
      asUsize address + size ≤ (memOf s m).length) ∨
    portRead env s m address size = .err .invalidAddress ∨
    portRead env s m address size = .err .accessDenied ∨
    (portRead env s m address size = .err .notInitialized ∧ m = .interface ∧ s.ifOpen = false) := by
  cases m with
  | system =>
    rcases sysRead_cases env s address size with h | h | h
    · exact Or.inr (Or.inl h)
    · exact Or.inr (Or.inr (Or.inl h))
    · exact Or.inl h
  | interface =>
    rcases ifRead_cases env s address size with ⟨h, h2⟩ | h | h | ⟨h, h2, _⟩
    · exact Or.inr (Or.inr (Or.inr ⟨h, rfl, h2⟩))
    · exact Or.inr (Or.inl h)
    · exact Or.inr (Or.inr (Or.inl h))
    · exact Or.inl ⟨h, h2⟩

/-- The bytes returned have the requested length. -/
theorem port_read_length (env : Env) (s : State) (m : Module) (address size : Nat) (data : Bytes)
    (h : portRead env s m address size = .ok data) : data.length = size := by
  rcases port_read_exact_or_error env s m address size with ⟨h1, h2⟩ | h1 | h1 | ⟨h1, _⟩
  · rw [h1] at h; cases h
    simp [List.length_take, List.length_drop]; omega
  all_goals (rw [h1] at h; cases h)

/-- `GCReadPort` through the C wrapper, for every address and every size a buffer can have
(`size ≤ isize::MAX`) and a caller that owns the `size` bytes it names: never aborts; on success
the caller's buffer starts with exactly the map's bytes and `*piSize` is the requested size; on
error buffer and size are untouched and the error is one of the four codes (-1006 for a NULL
handle). -/
theorem gcReadPort_exact_or_error (env : Env) (s : State) (h address size : Nat) (buf : Bytes)
    (hi : s.libInit = true) (hfree : s.slots h ≠ .freed) (hsz : size ≤ ISIZE_MAX)
    (hb : size ≤ buf.length) :
    (∃ m, portOf (s.slots h) = .ok m ∧
      step env s (.gcReadPort h address size buf) =
        .done s ⟨0, .read size (((memOf s m).drop (asUsize address)).take size ++ buf.drop size)⟩ ∧
      asUsize address + size ≤ (memOf s m).length) ∨
    (∃ e, step env s (.gcReadPort h address size buf) =
        .done { s with lastErr := some e } ⟨e.code, .read size buf⟩ ∧
      (e = .invalidAddress ∨ e = .accessDenied ∨ e = .notInitialized ∨ e = .invalidHandle)) := by
  have hf : usesFreed s (.gcReadPort h address size buf) = false := by
    simp [usesFreed, Call.handle?, hfree]
  have hsz' : ¬ size > ISIZE_MAX := by omega
  cases hp : portOf (s.slots h) with
  | err e =>
    right
    have : e = .invalidHandle := by
      unfold portOf at hp; split at hp <;> simp_all
    subst this
    exact ⟨.invalidHandle, by simp [step, Call.noAssert, Call.noSave, hi, hf, body, hp, finish, Call.untouched, hsz'], by simp⟩
  | panic => unfold portOf at hp; split at hp <;> simp_all
  | ok m =>
    rcases port_read_exact_or_error env s m address size with ⟨h1, h2⟩ | h1 | h1 | ⟨h1, _⟩
    · left
      refine ⟨m, rfl, ?_, h2⟩
      have hl := port_read_length env s m address size _ h1
      simp [step, Call.noAssert, Call.noSave, hi, hf, body, hp, finish, h1, hl, hsz', hb]
    · right; exact ⟨.invalidAddress, by simp [step, Call.noAssert, Call.noSave, hi, hf, body, hp, finish, Call.untouched, h1, hsz'], by simp⟩
    · right; exact ⟨.accessDenied, by simp [step, Call.noAssert, Call.noSave, hi, hf, body, hp, finish, Call.untouched, h1, hsz'], by simp⟩
    · right; exact ⟨.notInitialized, by simp [step, Call.noAssert, Call.noSave, hi, hf, body, hp, finish, Call.untouched, h1, hsz'], by simp⟩

/-- A size no buffer can have (`> isize::MAX`, e.g. `u64::MAX`) is refused with INVALID_PARAMETER
before a slice is built from it — by `GCReadPort` and `GCWritePort`, whatever the handle. -/
theorem impossible_size_refused (env : Env) (s : State) (h address size : Nat) (buf : Bytes)
    (hi : s.libInit = true) (hsz : size > ISIZE_MAX) :
    (s.slots h ≠ .freed → step env s (.gcReadPort h address size buf) =
      .done { s with lastErr := some .invalidParameter } ⟨-1009, .read size buf⟩) ∧
    (s.slots h ≠ .freed → step env s (.gcWritePort h address size buf) =
      .done { s with lastErr := some .invalidParameter } ⟨-1009, .write size⟩) := by
  constructor <;> intro hfree <;>
    simp [step, Call.noAssert, Call.noSave, usesFreed, Call.handle?, hfree, hi, body, finish, Call.untouched, hsz, Err.code]

/-- A NULL required pointer parameter (out-pointer, `piSize`, `piType`, id string, port buffer,
stacked entry array / entry buffer) is refused with INVALID_PARAMETER before anything is
dereferenced or written, by every entry point, in every state, whatever the handle. -/
theorem null_pointer_refused (env : Env) (s : State) (c : Call) (hi : s.libInit = true) :
    step env s (.nullPtr c) =
      .done (if c.noSave then s else { s with lastErr := some .invalidParameter }) ⟨-1009, c.untouched⟩ := by
  cases hs : c.noSave <;>
    simp [step, Call.noAssert, Call.noSave, usesFreed, Call.handle?, hi, body, finish, Call.untouched, Err.code, hs]

/-- The stacked variants refuse an entry whose size no buffer can have (`> isize::MAX`) with
INVALID_PARAMETER before any entry is read or written, whatever the handle and the other entries. -/
theorem impossible_size_refused_stacked (env : Env) (s : State) (h : Nat) (es : List (Nat × Nat × Bytes))
    (hi : s.libInit = true) (hfree : s.slots h ≠ .freed)
    (hsz : es.any (fun e => decide (e.2.1 > ISIZE_MAX)) = true) :
    step env s (.gcReadPortStacked h es) =
      .done { s with lastErr := some .invalidParameter } ⟨-1009, .readStacked es.length (es.map fun e => e.2.2)⟩ ∧
    step env s (.gcWritePortStacked h es) =
      .done { s with lastErr := some .invalidParameter } ⟨-1009, .writeStacked es.length⟩ := by
  constructor <;>
    simp [step, Call.noAssert, Call.noSave, usesFreed, Call.handle?, hfree, hi, body, finish, Call.untouched,
      hsz, Err.code]

/-- **Writes.**  For every module, address and data, in every well-formed state, `Port::write`
never panics and either
* refuses with INVALID_ADDRESS / ACCESS_DENIED / NOT_INITIALIZED and changes NOTHING, or
* stores exactly `data` at `address` in the module's map (nothing else in either map changes;
  the range is inside the map and every byte of it is writable) and returns `Ok(len)` — or, when
  the register that was written triggers an action that fails, that action's error
  (INVALID_INDEX: selector out of range; NOT_IMPLEMENTED: device enumeration) AFTER the store. -/
theorem port_write_exact_or_error (env : Env) (s : State) (m : Module) (address : Nat) (data : Bytes)
    (hwf : WF env s) :
    (∃ e, portWrite env s m address data = (s, .err e) ∧
      (e = .invalidAddress ∨ e = .accessDenied ∨ (e = .notInitialized ∧ m = .interface ∧ s.ifOpen = false))) ∨
    (∃ s' r, portWrite env s m address data = (s', r) ∧
      memOf s' m = stored (memOf s m) (asUsize address) data ∧
      (∀ m', m' ≠ m → memOf s' m' = memOf s m') ∧
      asUsize address + data.length ≤ (memOf s m).length ∧
      (r = .ok data.length ∨ r = .err .invalidIndex ∨ (r = .err .notImplemented ∧ m = .interface))) := by
  cases m with
  | system =>
    rcases sysWrite_cases env s address data hwf.sys1100 hwf.idOk with h | h | ⟨q', r, h, hr, h2, _⟩
    · left; exact ⟨_, h, by simp⟩
    · left; exact ⟨_, h, by simp⟩
    · right
      refine ⟨_, r, h, rfl, ?_, h2, ?_⟩
      · intro m' hm; cases m' <;> simp_all [memOf]
      · rcases hr with rfl | rfl <;> simp
  | interface =>
    rcases ifWrite_cases env s address data with ⟨h, ho⟩ | h | h | ⟨q', r, h, hr, h2, _, _⟩
    · left; exact ⟨_, h, by simp [ho]⟩
    · left; exact ⟨_, h, by simp⟩
    · left; exact ⟨_, h, by simp⟩
    · right
      refine ⟨_, r, h, rfl, ?_, h2, ?_⟩
      · intro m' hm; cases m' <;> simp_all [memOf]
      · rcases hr with rfl | rfl | rfl <;> simp

/-- Well-formedness (memory sizes, InterfaceID register intact) holds initially, provided the
module path and the interface id fit their registers (otherwise `SystemModule::new` panics) … -/
theorem wf_init (env : Env) (hp : env.path.length ≤ 1024) (hi : env.ifc.id.length ≤ 64) :
    WF env (State.init env) := by
  have hz : ∀ n, (zeros n).length = n := by intro n; simp [zeros]
  have hpad : (padTo 1024 env.path).length = 1024 := by
    simp [padTo, List.length_append, hz]; omega
  have hid : (padTo 64 env.ifc.id).length = 64 := ID_IMAGE_length env hi
  refine ⟨?_, ?_, hi, ?_⟩
  · simp only [State.init, sysMemInit, List.length_append, hpad, hid, hz, SYS_XML_ADDRESS]
  · simp only [State.init, ifMemInit, List.length_append, hz]
  · simp only [State.init, sysMemInit, List.append_assoc]
    have e1 : (1036 : Nat) = (padTo 1024 env.path).length + 12 := by rw [hpad]
    rw [e1, List.drop_append]
    rw [List.drop_eq_nil_of_le (by omega), List.nil_append]
    simp only [Nat.add_sub_cancel_left]
    have e2 : zeros 4 ++ (zeros 4 ++ (zeros 4 ++ (padTo 64 env.ifc.id ++
        (zeros 8 ++ (zeros 4 ++ (zeros 4 ++ (zeros 4 ++ env.sysXml))))))) =
        (zeros 4 ++ zeros 4 ++ zeros 4) ++ (padTo 64 env.ifc.id ++
        (zeros 8 ++ (zeros 4 ++ (zeros 4 ++ (zeros 4 ++ env.sysXml))))) := by
      simp [List.append_assoc]
    rw [e2]
    have e3 : (12 : Nat) = (zeros 4 ++ zeros 4 ++ zeros 4).length + 0 := by simp [hz]
    rw [e3, List.drop_append, List.drop_eq_nil_of_le (by simp [hz]), List.nil_append]
    simp only [Nat.add_sub_cancel_left, List.drop_zero]
    rw [List.take_append_of_le_length (by rw [hid]; exact Nat.le_refl _)]
    rw [List.take_of_length_le (by rw [hid]; exact Nat.le_refl _)]
    rfl

/-- … and is preserved by every call, hence holds after every call sequence. -/
theorem wf_step {env : Env} {s s' : State} {c : Call} {r : Result}
    (h : step env s c = .done s' r) (hwf : WF env s) : WF env s' := by
  unfold step at h
  split at h
  · have := (finish_done h).1
    exact WF_congr this.2.2.2.1 this.2.2.2.2.1 hwf
  · split at h
    · cases h; exact hwf
    · have := (finish_done h).1
      exact WF_congr this.2.2.2.1 this.2.2.2.2.1 (body_wf env s c hwf)

theorem wf_run (env : Env) (cs : List Call) :
    ∀ (s : State) (rs : List Result) (s' : State), WF env s → run env s cs = (rs, some s') → WF env s' := by
  induction cs with
  | nil => intro s rs s' hwf h; simp [run] at h; rw [← h.2]; exact hwf
  | cons c cs ih =>
    intro s rs s' hwf h
    unfold run at h
    split at h
    · rename_i s1 r hstep
      simp only [Prod.mk.injEq] at h
      exact ih s1 _ s' (wf_step hstep hwf) (Prod.ext rfl h.2)
    · simp at h

/-- `GCWritePort` through the C wrapper never aborts the process (well-formed state, a caller
that owns the `size` bytes it names), for every address and every size. -/
theorem gcWritePort_never_aborts (env : Env) (s : State) (h address size : Nat) (data : Bytes)
    (hwf : WF env s) (hd : data.length = size) :
    step env s (.gcWritePort h address size data) ≠ .abort := by
  unfold step
  split
  · simp [finish]
  · split
    · simp
    · simp only [body]
      split
      · simp [finish]
      · split
        · rename_i m _
          have e1 : portWriteSized env s m address size data = portWrite env s m address data := by
            simp [portWriteSized, hd]
          rw [e1]
          rcases port_write_exact_or_error env s m address data hwf with ⟨e, h1, _⟩ | ⟨s', r, h1, _, _, _, hr⟩
          · rw [h1]; simp [finish]
          · rw [h1]
            rcases hr with rfl | rfl | ⟨rfl, _⟩ <;> simp [finish]
        · simp [finish]
        · rename_i hp; unfold portOf at hp; split at hp <;> simp_all

/-- non-vacuity of the write theorem: a 4-byte write of zero to the InterfaceSelector register
(address 1028) of a well-formed initial state is stored and returns Ok. -/
example : (sysMap exEnv).rightOfRange 1028 1032 = .rw := by decide

/-! ## 7. No call, and no call sequence, aborts the process -/

private theorem wantSystem_ne_panic (x : Slot) : wantSystem x ≠ .panic := by cases x <;> simp [wantSystem]
private theorem wantInterface_ne_panic (x : Slot) : wantInterface x ≠ .panic := by cases x <;> simp [wantInterface]
private theorem portOf_ne_panic (x : Slot) : portOf x ≠ .panic := by cases x <;> simp [portOf]
private theorem portMeta_ne_panic (s : State) (m : Module) : portMeta s m ≠ .panic := by
  cases m <;> simp [portMeta]; split <;> simp

private theorem image_ne_panic (v : Val) : v.image ≠ .panic := by
  cases v <;> simp [Val.image]
  split <;> simp

private theorem copyTo_ne_panic (v : Val) (d : Dst) : copyTo v d ≠ .panic := by
  unfold copyTo
  have := image_ne_panic v
  split
  · split
    · split <;> simp
    · simp
  · simp
  · contradiction

private theorem portRead_ne_panic (env : Env) (s : State) (m : Module) (a n : Nat) :
    portRead env s m a n ≠ .panic := by
  rcases port_read_exact_or_error env s m a n with ⟨h, _⟩ | h | h | ⟨h, _⟩ <;> rw [h] <;> simp

private theorem portWrite_ne_panic (env : Env) (s : State) (m : Module) (a : Nat) (d : Bytes) (hwf : WF env s) :
    (portWrite env s m a d).2 ≠ .panic := by
  rcases port_write_exact_or_error env s m a d hwf with ⟨e, h, _⟩ | ⟨s', r, h, _, _, _, hr⟩
  · rw [h]; simp
  · rw [h]; rcases hr with rfl | rfl | ⟨rfl, _⟩ <;> simp

private theorem readStacked_ne_panic (env : Env) (s : State) (m : Module) (es : List (Nat × Nat × Bytes)) (n : Nat)
    (acc : List Bytes) (hh : es.all (fun e => decide (e.2.1 ≤ e.2.2.length)) = true) :
    (readStacked env s m es n acc).2.2 ≠ .panic := by
  induction es generalizing n acc with
  | nil => simp [readStacked]
  | cons e es ih =>
    obtain ⟨a, size, buf⟩ := e
    simp only [List.all_cons, Bool.and_eq_true, decide_eq_true_eq] at hh
    unfold readStacked
    split
    · rw [if_pos hh.1]; exact ih _ _ hh.2
    · simp
    · rename_i h; exact absurd h (portRead_ne_panic env s m a size)

private theorem writeStacked_ne_panic (env : Env) (m : Module) (s : State) (es : List (Nat × Nat × Bytes)) (n : Nat)
    (hwf : WF env s) (hh : es.all (fun e => decide (e.2.2.length = e.2.1)) = true) :
    (writeStacked env m s es n).2.2 ≠ .panic := by
  induction es generalizing s n with
  | nil => simp [writeStacked]
  | cons e es ih =>
    obtain ⟨a, size, data⟩ := e
    simp only [List.all_cons, Bool.and_eq_true, decide_eq_true_eq] at hh
    unfold writeStacked
    have e1 : portWriteSized env s m a size data = portWrite env s m a data := by
      simp [portWriteSized, hh.1]
    rw [e1]
    split
    · rename_i s' _ heq
      exact ih _ _ (portWrite_eq_wf hwf heq) hh.2
    · simp
    · rename_i s' heq
      have := portWrite_ne_panic env s m a data hwf
      rw [heq] at this
      simp at this

private theorem tlInfo_ne_panic (env : Env) (cmd : Int) (r : Res Err Val) (hp : fileName env.path ≠ none)
    (h : tlInfo env cmd = some r) : r ≠ .panic := by
  unfold tlInfo at h
  repeat' split at h
  all_goals (try (cases h; simp))
  all_goals simp_all

private theorem urlInfo_ne_panic (env : Env) (m : Module) (cmd : Int) : urlInfo env m cmd ≠ .panic := by
  unfold urlInfo
  repeat' split
  all_goals simp

private theorem queryValue_ne_panic (env : Env) (s : State) (q : Query) (hp : fileName env.path ≠ none) :
    queryValue env s q ≠ .panic := by
  cases q <;> simp only [queryValue] <;> (repeat' split) <;>
    simp_all [wantSystem_ne_panic, wantInterface_ne_panic, portOf_ne_panic, portMeta_ne_panic, urlInfo_ne_panic]
  exact tlInfo_ne_panic env _ _ hp (by assumption)

private theorem infoOut_ne_panic (v : Val) (d : Dst) : infoOut v d ≠ .panic := by
  unfold infoOut; have := copyTo_ne_panic v d; split <;> simp_all

private theorem copyOut_ne_panic (v : Val) (d : Dst) : copyOut v d ≠ .panic := by
  unfold copyOut; have := copyTo_ne_panic v d; split <;> simp_all

private theorem portWriteSized_eq_ne_panic {env : Env} {s s' : State} {m : Module} {a size : Nat} {d : Bytes}
    {r : GR Nat} (hwf : WF env s) (hd : d.length = size)
    (h : portWriteSized env s m a size d = (s', r)) : r ≠ .panic := by
  have := portWrite_ne_panic env s m a d hwf
  have e1 : portWriteSized env s m a size d = portWrite env s m a d := by simp [portWriteSized, hd]
  rw [e1] at h
  rw [h] at this; exact this

private theorem readStacked_eq_ne_panic {env : Env} {s : State} {m : Module} {es : List (Nat × Nat × Bytes)}
    {n k : Nat} {acc bufs : List Bytes} {r : GR Unit}
    (hh : es.all (fun e => decide (e.2.1 ≤ e.2.2.length)) = true)
    (h : readStacked env s m es n acc = (k, bufs, r)) : r ≠ .panic := by
  have := readStacked_ne_panic env s m es n acc hh
  rw [h] at this; exact this

private theorem writeStacked_eq_ne_panic {env : Env} {m : Module} {s s' : State} {es : List (Nat × Nat × Bytes)}
    {n k : Nat} {r : GR Unit} (hwf : WF env s)
    (hh : es.all (fun e => decide (e.2.2.length = e.2.1)) = true)
    (h : writeStacked env m s es n = (s', k, r)) : r ≠ .panic := by
  have := writeStacked_ne_panic env m s es n hwf hh
  rw [h] at this; exact this

private theorem honest_write {h a size : Nat} {d : Bytes}
    (hh : (Call.gcWritePort h a size d).honest = true) (hn : ¬ size > ISIZE_MAX) : d.length = size := by
  simp only [Call.honest, Bool.or_eq_true, decide_eq_true_eq] at hh
  rcases hh with h1 | h1
  · exact h1
  · exact absurd h1 hn

private theorem honest_reads {h : Nat} {es : List (Nat × Nat × Bytes)}
    (hh : (Call.gcReadPortStacked h es).honest = true)
    (hn : ¬ (es.any fun e => decide (e.2.1 > ISIZE_MAX)) = true) :
    es.all (fun e => decide (e.2.1 ≤ e.2.2.length)) = true := by
  simp only [Call.honest, Bool.or_eq_true] at hh
  rcases hh with h1 | h1
  · exact absurd h1 hn
  · exact h1

private theorem honest_writes {h : Nat} {es : List (Nat × Nat × Bytes)}
    (hh : (Call.gcWritePortStacked h es).honest = true)
    (hn : ¬ (es.any fun e => decide (e.2.1 > ISIZE_MAX)) = true) :
    es.all (fun e => decide (e.2.2.length = e.2.1)) = true := by
  simp only [Call.honest, Bool.or_eq_true] at hh
  rcases hh with h1 | h1
  · exact absurd h1 hn
  · exact h1

/-- No call body panics in a well-formed state (honest buffer sizes). -/
private theorem body_ne_panic (env : Env) (s : State) (c : Call) (hwf : WF env s) (hp : fileName env.path ≠ none)
    (hh : c.honest = true) : (body env s c).res ≠ .panic := by
  cases c <;> simp only [body] <;> (repeat' split)
  all_goals (try simp)
  all_goals first
    | exact infoOut_ne_panic _ _
    | exact copyOut_ne_panic _ _
    | exact portWriteSized_eq_ne_panic hwf (honest_write hh (by assumption)) (by assumption) rfl
    | exact readStacked_eq_ne_panic (honest_reads hh (by assumption)) (by assumption) rfl
    | exact writeStacked_eq_ne_panic hwf (honest_writes hh (by assumption)) (by assumption) rfl
    | simp_all [Call.honest, wantSystem_ne_panic, wantInterface_ne_panic, portOf_ne_panic, portMeta_ne_panic,
        copyTo_ne_panic, queryValue_ne_panic, portRead_ne_panic]

/-- **No C call aborts the process**: in every well-formed state (every state reachable from the
initial one, `wf_init` / `wf_run`), every entry point with every argument — any handle variable,
index, command, id, address, size up to and beyond `isize::MAX`, NULL pointers — returns.
`c.honest`: the caller owns the buffer sizes it names (otherwise the copy itself is out of bounds
in the caller's memory). -/
theorem step_never_aborts (env : Env) (s : State) (c : Call) (hwf : WF env s)
    (hp : fileName env.path ≠ none) (hh : c.honest = true) : step env s c ≠ .abort := by
  unfold step
  split
  · simp [finish]
  · split
    · simp
    · have := body_ne_panic env s c hwf hp hh
      unfold finish
      split <;> simp_all

/-- … hence no call sequence does: from a well-formed state `run` always ends with a state. -/
theorem run_never_aborts (env : Env) (hp : fileName env.path ≠ none) (cs : List Call)
    (hh : ∀ c ∈ cs, c.honest = true) :
    ∀ s, WF env s → ∃ rs s', run env s cs = (rs, some s') ∧ rs.length = cs.length := by
  induction cs with
  | nil => intro s _; exact ⟨[], s, rfl, rfl⟩
  | cons c cs ih =>
    intro s hwf
    cases hstep : step env s c with
    | abort => exact absurd hstep (step_never_aborts env s c hwf hp (hh c List.mem_cons_self))
    | done s1 r =>
      obtain ⟨rs, s', h, hl⟩ := ih (fun c' hc' => hh c' (List.mem_cons_of_mem _ hc')) s1 (wf_step hstep hwf)
      exact ⟨r :: rs, s', by simp [run, hstep, h], by simp [hl]⟩

example : fileName (asc "/repo/gentl/src/imp/system/mod.rs") = some (asc "mod.rs") := by decide

/-- From the library's initial state no call sequence whatsoever — any entry points, any handle
variables (NULL or live; a call on a handle variable that was freed by a successful close is
undefined behaviour in C, the model does not make it: `Out.skipped`), indexes, commands, ids,
buffers, NULL pointers, addresses, sizes (honest: the caller owns the bytes it names), data —
crashes the process. -/
theorem no_call_sequence_crashes (env : Env) (hlen : env.path.length ≤ 1024)
    (hid : env.ifc.id.length ≤ 64)
    (hname : fileName env.path ≠ none) (cs : List Call) (hh : ∀ c ∈ cs, c.honest = true) :
    ∃ rs s', run env (State.init env) cs = (rs, some s') ∧ rs.length = cs.length :=
  run_never_aborts env hname cs hh _ (wf_init env hlen hid)

/-- `honest` covers port calls with impossible sizes (no buffer needed: they are refused up
front), NULL-pointer calls and ordinary calls with the buffer they name; it excludes a possible
size with a shorter buffer. -/
example : (Call.gcReadPort 0 0 (2 ^ 64 - 1) []).honest = true ∧
    (Call.gcWritePortStacked 0 [(1028, 4, [0, 0, 0, 0]), (0, 2 ^ 63, [])]).honest = true ∧
    (Call.nullPtr (.gcReadPort 0 0 8 [])).honest = true ∧
    (Call.gcWritePort 0 1028 4 [0, 0, 0, 0]).honest = true ∧
    (Call.gcReadPort 0 0 8 [0]).honest = false := by decide

/-! ## 8. The register tables are the `#[register_map]` layout -/

/-- Addresses are base 0 + running sum of the lengths, the XML register closes each map, and
re-writing the InterfaceID register (what `handle_interface_selector_change` does) notifies no
observer — for every XML length. -/
theorem register_layout (env : Env) :
    layoutOk 0 (sysMap env).regs = true ∧ layoutOk 0 (ifMap env).regs = true ∧
    (sysMap env).size = 1120 + env.sysXml.length ∧ (ifMap env).size = 336 + env.ifXml.length ∧
    fired (sysMap env) 1036 1100 = [] := by
  refine ⟨?_, ?_, rfl, rfl, ?_⟩
  · simp [layoutOk, sysMap, SYS_XML_ADDRESS]
  · simp [layoutOk, ifMap, IF_XML_ADDRESS]
  · simp [fired, sysMap]

/-! ## 9. Zero-length port accesses -/

private theorem rightOfRange_empty (m : MapDecl) (a : Nat) : m.rightOfRange a a = .rw := by
  simp [MapDecl.rightOfRange]

private theorem fired_empty (m : MapDecl) (a : Nat) : fired m a a = [] := by
  unfold fired
  rw [List.filterMap_eq_nil_iff]
  intro x _
  obtain ⟨lo, hi, ev⟩ := x
  have : max a lo ≥ min a hi := Nat.le_trans (Nat.min_le_left a hi) (Nat.le_max_left a lo)
  simp [this]

/-- the pending-event queue of a module -/
def queueOf (s : State) : Module → List Event
  | .system => s.sysQueue
  | .interface => s.ifQueue

/-- **Zero-length reads.**  A read of 0 bytes at ANY address up to and including the end of the
module's map (address 0, a register boundary, inside a write-only register, exactly the end)
succeeds with no bytes — no access right is consulted for an empty range; past the end it is
INVALID_ADDRESS.  (Interface: when it is open, as for every port access.) -/
theorem zero_size_read (env : Env) (s : State) (m : Module) (address : Nat)
    (ho : m = .interface → s.ifOpen = true) :
    (asUsize address ≤ (memOf s m).length → portRead env s m address 0 = .ok []) ∧
    (asUsize address > (memOf s m).length → portRead env s m address 0 = .err .invalidAddress) := by
  have hlt : asUsize address < 2 ^ 64 := by unfold asUsize; exact Nat.mod_lt _ (by decide)
  cases m with
  | system =>
    simp only [memOf]
    constructor <;> intro h
    · have h' : ¬ s.sysMem.length < asUsize address := by omega
      simp [portRead, sysRead, checkedAdd, hlt, readRaw, rightOfRange_empty, Access.isReadable, Access.asNum,
        slice, liftMem, h, h']
    · simp [portRead, sysRead, checkedAdd, hlt, readRaw, liftMem, h, MemErr.toErr]
  | interface =>
    have hopen := ho rfl
    simp only [memOf]
    constructor <;> intro h
    · have h' : ¬ s.ifMem.length < asUsize address := by omega
      simp [portRead, ifRead, hopen, checkedAdd, hlt, readRaw, rightOfRange_empty, Access.isReadable, Access.asNum,
        slice, liftMem, h, h']
    · simp [portRead, ifRead, hopen, checkedAdd, hlt, readRaw, liftMem, h, MemErr.toErr]

/-- `GCReadPort` with `*piSize = 0` inside the map: success, size 0, the caller's buffer untouched. -/
theorem gcReadPort_zero_size (env : Env) (s : State) (h address : Nat) (buf : Bytes) (m : Module)
    (hi : s.libInit = true) (hp : portOf (s.slots h) = .ok m) (ho : m = .interface → s.ifOpen = true)
    (hin : asUsize address ≤ (memOf s m).length) :
    step env s (.gcReadPort h address 0 buf) = .done s ⟨0, .read 0 buf⟩ := by
  have hfree : s.slots h ≠ .freed := by
    intro hf; rw [hf] at hp; simp [portOf] at hp
  have h1 := (zero_size_read env s m address ho).1 hin
  simp [step, Call.noAssert, Call.noSave, usesFreed, Call.handle?, hfree, hi, body, hp, h1, finish, ISIZE_MAX]

/-- **Zero-length writes.**  A write of 0 bytes at any address up to and including the end of the
map is accepted without consulting an access right, fires no observer and — when no event is
pending from an earlier failed handler — changes nothing at all and returns `Ok(0)`. -/
theorem zero_size_write (env : Env) (s : State) (m : Module) (address : Nat)
    (ho : m = .interface → s.ifOpen = true) (hq : queueOf s m = [])
    (hin : asUsize address ≤ (memOf s m).length) :
    portWrite env s m address [] = (s, .ok 0) := by
  have hlt : asUsize address < 2 ^ 64 := by unfold asUsize; exact Nat.mod_lt _ (by decide)
  cases m with
  | system =>
    simp only [memOf] at hin
    simp only [queueOf] at hq
    have h' : ¬ s.sysMem.length < asUsize address := by omega
    simp [portWrite, sysWrite, checkedAdd, hlt, writeRaw, rightOfRange_empty, Access.isWritable, Access.asNum,
      splice, hin, h', fired_empty, hq, sysHandleEvents]
    cases s; simp_all
  | interface =>
    have hopen := ho rfl
    simp only [memOf] at hin
    simp only [queueOf] at hq
    have h' : ¬ s.ifMem.length < asUsize address := by omega
    simp [portWrite, ifWrite, hopen, checkedAdd, hlt, writeRaw, rightOfRange_empty, Access.isWritable, Access.asNum,
      splice, hin, h', fired_empty, hq, ifHandleEvents]
    cases s; simp_all

/-- Whatever is pending, a zero-length write inside the map leaves both register memories as they
were (well-formed state); only a pending event's handler may report its error. -/
theorem zero_size_write_keeps_memory (env : Env) (s : State) (m : Module) (address : Nat) (hwf : WF env s) :
    ∀ m', memOf (portWrite env s m address []).1 m' = memOf s m' := by
  intro m'
  rcases port_write_exact_or_error env s m address [] hwf with ⟨e, h1, _⟩ | ⟨s', r, h1, h2, h3, h4, _⟩
  · rw [h1]
  · rw [h1]
    by_cases hm : m' = m
    · subst hm
      simp only
      rw [h2]
      simp [stored]
    · exact h3 m' hm

/-- non-vacuity: the end of a 2-byte map with an empty queue -/
example : asUsize 2 ≤ (memOf { State.init exEnv with sysMem := [1, 2] } .system).length ∧
    queueOf { State.init exEnv with sysMem := [1, 2] } .system = [] := by decide

/-! ## 10. The last error across GCCloseLib / GCInitLib -/

/-- `GCCloseLib` on an initialised library succeeds and touches nothing but the flag: module
flags, handles, register memories and the stored last error all survive. -/
theorem close_lib_ok (env : Env) (s : State) (h : s.libInit = true) :
    step env s .closeLib = .done { s with libInit := false } ⟨0, .plain⟩ := by
  simp [step, Call.noAssert, Call.noSave, usesFreed, Call.handle?, body, h, finish]

/-- **The last error survives re-initialisation.**  A call refused with NOT_INITIALIZED after
`GCCloseLib` cannot be queried at once (the query itself is refused — without disturbing the
stored error), but it IS recorded: after the next `GCInitLib` the query reports -1002.  The
complete history, call by call, for every state, every call `c` (other than `GCInitLib` and the
error query) and every buffer of the refused query. -/
theorem last_error_survives_reinit (env : Env) (s : State) (c : Call) (d : Dst) (n : Nat)
    (hi : s.libInit = true) (hc : c ≠ .initLib) (hs : c.noSave = false)
    (ha : isAscii (Err.notInitialized.text env) = true) :
    run env s [.closeLib, c, .getLastError d, .initLib, .getLastError ⟨none, n⟩] =
      ([⟨0, .plain⟩, ⟨-1002, c.untouched⟩, ⟨-1002, .lastError none d⟩, ⟨0, .plain⟩,
        ⟨0, .lastError (some (-1002)) ⟨none, (Err.notInitialized.text env).length + 1⟩⟩],
       some { s with libInit := true, lastErr := some .notInitialized }) := by
  have h1 := close_lib_ok env s hi
  have h2 := not_initialized_outside env { s with libInit := false } c rfl hc
  rw [hs] at h2
  have h3 := not_initialized_outside env { s with libInit := false, lastErr := some .notInitialized }
    (.getLastError d) rfl (by simp)
  have h4 := init_ok env { s with libInit := false, lastErr := some .notInitialized } rfl
  have h5 := last_error_query env { s with libInit := true, lastErr := some .notInitialized } .notInitialized
    ⟨none, n⟩ rfl rfl ha (by simp)
  simp only [Bool.false_eq_true, if_false] at h2
  simp only [Call.noSave, if_true, Call.untouched] at h3
  simp only [Option.map_none] at h5
  simp [run, h1, h2, h3, h4, h5, Err.code]

/-- The same across ANY history: whatever calls follow a failing call — closing and
re-initialising the library any number of times, error queries (answered or refused), any call
that succeeds — the stored error is still that call's until another call fails. -/
theorem last_error_survives_history (env : Env) (cs : List Call) (s s' : State) (rs : List Result) (e : Err)
    (he : s.lastErr = some e) (hrun : run env s cs = (rs, some s'))
    (hok : ∀ cr ∈ cs.zip rs, cr.2.code = 0 ∨ cr.1.noSave = true) :
    s'.lastErr.map Err.code = some e.code := by
  rw [last_error_tracks_history env cs s rs s' hrun, he]
  simp only [lastFailure, Option.map_some]
  generalize cs.zip rs = l at hok
  induction l with
  | nil => rfl
  | cons x xs ih =>
    simp only [List.foldl_cons]
    have hx := hok x List.mem_cons_self
    have : ¬ (x.2.code ≠ 0 ∧ x.1.noSave = false) := by
      rintro ⟨h1, h2⟩
      rcases hx with h | h
      · exact h1 h
      · rw [h] at h2; cases h2
    rw [if_neg this]
    exact ih (fun cr hcr => hok cr (List.mem_cons_of_mem _ hcr))

/-- non-vacuity: the C19-r3-seed1 scenario — `TLOpen` after `GCCloseLib` -/
example : (Call.tlOpen 0) ≠ .initLib ∧ (Call.tlOpen 0).noSave = false ∧
    isAscii (Err.notInitialized.text exEnv) = true := ⟨by simp, rfl, by decide⟩

/-! ## 11. The stacked variants transfer exactly, entry by entry -/

/-- the caller's buffer of a stacked read entry `(address, size, buffer)` after that entry was
transferred: exactly the `size` bytes of the map at `address`, then the rest of the buffer -/
def transferred (s : State) (m : Module) (e : Nat × Nat × Bytes) : Bytes :=
  ((memOf s m).drop (asUsize e.1)).take e.2.1 ++ e.2.2.drop e.2.1

private theorem readStacked_spec (env : Env) (s : State) (m : Module) (es : List (Nat × Nat × Bytes)) :
    ∀ (n : Nat) (acc : List Bytes), es.all (fun e => decide (e.2.1 ≤ e.2.2.length)) = true →
    ∃ k, k ≤ es.length ∧
      (∀ x ∈ es.take k, asUsize x.1 + x.2.1 ≤ (memOf s m).length) ∧
      ((k = es.length ∧
          readStacked env s m es n acc = (n + es.length, acc ++ es.map (transferred s m), .ok ())) ∨
       (k < es.length ∧ ∃ err, (err = .invalidAddress ∨ err = .accessDenied ∨ err = .notInitialized) ∧
          readStacked env s m es n acc =
            (n + k, acc ++ (es.take k).map (transferred s m) ++ (es.drop k).map (·.2.2), .err err))) := by
  induction es with
  | nil => intro n acc _; exact ⟨0, Nat.le_refl _, by simp, Or.inl ⟨rfl, by simp [readStacked]⟩⟩
  | cons x es ih =>
    intro n acc hh
    obtain ⟨a, size, buf⟩ := x
    simp only [List.all_cons, Bool.and_eq_true, decide_eq_true_eq] at hh
    have herr : ∀ err, portRead env s m a size = .err err →
        (err = .invalidAddress ∨ err = .accessDenied ∨ err = .notInitialized) →
        ∃ k, k ≤ ((a, size, buf) :: es).length ∧
          (∀ x ∈ ((a, size, buf) :: es).take k, asUsize x.1 + x.2.1 ≤ (memOf s m).length) ∧
          ((k = ((a, size, buf) :: es).length ∧
              readStacked env s m ((a, size, buf) :: es) n acc =
                (n + ((a, size, buf) :: es).length, acc ++ ((a, size, buf) :: es).map (transferred s m), .ok ())) ∨
           (k < ((a, size, buf) :: es).length ∧ ∃ err, (err = .invalidAddress ∨ err = .accessDenied ∨ err = .notInitialized) ∧
              readStacked env s m ((a, size, buf) :: es) n acc =
                (n + k, acc ++ (((a, size, buf) :: es).take k).map (transferred s m) ++
                  (((a, size, buf) :: es).drop k).map (·.2.2), .err err))) := by
      intro err h1 hc
      refine ⟨0, Nat.zero_le _, by simp, Or.inr ⟨by simp, err, hc, ?_⟩⟩
      simp [readStacked, h1]
    rcases port_read_exact_or_error env s m a size with ⟨h1, h2⟩ | h1 | h1 | ⟨h1, _⟩
    · have hl := port_read_length env s m a size _ h1
      obtain ⟨k, hk, hin, hres⟩ := ih (n + 1)
        (acc ++ [((memOf s m).drop (asUsize a)).take size ++ buf.drop size]) hh.2
      have hstep : readStacked env s m ((a, size, buf) :: es) n acc =
          readStacked env s m es (n + 1) (acc ++ [((memOf s m).drop (asUsize a)).take size ++ buf.drop size]) := by
        simp only [readStacked, h1, hh.1, if_true, hl]
      refine ⟨k + 1, by simp; omega, ?_, ?_⟩
      · intro x hx
        simp only [List.take_succ_cons, List.mem_cons] at hx
        rcases hx with rfl | hx
        · exact h2
        · exact hin x hx
      · rcases hres with ⟨hk', hr⟩ | ⟨hk', err, hc, hr⟩
        · left
          refine ⟨by simp [hk'], ?_⟩
          rw [hstep, hr]
          simp [transferred, Nat.add_assoc, Nat.add_comm 1]
        · right
          refine ⟨by simp; omega, err, hc, ?_⟩
          rw [hstep, hr]
          simp [transferred, Nat.add_assoc, Nat.add_comm 1]
    · exact herr _ h1 (Or.inl rfl)
    · exact herr _ h1 (Or.inr (Or.inl rfl))
    · exact herr _ h1 (Or.inr (Or.inr rfl))

/-- **GCReadPortStacked is exact.**  Entries are processed in order.  There is a number `k` of
completed entries: each of the first `k` lies inside the map and its buffer now starts with
exactly the map's bytes of its range (rest of the buffer untouched).  Either `k` is the number of
entries, the call returns success and `*piNumEntries` is unchanged (= all of them); or entry `k`
is the first that fails, the call returns THAT entry's error (INVALID_ADDRESS / ACCESS_DENIED /
NOT_INITIALIZED), `*piNumEntries = k`, and the buffers of entry `k` and of all later entries are
untouched.  (Sizes a buffer can have, honest buffers, a live port handle.) -/
theorem read_port_stacked_exact (env : Env) (s : State) (h : Nat) (es : List (Nat × Nat × Bytes)) (m : Module)
    (hi : s.libInit = true) (hp : portOf (s.slots h) = .ok m)
    (hsz : es.any (fun e => decide (e.2.1 > ISIZE_MAX)) = false)
    (hh : es.all (fun e => decide (e.2.1 ≤ e.2.2.length)) = true) :
    ∃ k, k ≤ es.length ∧
      (∀ x ∈ es.take k, asUsize x.1 + x.2.1 ≤ (memOf s m).length) ∧
      ((k = es.length ∧ step env s (.gcReadPortStacked h es) =
          .done s ⟨0, .readStacked es.length (es.map (transferred s m))⟩) ∨
       (k < es.length ∧ ∃ err, (err = .invalidAddress ∨ err = .accessDenied ∨ err = .notInitialized) ∧
          step env s (.gcReadPortStacked h es) =
            .done { s with lastErr := some err }
              ⟨err.code, .readStacked k ((es.take k).map (transferred s m) ++ (es.drop k).map (·.2.2))⟩)) := by
  have hfree : s.slots h ≠ .freed := by
    intro hf; rw [hf] at hp; simp [portOf] at hp
  obtain ⟨k, hk, hin, hres⟩ := readStacked_spec env s m es 0 [] hh
  refine ⟨k, hk, hin, ?_⟩
  rcases hres with ⟨hk', hr⟩ | ⟨hk', err, hc, hr⟩
  · left
    refine ⟨hk', ?_⟩
    simp [step, Call.noAssert, Call.noSave, usesFreed, Call.handle?, hfree, hi, body, hsz, hp, hr, finish]
  · right
    refine ⟨hk', err, hc, ?_⟩
    simp [step, Call.noAssert, Call.noSave, usesFreed, Call.handle?, hfree, hi, body, hsz, hp, hr, finish]

/-- register memory after the data of the write entries `(address, size, data)` were stored one
after the other, in order -/
def storedAll (mem : Bytes) (es : List (Nat × Nat × Bytes)) : Bytes :=
  es.foldl (fun mem e => stored mem (asUsize e.1) e.2.2) mem

private theorem writeStacked_spec (env : Env) (m : Module) (es : List (Nat × Nat × Bytes)) :
    ∀ (s : State) (n : Nat), WF env s → es.all (fun e => decide (e.2.2.length = e.2.1)) = true →
    ∃ k s', k ≤ es.length ∧ (∀ m', m' ≠ m → memOf s' m' = memOf s m') ∧
      ((k = es.length ∧ writeStacked env m s es n = (s', n + es.length, .ok ()) ∧
          memOf s' m = storedAll (memOf s m) es) ∨
       (k < es.length ∧ ∃ err, writeStacked env m s es n = (s', n + k, .err err) ∧
          (((err = .invalidAddress ∨ err = .accessDenied ∨ err = .notInitialized) ∧
              memOf s' m = storedAll (memOf s m) (es.take k)) ∨
           ((err = .invalidIndex ∨ err = .notImplemented) ∧
              memOf s' m = storedAll (memOf s m) (es.take (k + 1)))))) := by
  induction es with
  | nil =>
    intro s n _ _
    exact ⟨0, s, Nat.le_refl _, fun _ _ => rfl, Or.inl ⟨rfl, by simp [writeStacked], rfl⟩⟩
  | cons x es ih =>
    intro s n hwf hh
    obtain ⟨a, size, data⟩ := x
    simp only [List.all_cons, Bool.and_eq_true, decide_eq_true_eq] at hh
    have e1 : portWriteSized env s m a size data = portWrite env s m a data := by
      simp [portWriteSized, hh.1]
    rcases port_write_exact_or_error env s m a data hwf with ⟨e, h1, hc⟩ | ⟨s1, r, h1, hmem, hoth, _, hr⟩
    · -- refused: nothing changed
      refine ⟨0, s, Nat.zero_le _, fun _ _ => rfl, Or.inr ⟨by simp, e, ?_, Or.inl ⟨?_, by simp [storedAll]⟩⟩⟩
      · simp [writeStacked, e1, h1]
      · rcases hc with h | h | ⟨h, _⟩
        · exact Or.inl h
        · exact Or.inr (Or.inl h)
        · exact Or.inr (Or.inr h)
    · rcases hr with rfl | rfl | ⟨rfl, _⟩
      · -- stored, Ok: go on with the next entry
        have hwf1 : WF env s1 := portWrite_eq_wf hwf h1
        obtain ⟨k, s', hk, hoth', hres⟩ := ih s1 (n + 1) hwf1 hh.2
        have hstep : writeStacked env m s ((a, size, data) :: es) n = writeStacked env m s1 es (n + 1) := by
          simp [writeStacked, e1, h1]
        refine ⟨k + 1, s', by simp; omega, fun m' hm => (hoth' m' hm).trans (hoth m' hm), ?_⟩
        rcases hres with ⟨hk', hr, hm⟩ | ⟨hk', err, hr, hm⟩
        · left
          refine ⟨by simp [hk'], ?_, ?_⟩
          · rw [hstep, hr]; simp [Nat.add_assoc, Nat.add_comm 1]
          · rw [hm, hmem]; simp [storedAll]
        · right
          refine ⟨by simp; omega, err, ?_, ?_⟩
          · rw [hstep, hr]; simp [Nat.add_assoc, Nat.add_comm 1]
          · rcases hm with ⟨hc, hm⟩ | ⟨hc, hm⟩
            · exact Or.inl ⟨hc, by rw [hm, hmem]; simp [storedAll]⟩
            · exact Or.inr ⟨hc, by rw [hm, hmem]; simp [storedAll]⟩
      · -- stored, then the triggered action failed: this entry's bytes are in place
        refine ⟨0, s1, Nat.zero_le _, hoth, Or.inr ⟨by simp, .invalidIndex, ?_, Or.inr ⟨Or.inl rfl, ?_⟩⟩⟩
        · simp [writeStacked, e1, h1]
        · simp [storedAll, hmem]
      · refine ⟨0, s1, Nat.zero_le _, hoth, Or.inr ⟨by simp, .notImplemented, ?_, Or.inr ⟨Or.inr rfl, ?_⟩⟩⟩
        · simp [writeStacked, e1, h1]
        · simp [storedAll, hmem]

/-- **GCWritePortStacked is exact.**  Entries are processed in order.  There is a number `k` of
completed entries and a state `s'` after the call in which the OTHER module's map is unchanged
and this module's map is the old one with the data of the completed entries stored one after the
other (`storedAll`).  Either all entries completed: success, `*piNumEntries` unchanged; or entry
`k` is the first that fails: the call returns that entry's error, `*piNumEntries = k`, no later
entry was touched, and entry `k` itself either was refused and changed nothing (INVALID_ADDRESS /
ACCESS_DENIED / NOT_INITIALIZED) or was stored and the action it triggered failed (INVALID_INDEX /
NOT_IMPLEMENTED — as for the single write).  (Well-formed state, possible sizes, honest data.) -/
theorem write_port_stacked_exact (env : Env) (s : State) (h : Nat) (es : List (Nat × Nat × Bytes)) (m : Module)
    (hwf : WF env s) (hi : s.libInit = true) (hp : portOf (s.slots h) = .ok m)
    (hsz : es.any (fun e => decide (e.2.1 > ISIZE_MAX)) = false)
    (hh : es.all (fun e => decide (e.2.2.length = e.2.1)) = true) :
    ∃ k s', k ≤ es.length ∧ (∀ m', m' ≠ m → memOf s' m' = memOf s m') ∧
      ((k = es.length ∧ memOf s' m = storedAll (memOf s m) es ∧
          step env s (.gcWritePortStacked h es) = .done s' ⟨0, .writeStacked es.length⟩) ∨
       (k < es.length ∧ ∃ err,
          step env s (.gcWritePortStacked h es) =
            .done { s' with lastErr := some err } ⟨err.code, .writeStacked k⟩ ∧
          (((err = .invalidAddress ∨ err = .accessDenied ∨ err = .notInitialized) ∧
              memOf s' m = storedAll (memOf s m) (es.take k)) ∨
           ((err = .invalidIndex ∨ err = .notImplemented) ∧
              memOf s' m = storedAll (memOf s m) (es.take (k + 1)))))) := by
  have hfree : s.slots h ≠ .freed := by
    intro hf; rw [hf] at hp; simp [portOf] at hp
  obtain ⟨k, s', hk, hoth, hres⟩ := writeStacked_spec env m es s 0 hwf hh
  refine ⟨k, s', hk, hoth, ?_⟩
  rcases hres with ⟨hk', hr, hm⟩ | ⟨hk', err, hr, hm⟩
  · left
    refine ⟨hk', hm, ?_⟩
    simp [step, Call.noAssert, Call.noSave, usesFreed, Call.handle?, hfree, hi, body, hsz, hp, hr, finish]
  · right
    refine ⟨hk', err, ?_, hm⟩
    simp [step, Call.noAssert, Call.noSave, usesFreed, Call.handle?, hfree, hi, body, hsz, hp, hr, finish]

/-- non-vacuity: two honest entries of possible sizes -/
example : ([(1028, 4, [0, 0, 0, 0]), (0, 1, [7])] : List (Nat × Nat × Bytes)).any
      (fun e => decide (e.2.1 > ISIZE_MAX)) = false ∧
    ([(1028, 4, [0, 0, 0, 0]), (0, 1, [7])] : List (Nat × Nat × Bytes)).all
      (fun e => decide (e.2.2.length = e.2.1)) = true ∧
    storedAll [1, 2, 3] [(0, 1, [9]), (2, 1, [8])] = [9, 2, 8] := by decide

/-! ## 12. The stacked variants ARE the sequence of the single calls -/

/-- the single call that corresponds to one stacked write entry `(address, size, data)` -/
def singleWrite (h : Nat) (e : Nat × Nat × Bytes) : Call := .gcWritePort h e.1 e.2.1 e.2.2

/-- the single call that corresponds to one stacked read entry `(address, size, buffer)` -/
def singleRead (h : Nat) (e : Nat × Nat × Bytes) : Call := .gcReadPort h e.1 e.2.1 e.2.2

/-- Reference semantics of `GCWritePortStacked`, written with the SINGLE entry point only: call
`GCWritePort` for the entries in order (`n` = entries completed so far); the first call that
returns an error code ends the sequence — its code is the result, `*piNumEntries = n`, the state
is the one that call left (stored last error included) and no later entry is looked at; if all
succeed the result is success with `*piNumEntries` = the number of entries.  An abort of a single
call is an abort. -/
def writeSingles (env : Env) (h : Nat) : State → List (Nat × Nat × Bytes) → Nat → StepRes
  | s, [], n => .done s ⟨0, .writeStacked n⟩
  | s, e :: es, n =>
    match step env s (singleWrite h e) with
    | .done s' r =>
      if r.code = 0 then writeSingles env h s' es (n + 1) else .done s' ⟨r.code, .writeStacked n⟩
    | .abort => .abort

/-- Reference semantics of `GCReadPortStacked` written with `GCReadPort` only: `acc` = the buffers
of the completed entries as the single calls left them; the first failing call ends the sequence
with its code, `*piNumEntries = n`, its own buffer and all later buffers as the caller passed them. -/
def readSingles (env : Env) (h : Nat) : State → List (Nat × Nat × Bytes) → Nat → List Bytes → StepRes
  | s, [], n, acc => .done s ⟨0, .readStacked n acc⟩
  | s, e :: es, n, acc =>
    match step env s (singleRead h e) with
    | .done s' ⟨code, .read _ buf⟩ =>
      if code = 0 then readSingles env h s' es (n + 1) (acc ++ [buf])
      else .done s' ⟨code, .readStacked n (acc ++ (e :: es).map (·.2.2))⟩
    | _ => .abort

private def wsFinish : State × Nat × GR Unit → StepRes
  | (s', n, .ok ()) => .done s' ⟨0, .writeStacked n⟩
  | (s', n, .err e) => .done { s' with lastErr := some e } ⟨e.code, .writeStacked n⟩
  | (_, _, .panic) => .abort

private theorem writeStacked_singles (env : Env) (h : Nat) (m : Module) (es : List (Nat × Nat × Bytes)) :
    ∀ (s : State) (n : Nat), s.libInit = true → portOf (s.slots h) = .ok m →
      es.any (fun e => decide (e.2.1 > ISIZE_MAX)) = false →
      wsFinish (writeStacked env m s es n) = writeSingles env h s es n := by
  induction es with
  | nil => intro s n _ _ _; simp [writeStacked, wsFinish, writeSingles]
  | cons x es ih =>
    intro s n hi hp hsz
    obtain ⟨a, size, data⟩ := x
    simp only [List.any_cons, Bool.or_eq_false_iff, decide_eq_false_iff_not] at hsz
    have hfree : s.slots h ≠ .freed := by
      intro hf; rw [hf] at hp; simp [portOf] at hp
    rcases hpw : portWriteSized env s m a size data with ⟨s1, r⟩
    have hctl := portWriteSized_eq_ctl hpw
    cases r with
    | ok k =>
      have h1 : step env s (singleWrite h (a, size, data)) = .done s1 ⟨0, .write k⟩ := by
        simp [singleWrite, step, Call.noAssert, usesFreed, Call.handle?, hfree, hi, body, hsz.1, hp,
          hpw, finish]
      have := ih s1 (n + 1) (by rw [hctl.1]; exact hi) (by rw [hctl.2.2.2.2]; exact hp) hsz.2
      simp [writeStacked, hpw, writeSingles, h1, this]
    | err e =>
      have hne : e.code ≠ 0 := by have := Err.code_neg e; omega
      have h1 : step env s (singleWrite h (a, size, data)) =
          .done { s1 with lastErr := some e } ⟨e.code, .write size⟩ := by
        simp [singleWrite, step, Call.noAssert, Call.noSave, usesFreed, Call.handle?, hfree, hi, body, hsz.1, hp,
          hpw, finish, Call.untouched]
      simp [writeStacked, hpw, writeSingles, h1, hne, wsFinish]
    | panic =>
      have h1 : step env s (singleWrite h (a, size, data)) = .abort := by
        simp [singleWrite, step, Call.noAssert, usesFreed, Call.handle?, hfree, hi, body, hsz.1, hp,
          hpw, finish]
      simp [writeStacked, hpw, writeSingles, h1, wsFinish]

/-- **GCWritePortStacked = the sequence of GCWritePort calls up to and including the first
failure** — for EVERY entry list (honest or not: if a single call would run out of the caller's
buffer and abort, so does the stacked call at the same entry), every state, every live port
handle: return code, `*piNumEntries`, both register maps, both event queues and the stored last
error after the stacked call are exactly those after the single calls.  In particular entries
before the first failing one have taken effect exactly as single writes, the failing entry has
the effect the single write has (none, if it was refused; stored, if the triggered action failed)
and later entries have none.  (No entry has a size above isize::MAX — such a list is refused as a
whole before the first entry is processed: impossible_size_refused_stacked.) -/
theorem write_stacked_is_sequence_of_singles (env : Env) (s : State) (h : Nat)
    (es : List (Nat × Nat × Bytes)) (m : Module)
    (hi : s.libInit = true) (hp : portOf (s.slots h) = .ok m)
    (hsz : es.any (fun e => decide (e.2.1 > ISIZE_MAX)) = false) :
    step env s (.gcWritePortStacked h es) = writeSingles env h s es 0 := by
  have hfree : s.slots h ≠ .freed := by
    intro hf; rw [hf] at hp; simp [portOf] at hp
  rw [← writeStacked_singles env h m es s 0 hi hp hsz]
  rcases hw : writeStacked env m s es 0 with ⟨s', n, r⟩
  cases r <;>
    simp [step, Call.noAssert, Call.noSave, usesFreed, Call.handle?, hfree, hi, body, hsz, hp, hw, finish, wsFinish]

private def rsFinish (s : State) : Nat × List Bytes × GR Unit → StepRes
  | (n, bufs, .ok ()) => .done s ⟨0, .readStacked n bufs⟩
  | (n, bufs, .err e) => .done { s with lastErr := some e } ⟨e.code, .readStacked n bufs⟩
  | (_, _, .panic) => .abort

private theorem readStacked_singles (env : Env) (h : Nat) (m : Module) (s : State)
    (hi : s.libInit = true) (hp : portOf (s.slots h) = .ok m) (es : List (Nat × Nat × Bytes)) :
    ∀ (n : Nat) (acc : List Bytes), es.any (fun e => decide (e.2.1 > ISIZE_MAX)) = false →
      rsFinish s (readStacked env s m es n acc) = readSingles env h s es n acc := by
  have hfree : s.slots h ≠ .freed := by
    intro hf; rw [hf] at hp; simp [portOf] at hp
  induction es with
  | nil => intro n acc _; simp [readStacked, rsFinish, readSingles]
  | cons x es ih =>
    intro n acc hsz
    obtain ⟨a, size, buf⟩ := x
    simp only [List.any_cons, Bool.or_eq_false_iff, decide_eq_false_iff_not] at hsz
    cases hpr : portRead env s m a size with
    | ok data =>
      by_cases hb : size ≤ buf.length
      · have h1 : step env s (singleRead h (a, size, buf)) =
            .done s ⟨0, .read data.length (data ++ buf.drop data.length)⟩ := by
          simp [singleRead, step, Call.noAssert, usesFreed, Call.handle?, hfree, hi, body, hsz.1, hp, hpr, hb, finish]
        simp [readStacked, hpr, hb, readSingles, h1, ih _ _ hsz.2]
      · have h1 : step env s (singleRead h (a, size, buf)) = .abort := by
          simp [singleRead, step, Call.noAssert, usesFreed, Call.handle?, hfree, hi, body, hsz.1, hp, hpr, hb, finish]
        simp [readStacked, hpr, hb, readSingles, h1, rsFinish]
    | err e =>
      have hne : e.code ≠ 0 := by have := Err.code_neg e; omega
      have h1 : step env s (singleRead h (a, size, buf)) =
          .done { s with lastErr := some e } ⟨e.code, .read size buf⟩ := by
        simp [singleRead, step, Call.noAssert, Call.noSave, usesFreed, Call.handle?, hfree, hi, body, hsz.1, hp,
          hpr, finish, Call.untouched]
      simp [readStacked, hpr, readSingles, h1, hne, rsFinish]
    | panic =>
      have h1 : step env s (singleRead h (a, size, buf)) = .abort := by
        simp [singleRead, step, Call.noAssert, usesFreed, Call.handle?, hfree, hi, body, hsz.1, hp, hpr, finish]
      simp [readStacked, hpr, readSingles, h1, rsFinish]

/-- **GCReadPortStacked = the sequence of GCReadPort calls up to and including the first
failure**, for every entry list (honest or not), state and live port handle: return code,
`*piNumEntries`, every entry buffer, the state and the stored last error are exactly those the
single calls produce; the failing entry's buffer and all later buffers are as the caller passed
them. -/
theorem read_stacked_is_sequence_of_singles (env : Env) (s : State) (h : Nat)
    (es : List (Nat × Nat × Bytes)) (m : Module)
    (hi : s.libInit = true) (hp : portOf (s.slots h) = .ok m)
    (hsz : es.any (fun e => decide (e.2.1 > ISIZE_MAX)) = false) :
    step env s (.gcReadPortStacked h es) = readSingles env h s es 0 [] := by
  have hfree : s.slots h ≠ .freed := by
    intro hf; rw [hf] at hp; simp [portOf] at hp
  rw [← readStacked_singles env h m s hi hp es 0 [] hsz]
  rcases hw : readStacked env s m es 0 [] with ⟨n, bufs, r⟩
  cases r <;>
    simp [step, Call.noAssert, Call.noSave, usesFreed, Call.handle?, hfree, hi, body, hsz, hp, hw, finish, rsFinish]

/-- The reference semantics unfolded into the vocabulary of `run`: if the sequence of single
writes ends with result `(code, *piNumEntries = k)` in state `s'`, then the first `k` single calls
— run one after the other from `s` — all returned success and led to a state `s1`; if `code = 0`
these are all entries and `s' = s1`; otherwise entry `k` exists, and the single write of entry `k`
in `s1` returned `code` and left exactly `s'`.  No later entry appears anywhere. -/
theorem writeSingles_unfold (env : Env) (h : Nat) (es : List (Nat × Nat × Bytes)) :
    ∀ (s : State) (n : Nat) (s' : State) (code : Int) (k : Nat),
      writeSingles env h s es n = .done s' ⟨code, .writeStacked k⟩ →
      ∃ j s1 rs, k = n + j ∧ j ≤ es.length ∧
        run env s ((es.take j).map (singleWrite h)) = (rs, some s1) ∧ (∀ r ∈ rs, r.code = 0) ∧
        ((code = 0 ∧ j = es.length ∧ s' = s1) ∨
         (code ≠ 0 ∧ ∃ e out, es[j]? = some e ∧ step env s1 (singleWrite h e) = .done s' ⟨code, out⟩)) := by
  induction es with
  | nil =>
    intro s n s' code k hw
    simp only [writeSingles, StepRes.done.injEq, Result.mk.injEq, Out.writeStacked.injEq] at hw
    obtain ⟨rfl, rfl, rfl⟩ := hw
    exact ⟨0, s, [], rfl, Nat.le_refl _, rfl, by simp, Or.inl ⟨rfl, rfl, rfl⟩⟩
  | cons x es ih =>
    intro s n s' code k hw
    unfold writeSingles at hw
    split at hw
    · rename_i s2 r hstep
      split at hw
      · rename_i h0
        obtain ⟨j, s1, rs, hk, hj, hrun, hall, hres⟩ := ih s2 (n + 1) s' code k hw
        refine ⟨j + 1, s1, r :: rs, by omega, by simp; omega, ?_, ?_, ?_⟩
        · simp only [List.take_succ_cons, List.map_cons, run, hstep, hrun]
        · intro r' hr'
          simp only [List.mem_cons] at hr'
          rcases hr' with rfl | hr'
          · exact h0
          · exact hall r' hr'
        · rcases hres with ⟨a, b, c⟩ | ⟨a, e, out, he, hs⟩
          · exact Or.inl ⟨a, by simp [b], c⟩
          · exact Or.inr ⟨a, e, out, by simpa using he, hs⟩
      · rename_i h0
        simp only [StepRes.done.injEq, Result.mk.injEq, Out.writeStacked.injEq] at hw
        obtain ⟨rfl, rfl, rfl⟩ := hw
        exact ⟨0, s, [], rfl, Nat.zero_le _, rfl, by simp, Or.inr ⟨h0, x, r.out, by simp, by simpa using hstep⟩⟩
    · cases hw

private theorem portWriteSized_rejected {env : Env} {s s1 : State} {m : Module} {a size : Nat} {data : Bytes}
    {e : Err} (hwf : WF env s) (hpw : portWriteSized env s m a size data = (s1, .err e))
    (h1 : e ≠ .invalidIndex) (h2 : e ≠ .notImplemented) : s1 = s := by
  unfold portWriteSized at hpw
  split at hpw
  · rcases port_write_exact_or_error env s m a data hwf with ⟨e', hp, _⟩ | ⟨s2, r, hp, _, _, _, hr⟩
    · rw [hp] at hpw; cases hpw; rfl
    · rw [hp] at hpw
      cases hpw
      rcases hr with hr | hr | ⟨hr, _⟩
      · cases hr
      · cases hr; exact absurd rfl h1
      · cases hr; exact absurd rfl h2
  · simp only [Prod.mk.injEq] at hpw; exact hpw.1.symm

/-- **A rejected port write changes nothing.**  Whatever the handle, address, size and data (honest
or not), in every well-formed state: if `GCWritePort` returns an error other than the two
"stored, then the triggered action failed" codes INVALID_INDEX (-1017) / NOT_IMPLEMENTED (-1003) —
in particular ACCESS_DENIED (-1005, e.g. a range that starts in a writable and ends in a read-only
register) and INVALID_ADDRESS (-1015) — then the state afterwards is the state before, byte for
byte: both register maps, both event queues (no observer fired), flags and handles; only the
stored last error is new, and it is the returned error.  `*piSize` is untouched. -/
theorem rejected_port_write_changes_nothing (env : Env) (s s' : State) (h address size : Nat) (data : Bytes)
    (r : Result) (hwf : WF env s) (hstep : step env s (.gcWritePort h address size data) = .done s' r)
    (h0 : r.code ≠ 0) (h1 : r.code ≠ -1017) (h2 : r.code ≠ -1003) :
    ∃ e, e.code = r.code ∧ s' = { s with lastErr := some e } ∧ r.out = .write size := by
  by_cases hi : s.libInit = true
  · by_cases hfree : s.slots h = .freed
    · simp [step, Call.noAssert, usesFreed, Call.handle?, hfree, hi] at hstep
      rw [← hstep.2] at h0; simp at h0
    · by_cases hsz : size > ISIZE_MAX
      · simp [step, Call.noAssert, Call.noSave, usesFreed, Call.handle?, hfree, hi, body, hsz, finish,
          Call.untouched] at hstep
        exact ⟨.invalidParameter, by rw [← hstep.2], by rw [← hstep.1] <;> (cases s; simp at hi; simp [hi]), by rw [← hstep.2]⟩
      · cases hp : portOf (s.slots h) with
        | ok m =>
          rcases hpw : portWriteSized env s m address size data with ⟨s1, r1⟩
          cases r1 with
          | ok k =>
            simp [step, Call.noAssert, usesFreed, Call.handle?, hfree, hi, body, hsz, hp, hpw, finish] at hstep
            rw [← hstep.2] at h0; simp at h0
          | err e =>
            simp [step, Call.noAssert, Call.noSave, usesFreed, Call.handle?, hfree, hi, body, hsz, hp, hpw, finish,
              Call.untouched] at hstep
            have hs1 : s1 = s := portWriteSized_rejected hwf hpw
              (by rintro rfl; rw [← hstep.2] at h1; simp [Err.code] at h1)
              (by rintro rfl; rw [← hstep.2] at h2; simp [Err.code] at h2)
            subst hs1
            exact ⟨e, by rw [← hstep.2], by rw [← hstep.1] <;> (cases s; simp at hi; simp [hi]), by rw [← hstep.2]⟩
          | panic =>
            simp [step, Call.noAssert, usesFreed, Call.handle?, hfree, hi, body, hsz, hp, hpw, finish] at hstep
        | err e =>
          simp [step, Call.noAssert, Call.noSave, usesFreed, Call.handle?, hfree, hi, body, hsz, hp, finish,
            Call.untouched] at hstep
          exact ⟨e, by rw [← hstep.2], by rw [← hstep.1] <;> (cases s; simp at hi; simp [hi]), by rw [← hstep.2]⟩
        | panic =>
          cases hsl : s.slots h <;> simp [hsl, portOf] at hp
  · simp [step, Call.noAssert, Call.noSave, hi, finish, Call.untouched] at hstep
    exact ⟨.notInitialized, by rw [← hstep.2], by rw [← hstep.1] <;> (cases s; simp at hi; simp [hi]), by rw [← hstep.2]⟩

/-- **A rejected stacked write entry changes nothing, and neither do the entries after it.**  If
`GCWritePortStacked` returns an error other than INVALID_INDEX / NOT_IMPLEMENTED (so: ACCESS_DENIED,
INVALID_ADDRESS, NOT_INITIALIZED of a closed interface) with `*piNumEntries = k`, then the state
afterwards is — byte for byte, maps, queues, flags — the state `s1` that the single writes of the
first `k` entries (all successful) produce from `s`; only the stored last error is new. -/
theorem rejected_stacked_write_changes_nothing (env : Env) (s s' : State) (h : Nat)
    (es : List (Nat × Nat × Bytes)) (m : Module) (code : Int) (k : Nat)
    (hwf : WF env s) (hi : s.libInit = true) (hp : portOf (s.slots h) = .ok m)
    (hsz : es.any (fun e => decide (e.2.1 > ISIZE_MAX)) = false)
    (hstep : step env s (.gcWritePortStacked h es) = .done s' ⟨code, .writeStacked k⟩)
    (h0 : code ≠ 0) (h1 : code ≠ -1017) (h2 : code ≠ -1003) :
    k < es.length ∧ ∃ s1 rs e, run env s ((es.take k).map (singleWrite h)) = (rs, some s1) ∧
      (∀ r ∈ rs, r.code = 0) ∧ e.code = code ∧ s' = { s1 with lastErr := some e } := by
  rw [write_stacked_is_sequence_of_singles env s h es m hi hp hsz] at hstep
  obtain ⟨j, s1, rs, hk, hj, hrun, hall, hres⟩ := writeSingles_unfold env h es s 0 s' code k hstep
  have hkj : k = j := by omega
  subst hkj
  rcases hres with ⟨hc, _⟩ | ⟨_, e, out, he, hs⟩
  · exact absurd hc h0
  · have hlt : k < es.length := by
      rcases Nat.lt_or_ge k es.length with hlt | hge
      · exact hlt
      · rw [List.getElem?_eq_none hge] at he; cases he
    have hwf1 := wf_run env _ s rs s1 hwf hrun
    obtain ⟨e', hc, hs', _⟩ := rejected_port_write_changes_nothing env s1 s' h e.1 e.2.1 e.2.2 _ hwf1 hs h0 h1 h2
    exact ⟨hlt, s1, rs, e', hrun, hall, hc, hs'⟩

/-- a state for the examples: library initialised, system module open, handle variable 0 = system -/
def exOpen : State := { State.init exEnv with libInit := true, sysOpen := true, slots := fun _ => .sys }

/-- observation of an outcome for the examples: result, 8 bytes of the system map at 1028, whole
system map digest-free comparison with a reference map, queue empty, stored error -/
def exObserve (x : StepRes) (r : Result) (at1028 : Bytes) (le : Option Err) : Bool :=
  match x with
  | .done s' r' => decide (r' = r) && decide ((s'.sysMem.drop 1028).take 8 = at1028) && decide (s'.lastErr = le) &&
      s'.sysQueue.isEmpty && decide (s'.sysMem.length = 1120)
  | .abort => false

/-- non-vacuity (the seeded-defect scenario): entry 0 writes the writable InterfaceSelector (0 is the only index that exists), entry 1
starts in InterfaceSelector and ends in the read-only InterfaceSelectorMax — ACCESS_DENIED with
`*piNumEntries = 1` and not one byte of entry 1 stored, entry 2 is never looked at; the single
write of entry 1 is refused likewise. -/
example :
    exObserve (step exEnv exOpen (.gcWritePortStacked 0 [(1028, 4, [0, 0, 0, 0]), (1030, 4, [1, 1, 1, 1]), (1028, 1, [9])]))
      ⟨-1005, .writeStacked 1⟩ [0, 0, 0, 0, 0, 0, 0, 0] (some .accessDenied) = true ∧
    exObserve (step exEnv exOpen (.gcWritePort 0 1030 4 [1, 1, 1, 1]))
      ⟨-1005, .write 4⟩ [0, 0, 0, 0, 0, 0, 0, 0] (some .accessDenied) = true := by decide +kernel

example : WF exEnv exOpen :=
  WF_congr (s := State.init exEnv) (s' := exOpen) rfl rfl (wf_init exEnv (by decide) (by decide))

/-! ## 13. A NOT_INITIALIZED failure is retrievable after the next GCInitLib -/

/-- **A call refused outside the init window is reported by `GCGetLastError` after `GCInitLib`.**
For EVERY state in which the library is not initialised — before the first `GCInitLib` (no error
stored) as well as after a `GCCloseLib` (whatever older error is stored) — every entry point `c`
other than `GCInitLib` and the error query, and every destination that is NULL or large enough:
`c` returns NOT_INITIALIZED (-1002) and writes nothing, `GCInitLib` succeeds, and `GCGetLastError`
then returns success with `*piErrorCode = -1002` and the NUL-terminated NOT_INITIALIZED text (the
older error is gone: the refused call is the most recent failing call).  `save_last_error` must
therefore run for the NOT_INITIALIZED refusal too (seed C19-r4: it was skipped). -/
theorem not_initialized_error_retrievable_after_init (env : Env) (s : State) (c : Call) (d : Dst)
    (hi : s.libInit = false) (hc : c ≠ .initLib) (hs : c.noSave = false)
    (ha : isAscii (Err.notInitialized.text env) = true)
    (hd : ∀ old, d.buf = some old → (Err.notInitialized.text env).length + 1 ≤ d.size) :
    run env s [c, .initLib, .getLastError d] =
      ([⟨-1002, c.untouched⟩, ⟨0, .plain⟩,
        ⟨0, .lastError (some (-1002))
          ⟨d.buf.map fun old => Err.notInitialized.text env ++ [0] ++
            old.drop ((Err.notInitialized.text env).length + 1), (Err.notInitialized.text env).length + 1⟩⟩],
       some { s with libInit := true, lastErr := some .notInitialized }) := by
  have h2 := not_initialized_outside env s c hi hc
  rw [hs] at h2
  simp only [Bool.false_eq_true, if_false] at h2
  have h4 := init_ok env { s with lastErr := some .notInitialized } hi
  have h5 := last_error_query env { s with libInit := true, lastErr := some .notInitialized } .notInitialized
    d rfl rfl ha hd
  simp [run, h2, h4, h5, Err.code]

/-- non-vacuity, history 1: before the first `GCInitLib` (nothing stored yet), `TLOpen` refused,
a 2-byte text buffer ("e" + NUL in `exEnv`) -/
example : (State.init exEnv).libInit = false ∧ (State.init exEnv).lastErr = none ∧
    (Call.tlOpen 0) ≠ .initLib ∧ (Call.tlOpen 0).noSave = false ∧
    isAscii (Err.notInitialized.text exEnv) = true ∧
    (∀ old, (Dst.mk (some [9, 9, 9]) 2).buf = some old → (Err.notInitialized.text exEnv).length + 1 ≤ (Dst.mk (some [9, 9, 9]) 2).size) :=
  ⟨rfl, rfl, by simp, rfl, by decide, fun _ _ => by decide⟩

/-- non-vacuity, history 2: after `GCCloseLib`, with an older error (INVALID_HANDLE) still stored -/
example : ∃ s : State, s.libInit = false ∧ s.lastErr = some .invalidHandle ∧
    step exEnv { s with libInit := true } .closeLib = .done s ⟨0, .plain⟩ :=
  ⟨{ exOpen with libInit := false, lastErr := some .invalidHandle }, rfl, rfl, close_lib_ok exEnv _ rfl⟩

/-! ## 14. The last error is per thread -/

/-- The calling thread sees exactly the single-thread semantics: a call of thread `t` is `step` on
the global state with `t`'s own stored error, and `t`'s view afterwards is the state `step` left. -/
theorem own_thread_step {env : Env} {ms ms' : MState} {t : Nat} {c : Call} {r : Result}
    (h : stepT env ms t c = .done ms' r) :
    step env (ms.view t) c = .done (ms'.view t) r ∧
    ∀ u, ms'.view u = { ms'.view t with lastErr := ms'.errs u } := by
  unfold stepT at h
  split at h
  · rename_i s' r' hstep
    cases h
    refine ⟨?_, fun u => rfl⟩
    rw [hstep]
    simp [MState.view, MState.absorb]
  · cases h

/-- **Isolation, one call**: a call made by thread `t` — whatever it is, whether it fails or not —
never changes the stored last error of any other thread. -/
theorem thread_isolation_step {env : Env} {ms ms' : MState} {t : Nat} {c : Call} {r : Result}
    (h : stepT env ms t c = .done ms' r) : ∀ u, u ≠ t → ms'.errs u = ms.errs u := by
  unfold stepT at h
  split at h
  · cases h
    intro u hu
    simp [MState.absorb, hu]
  · cases h

/-- **Isolation, histories**: over ANY interleaved history of calls of any threads, the stored last
error of thread `u` carries the code of the most recent failing call MADE BY `u` (error queries
aside) — the calls of all other threads, failing or not, are invisible to it. -/
theorem thread_last_error_tracks_own_history (env : Env) (u : Nat) (tcs : List (Nat × Call)) :
    ∀ (ms : MState) (rs : List Result) (ms' : MState), runT env ms tcs = (rs, some ms') →
      (ms'.errs u).map Err.code =
        lastFailure ((ms.errs u).map Err.code)
          (((tcs.zip rs).filter fun x => x.1.1 = u).map fun x => (x.1.2, x.2)) := by
  induction tcs with
  | nil => intro ms rs ms' h; simp [runT] at h; obtain ⟨rfl, rfl⟩ := h; rfl
  | cons tc tcs ih =>
    intro ms rs ms' h
    obtain ⟨t, c⟩ := tc
    unfold runT at h
    split at h
    · rename_i ms1 r hstep
      simp only [Prod.mk.injEq] at h
      have := ih ms1 _ ms' (Prod.ext rfl h.2)
      rw [this, ← h.1]
      by_cases hu : t = u
      · subst hu
        have hown := (own_thread_step hstep).1
        have hl := last_error_tracks_step hown
        simp only [List.zip_cons_cons, List.filter_cons, decide_true, if_true, List.map_cons, lastFailure,
          List.foldl_cons]
        congr 1
        have e1 : (ms1.view t).lastErr = ms1.errs t := rfl
        have e0 : (ms.view t).lastErr = ms.errs t := rfl
        rw [e1, e0] at hl
        by_cases h0 : r.code = 0
        · simp [h0, hl.2 (Or.inl h0)]
        · cases hs : c.noSave
          · obtain ⟨e, he, hc⟩ := hl.1 h0 hs
            simp [h0, he, hc]
          · simp [hl.2 (Or.inr hs)]
      · have hiso := thread_isolation_step hstep u (fun h => hu h.symm)
        simp [List.zip_cons_cons, hu, hiso]
    · simp at h

/-- The answer of `GCGetLastError` depends on nothing but the library flag and the stored error of
the thread that asks. -/
theorem error_query_depends_on_own_error (env : Env) (s1 s2 : State) (d : Dst)
    (hi : s1.libInit = s2.libInit) (he : s1.lastErr = s2.lastErr) :
    (step env s1 (.getLastError d)).result = (step env s2 (.getLastError d)).result := by
  simp only [step, Call.noAssert, Call.noSave, usesFreed, Call.handle?, body, hi, he]
  cases s2.libInit
  · simp [finish, StepRes.result]
  · cases s2.lastErr with
    | none =>
      simp only [Bool.not_true, Bool.and_false, Bool.false_eq_true, if_false]
      cases copyTo (Val.str env.noErrorText) d <;> rfl
    | some e =>
      simp only [Bool.not_true, Bool.and_false, Bool.false_eq_true, if_false]
      cases copyTo (Val.str (e.text env)) d <;> rfl

/-- A history made of calls of other threads only leaves the stored error of thread `u` alone. -/
theorem other_threads_keep_error (env : Env) (u : Nat) (tcs : List (Nat × Call)) :
    ∀ (ms ms' : MState) (rs : List Result), (∀ tc ∈ tcs, tc.1 ≠ u) → runT env ms tcs = (rs, some ms') →
      ms'.errs u = ms.errs u := by
  induction tcs with
  | nil => intro ms ms' rs _ hrun; simp [runT] at hrun; rw [hrun.2]
  | cons tc tcs ih =>
    intro ms ms' rs hoth hrun
    obtain ⟨t, c⟩ := tc
    unfold runT at hrun
    split at hrun
    · rename_i ms1 r hstep
      simp only [Prod.mk.injEq] at hrun
      have h1 := thread_isolation_step hstep u (hoth (t, c) List.mem_cons_self).symm
      rw [← h1]
      exact ih ms1 ms' _ (fun tc htc => hoth tc (List.mem_cons_of_mem _ htc)) (Prod.ext rfl hrun.2)
    · simp at hrun

/-- **What thread `u` retrieves cannot be changed by other threads.**  After any history made of
calls of OTHER threads only (failing or not), `GCGetLastError` on thread `u` gives exactly the
answer — code, `*piErrorCode`, text, size — it would have given before, provided the library is
(still or again) in the same initialisation state. -/
theorem other_threads_cannot_change_what_is_retrieved (env : Env) (u : Nat) (tcs : List (Nat × Call))
    (ms ms' : MState) (rs : List Result) (d : Dst)
    (hoth : ∀ tc ∈ tcs, tc.1 ≠ u) (hrun : runT env ms tcs = (rs, some ms'))
    (hi : ms'.glob.libInit = ms.glob.libInit) :
    (stepT env ms' u (.getLastError d)).result = (stepT env ms u (.getLastError d)).result := by
  have herr := other_threads_keep_error env u tcs ms ms' rs hoth hrun
  have := error_query_depends_on_own_error env (ms'.view u) (ms.view u) d hi herr
  unfold stepT
  revert this
  cases step env (ms'.view u) (.getLastError d) <;> cases step env (ms.view u) (.getLastError d) <;>
    simp [StepRes.result, MStepRes.result]

/-- One thread alone is the single-thread model: a history in which every call is made by the same
thread `t` gives exactly the results of `run` on `t`'s view, and ends in the corresponding state
(so every theorem about `run` is a theorem about each thread of `runT` taken alone). -/
theorem single_thread_is_run (env : Env) (t : Nat) (cs : List Call) :
    ∀ ms : MState, (runT env ms (cs.map fun c => (t, c))).1 = (run env (ms.view t) cs).1 ∧
      (runT env ms (cs.map fun c => (t, c))).2.map (·.view t) = (run env (ms.view t) cs).2 := by
  induction cs with
  | nil => intro ms; simp [runT, run]
  | cons c cs ih =>
    intro ms
    simp only [List.map_cons, runT, run, stepT]
    cases hstep : step env (ms.view t) c with
    | done s' r =>
      have hv : (ms.absorb t s').view t = s' := by simp [MState.view, MState.absorb]
      have := ih (ms.absorb t s')
      rw [hv] at this
      simp [this.1, this.2]
    | abort => simp

/-- non-vacuity: thread 1 fails (TLClose on a NULL handle), thread 0 then asks — and is told
"no error" (`*piErrorCode = 0`), while thread 1 is told -1006 -/
example :
    (runT exEnv (MState.init exEnv)
      [(0, .initLib), (1, .tlClose 9), (0, .getLastError ⟨none, 0⟩), (1, .getLastError ⟨none, 0⟩)]).1 =
    [⟨0, .plain⟩, ⟨-1006, .plain⟩, ⟨0, .lastError (some 0) ⟨none, 9⟩⟩, ⟨0, .lastError (some (-1006)) ⟨none, 2⟩⟩] := by
  decide +kernel

/-! ## 15. The info command tables: which commands have a value, of which type; all others are refused -/

/-- `INFO_DATATYPE` of every `TL_INFO_CMD` the code implements (STRING = 1, INT32 = 5, UINT32 = 6);
`none`: the command id is not implemented -/
def tlInfoType (cmd : Int) : Option Nat :=
  if 0 ≤ cmd ∧ cmd ≤ 7 then some 1 else if cmd = 8 then some 5 else if cmd = 9 ∨ cmd = 10 then some 6 else none

/-- … of every `INTERFACE_INFO_CMD` (TLGetInterfaceInfo and IFGetInfo) -/
def ifInfoType (cmd : Int) : Option Nat := if 0 ≤ cmd ∧ cmd ≤ 2 then some 1 else none

/-- … of every `PORT_INFO_CMD` (STRING = 1, BOOL8 = 11) -/
def portInfoType (cmd : Int) : Option Nat :=
  if (0 ≤ cmd ∧ cmd ≤ 4) ∨ cmd = 11 ∨ cmd = 12 then some 1 else if 5 ≤ cmd ∧ cmd ≤ 10 then some 11 else none

/-- … of every `URL_INFO_CMD` (STRING = 1, INT32 = 5, UINT64 = 8); `some none`: a command the code
knows but has no value for (SHA1 hash, file name: NOT_AVAILABLE) -/
def urlInfoType (cmd : Int) : Option (Option Nat) :=
  if cmd = 0 then some (some 1) else if (1 ≤ cmd ∧ cmd ≤ 5) ∨ cmd = 9 then some (some 5)
  else if cmd = 7 ∨ cmd = 8 then some (some 8) else if cmd = 6 ∨ cmd = 10 then some none else none

/-- **TLGetInfo, every command id** (live system handle): the implemented commands 0..10 have a
value of the tabulated type (TL_INFO_NAME needs the module path to have a file name — otherwise the
`unwrap` aborts); EVERY other id, negative ones included, is refused with INVALID_PARAMETER. -/
theorem tl_info_command_table (env : Env) (s : State) (h : Nat) (cmd : Int) (hs : s.slots h = .sys) :
    (∀ ty, tlInfoType cmd = some ty → (cmd = 5 → fileName env.path ≠ none) →
        ∃ v, queryValue env s (.tlGetInfo h cmd) = .ok v ∧ v.dtype = ty) ∧
    (tlInfoType cmd = none → queryValue env s (.tlGetInfo h cmd) = .err .invalidParameter) := by
  by_cases hr : 0 ≤ cmd ∧ cmd ≤ 10
  · have : cmd = 0 ∨ cmd = 1 ∨ cmd = 2 ∨ cmd = 3 ∨ cmd = 4 ∨ cmd = 5 ∨ cmd = 6 ∨ cmd = 7 ∨ cmd = 8 ∨
        cmd = 9 ∨ cmd = 10 := by omega
    rcases this with rfl | rfl | rfl | rfl | rfl | rfl | rfl | rfl | rfl | rfl | rfl
    all_goals first
      | (simp [tlInfoType, queryValue, hs, wantSystem, tlInfo, Val.dtype]; done)
      | skip
    refine ⟨fun ty hty hfn => ?_, fun hn => by simp [tlInfoType] at hn⟩
    simp [tlInfoType] at hty
    subst hty
    cases hf : fileName env.path with
    | none => exact absurd hf (hfn rfl)
    | some n => simp [queryValue, hs, wantSystem, tlInfo, Val.dtype, hf]
  · have htab : tlInfoType cmd = none := by
      unfold tlInfoType; rw [if_neg (by omega), if_neg (by omega), if_neg (by omega)]
    refine ⟨fun ty hty => (by rw [htab] at hty; cases hty), fun _ => ?_⟩
    simp only [queryValue, hs, wantSystem, tlInfo]
    simp [show cmd ≠ 0 by omega, show cmd ≠ 1 by omega, show cmd ≠ 2 by omega, show cmd ≠ 3 by omega,
      show cmd ≠ 4 by omega, show cmd ≠ 5 by omega, show cmd ≠ 6 by omega, show cmd ≠ 7 by omega,
      show cmd ≠ 8 by omega, show cmd ≠ 9 by omega, show cmd ≠ 10 by omega]

/-- **TLGetInterfaceInfo / IFGetInfo, every command id**: commands 0..2 are strings; every other id
is refused with INVALID_PARAMETER (TLGetInterfaceInfo: after the id was accepted). -/
theorem if_info_command_table (env : Env) (s : State) (h : Nat) (cmd : Int) :
    (s.slots h = .iface →
      (∀ ty, ifInfoType cmd = some ty → ∃ v, queryValue env s (.ifGetInfo h cmd) = .ok v ∧ v.dtype = ty) ∧
      (ifInfoType cmd = none → queryValue env s (.ifGetInfo h cmd) = .err .invalidParameter)) ∧
    (s.slots h = .sys →
      (∀ ty, ifInfoType cmd = some ty →
        ∃ v, queryValue env s (.tlGetInterfaceInfo h env.ifc.id cmd) = .ok v ∧ v.dtype = ty) ∧
      (ifInfoType cmd = none →
        queryValue env s (.tlGetInterfaceInfo h env.ifc.id cmd) = .err .invalidParameter)) := by
  by_cases hr : 0 ≤ cmd ∧ cmd ≤ 2
  · have : cmd = 0 ∨ cmd = 1 ∨ cmd = 2 := by omega
    rcases this with rfl | rfl | rfl <;>
      (constructor <;> intro hs <;> simp [ifInfoType, queryValue, hs, wantInterface, wantSystem, ifInfo, Val.dtype])
  · have htab : ifInfoType cmd = none := by unfold ifInfoType; rw [if_neg hr]
    constructor <;> intro hs <;>
      refine ⟨fun ty hty => (by rw [htab] at hty; cases hty), fun _ => ?_⟩ <;>
      simp only [queryValue, hs, wantInterface, wantSystem, ifInfo] <;>
      simp [show cmd ≠ 0 by omega, show cmd ≠ 1 by omega, show cmd ≠ 2 by omega]

/-- **GCGetPortInfo, every command id** (live port handle whose module answers): commands 0..4, 11,
12 are strings, 5..10 are BOOL8; every other id is refused with INVALID_PARAMETER. -/
theorem port_info_command_table (env : Env) (s : State) (h : Nat) (m : Module) (cmd : Int)
    (hp : portOf (s.slots h) = .ok m) (hm : portMeta s m = .ok ()) :
    (∀ ty, portInfoType cmd = some ty → ∃ v, queryValue env s (.gcGetPortInfo h cmd) = .ok v ∧ v.dtype = ty) ∧
    (portInfoType cmd = none → queryValue env s (.gcGetPortInfo h cmd) = .err .invalidParameter) := by
  by_cases hr : 0 ≤ cmd ∧ cmd ≤ 12
  · have : cmd = 0 ∨ cmd = 1 ∨ cmd = 2 ∨ cmd = 3 ∨ cmd = 4 ∨ cmd = 5 ∨ cmd = 6 ∨ cmd = 7 ∨ cmd = 8 ∨
        cmd = 9 ∨ cmd = 10 ∨ cmd = 11 ∨ cmd = 12 := by omega
    rcases this with rfl | rfl | rfl | rfl | rfl | rfl | rfl | rfl | rfl | rfl | rfl | rfl | rfl <;>
      simp [portInfoType, queryValue, hp, hm, portInfo, Val.dtype]
  · have htab : portInfoType cmd = none := by
      unfold portInfoType; rw [if_neg (by omega), if_neg (by omega)]
    refine ⟨fun ty hty => (by rw [htab] at hty; cases hty), fun _ => ?_⟩
    simp only [queryValue, hp, hm, portInfo]
    simp [show cmd ≠ 0 by omega, show cmd ≠ 1 by omega, show cmd ≠ 2 by omega, show cmd ≠ 3 by omega,
      show cmd ≠ 4 by omega, show cmd ≠ 5 by omega, show cmd ≠ 6 by omega, show cmd ≠ 7 by omega,
      show cmd ≠ 8 by omega, show cmd ≠ 9 by omega, show cmd ≠ 10 by omega, show cmd ≠ 11 by omega,
      show cmd ≠ 12 by omega]

/-- **GCGetPortURLInfo, every command id** (URL index 0): URL is a string, schema / file versions
and the scheme are INT32, register address and length UINT64; SHA1 hash and file name are known
but NOT_AVAILABLE; every other id is refused with INVALID_PARAMETER. -/
theorem url_info_command_table (env : Env) (s : State) (h : Nat) (m : Module) (cmd : Int)
    (hp : portOf (s.slots h) = .ok m) (hm : portMeta s m = .ok ()) :
    (∀ ty, urlInfoType cmd = some (some ty) →
      ∃ v, queryValue env s (.gcGetPortURLInfo h 0 cmd) = .ok v ∧ v.dtype = ty) ∧
    (urlInfoType cmd = some none → queryValue env s (.gcGetPortURLInfo h 0 cmd) = .err .notAvailable) ∧
    (urlInfoType cmd = none → queryValue env s (.gcGetPortURLInfo h 0 cmd) = .err .invalidParameter) := by
  by_cases hr : 0 ≤ cmd ∧ cmd ≤ 10
  · have : cmd = 0 ∨ cmd = 1 ∨ cmd = 2 ∨ cmd = 3 ∨ cmd = 4 ∨ cmd = 5 ∨ cmd = 6 ∨ cmd = 7 ∨ cmd = 8 ∨
        cmd = 9 ∨ cmd = 10 := by omega
    rcases this with rfl | rfl | rfl | rfl | rfl | rfl | rfl | rfl | rfl | rfl | rfl <;>
      simp [urlInfoType, queryValue, hp, hm, urlInfo, Val.dtype]
  · have htab : urlInfoType cmd = none := by
      unfold urlInfoType; rw [if_neg (by omega), if_neg (by omega), if_neg (by omega), if_neg (by omega)]
    refine ⟨fun ty hty => (by rw [htab] at hty; cases hty), fun hty => (by rw [htab] at hty; cases hty), fun _ => ?_⟩
    simp only [queryValue, hp, hm, urlInfo]
    simp [show cmd ≠ 0 by omega, show cmd ≠ 1 by omega, show cmd ≠ 2 by omega, show cmd ≠ 3 by omega,
      show cmd ≠ 4 by omega, show cmd ≠ 5 by omega, show cmd ≠ 6 by omega, show cmd ≠ 7 by omega,
      show cmd ≠ 8 by omega, show cmd ≠ 9 by omega, show cmd ≠ 10 by omega]

/-- **A refused info query writes nothing, whatever the destination**: if the query has no value
(unknown command id, wrong handle kind, bad index or id, NOT_AVAILABLE), then for EVERY destination
— NULL, too small, exact, larger — the call returns that error, stores it as the last error, and
leaves buffer, `*piSize` and `*piType` exactly as they were. -/
theorem refused_info_query_writes_nothing (env : Env) (s : State) (q : Query) (e : Err) (d : Dst)
    (hi : s.libInit = true) (hh : s.slots q.handle ≠ .freed) (hq : queryValue env s q = .err e) :
    step env s (.info q d) = .done { s with lastErr := some e } ⟨e.code, .info none d⟩ := by
  rcases buffer_protocol env s q hi hh with ⟨e', h1, h2⟩ | ⟨v, h1, _⟩ | ⟨v, img, h1, _⟩ | ⟨h1, _⟩
  · rw [hq] at h1; cases h1; exact h2 d
  · rw [hq] at h1; cases h1
  · rw [hq] at h1; cases h1
  · rw [hq] at h1; cases h1

/-- **An info query with a value follows the protocol for every destination**: value `v` with image
`img` (numeric: 4 / 8 / 1 bytes, string: text + NUL) ⇒ for every `d` exactly `protocol img`. -/
theorem info_value_follows_protocol (env : Env) (s : State) (q : Query) (v : Val) (img : Bytes) (d : Dst)
    (hi : s.libInit = true) (hh : s.slots q.handle ≠ .freed)
    (hq : queryValue env s q = .ok v) (himg : v.image = .ok img) :
    step env s (.info q d) =
      .done (if (protocol img v.dtype d).1 = 0 then s else { s with lastErr := some .bufferTooSmall })
        ⟨(protocol img v.dtype d).1, .info (if q.typed then (protocol img v.dtype d).2.1 else none)
          (protocol img v.dtype d).2.2⟩ := by
  rcases buffer_protocol env s q hi hh with ⟨e', h1, _⟩ | ⟨v', h1, e, h2, _⟩ | ⟨v', img', h1, h2, h3⟩ | ⟨h1, _⟩
  · rw [hq] at h1; cases h1
  · rw [hq] at h1; cases h1; rw [himg] at h2; cases h2
  · rw [hq] at h1; cases h1; rw [himg] at h2; cases h2; exact h3 d
  · rw [hq] at h1; cases h1

/-- non-vacuity: the tables are total and distinguish known from unknown ids, negative included -/
example : tlInfoType 10 = some 6 ∧ tlInfoType 11 = none ∧ tlInfoType (-1) = none ∧ ifInfoType 3 = none ∧
    portInfoType 12 = some 1 ∧ portInfoType 13 = none ∧ urlInfoType 6 = some none ∧ urlInfoType 11 = none ∧
    urlInfoType (-2147483648) = none := by decide

end CamVerif.C19
