/-
C15 — Enabling streaming programs transfer sizes that cover the device's requirements.

Property theorems only.  Vocabulary (`Proofs/C15.lean`): `regVal m s off len` = little-endian
value of the register at `s + off` in image `m`; `SirmOk` = SIRM addressable and mapped;
`InScope m s e` = the image reports alignment exponent `e ≤ 31`, required leader/trailer whose
aligned value fits `u32`, required payload `< 2^32 · transfer size`; `Bootstrap m sb s` = the
ABRM → SBRM → SIRM chain of a conforming device; `replay new m` = image after the applied writes
of the log segment `new`; `Access.enables s` / `touches s` = the access set / modified the
stream-enable bit; `roundUp a x` = least multiple of `a` that is `≥ x`.

The coverage theorems hold for **every** exponent `k ≤ 31`, both build profiles, all `u32`
leader/trailer sizes with `size + 2^k - 1 < 2^32` and all payloads `< 2^32 · roundUp 2^k 65536`;
outside that scope the (repaired) code returns an error (`sizes_total`, `never_panics`).
The failure theorems hold for every device image, handle state and fault schedule.
-/
import CamVerif.Proofs.C15
namespace CamVerif.C15
open CamVerif CamVerif.Streaming

/-! ## 1. The arithmetic (`align!`, truncating casts, u32/u64 wrap) -/

/-- **sizes_exact**: inside the scope the straight-line computation never panics in either
profile and yields exactly: transfer size = 64 KiB rounded up to the alignment, count =
payload / size (no truncation), final1 = remainder rounded up, final2 = 0, leader/trailer =
transfer size if the requirement is 0, else the requirement rounded up. -/
theorem sizes_exact (p : Profile) (e L P T : Nat) (h : ArithScope e L P T) :
    computeSizes p (2 ^ e) L P T = .ok (expectedSizes e L P T) :=
  computeSizes_ok p e L P T h.expLe h.leaderFits h.trailerFits h.payloadFits

/-- **leader_covered / trailer_covered / payload_covered** for the computed sizes. -/
theorem sizes_cover (p : Profile) (e L P T : Nat) (h : ArithScope e L P T) :
    ∃ sz, computeSizes p (2 ^ e) L P T = .ok sz ∧ L ≤ sz.maxLeader ∧ T ≤ sz.maxTrailer ∧
      P ≤ sz.transferSize * sz.transferCount + sz.final1 + sz.final2 :=
  ⟨_, sizes_exact p e L P T h, expectedSizes_cover e L P T⟩

/-- **all_aligned** for the computed sizes; all of them are genuine `u32` values. -/
theorem sizes_aligned (p : Profile) (e L P T : Nat) (h : ArithScope e L P T) :
    ∃ sz, computeSizes p (2 ^ e) L P T = .ok sz ∧
      2 ^ e ∣ sz.transferSize ∧ 2 ^ e ∣ sz.final1 ∧ 2 ^ e ∣ sz.final2 ∧ 2 ^ e ∣ sz.maxLeader ∧
      2 ^ e ∣ sz.maxTrailer ∧ sz.Fit32 :=
  ⟨_, sizes_exact p e L P T h,
    (expectedSizes_aligned e L P T).1, (expectedSizes_aligned e L P T).2.1,
    (expectedSizes_aligned e L P T).2.2.1, (expectedSizes_aligned e L P T).2.2.2.1,
    (expectedSizes_aligned e L P T).2.2.2.2, expectedSizes_fit32 e L P T h⟩

/-- **sizes_total**: for every alignment `2^k` (`k ≤ 31`), all `u32` leader/trailer requirements
and every payload requirement, in both profiles, the arithmetic never panics: either the inputs
are inside the scope (and the result is `expectedSizes`, which covers and is aligned), or the
result is the error `InvalidDevice` (aligned leader/trailer does not fit `u32`, or the payload
needs more than `u32::MAX` transfers).  There is no third outcome: nothing is silently
truncated or wrapped. -/
theorem sizes_total (p : Profile) (e L P T : Nat) (he : e ≤ 31) (hL : L < 2 ^ 32) (hT : T < 2 ^ 32) :
    computeSizes p (2 ^ e) L P T = .err .invalidDevice ∨
    (ArithScope e L P T ∧ computeSizes p (2 ^ e) L P T = .ok (expectedSizes e L P T)) := by
  rcases computeSizes_scope_or_err p e L P T he hL hT with h | h
  · exact Or.inr ⟨h, sizes_exact p e L P T h⟩
  · exact Or.inl h

/-- The scope hypothesis "aligned value fits u32" in closed form: `x + 2^k - 1 < 2^32` iff the
least multiple of `2^k` above `x` is below `2^32`. -/
theorem fits_iff_roundUp_fits (e x : Nat) (he : e ≤ 32) :
    x + (2 ^ e - 1) < 2 ^ 32 ↔ roundUp (2 ^ e) x < 2 ^ 32 := by
  have hpos : 0 < 2 ^ e := Nat.two_pow_pos e
  constructor
  · intro h
    have := roundUp_lt (2 ^ e) x hpos
    omega
  · intro h
    -- multiples of 2^e below 2^32 are at most 2^32 - 2^e
    obtain ⟨k, hk⟩ := roundUp_dvd (2 ^ e) x
    have h32 : (2 : Nat) ^ 32 = 2 ^ e * 2 ^ (32 - e) := by
      rw [← Nat.pow_add]; congr 1; omega
    have hklt : k < 2 ^ (32 - e) := by
      apply Nat.lt_of_mul_lt_mul_left (a := 2 ^ e)
      rw [← hk, ← h32]; exact h
    have : 2 ^ e * (k + 1) ≤ 2 ^ e * 2 ^ (32 - e) := Nat.mul_le_mul_left _ hklt
    rw [Nat.mul_add, Nat.mul_one, ← hk, ← h32] at this
    have := roundUp_ge (2 ^ e) x hpos
    omega

/-! ## 2. A conforming, fault-free device -/

/-- handle state from which `ControlHandle::sirm` resolves to the SIRM at `s` -/
inductive Resolves (st : St) (s : Nat) : Prop where
  /-- SIRM address cached by an earlier call -/
  | warm (h : st.sirm = some s)
  /-- freshly opened handle: bootstrap chain read from the device -/
  | cold (h1 : st.sirm = none) (h2 : st.sbrm = none) (sb : Nat) (h3 : Bootstrap st.dev.mem sb s)
  /-- SBRM cached (by the public `ControlHandle::sbrm()`, or by a `sirm()` whose last read
  failed), SIRM address not yet: it is read from the cached SBRM -/
  | mixed (h1 : st.sirm = none) (sb cap : Nat) (h2 : st.sbrm = some (sb, cap)) (hcap : cap % 2 = 1)
      (hsp : sb + 0x28 ≤ 2 ^ 64) (hm : st.dev.mem.rangeMapped sb 0x28 = true)
      (haddr : regVal st.dev.mem sb SBRM_SIRM_ADDRESS 8 = s)

/-- start of a conforming, fault-free run inside the theorem scope -/
structure Conforming (st : St) (s e : Nat) : Prop where
  noFaults : st.dev.faults = []
  resolves : Resolves st s
  sirm : SirmOk st.dev.mem s
  scope : InScope st.dev.mem s e

/-- the sizes the call programs, as a function of the device image -/
abbrev programmed (st : St) (s e : Nat) : Sizes := programmedSizes st.dev.mem s e

/-- **enable_run**: on a conforming device the call returns `Ok`; its accesses are: the SIRM
address resolution (reads only), then exactly `enableScript` (read SI_CONTROL, write
SI_CONTROL := 0 iff the stream was enabled, read SI_INFO / leader / payload / trailer, the six
size writes, SI_CONTROL := 1); the image afterwards is `enableImage`. -/
theorem enable_run (p : Profile) (st : St) (s e : Nat) (h : Conforming st s e) :
    ∃ pre c, (∀ a ∈ pre, a.isRead) ∧
      enableStreaming p st =
        (.ok (), ⟨⟨enableImage st.dev.mem s (programmed st s e),
                   st.dev.log ++ pre ++ enableScript st.dev.mem s (programmed st s e), []⟩,
                  c, some s⟩) := by
  obtain ⟨⟨m, log, f⟩, c1, c2⟩ := st
  obtain ⟨hf, hr, hs, hin⟩ := h
  simp only at hf hr hs hin
  subst hf
  cases hr with
  | warm hw =>
    simp only at hw; subst hw
    refine ⟨[], c1, by simp, ?_⟩
    unfold enableStreaming
    rw [M.bind_ok _ _ _ _ _ (getSirm_warm _ _ _)]
    rw [enableAt_ok p m s e log c1 (some s) hs hin]
    simp [mkSt]
  | cold h1 h2 sb h3 =>
    simp only at h1 h2 h3; subst h1; subst h2
    refine ⟨[.r (0 + ABRM_SBRM_ADDRESS) 8 true, .r (sb + SBRM_U3VCP_CAPABILITY) 8 true,
        .r (sb + SBRM_SIRM_ADDRESS) 8 true], some (sb, regVal m sb SBRM_U3VCP_CAPABILITY 8), ?_, ?_⟩
    · intro a ha
      simp only [List.mem_cons, List.not_mem_nil, or_false] at ha
      rcases ha with rfl | rfl | rfl <;> trivial
    · unfold enableStreaming
      rw [M.bind_ok _ _ _ _ _ (getSirm_cold m sb s log h3)]
      rw [enableAt_ok p m s e _ _ (some s) hs hin]
  | mixed h1 sb cap h2 hcap hsp hm haddr =>
    simp only at h1 h2 hm haddr; subst h1; subst h2
    refine ⟨[.r (sb + SBRM_SIRM_ADDRESS) 8 true], some (sb, cap), ?_, ?_⟩
    · intro a ha
      simp only [List.mem_cons, List.not_mem_nil, or_false] at ha
      subst ha; trivial
    · unfold enableStreaming
      rw [M.bind_ok _ _ _ _ _ (getSirm_mixed m sb cap s log hcap hsp hm haddr)]
      rw [enableAt_ok p m s e _ _ (some s) hs hin]

/-- final image and result of a conforming run -/
theorem enable_image (p : Profile) (st : St) (s e : Nat) (h : Conforming st s e) :
    (enableStreaming p st).1 = .ok () ∧
    (enableStreaming p st).2.dev.mem = enableImage st.dev.mem s (programmed st s e) := by
  obtain ⟨pre, c, _, hrun⟩ := enable_run p st s e h
  rw [hrun]; exact ⟨rfl, rfl⟩

private theorem regs (st : St) (s e : Nat) (h : Conforming st s e) :
    let img := enableImage st.dev.mem s (programmed st s e)
    let sz := programmed st s e
    regVal img s MAXIMUM_LEADER_SIZE 4 = sz.maxLeader ∧
    regVal img s MAXIMUM_TRAILER_SIZE 4 = sz.maxTrailer ∧
    regVal img s PAYLOAD_TRANSFER_SIZE_REG 4 = sz.transferSize ∧
    regVal img s PAYLOAD_TRANSFER_COUNT 4 = sz.transferCount ∧
    regVal img s PAYLOAD_FINAL_TRANSFER1_SIZE 4 = sz.final1 ∧
    regVal img s PAYLOAD_FINAL_TRANSFER2_SIZE 4 = sz.final2 ∧
    regVal img s SI_CONTROL 4 = 1 :=
  enableImage_regs st.dev.mem s (programmed st s e)
    (expectedSizes_fit32 e _ _ _ h.scope.arith)

/-- **leader_covered**: afterwards `MAXIMUM_LEADER_SIZE ≥ REQUIRED_LEADER_SIZE`. -/
theorem leader_covered (p : Profile) (st : St) (s e : Nat) (h : Conforming st s e) :
    regVal st.dev.mem s REQUIRED_LEADER_SIZE 4 ≤
      regVal (enableStreaming p st).2.dev.mem s MAXIMUM_LEADER_SIZE 4 := by
  rw [(enable_image p st s e h).2, (regs st s e h).1]
  exact (expectedSizes_cover e _ _ _).1

/-- **trailer_covered**: afterwards `MAXIMUM_TRAILER_SIZE ≥ REQUIRED_TRAILER_SIZE`. -/
theorem trailer_covered (p : Profile) (st : St) (s e : Nat) (h : Conforming st s e) :
    regVal st.dev.mem s REQUIRED_TRAILER_SIZE 4 ≤
      regVal (enableStreaming p st).2.dev.mem s MAXIMUM_TRAILER_SIZE 4 := by
  rw [(enable_image p st s e h).2, (regs st s e h).2.1]
  exact (expectedSizes_cover e _ _ _).2.1

/-- **payload_covered**: transfer size × transfer count + final1 + final2 ≥ required payload. -/
theorem payload_covered (p : Profile) (st : St) (s e : Nat) (h : Conforming st s e) :
    let img := (enableStreaming p st).2.dev.mem
    regVal st.dev.mem s REQUIRED_PAYLOAD_SIZE 8 ≤
      regVal img s PAYLOAD_TRANSFER_SIZE_REG 4 * regVal img s PAYLOAD_TRANSFER_COUNT 4 +
      regVal img s PAYLOAD_FINAL_TRANSFER1_SIZE 4 + regVal img s PAYLOAD_FINAL_TRANSFER2_SIZE 4 := by
  intro img
  have hr := regs st s e h
  simp only [img]
  rw [(enable_image p st s e h).2, hr.2.2.1, hr.2.2.2.1, hr.2.2.2.2.1, hr.2.2.2.2.2.1]
  exact (expectedSizes_cover e _ _ _).2.2

/-- **all_aligned**: every programmed size is a multiple of the device's alignment `2^e`. -/
theorem all_aligned (p : Profile) (st : St) (s e : Nat) (h : Conforming st s e) :
    let img := (enableStreaming p st).2.dev.mem
    2 ^ e ∣ regVal img s PAYLOAD_TRANSFER_SIZE_REG 4 ∧ 2 ^ e ∣ regVal img s PAYLOAD_FINAL_TRANSFER1_SIZE 4 ∧
    2 ^ e ∣ regVal img s PAYLOAD_FINAL_TRANSFER2_SIZE 4 ∧ 2 ^ e ∣ regVal img s MAXIMUM_LEADER_SIZE 4 ∧
    2 ^ e ∣ regVal img s MAXIMUM_TRAILER_SIZE 4 := by
  intro img
  have hr := regs st s e h
  have ha := expectedSizes_aligned e (regVal st.dev.mem s REQUIRED_LEADER_SIZE 4)
    (regVal st.dev.mem s REQUIRED_PAYLOAD_SIZE 8) (regVal st.dev.mem s REQUIRED_TRAILER_SIZE 4)
  simp only [img]
  rw [(enable_image p st s e h).2, hr.1, hr.2.1, hr.2.2.1, hr.2.2.2.2.1, hr.2.2.2.2.2.1]
  exact ⟨ha.1, ha.2.1, ha.2.2.1, ha.2.2.2.1, ha.2.2.2.2⟩

/-- first write access of a log segment -/
def firstWrite : List Access → Option Access
  | [] => none
  | .w a d ok ap :: _ => some (.w a d ok ap)
  | .r _ _ _ :: rest => firstWrite rest

private theorem firstWrite_reads_append (pre rest : List Access) (h : ∀ a ∈ pre, a.isRead) :
    firstWrite (pre ++ rest) = firstWrite rest := by
  induction pre with
  | nil => rfl
  | cons a l ih =>
    cases a with
    | r _ _ _ => exact ih (fun a ha => h a (by simp [ha]))
    | w a d ok ap => exact (h (.w a d ok ap) (by simp)).elim

/-- **disable_first**: if the stream is still enabled, the first write of the call is
`SI_CONTROL := 0` (and it precedes every size write). -/
theorem disable_first (p : Profile) (st : St) (s e : Nat) (h : Conforming st s e)
    (hen : enabledIn st.dev.mem s) :
    ∃ new, (enableStreaming p st).2.dev.log = st.dev.log ++ new ∧
      firstWrite new = some (.w (s + SI_CONTROL) (toLE 4 0) true true) := by
  obtain ⟨pre, c, hpre, hrun⟩ := enable_run p st s e h
  refine ⟨pre ++ enableScript st.dev.mem s (programmed st s e), by rw [hrun, List.append_assoc], ?_⟩
  rw [firstWrite_reads_append _ _ hpre]
  simp [enableScript, readsLog, hen, firstWrite, disableW]

/-- **enable_last**: the last access of the call is the successful write `SI_CONTROL := 1`, no
earlier access sets the enable bit, and the bit is set in the final image. -/
theorem enable_last (p : Profile) (st : St) (s e : Nat) (h : Conforming st s e) :
    ∃ new, (enableStreaming p st).2.dev.log = st.dev.log ++ new ∧
      new.getLast? = some (.w (s + SI_CONTROL) (toLE 4 1) true true) ∧
      (∀ a ∈ new.dropLast, ¬ a.enables s) ∧
      enabledIn (enableStreaming p st).2.dev.mem s := by
  obtain ⟨pre, c, hpre, hrun⟩ := enable_run p st s e h
  have hlast : pre ++ enableScript st.dev.mem s (programmed st s e) =
      (pre ++ readsLog st.dev.mem s ++ writesLog s (sizeWrites (programmed st s e))) ++
        [.w (s + SI_CONTROL) (toLE 4 1) true true] := by
    simp [enableScript, writesLog, List.append_assoc]
  refine ⟨pre ++ enableScript st.dev.mem s (programmed st s e), by rw [hrun, List.append_assoc], ?_, ?_, ?_⟩
  · rw [hlast]; simp
  · rw [hlast, List.dropLast_concat]
    intro a ha
    rcases List.mem_append.mp ha with ha | ha
    · rcases List.mem_append.mp ha with ha | ha
      · have := hpre a ha
        cases a with
        | r _ _ _ => exact fun h => h
        | w _ _ _ _ => exact this.elim
      · simp only [readsLog, List.mem_append, List.mem_cons, List.not_mem_nil, or_false] at ha
        rcases ha with (rfl | ha) | ha
        · exact fun h => h
        · split at ha
          · simp only [List.mem_cons, List.not_mem_nil, or_false] at ha; subst ha
            exact quiet_write_even s 0 true true rfl
          · simp at ha
        · rcases ha with rfl | rfl | rfl | rfl <;> exact fun h => h
    · simp only [writesLog, sizeWrites, List.map_cons, List.map_nil, List.mem_cons, List.not_mem_nil,
        or_false] at ha
      rcases ha with rfl | rfl | rfl | rfl | rfl | rfl <;>
        exact quiet_write_above s _ _ true true (by simp [SI_CONTROL, PAYLOAD_TRANSFER_SIZE_REG,
          PAYLOAD_TRANSFER_COUNT, PAYLOAD_FINAL_TRANSFER1_SIZE, PAYLOAD_FINAL_TRANSFER2_SIZE,
          MAXIMUM_LEADER_SIZE, MAXIMUM_TRAILER_SIZE])
  · unfold enabledIn
    rw [(enable_image p st s e h).2, (regs st s e h).2.2.2.2.2.2]

/-! ## 3. Read-back for the receive loop -/

private theorem maximumPayloadSize_ok (p : Profile) (sp : StreamParams)
    (h1 : sp.payloadSize < 2 ^ 32) (h2 : sp.payloadCount < 2 ^ 32)
    (h3 : sp.payloadFinal1Size < 2 ^ 32) (h4 : sp.payloadFinal2Size < 2 ^ 32) :
    sp.maximumPayloadSize p =
      .ok (sp.payloadSize * sp.payloadCount + sp.payloadFinal1Size + sp.payloadFinal2Size) := by
  have hm : sp.payloadSize * sp.payloadCount ≤ (2 ^ 32 - 1) * (2 ^ 32 - 1) :=
    Nat.mul_le_mul (by omega) (by omega)
  have e1 : (mulW p 64 sp.payloadSize sp.payloadCount : R Nat) = .ok (sp.payloadSize * sp.payloadCount) := by
    simp only [mulW]; rw [if_pos (by omega)]
  have e2 : (addW p 64 (sp.payloadSize * sp.payloadCount) sp.payloadFinal1Size : R Nat) =
      .ok (sp.payloadSize * sp.payloadCount + sp.payloadFinal1Size) := by
    simp only [addW]; rw [if_pos (by omega)]
  have e3 : (addW p 64 (sp.payloadSize * sp.payloadCount + sp.payloadFinal1Size) sp.payloadFinal2Size : R Nat) =
      .ok (sp.payloadSize * sp.payloadCount + sp.payloadFinal1Size + sp.payloadFinal2Size) := by
    simp only [addW]; rw [if_pos (by omega)]
  simp only [StreamParams.maximumPayloadSize, e1, e2, e3, Res.bind_ok]

/-- **params_roundtrip**: `StreamParams::from_control`, run on the state a successful
`enable_streaming` leaves behind, returns exactly the six values that were programmed (the
values of the six size writes in `enableScript`), does not modify the image, and
`maximum_payload_size()` does not overflow and is `≥` the required payload size. -/
theorem params_roundtrip (p : Profile) (st : St) (s e sb : Nat) (h : Conforming st s e)
    (hb : Bootstrap st.dev.mem sb s) :
    let st' := (enableStreaming p st).2
    let sz := programmed st s e
    ∃ st'' t, fromControl st' =
        (.ok ⟨sz.maxLeader, sz.maxTrailer, sz.transferSize, sz.transferCount, sz.final1, sz.final2, t⟩, st'') ∧
      st''.dev.mem = st'.dev.mem ∧
      ∃ n, StreamParams.maximumPayloadSize p
            ⟨sz.maxLeader, sz.maxTrailer, sz.transferSize, sz.transferCount, sz.final1, sz.final2, t⟩ = .ok n ∧
        regVal st.dev.mem s REQUIRED_PAYLOAD_SIZE 8 ≤ n := by
  intro st' sz
  obtain ⟨pre, c, _, hrun⟩ := enable_run p st s e h
  have hs' : SirmOk (enableImage st.dev.mem s sz) s := applyWrites_ok (afterDisable_ok h.sirm) _
  obtain ⟨log', hfc⟩ := fromControl_ok (enableImage st.dev.mem s sz) sb s
    (st.dev.log ++ pre ++ enableScript st.dev.mem s sz) c (some s) (hb.enableImage sz) hs'
  have hr := regs st s e h
  simp only at hr
  rw [hr.1, hr.2.1, hr.2.2.1, hr.2.2.2.1, hr.2.2.2.2.1, hr.2.2.2.2.2.1] at hfc
  have hfit := expectedSizes_fit32 e _ _ _ h.scope.arith
  refine ⟨mkSt (enableImage st.dev.mem s sz) log' c (some s),
    regVal (enableImage st.dev.mem s sz) 0 ABRM_MAXIMUM_DEVICE_RESPONSE_TIME 4, ?_, ?_, _,
    maximumPayloadSize_ok p _ hfit.1 hfit.2.1 hfit.2.2.1 hfit.2.2.2.1, ?_⟩
  · simp only [st']; rw [hrun]; exact hfc
  · simp only [st']; rw [hrun]
  · exact (expectedSizes_cover e (regVal st.dev.mem s REQUIRED_LEADER_SIZE 4)
      (regVal st.dev.mem s REQUIRED_PAYLOAD_SIZE 8) (regVal st.dev.mem s REQUIRED_TRAILER_SIZE 4)).2.2

/-! ## 3b. Histories: several acquisitions on handles that stay open -/

/-- image invariant of a conforming device whose SBRM is at `sb` and SIRM at `s` -/
structure GoodImg (m : Mem) (sb s : Nat) : Prop where
  sirm : SirmOk m s
  boot : Bootstrap m sb s

/-- a reconfiguration of the camera between two acquisitions (other ROI, chunk mode, alignment …):
the device stays conforming and reports in-scope requirements -/
def Reconf (sb s : Nat) (r : Mem → Mem) : Prop :=
  ∀ m, GoodImg m sb s → GoodImg (r m) sb s ∧ ∃ e, InScope (r m) s e

/-- One acquisition on handles that stay open: the device is reconfigured (`r`), `enable_streaming`,
`StreamHandle::start_streaming_loop` (model `startStreamingLoop`: reads the parameters back,
stores them in the handle, hands a clone to the receive loop), `stop_streaming_loop`,
`disable_streaming`.  Result: the image the acquisition started from, the parameters the receive
loop was started with, and `StreamHandle::params()` afterwards. -/
def session (p : Profile) (r : Mem → Mem) (x : StreamHandle × St) :
    (Mem × Res StreamErr StreamParams × StreamParams) × (StreamHandle × St) :=
  let st1 : St := { x.2 with dev := { x.2.dev with mem := r x.2.dev.mem } }
  let st2 := (enableStreaming p st1).2
  let started := startStreamingLoop x.1 st2
  ((st1.dev.mem, started.1, started.2.1.params),
   (stopStreamingLoop started.2.1, (disableStreaming started.2.2).2))

def sessions (p : Profile) : List (Mem → Mem) → StreamHandle × St → List (Mem × Res StreamErr StreamParams × StreamParams)
  | [], _ => []
  | r :: rs, x => (session p r x).1 :: sessions p rs (session p r x).2

/-- states between acquisitions: no loop running, no pending faults, and any of the three cache
states of the control handle (SIRM address cached / both caches cold / SBRM cached only) -/
def Between (x : StreamHandle × St) (sb s : Nat) : Prop :=
  x.1.running = false ∧ x.2.dev.faults = [] ∧
  (x.2.sirm = some s ∨ (x.2.sirm = none ∧ x.2.sbrm = none) ∨
   (x.2.sirm = none ∧ ∃ cap, x.2.sbrm = some (sb, cap) ∧ cap % 2 = 1)) ∧
  GoodImg x.2.dev.mem sb s

/-- the parameter record made of the sizes programmed for image `m` -/
def programmedParams (m : Mem) (s e t : Nat) : StreamParams :=
  ⟨(programmedSizes m s e).maxLeader, (programmedSizes m s e).maxTrailer,
   (programmedSizes m s e).transferSize, (programmedSizes m s e).transferCount,
   (programmedSizes m s e).final1, (programmedSizes m s e).final2, t⟩

private theorem session_step (p : Profile) (r : Mem → Mem) (x : StreamHandle × St) (sb s : Nat)
    (hst : Between x sb s) (hr : Reconf sb s r) :
    (∃ e t, InScope (session p r x).1.1 s e ∧
      (session p r x).1.2.1 = .ok (programmedParams (session p r x).1.1 s e t) ∧
      (session p r x).1.2.2 = programmedParams (session p r x).1.1 s e t) ∧
    Between (session p r x).2 sb s := by
  obtain ⟨sh, ⟨⟨m, log, f⟩, c1, c2⟩⟩ := x
  obtain ⟨hrun0, hf, hres, hgood⟩ := hst
  simp only at hrun0 hf hres hgood
  subst hf
  obtain ⟨hg1, e, hin⟩ := hr m hgood
  have hconf : Conforming ⟨⟨r m, log, []⟩, c1, c2⟩ s e := by
    refine ⟨rfl, ?_, hg1.sirm, hin⟩
    rcases hres with h | ⟨h1, h2⟩ | ⟨h1, cap, h2, hcap⟩
    · exact .warm h
    · exact .cold h1 h2 sb hg1.boot
    · exact .mixed h1 sb cap h2 hcap hg1.boot.sbrmSpace hg1.boot.sbrmMapped hg1.boot.sirmAddr
  obtain ⟨pre, c, _, hrun⟩ := enable_run p _ s e hconf
  have hs' : SirmOk (enableImage (r m) s (programmedSizes (r m) s e)) s :=
    applyWrites_ok (afterDisable_ok hg1.sirm) _
  have hb' := hg1.boot.enableImage (programmedSizes (r m) s e)
  obtain ⟨log', hfc⟩ := fromControl_ok (enableImage (r m) s (programmedSizes (r m) s e)) sb s
    (log ++ pre ++ enableScript (r m) s (programmedSizes (r m) s e)) c (some s) hb' hs'
  have hregs := enableImage_regs (r m) s (programmedSizes (r m) s e)
    (expectedSizes_fit32 e _ _ _ hin.arith)
  rw [hregs.1, hregs.2.1, hregs.2.2.1, hregs.2.2.2.1, hregs.2.2.2.2.1, hregs.2.2.2.2.2.1] at hfc
  have hsp := hs'.inSpace
  simp only [SIRM_LEN] at hsp
  have hdis : disableStreaming (mkSt (enableImage (r m) s (programmedSizes (r m) s e)) log' c (some s)) =
      (.ok (), mkSt ((enableImage (r m) s (programmedSizes (r m) s e)).write (s + SI_CONTROL) (toLE 4 0))
        (log' ++ [.w (s + SI_CONTROL) (toLE 4 0) true true]) c (some s)) := by
    unfold disableStreaming
    rw [M.bind_ok _ _ _ _ _ (getSirm_warm _ _ _)]
    exact writeReg32_ok s SI_CONTROL 0 _ log' c (some s) (by simp only [SI_CONTROL]; omega)
      (hs'.sub SI_CONTROL 4 (by decide))
  have hst2 : (enableStreaming p ⟨⟨r m, log, []⟩, c1, c2⟩).2 =
      mkSt (enableImage (r m) s (programmedSizes (r m) s e))
        (log ++ pre ++ enableScript (r m) s (programmedSizes (r m) s e)) c (some s) := by
    rw [hrun]
  -- the start of the loop on the handle `sh` (no loop running)
  have hstart : startStreamingLoop sh (enableStreaming p ⟨⟨r m, log, []⟩, c1, c2⟩).2 =
      (.ok (programmedParams (r m) s e
          (regVal (enableImage (r m) s (programmedSizes (r m) s e)) 0 ABRM_MAXIMUM_DEVICE_RESPONSE_TIME 4)),
        ⟨programmedParams (r m) s e
          (regVal (enableImage (r m) s (programmedSizes (r m) s e)) 0 ABRM_MAXIMUM_DEVICE_RESPONSE_TIME 4), true⟩,
        mkSt (enableImage (r m) s (programmedSizes (r m) s e)) log' c (some s)) := by
    rw [hst2]
    simp only [startStreamingLoop, hfc, hrun0, programmedParams]
    rfl
  refine ⟨⟨e, regVal (enableImage (r m) s (programmedSizes (r m) s e)) 0 ABRM_MAXIMUM_DEVICE_RESPONSE_TIME 4,
    hin, ?_, ?_⟩, ?_⟩
  · show (startStreamingLoop sh (enableStreaming p ⟨⟨r m, log, []⟩, c1, c2⟩).2).1 = _
    rw [hstart]
    rfl
  · show (startStreamingLoop sh (enableStreaming p ⟨⟨r m, log, []⟩, c1, c2⟩).2).2.1.params = _
    rw [hstart]
    rfl
  · show Between (stopStreamingLoop (startStreamingLoop sh (enableStreaming p ⟨⟨r m, log, []⟩, c1, c2⟩).2).2.1,
      (disableStreaming (startStreamingLoop sh (enableStreaming p ⟨⟨r m, log, []⟩, c1, c2⟩).2).2.2).2) sb s
    rw [hstart, hdis]
    exact ⟨rfl, rfl, Or.inl rfl, hs'.write _ _, hb'.write_sirm SI_CONTROL 0 (by decide)⟩

/-- **params_roundtrip for every acquisition of a history**: on a control handle and a stream
handle that stay open, for any sequence of reconfigurations of a conforming device and from any
of the three cache states, in EVERY acquisition the parameters `start_streaming_loop` hands to
the receive loop — and `StreamHandle::params()` afterwards — are exactly the sizes
`enable_streaming` programmed in that acquisition (`programmedSizes` of the image the acquisition
started from), never those of an earlier one.  (The statement is about the modelled
`StreamHandle`: `startStreamingLoop` re-reads the parameters on every start; that the real
`StreamHandle` does so is tied by the acquisition sessions of the harness.) -/
theorem params_roundtrip_every_session (p : Profile) (rs : List (Mem → Mem)) (x : StreamHandle × St)
    (sb s : Nat) (hst : Between x sb s) (hrs : ∀ r ∈ rs, Reconf sb s r) :
    ∀ y ∈ sessions p rs x, ∃ e t, InScope y.1 s e ∧
      y.2.1 = .ok (programmedParams y.1 s e t) ∧ y.2.2 = programmedParams y.1 s e t := by
  induction rs generalizing x with
  | nil => intro y hy; simp [sessions] at hy
  | cons r rs ih =>
    obtain ⟨h1, h2⟩ := session_step p r x sb s hst (hrs r (by simp))
    intro y hy
    simp only [sessions, List.mem_cons] at hy
    rcases hy with rfl | hy
    · exact h1
    · exact ih _ h2 (fun r' hr' => hrs r' (by simp [hr'])) y hy

/-! ## 4. Arbitrary devices, handle states and fault schedules -/

/-- `enable_streaming` = SIRM address resolution, then `enableAt`. -/
theorem enableStreaming_factors (p : Profile) (st : St) :
    enableStreaming p st =
      match getSirm st with
      | (.ok s, st1) => enableAt p s st1
      | (.err e, st1) => (.err e, st1)
      | (.panic, st1) => (.panic, st1) := by
  unfold enableStreaming
  rw [M.bind_eq]
  cases getSirm st with
  | mk r st1 => cases r <;> rfl

/-- The SIRM address resolution (`ControlHandle::sirm`) performs reads only and leaves the
image unchanged, whatever the device does. -/
theorem resolution_reads_only (st : St) :
    ∃ pre, (getSirm st).2.dev.log = st.dev.log ++ pre ∧ (getSirm st).2.dev.mem = st.dev.mem ∧
      ∀ a ∈ pre, a.isRead := by
  obtain ⟨pre, h1, h2, h3, _⟩ := getSirm_reads st
  exact ⟨pre, h1, by rw [h2, replay_reads _ _ h3], h3⟩

/-- **failure_atomic_enable** (and the general form of **enable_last**): for every image, handle
state, fault schedule and profile, with `new` the accesses of the call and `lost` the final write
`SI_CONTROL := 1` that the device executed but whose acknowledge was lost:
* the image changes exactly by the applied writes of `new`;
* no access except the very last one sets the enable bit;
* if any access failed the call returns `Err` (not `Ok`, not a panic);
* if the call does not return `Ok`, the only access that can have set the enable bit is `lost`;
* if the call does not return `Ok` and there was no `lost`, the enable bit is set afterwards only
  if it was set before and no write of this call touched it (the disable write itself was refused). -/
theorem failure_atomic_enable (p : Profile) (s : Nat) (st : St) :
    let lost := Access.w (s + SI_CONTROL) (toLE 4 1) false true
    ∃ new, (enableAt p s st).2.dev.log = st.dev.log ++ new ∧
      (enableAt p s st).2.dev.mem = replay new st.dev.mem ∧
      (∀ a ∈ new.dropLast, ¬ a.enables s) ∧
      ((∃ a ∈ new, a.succeeded = false) → ∃ err, (enableAt p s st).1 = .err err) ∧
      ((enableAt p s st).1 ≠ .ok () → ∀ a ∈ new, a.enables s → a = lost) ∧
      ((enableAt p s st).1 ≠ .ok () → lost ∉ new → enabledIn (enableAt p s st).2.dev.mem s →
          enabledIn st.dev.mem s ∧ ∀ a ∈ new, ¬ a.touches s) := by
  intro lost
  obtain ⟨quiet, last, h1, h2, h3, h4, h5⟩ := enableAt_any p s st
  have hdrop : ∀ a ∈ (quiet ++ last).dropLast, ¬ a.enables s := by
    rcases h5 with ⟨rfl, _⟩ | ⟨ok, ap, rfl, _⟩
    · intro a ha; rw [List.append_nil] at ha; exact h3 a (List.dropLast_subset _ ha)
    · intro a ha; rw [List.dropLast_concat] at ha; exact h3 a ha
  have hnotok : (enableAt p s st).1 ≠ .ok () → ∀ a ∈ quiet ++ last, a.enables s → a = lost := by
    intro hne a ha hen
    rcases List.mem_append.mp ha with ha | ha
    · exact absurd hen (h3 a ha)
    · rcases h5 with ⟨rfl, _⟩ | ⟨ok, ap, rfl, g3, _, _⟩
      · simp at ha
      · simp only [List.mem_cons, List.not_mem_nil, or_false] at ha; subst ha
        have hok : ok = false := by
          cases ok with
          | false => rfl
          | true => exact absurd (g3.mp rfl) hne
        subst hok
        cases ap with
        | true => rfl
        | false => exact hen.elim
  refine ⟨quiet ++ last, h1, h2, hdrop, ?_, hnotok, ?_⟩
  · rintro ⟨a, ha, hfail⟩
    rcases List.mem_append.mp ha with ha | ha
    · cases hres : (enableAt p s st).1 with
      | err e => exact ⟨e, rfl⟩
      | ok u =>
        have := h4 (by rw [hres]; simp) a ha
        rw [hfail] at this; cases this
      | panic =>
        have := h4 (by rw [hres]; simp) a ha
        rw [hfail] at this; cases this
    · rcases h5 with ⟨rfl, _⟩ | ⟨ok, ap, rfl, _, _, g5⟩
      · simp at ha
      · simp only [List.mem_cons, List.not_mem_nil, or_false] at ha; subst ha
        exact g5 hfail
  · intro hne hlost hen
    have hq : ∀ a ∈ quiet ++ last, Quiet s a := by
      intro a ha hena
      exact hlost (hnotok hne a ha hena ▸ ha)
    rw [h2, enabledIn_iff_byte] at hen
    obtain ⟨g1, g2⟩ := replay_enable_bit s _ _ hq hen
    exact ⟨(enabledIn_iff_byte _ _).mpr g1, g2⟩

/-- **never_panics**: `enable_streaming` does not panic — for every device image (any register
values: alignment exponent 0..255, any required sizes), every handle state, every fault schedule
and both build profiles the call returns `Ok` or `Err`. -/
theorem never_panics (p : Profile) (st : St) : (enableStreaming p st).1 ≠ .panic :=
  (NP.enableStreaming p st).1

/-- **failure_atomic_enable for the whole call** (`enable_streaming` = SIRM address resolution,
then `enableAt`): for every state, image, fault schedule and profile — if the resolution fails
the call fails with the same error after reads only and the image is unchanged; otherwise, with
`s` the resolved SIRM address and `pre` the (read-only) accesses of the resolution, the accesses of
the call are `pre ++ new` with everything `failure_atomic_enable` says about `new`. -/
theorem failure_atomic_enable_streaming (p : Profile) (st : St) :
    (∃ pre, (∀ a ∈ pre, a.isRead) ∧ (getSirm st).2.dev.log = st.dev.log ++ pre ∧
      (getSirm st).2.dev.mem = st.dev.mem) ∧
    (∀ s, (getSirm st).1 = .ok s →
      let st1 := (getSirm st).2
      let lost := Access.w (s + SI_CONTROL) (toLE 4 1) false true
      enableStreaming p st = enableAt p s st1 ∧
      ∃ new, (enableStreaming p st).2.dev.log = st1.dev.log ++ new ∧
        (enableStreaming p st).2.dev.mem = replay new st.dev.mem ∧
        (∀ a ∈ new.dropLast, ¬ a.enables s) ∧
        ((∃ a ∈ new, a.succeeded = false) → ∃ err, (enableStreaming p st).1 = .err err) ∧
        ((enableStreaming p st).1 ≠ .ok () → ∀ a ∈ new, a.enables s → a = lost) ∧
        ((enableStreaming p st).1 ≠ .ok () → lost ∉ new → enabledIn (enableStreaming p st).2.dev.mem s →
            enabledIn st.dev.mem s ∧ ∀ a ∈ new, ¬ a.touches s)) ∧
    (∀ e, (getSirm st).1 = .err e → (enableStreaming p st).1 = .err e ∧
      (enableStreaming p st).2 = (getSirm st).2) := by
  obtain ⟨pre, hp1, hp2, hp3⟩ := resolution_reads_only st
  refine ⟨⟨pre, hp3, hp1, hp2⟩, ?_, ?_⟩
  · intro s hs st1 lost
    have hfac : enableStreaming p st = enableAt p s st1 := by
      rw [enableStreaming_factors]
      cases hg : getSirm st with
      | mk r st' =>
        have : r = .ok s := by rw [hg] at hs; exact hs
        subst this
        simp only [st1, hg]
    refine ⟨hfac, ?_⟩
    obtain ⟨new, h1, h2, h3, h4, h5, h6⟩ := failure_atomic_enable p s st1
    rw [hfac]
    have hmem : st1.dev.mem = st.dev.mem := hp2
    rw [hmem] at h2 h6
    exact ⟨new, h1, h2, h3, h4, h5, h6⟩
  · intro e he
    rw [enableStreaming_factors]
    cases hg : getSirm st with
    | mk r st' =>
      have : r = .err e := by rw [hg] at he; exact he
      subst this
      exact ⟨rfl, rfl⟩

/-- **never_panics (other entry points)**: `disable_streaming`, `StreamParams::from_control` and
`start_streaming_loop` do not panic either, for every image, state and fault schedule. -/
theorem never_panics_disable_and_readback (st : St) (sh : StreamHandle) :
    (disableStreaming st).1 ≠ .panic ∧ (fromControl st).1 ≠ .panic ∧
    (startStreamingLoop sh st).1 ≠ .panic := by
  have h1 := (NP.disableStreaming st).1
  have h2 := (NP.fromControl st).1
  refine ⟨h1, h2, ?_⟩
  simp only [startStreamingLoop]
  cases hfc : fromControl st with
  | mk r st' =>
    rw [hfc] at h2
    cases r with
    | ok sp => simp only; split <;> simp
    | err e => simp
    | panic => exact absurd rfl h2

/-- **enable_with_stream_already_enabled**: the stream is still enabled (SI_CONTROL reads with
bit 0 set) and the device fails the disable write (error status, transport error, lost
acknowledge: fault `f`): `enable_streaming` returns exactly that error, its only accesses are the
SI_CONTROL read and the failed disable write — no size register is read or written, no enable
write is attempted — and the image is untouched unless the device executed the disable write
although its acknowledge was lost. -/
theorem enable_with_stream_already_enabled (p : Profile) (m : Mem) (log : List Access)
    (fs : List (Option Fault)) (f : Fault) (c : Option (Nat × Nat)) (s : Nat)
    (hs : s + SI_CONTROL + 4 ≤ 2 ^ 64) (hm : m.rangeMapped (s + SI_CONTROL) 4 = true)
    (hen : enabledIn m s) :
    enableStreaming p ⟨⟨m, log, none :: some f :: fs⟩, c, some s⟩ =
      (.err f.err,
       ⟨⟨if f.applied then m.write (s + SI_CONTROL) (toLE 4 0) else m,
         log ++ [.r (s + SI_CONTROL) 4 true, .w (s + SI_CONTROL) (toLE 4 0) false f.applied], fs⟩,
        c, some s⟩) := by
  have hen' : fromLE (m.read (s + SI_CONTROL) 4) % 2 = 1 := hen
  have hri : readInputs s ⟨⟨m, log, none :: some f :: fs⟩, c, some s⟩ =
      (.err f.err,
       ⟨⟨if f.applied then m.write (s + SI_CONTROL) (toLE 4 0) else m,
         log ++ [.r (s + SI_CONTROL) 4 true, .w (s + SI_CONTROL) (toLE 4 0) false f.applied], fs⟩,
        c, some s⟩) := by
    unfold readInputs
    rw [M.bind_ok _ _ _ _ _ (readReg_served s SI_CONTROL 4 m log _ c (some s) (by decide) hs hm)]
    simp only [hen', if_true]
    rw [M.bind_err _ _ _ _ _ (writeReg32_faulted s SI_CONTROL 0 m _ fs c (some s) f hs hm)]
    simp [List.append_assoc]
  unfold enableStreaming
  rw [M.bind_ok _ _ _ _ _ (getSirm_warm _ _ _)]
  unfold enableAt prepareAt
  rw [M.bind_err _ _ _ _ _ (M.bind_err _ _ _ _ _ hri)]

/-- **disable_streaming_never_panics**: for every device image, handle state and fault schedule. -/
theorem disable_streaming_never_panics (st : St) : (disableStreaming st).1 ≠ .panic :=
  (NP.disableStreaming st).1

/-- **disable_streaming_clears_enable_or_errors**: for every device image, handle state and
fault schedule, with `s` the SIRM address the handle resolves:
* `disable_streaming` returns `Ok` ⇒ its last access is the acknowledged write `SI_CONTROL := 0`
  and the stream-enable bit is clear in the device afterwards;
* otherwise it returns an `Err` (never a panic);
* in every case the call performs at most one write, `SI_CONTROL := 0`, after reads only; so if
  the enable bit is set afterwards it was set before and the call did NOT return `Ok`
  (disable never enables, and never reports success while the stream is still enabled).
If the SIRM address cannot be resolved the call fails with that error after reads only. -/
theorem disable_streaming_clears_enable_or_errors (st : St) :
    (∀ e, (getSirm st).1 = .err e → (disableStreaming st).1 = .err e ∧
      (disableStreaming st).2 = (getSirm st).2) ∧
    (∀ s, (getSirm st).1 = .ok s →
      ((disableStreaming st).1 = .ok () ∨ ∃ e, (disableStreaming st).1 = .err e) ∧
      ((disableStreaming st).1 = .ok () →
        ¬ enabledIn (disableStreaming st).2.dev.mem s ∧
        (disableStreaming st).2.dev.log =
          (getSirm st).2.dev.log ++ [.w (s + SI_CONTROL) (toLE 4 0) true true]) ∧
      (enabledIn (disableStreaming st).2.dev.mem s →
        enabledIn st.dev.mem s ∧ (disableStreaming st).1 ≠ .ok ())) := by
  have hfac : disableStreaming st = match getSirm st with
      | (.ok s, st1) => writeReg32 s SI_CONTROL 0 st1
      | (.err e, st1) => (.err e, st1)
      | (.panic, st1) => (.panic, st1) := by
    unfold disableStreaming
    rw [M.bind_eq]
    cases getSirm st with
    | mk r st1 => cases r <;> rfl
  obtain ⟨pre, _, hmem, _⟩ := resolution_reads_only st
  constructor
  · intro e he
    rw [hfac]
    cases hg : getSirm st with
    | mk r st1 =>
      have : r = .err e := by rw [hg] at he; exact he
      subst this; exact ⟨rfl, rfl⟩
  · intro s hs
    cases hg : getSirm st with
    | mk r st1 =>
      have hr : r = .ok s := by rw [hg] at hs; exact hs
      subst hr
      have hd : disableStreaming st = writeReg32 s SI_CONTROL 0 st1 := by rw [hfac, hg]
      have hm1 : st1.dev.mem = st.dev.mem := by rw [hg] at hmem; exact hmem
      rw [hd]
      rcases writeReg32_cases s SI_CONTROL 0 st1 with ⟨g1, g2⟩ | ⟨ok, ap, g1, g2, g3, g4, g5⟩
      · -- refused before any access
        have hnp := (NP.writeReg32 s SI_CONTROL 0 st1).1
        refine ⟨?_, fun h => absurd h g2, ?_⟩
        · cases hres : (writeReg32 s SI_CONTROL 0 st1).1 with
          | ok u => exact Or.inl rfl
          | err e => exact Or.inr ⟨e, rfl⟩
          | panic => exact absurd hres hnp
        · intro hen
          rw [g1, hm1] at hen
          exact ⟨hen, g2⟩
      · cases ok with
        | true =>
          have hap : ap = true := g4 rfl
          subst hap
          have hok := g3.mp rfl
          have hmem' : (writeReg32 s SI_CONTROL 0 st1).2.dev.mem =
              st1.dev.mem.write (s + SI_CONTROL) (toLE 4 0) := by rw [g2]; rfl
          refine ⟨Or.inl hok, fun _ => ⟨by rw [hmem']; exact enabledIn_write_zero _ _, g1⟩, ?_⟩
          intro hen
          rw [hmem'] at hen
          exact absurd hen (enabledIn_write_zero _ _)
        | false =>
          obtain ⟨e, he⟩ := g5 rfl
          have hne : (writeReg32 s SI_CONTROL 0 st1).1 ≠ .ok () := by rw [he]; simp
          refine ⟨Or.inr ⟨e, he⟩, fun h => absurd h hne, ?_⟩
          intro hen
          cases ap with
          | true =>
            have hmem' : (writeReg32 s SI_CONTROL 0 st1).2.dev.mem =
                st1.dev.mem.write (s + SI_CONTROL) (toLE 4 0) := by rw [g2]; rfl
            rw [hmem'] at hen
            exact absurd hen (enabledIn_write_zero _ _)
          | false =>
            have hmem' : (writeReg32 s SI_CONTROL 0 st1).2.dev.mem = st1.dev.mem := by rw [g2]; rfl
            rw [hmem', hm1] at hen
            exact ⟨hen, hne⟩

/-- **disable_streaming** on a conforming device: one write `SI_CONTROL := 0`, the enable bit is
clear afterwards. -/
theorem disable_clears (m : Mem) (log : List Access) (c : Option (Nat × Nat)) (s : Nat)
    (hs : SirmOk m s) :
    ∃ st', disableStreaming ⟨⟨m, log, []⟩, c, some s⟩ = (.ok (), st') ∧
      st'.dev.log = log ++ [.w (s + SI_CONTROL) (toLE 4 0) true true] ∧ ¬ enabledIn st'.dev.mem s := by
  have hsp := hs.inSpace
  simp only [SIRM_LEN] at hsp
  refine ⟨mkSt (m.write (s + SI_CONTROL) (toLE 4 0))
    (log ++ [.w (s + SI_CONTROL) (toLE 4 0) true true]) c (some s), ?_, rfl, ?_⟩
  · unfold disableStreaming
    rw [M.bind_ok _ _ _ _ _ (getSirm_warm _ _ _)]
    exact writeReg32_ok s SI_CONTROL 0 m log c (some s) (by simp only [SI_CONTROL]; omega)
      (hs.sub SI_CONTROL 4 (by decide))
  · simp only [enabledIn, regVal]
    rw [read_write32_eq]
    decide

/-! ## Non-vacuity: a concrete conforming device (alignment 16, stream left enabled, required
leader 52, payload 1 000 000, trailer 100 > leader) satisfies the hypotheses, and concrete
faulted runs exhibit the failure cases. -/

/-- device image from (base, bytes) regions -/
def memOfRegions (rs : List (Nat × Bytes)) : Mem :=
  { byte := fun x =>
      match rs.find? (fun r => r.1 ≤ x && x < r.1 + r.2.length) with
      | some r => match r.2[x - r.1]? with
        | some b => b
        | none => 0
      | none => 0
    mapped := fun x => rs.any (fun r => r.1 ≤ x && x < r.1 + r.2.length) }

/-- ABRM fragment (SBRM at 0x2000), SBRM (SIRM available, at 0x1000), SIRM -/
def exMem : Mem := memOfRegions
  [(0x1C4, toLE 8 0 ++ toLE 4 200 ++ toLE 8 0x3000 ++ toLE 8 0x2000),
   (0x2000, toLE 4 0x10000 ++ toLE 8 1 ++ toLE 8 0 ++ toLE 4 1024 ++ toLE 4 1024 ++ toLE 4 1 ++
            toLE 8 0x1000 ++ toLE 4 0x30),
   (0x1000, toLE 4 (4 * 2 ^ 24) ++ toLE 4 1 ++ toLE 8 1000000 ++ toLE 4 52 ++ toLE 4 100 ++
            toLE 4 7 ++ toLE 4 7 ++ toLE 4 7 ++ toLE 4 7 ++ toLE 4 7 ++ toLE 4 7)]

def exSt : St := ⟨⟨exMem, [], []⟩, none, none⟩

example : Conforming exSt 0x1000 4 :=
  ⟨rfl, .cold rfl rfl 0x2000 ⟨by decide, by decide, by decide, by decide, by decide, by decide,
      by decide, by decide⟩,
    ⟨by decide, by decide⟩, ⟨by decide, by decide, by decide, by decide, by decide⟩⟩

/-- the mixed cache state (SBRM cached through the public `sbrm()`, SIRM not) -/
example : Conforming ⟨⟨exMem, [], []⟩, some (0x2000, 1), none⟩ 0x1000 4 :=
  ⟨rfl, .mixed rfl 0x2000 1 rfl (by decide) (by decide) (by decide) (by decide),
    ⟨by decide, by decide⟩, ⟨by decide, by decide, by decide, by decide, by decide⟩⟩

/-- hypotheses of `params_roundtrip_every_session` are satisfiable -/
example : Between (StreamHandle.new, exSt) 0x2000 0x1000 :=
  ⟨rfl, rfl, Or.inr (Or.inl ⟨rfl, rfl⟩), ⟨⟨by decide, by decide⟩, ⟨by decide, by decide, by decide, by decide,
    by decide, by decide, by decide, by decide⟩⟩⟩
example : Reconf 0x2000 0x1000 (fun _ => exMem) := by
  intro _ _
  show GoodImg exMem 0x2000 0x1000 ∧ ∃ e, InScope exMem 0x1000 e
  exact ⟨⟨⟨by decide, by decide⟩, ⟨by decide, by decide, by decide, by decide, by decide, by decide,
    by decide, by decide⟩⟩, 4, ⟨by decide, by decide, by decide, by decide, by decide⟩⟩

example : enabledIn exSt.dev.mem 0x1000 := by decide

example : programmed exSt 0x1000 4 = ⟨65536, 15, 16960, 0, 64, 112⟩ := by decide

example : ArithScope 4 52 1000000 100 := ⟨by decide, by decide, by decide, by decide⟩
example : ArithScope 31 (2 ^ 31) (2 ^ 62) 1 := ⟨by decide, by decide, by decide, by decide⟩

/-- the device refuses the 10th access (the first size write): `Err`, stream disabled -/
def exFault1 : St := ⟨⟨exMem, [], List.replicate 9 none ++ [some ⟨.io, false⟩]⟩, none, none⟩
example : (enableStreaming .dev exFault1).1 = .err .io := by decide
example : ¬ enabledIn (enableStreaming .dev exFault1).2.dev.mem 0x1000 := by decide

/-- `enable_with_stream_already_enabled`: hypotheses satisfiable (warm cache, stream enabled, the
disable write — second access — refused) and the conclusion on the concrete device -/
example : exMem.rangeMapped (0x1000 + SI_CONTROL) 4 = true ∧ enabledIn exMem 0x1000 := by decide
example : (enableStreaming .dev ⟨⟨exMem, [], [none, some ⟨.io, false⟩]⟩, none, some 0x1000⟩).1 = .err .io ∧
    (enableStreaming .dev ⟨⟨exMem, [], [none, some ⟨.io, false⟩]⟩, none, some 0x1000⟩).2.dev.log.length = 2 := by
  decide

/-- `disable_streaming_clears_enable_or_errors`: both branches occur -/
example : (getSirm exSt).1 = .ok 0x1000 ∧ (disableStreaming exSt).1 = .ok () ∧
    ¬ enabledIn (disableStreaming exSt).2.dev.mem 0x1000 := by decide
example : (disableStreaming ⟨⟨exMem, [], [some ⟨.timeout, false⟩]⟩, none, some 0x1000⟩).1 = .err .timeout ∧
    enabledIn (disableStreaming ⟨⟨exMem, [], [some ⟨.timeout, false⟩]⟩, none, some 0x1000⟩).2.dev.mem 0x1000 := by
  decide

/-- the device refuses the disable write itself: `Err`, the stream stays enabled, no size written -/
def exFault2 : St := ⟨⟨exMem, [], List.replicate 4 none ++ [some ⟨.io, false⟩]⟩, none, none⟩
example : (enableStreaming .dev exFault2).1 = .err .io ∧
    enabledIn (enableStreaming .dev exFault2).2.dev.mem 0x1000 ∧
    (enableStreaming .dev exFault2).2.dev.log.length = 5 := by decide

end CamVerif.C15
