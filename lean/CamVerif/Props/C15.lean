/-
C15 — Enabling streaming programs transfer sizes that cover the device's requirements.

Property theorems only.  Vocabulary (`Proofs/C15.lean`): `regVal m s off len` = little-endian
value of the register at `s + off` in image `m`; `SirmOk` = SIRM addressable and mapped;
`InScope m s e` = the image reports alignment exponent `e ≤ 31`, required leader/trailer whose
aligned value fits `u32`, required payload `< 2^32 · transfer size`; `Bootstrap m sb s` = the
ABRM → SBRM → SIRM chain of a conforming device; `replay new m` = image after the applied writes
of the log segment `new`; `Access.enables s` / `touches s` = the access set / modified the
stream-enable bit; `roundUp a x` = least multiple of `a` that is `≥ x`.

The coverage theorems hold for **every** exponent `k ≤ 31`, both build profiles, all `u32`
leader/trailer sizes with `size + 2^k - 1 < 2^32` and all payloads `< 2^32 · roundUp 2^k 65536`;
outside that scope the (repaired) code returns an error (`sizes_total`, `never_panics`).
The failure theorems hold for every device image, handle state and fault schedule.

Sections 1-4 are about the one-command-per-register model (`Model/Streaming.lean`).  Section 5
puts the negotiated `maximum_cmd_length` / `maximum_ack_length` inside the model
(`Model/StreamingLimits.lean`; `Proofs/C15Limits.lean`) and extends coverage, failure atomicity
and panic freedom to every pair of limits; section 6 is a device that publishes new required
sizes when the stream is disabled (`Model/StreamingPublish.lean`; `Proofs/C15Publish.lean`);
section 7 ties the literal constants of the models to files regenerated from the source.
-/
import CamVerif.Proofs.C15
import CamVerif.Proofs.C15Limits
import CamVerif.Proofs.C15Publish
import CamVerif.Gen.C15Consts
import CamVerif.Gen.RegMap
import CamVerif.Gen.CmdConsts
namespace CamVerif.C15
open CamVerif CamVerif.Streaming

/-! ## 1. The arithmetic (`align!`, truncating casts, u32/u64 wrap) -/

/-- **sizes_exact**: inside the scope the straight-line computation never panics in either
profile and yields exactly: transfer size = 64 KiB rounded up to the alignment, count =
payload / size (no truncation), final1 = remainder rounded up, final2 = 0, leader/trailer =
transfer size if the requirement is 0, else the requirement rounded up. -/
theorem sizes_exact (p : Profile) (e L P T : Nat) (h : ArithScope e L P T) :
    computeSizes p (2 ^ e) L P T = .ok (expectedSizes e L P T) :=
  computeSizes_ok p e L P T h.expLe h.leaderFits h.trailerFits h.payloadFits

/-- **leader_covered / trailer_covered / payload_covered** for the computed sizes. -/
theorem sizes_cover (p : Profile) (e L P T : Nat) (h : ArithScope e L P T) :
    ∃ sz, computeSizes p (2 ^ e) L P T = .ok sz ∧ L ≤ sz.maxLeader ∧ T ≤ sz.maxTrailer ∧
      P ≤ sz.transferSize * sz.transferCount + sz.final1 + sz.final2 :=
  ⟨_, sizes_exact p e L P T h, expectedSizes_cover e L P T⟩

/-- **all_aligned** for the computed sizes; all of them are genuine `u32` values. -/
theorem sizes_aligned (p : Profile) (e L P T : Nat) (h : ArithScope e L P T) :
    ∃ sz, computeSizes p (2 ^ e) L P T = .ok sz ∧
      2 ^ e ∣ sz.transferSize ∧ 2 ^ e ∣ sz.final1 ∧ 2 ^ e ∣ sz.final2 ∧ 2 ^ e ∣ sz.maxLeader ∧
      2 ^ e ∣ sz.maxTrailer ∧ sz.Fit32 :=
  ⟨_, sizes_exact p e L P T h,
    (expectedSizes_aligned e L P T).1, (expectedSizes_aligned e L P T).2.1,
    (expectedSizes_aligned e L P T).2.2.1, (expectedSizes_aligned e L P T).2.2.2.1,
    (expectedSizes_aligned e L P T).2.2.2.2, expectedSizes_fit32 e L P T h⟩

/-- **sizes_total**: for every alignment `2^k` (`k ≤ 31`), all `u32` leader/trailer requirements
and every payload requirement, in both profiles, the arithmetic never panics: either the inputs
are inside the scope (and the result is `expectedSizes`, which covers and is aligned), or the
result is the error `InvalidDevice` (aligned leader/trailer does not fit `u32`, or the payload
needs more than `u32::MAX` transfers).  There is no third outcome: nothing is silently
truncated or wrapped. -/
theorem sizes_total (p : Profile) (e L P T : Nat) (he : e ≤ 31) (hL : L < 2 ^ 32) (hT : T < 2 ^ 32) :
    computeSizes p (2 ^ e) L P T = .err .invalidDevice ∨
    (ArithScope e L P T ∧ computeSizes p (2 ^ e) L P T = .ok (expectedSizes e L P T)) := by
  rcases computeSizes_scope_or_err p e L P T he hL hT with h | h
  · exact Or.inr ⟨h, sizes_exact p e L P T h⟩
  · exact Or.inl h

/-- The scope hypothesis "aligned value fits u32" in closed form: `x + 2^k - 1 < 2^32` iff the
least multiple of `2^k` above `x` is below `2^32`. -/
theorem fits_iff_roundUp_fits (e x : Nat) (he : e ≤ 32) :
    x + (2 ^ e - 1) < 2 ^ 32 ↔ roundUp (2 ^ e) x < 2 ^ 32 := by
  have hpos : 0 < 2 ^ e := Nat.two_pow_pos e
  constructor
  · intro h
    have := roundUp_lt (2 ^ e) x hpos
    omega
  · intro h
    -- multiples of 2^e below 2^32 are at most 2^32 - 2^e
    obtain ⟨k, hk⟩ := roundUp_dvd (2 ^ e) x
    have h32 : (2 : Nat) ^ 32 = 2 ^ e * 2 ^ (32 - e) := by
      rw [← Nat.pow_add]; congr 1; omega
    have hklt : k < 2 ^ (32 - e) := by
      apply Nat.lt_of_mul_lt_mul_left (a := 2 ^ e)
      rw [← hk, ← h32]; exact h
    have : 2 ^ e * (k + 1) ≤ 2 ^ e * 2 ^ (32 - e) := Nat.mul_le_mul_left _ hklt
    rw [Nat.mul_add, Nat.mul_one, ← hk, ← h32] at this
    have := roundUp_ge (2 ^ e) x hpos
    omega

/-! ## 2. A conforming, fault-free device -/

/-- handle state from which `ControlHandle::sirm` resolves to the SIRM at `s` -/
inductive Resolves (st : St) (s : Nat) : Prop where
  /-- SIRM address cached by an earlier call -/
  | warm (h : st.sirm = some s)
  /-- freshly opened handle: bootstrap chain read from the device -/
  | cold (h1 : st.sirm = none) (h2 : st.sbrm = none) (sb : Nat) (h3 : Bootstrap st.dev.mem sb s)
  /-- SBRM cached (by the public `ControlHandle::sbrm()`, or by a `sirm()` whose last read
  failed), SIRM address not yet: it is read from the cached SBRM -/
  | mixed (h1 : st.sirm = none) (sb cap : Nat) (h2 : st.sbrm = some (sb, cap)) (hcap : cap % 2 = 1)
      (hsp : sb + 0x28 ≤ 2 ^ 64) (hm : st.dev.mem.rangeMapped sb 0x28 = true)
      (haddr : regVal st.dev.mem sb SBRM_SIRM_ADDRESS 8 = s)

/-- start of a conforming, fault-free run inside the theorem scope -/
structure Conforming (st : St) (s e : Nat) : Prop where
  noFaults : st.dev.faults = []
  resolves : Resolves st s
  sirm : SirmOk st.dev.mem s
  scope : InScope st.dev.mem s e

/-- the sizes the call programs, as a function of the device image -/
abbrev programmed (st : St) (s e : Nat) : Sizes := programmedSizes st.dev.mem s e

/-- **enable_run**: on a conforming device the call returns `Ok`; its accesses are: the SIRM
address resolution (reads only), then exactly `enableScript` (read SI_CONTROL, write
SI_CONTROL := 0 iff the stream was enabled, read SI_INFO / leader / payload / trailer, the six
size writes, SI_CONTROL := 1); the image afterwards is `enableImage`. -/
theorem enable_run (p : Profile) (st : St) (s e : Nat) (h : Conforming st s e) :
    ∃ pre c, (∀ a ∈ pre, a.isRead) ∧
      enableStreaming p st =
        (.ok (), ⟨⟨enableImage st.dev.mem s (programmed st s e),
                   st.dev.log ++ pre ++ enableScript st.dev.mem s (programmed st s e), []⟩,
                  c, some s⟩) := by
  obtain ⟨⟨m, log, f⟩, c1, c2⟩ := st
  obtain ⟨hf, hr, hs, hin⟩ := h
  simp only at hf hr hs hin
  subst hf
  cases hr with
  | warm hw =>
    simp only at hw; subst hw
    refine ⟨[], c1, by simp, ?_⟩
    unfold enableStreaming
    rw [M.bind_ok _ _ _ _ _ (getSirm_warm _ _ _)]
    rw [enableAt_ok p m s e log c1 (some s) hs hin]
    simp [mkSt]
  | cold h1 h2 sb h3 =>
    simp only at h1 h2 h3; subst h1; subst h2
    refine ⟨[.r (0 + ABRM_SBRM_ADDRESS) 8 true, .r (sb + SBRM_U3VCP_CAPABILITY) 8 true,
        .r (sb + SBRM_SIRM_ADDRESS) 8 true], some (sb, regVal m sb SBRM_U3VCP_CAPABILITY 8), ?_, ?_⟩
    · intro a ha
      simp only [List.mem_cons, List.not_mem_nil, or_false] at ha
      rcases ha with rfl | rfl | rfl <;> trivial
    · unfold enableStreaming
      rw [M.bind_ok _ _ _ _ _ (getSirm_cold m sb s log h3)]
      rw [enableAt_ok p m s e _ _ (some s) hs hin]
  | mixed h1 sb cap h2 hcap hsp hm haddr =>
    simp only at h1 h2 hm haddr; subst h1; subst h2
    refine ⟨[.r (sb + SBRM_SIRM_ADDRESS) 8 true], some (sb, cap), ?_, ?_⟩
    · intro a ha
      simp only [List.mem_cons, List.not_mem_nil, or_false] at ha
      subst ha; trivial
    · unfold enableStreaming
      rw [M.bind_ok _ _ _ _ _ (getSirm_mixed m sb cap s log hcap hsp hm haddr)]
      rw [enableAt_ok p m s e _ _ (some s) hs hin]

/-- final image and result of a conforming run -/
theorem enable_image (p : Profile) (st : St) (s e : Nat) (h : Conforming st s e) :
    (enableStreaming p st).1 = .ok () ∧
    (enableStreaming p st).2.dev.mem = enableImage st.dev.mem s (programmed st s e) := by
  obtain ⟨pre, c, _, hrun⟩ := enable_run p st s e h
  rw [hrun]; exact ⟨rfl, rfl⟩

private theorem regs (st : St) (s e : Nat) (h : Conforming st s e) :
    let img := enableImage st.dev.mem s (programmed st s e)
    let sz := programmed st s e
    regVal img s MAXIMUM_LEADER_SIZE 4 = sz.maxLeader ∧
    regVal img s MAXIMUM_TRAILER_SIZE 4 = sz.maxTrailer ∧
    regVal img s PAYLOAD_TRANSFER_SIZE_REG 4 = sz.transferSize ∧
    regVal img s PAYLOAD_TRANSFER_COUNT 4 = sz.transferCount ∧
    regVal img s PAYLOAD_FINAL_TRANSFER1_SIZE 4 = sz.final1 ∧
    regVal img s PAYLOAD_FINAL_TRANSFER2_SIZE 4 = sz.final2 ∧
    regVal img s SI_CONTROL 4 = 1 :=
  enableImage_regs st.dev.mem s (programmed st s e)
    (expectedSizes_fit32 e _ _ _ h.scope.arith)

/-- **leader_covered**: afterwards `MAXIMUM_LEADER_SIZE ≥ REQUIRED_LEADER_SIZE`. -/
theorem leader_covered (p : Profile) (st : St) (s e : Nat) (h : Conforming st s e) :
    regVal st.dev.mem s REQUIRED_LEADER_SIZE 4 ≤
      regVal (enableStreaming p st).2.dev.mem s MAXIMUM_LEADER_SIZE 4 := by
  rw [(enable_image p st s e h).2, (regs st s e h).1]
  exact (expectedSizes_cover e _ _ _).1

/-- **trailer_covered**: afterwards `MAXIMUM_TRAILER_SIZE ≥ REQUIRED_TRAILER_SIZE`. -/
theorem trailer_covered (p : Profile) (st : St) (s e : Nat) (h : Conforming st s e) :
    regVal st.dev.mem s REQUIRED_TRAILER_SIZE 4 ≤
      regVal (enableStreaming p st).2.dev.mem s MAXIMUM_TRAILER_SIZE 4 := by
  rw [(enable_image p st s e h).2, (regs st s e h).2.1]
  exact (expectedSizes_cover e _ _ _).2.1

/-- **payload_covered**: transfer size × transfer count + final1 + final2 ≥ required payload. -/
theorem payload_covered (p : Profile) (st : St) (s e : Nat) (h : Conforming st s e) :
    let img := (enableStreaming p st).2.dev.mem
    regVal st.dev.mem s REQUIRED_PAYLOAD_SIZE 8 ≤
      regVal img s PAYLOAD_TRANSFER_SIZE_REG 4 * regVal img s PAYLOAD_TRANSFER_COUNT 4 +
      regVal img s PAYLOAD_FINAL_TRANSFER1_SIZE 4 + regVal img s PAYLOAD_FINAL_TRANSFER2_SIZE 4 := by
  intro img
  have hr := regs st s e h
  simp only [img]
  rw [(enable_image p st s e h).2, hr.2.2.1, hr.2.2.2.1, hr.2.2.2.2.1, hr.2.2.2.2.2.1]
  exact (expectedSizes_cover e _ _ _).2.2

/-- **all_aligned**: every programmed size is a multiple of the device's alignment `2^e`. -/
theorem all_aligned (p : Profile) (st : St) (s e : Nat) (h : Conforming st s e) :
    let img := (enableStreaming p st).2.dev.mem
    2 ^ e ∣ regVal img s PAYLOAD_TRANSFER_SIZE_REG 4 ∧ 2 ^ e ∣ regVal img s PAYLOAD_FINAL_TRANSFER1_SIZE 4 ∧
    2 ^ e ∣ regVal img s PAYLOAD_FINAL_TRANSFER2_SIZE 4 ∧ 2 ^ e ∣ regVal img s MAXIMUM_LEADER_SIZE 4 ∧
    2 ^ e ∣ regVal img s MAXIMUM_TRAILER_SIZE 4 := by
  intro img
  have hr := regs st s e h
  have ha := expectedSizes_aligned e (regVal st.dev.mem s REQUIRED_LEADER_SIZE 4)
    (regVal st.dev.mem s REQUIRED_PAYLOAD_SIZE 8) (regVal st.dev.mem s REQUIRED_TRAILER_SIZE 4)
  simp only [img]
  rw [(enable_image p st s e h).2, hr.1, hr.2.1, hr.2.2.1, hr.2.2.2.2.1, hr.2.2.2.2.2.1]
  exact ⟨ha.1, ha.2.1, ha.2.2.1, ha.2.2.2.1, ha.2.2.2.2⟩

/-- first write access of a log segment -/
def firstWrite : List Access → Option Access
  | [] => none
  | .w a d ok ap :: _ => some (.w a d ok ap)
  | .r _ _ _ :: rest => firstWrite rest

private theorem firstWrite_reads_append (pre rest : List Access) (h : ∀ a ∈ pre, a.isRead) :
    firstWrite (pre ++ rest) = firstWrite rest := by
  induction pre with
  | nil => rfl
  | cons a l ih =>
    cases a with
    | r _ _ _ => exact ih (fun a ha => h a (by simp [ha]))
    | w a d ok ap => exact (h (.w a d ok ap) (by simp)).elim

/-- **disable_first**: if the stream is still enabled, the first write of the call is
`SI_CONTROL := 0` (and it precedes every size write). -/
theorem disable_first (p : Profile) (st : St) (s e : Nat) (h : Conforming st s e)
    (hen : enabledIn st.dev.mem s) :
    ∃ new, (enableStreaming p st).2.dev.log = st.dev.log ++ new ∧
      firstWrite new = some (.w (s + SI_CONTROL) (toLE 4 0) true true) := by
  obtain ⟨pre, c, hpre, hrun⟩ := enable_run p st s e h
  refine ⟨pre ++ enableScript st.dev.mem s (programmed st s e), by rw [hrun, List.append_assoc], ?_⟩
  rw [firstWrite_reads_append _ _ hpre]
  simp [enableScript, readsLog, hen, firstWrite, disableW]

/-- **enable_last**: the last access of the call is the successful write `SI_CONTROL := 1`, no
earlier access sets the enable bit, and the bit is set in the final image. -/
theorem enable_last (p : Profile) (st : St) (s e : Nat) (h : Conforming st s e) :
    ∃ new, (enableStreaming p st).2.dev.log = st.dev.log ++ new ∧
      new.getLast? = some (.w (s + SI_CONTROL) (toLE 4 1) true true) ∧
      (∀ a ∈ new.dropLast, ¬ a.enables s) ∧
      enabledIn (enableStreaming p st).2.dev.mem s := by
  obtain ⟨pre, c, hpre, hrun⟩ := enable_run p st s e h
  have hlast : pre ++ enableScript st.dev.mem s (programmed st s e) =
      (pre ++ readsLog st.dev.mem s ++ writesLog s (sizeWrites (programmed st s e))) ++
        [.w (s + SI_CONTROL) (toLE 4 1) true true] := by
    simp [enableScript, writesLog, List.append_assoc]
  refine ⟨pre ++ enableScript st.dev.mem s (programmed st s e), by rw [hrun, List.append_assoc], ?_, ?_, ?_⟩
  · rw [hlast]; simp
  · rw [hlast, List.dropLast_concat]
    intro a ha
    rcases List.mem_append.mp ha with ha | ha
    · rcases List.mem_append.mp ha with ha | ha
      · have := hpre a ha
        cases a with
        | r _ _ _ => exact fun h => h
        | w _ _ _ _ => exact this.elim
      · simp only [readsLog, List.mem_append, List.mem_cons, List.not_mem_nil, or_false] at ha
        rcases ha with (rfl | ha) | ha
        · exact fun h => h
        · split at ha
          · simp only [List.mem_cons, List.not_mem_nil, or_false] at ha; subst ha
            exact quiet_write_even s 0 true true rfl
          · simp at ha
        · rcases ha with rfl | rfl | rfl | rfl <;> exact fun h => h
    · simp only [writesLog, sizeWrites, List.map_cons, List.map_nil, List.mem_cons, List.not_mem_nil,
        or_false] at ha
      rcases ha with rfl | rfl | rfl | rfl | rfl | rfl <;>
        exact quiet_write_above s _ _ true true (by simp [SI_CONTROL, PAYLOAD_TRANSFER_SIZE_REG,
          PAYLOAD_TRANSFER_COUNT, PAYLOAD_FINAL_TRANSFER1_SIZE, PAYLOAD_FINAL_TRANSFER2_SIZE,
          MAXIMUM_LEADER_SIZE, MAXIMUM_TRAILER_SIZE])
  · unfold enabledIn
    rw [(enable_image p st s e h).2, (regs st s e h).2.2.2.2.2.2]

/-! ## 3. Read-back for the receive loop -/

private theorem maximumPayloadSize_ok (p : Profile) (sp : StreamParams)
    (h1 : sp.payloadSize < 2 ^ 32) (h2 : sp.payloadCount < 2 ^ 32)
    (h3 : sp.payloadFinal1Size < 2 ^ 32) (h4 : sp.payloadFinal2Size < 2 ^ 32) :
    sp.maximumPayloadSize p =
      .ok (sp.payloadSize * sp.payloadCount + sp.payloadFinal1Size + sp.payloadFinal2Size) := by
  have hm : sp.payloadSize * sp.payloadCount ≤ (2 ^ 32 - 1) * (2 ^ 32 - 1) :=
    Nat.mul_le_mul (by omega) (by omega)
  have e1 : (mulW p 64 sp.payloadSize sp.payloadCount : R Nat) = .ok (sp.payloadSize * sp.payloadCount) := by
    simp only [mulW]; rw [if_pos (by omega)]
  have e2 : (addW p 64 (sp.payloadSize * sp.payloadCount) sp.payloadFinal1Size : R Nat) =
      .ok (sp.payloadSize * sp.payloadCount + sp.payloadFinal1Size) := by
    simp only [addW]; rw [if_pos (by omega)]
  have e3 : (addW p 64 (sp.payloadSize * sp.payloadCount + sp.payloadFinal1Size) sp.payloadFinal2Size : R Nat) =
      .ok (sp.payloadSize * sp.payloadCount + sp.payloadFinal1Size + sp.payloadFinal2Size) := by
    simp only [addW]; rw [if_pos (by omega)]
  simp only [StreamParams.maximumPayloadSize, e1, e2, e3, Res.bind_ok]

/-- **params_roundtrip**: `StreamParams::from_control`, run on the state a successful
`enable_streaming` leaves behind, returns exactly the six values that were programmed (the
values of the six size writes in `enableScript`), does not modify the image, and
`maximum_payload_size()` does not overflow and is `≥` the required payload size. -/
theorem params_roundtrip (p : Profile) (st : St) (s e sb : Nat) (h : Conforming st s e)
    (hb : Bootstrap st.dev.mem sb s) :
    let st' := (enableStreaming p st).2
    let sz := programmed st s e
    ∃ st'' t, fromControl st' =
        (.ok ⟨sz.maxLeader, sz.maxTrailer, sz.transferSize, sz.transferCount, sz.final1, sz.final2, t⟩, st'') ∧
      st''.dev.mem = st'.dev.mem ∧
      ∃ n, StreamParams.maximumPayloadSize p
            ⟨sz.maxLeader, sz.maxTrailer, sz.transferSize, sz.transferCount, sz.final1, sz.final2, t⟩ = .ok n ∧
        regVal st.dev.mem s REQUIRED_PAYLOAD_SIZE 8 ≤ n := by
  intro st' sz
  obtain ⟨pre, c, _, hrun⟩ := enable_run p st s e h
  have hs' : SirmOk (enableImage st.dev.mem s sz) s := applyWrites_ok (afterDisable_ok h.sirm) _
  obtain ⟨log', hfc⟩ := fromControl_ok (enableImage st.dev.mem s sz) sb s
    (st.dev.log ++ pre ++ enableScript st.dev.mem s sz) c (some s) (hb.enableImage sz) hs'
  have hr := regs st s e h
  simp only at hr
  rw [hr.1, hr.2.1, hr.2.2.1, hr.2.2.2.1, hr.2.2.2.2.1, hr.2.2.2.2.2.1] at hfc
  have hfit := expectedSizes_fit32 e _ _ _ h.scope.arith
  refine ⟨mkSt (enableImage st.dev.mem s sz) log' c (some s),
    regVal (enableImage st.dev.mem s sz) 0 ABRM_MAXIMUM_DEVICE_RESPONSE_TIME 4, ?_, ?_, _,
    maximumPayloadSize_ok p _ hfit.1 hfit.2.1 hfit.2.2.1 hfit.2.2.2.1, ?_⟩
  · simp only [st']; rw [hrun]; exact hfc
  · simp only [st']; rw [hrun]
  · exact (expectedSizes_cover e (regVal st.dev.mem s REQUIRED_LEADER_SIZE 4)
      (regVal st.dev.mem s REQUIRED_PAYLOAD_SIZE 8) (regVal st.dev.mem s REQUIRED_TRAILER_SIZE 4)).2.2

/-! ## 3b. Histories: several acquisitions on handles that stay open -/

/-- image invariant of a conforming device whose SBRM is at `sb` and SIRM at `s` -/
structure GoodImg (m : Mem) (sb s : Nat) : Prop where
  sirm : SirmOk m s
  boot : Bootstrap m sb s

/-- a reconfiguration of the camera between two acquisitions (other ROI, chunk mode, alignment …):
the device stays conforming and reports in-scope requirements -/
def Reconf (sb s : Nat) (r : Mem → Mem) : Prop :=
  ∀ m, GoodImg m sb s → GoodImg (r m) sb s ∧ ∃ e, InScope (r m) s e

/-- One acquisition on handles that stay open: the device is reconfigured (`r`), `enable_streaming`,
`StreamHandle::start_streaming_loop` (model `startStreamingLoop`: reads the parameters back,
stores them in the handle, hands a clone to the receive loop), `stop_streaming_loop`,
`disable_streaming`.  Result: the image the acquisition started from, the parameters the receive
loop was started with, and `StreamHandle::params()` afterwards. -/
def session (p : Profile) (r : Mem → Mem) (x : StreamHandle × St) :
    (Mem × Res StreamErr StreamParams × StreamParams) × (StreamHandle × St) :=
  let st1 : St := { x.2 with dev := { x.2.dev with mem := r x.2.dev.mem } }
  let st2 := (enableStreaming p st1).2
  let started := startStreamingLoop x.1 st2
  ((st1.dev.mem, started.1, started.2.1.params),
   (stopStreamingLoop started.2.1, (disableStreaming started.2.2).2))

def sessions (p : Profile) : List (Mem → Mem) → StreamHandle × St → List (Mem × Res StreamErr StreamParams × StreamParams)
  | [], _ => []
  | r :: rs, x => (session p r x).1 :: sessions p rs (session p r x).2

/-- states between acquisitions: no loop running, no pending faults, and any of the three cache
states of the control handle (SIRM address cached / both caches cold / SBRM cached only) -/
def Between (x : StreamHandle × St) (sb s : Nat) : Prop :=
  x.1.running = false ∧ x.2.dev.faults = [] ∧
  (x.2.sirm = some s ∨ (x.2.sirm = none ∧ x.2.sbrm = none) ∨
   (x.2.sirm = none ∧ ∃ cap, x.2.sbrm = some (sb, cap) ∧ cap % 2 = 1)) ∧
  GoodImg x.2.dev.mem sb s

/-- the parameter record made of the sizes programmed for image `m` -/
def programmedParams (m : Mem) (s e t : Nat) : StreamParams :=
  ⟨(programmedSizes m s e).maxLeader, (programmedSizes m s e).maxTrailer,
   (programmedSizes m s e).transferSize, (programmedSizes m s e).transferCount,
   (programmedSizes m s e).final1, (programmedSizes m s e).final2, t⟩

private theorem session_step (p : Profile) (r : Mem → Mem) (x : StreamHandle × St) (sb s : Nat)
    (hst : Between x sb s) (hr : Reconf sb s r) :
    (∃ e t, InScope (session p r x).1.1 s e ∧
      (session p r x).1.2.1 = .ok (programmedParams (session p r x).1.1 s e t) ∧
      (session p r x).1.2.2 = programmedParams (session p r x).1.1 s e t) ∧
    Between (session p r x).2 sb s := by
  obtain ⟨sh, ⟨⟨m, log, f⟩, c1, c2⟩⟩ := x
  obtain ⟨hrun0, hf, hres, hgood⟩ := hst
  simp only at hrun0 hf hres hgood
  subst hf
  obtain ⟨hg1, e, hin⟩ := hr m hgood
  have hconf : Conforming ⟨⟨r m, log, []⟩, c1, c2⟩ s e := by
    refine ⟨rfl, ?_, hg1.sirm, hin⟩
    rcases hres with h | ⟨h1, h2⟩ | ⟨h1, cap, h2, hcap⟩
    · exact .warm h
    · exact .cold h1 h2 sb hg1.boot
    · exact .mixed h1 sb cap h2 hcap hg1.boot.sbrmSpace hg1.boot.sbrmMapped hg1.boot.sirmAddr
  obtain ⟨pre, c, _, hrun⟩ := enable_run p _ s e hconf
  have hs' : SirmOk (enableImage (r m) s (programmedSizes (r m) s e)) s :=
    applyWrites_ok (afterDisable_ok hg1.sirm) _
  have hb' := hg1.boot.enableImage (programmedSizes (r m) s e)
  obtain ⟨log', hfc⟩ := fromControl_ok (enableImage (r m) s (programmedSizes (r m) s e)) sb s
    (log ++ pre ++ enableScript (r m) s (programmedSizes (r m) s e)) c (some s) hb' hs'
  have hregs := enableImage_regs (r m) s (programmedSizes (r m) s e)
    (expectedSizes_fit32 e _ _ _ hin.arith)
  rw [hregs.1, hregs.2.1, hregs.2.2.1, hregs.2.2.2.1, hregs.2.2.2.2.1, hregs.2.2.2.2.2.1] at hfc
  have hsp := hs'.inSpace
  simp only [SIRM_LEN] at hsp
  have hdis : disableStreaming (mkSt (enableImage (r m) s (programmedSizes (r m) s e)) log' c (some s)) =
      (.ok (), mkSt ((enableImage (r m) s (programmedSizes (r m) s e)).write (s + SI_CONTROL) (toLE 4 0))
        (log' ++ [.w (s + SI_CONTROL) (toLE 4 0) true true]) c (some s)) := by
    unfold disableStreaming
    rw [M.bind_ok _ _ _ _ _ (getSirm_warm _ _ _)]
    exact writeReg32_ok s SI_CONTROL 0 _ log' c (some s) (by simp only [SI_CONTROL]; omega)
      (hs'.sub SI_CONTROL 4 (by decide))
  have hst2 : (enableStreaming p ⟨⟨r m, log, []⟩, c1, c2⟩).2 =
      mkSt (enableImage (r m) s (programmedSizes (r m) s e))
        (log ++ pre ++ enableScript (r m) s (programmedSizes (r m) s e)) c (some s) := by
    rw [hrun]
  -- the start of the loop on the handle `sh` (no loop running)
  have hstart : startStreamingLoop sh (enableStreaming p ⟨⟨r m, log, []⟩, c1, c2⟩).2 =
      (.ok (programmedParams (r m) s e
          (regVal (enableImage (r m) s (programmedSizes (r m) s e)) 0 ABRM_MAXIMUM_DEVICE_RESPONSE_TIME 4)),
        ⟨programmedParams (r m) s e
          (regVal (enableImage (r m) s (programmedSizes (r m) s e)) 0 ABRM_MAXIMUM_DEVICE_RESPONSE_TIME 4), true⟩,
        mkSt (enableImage (r m) s (programmedSizes (r m) s e)) log' c (some s)) := by
    rw [hst2]
    simp only [startStreamingLoop, hfc, hrun0, programmedParams]
    rfl
  refine ⟨⟨e, regVal (enableImage (r m) s (programmedSizes (r m) s e)) 0 ABRM_MAXIMUM_DEVICE_RESPONSE_TIME 4,
    hin, ?_, ?_⟩, ?_⟩
  · show (startStreamingLoop sh (enableStreaming p ⟨⟨r m, log, []⟩, c1, c2⟩).2).1 = _
    rw [hstart]
    rfl
  · show (startStreamingLoop sh (enableStreaming p ⟨⟨r m, log, []⟩, c1, c2⟩).2).2.1.params = _
    rw [hstart]
    rfl
  · show Between (stopStreamingLoop (startStreamingLoop sh (enableStreaming p ⟨⟨r m, log, []⟩, c1, c2⟩).2).2.1,
      (disableStreaming (startStreamingLoop sh (enableStreaming p ⟨⟨r m, log, []⟩, c1, c2⟩).2).2.2).2) sb s
    rw [hstart, hdis]
    exact ⟨rfl, rfl, Or.inl rfl, hs'.write _ _, hb'.write_sirm SI_CONTROL 0 (by decide)⟩

/-- **params_roundtrip for every acquisition of a history**: on a control handle and a stream
handle that stay open, for any sequence of reconfigurations of a conforming device and from any
of the three cache states, in EVERY acquisition the parameters `start_streaming_loop` hands to
the receive loop — and `StreamHandle::params()` afterwards — are exactly the sizes
`enable_streaming` programmed in that acquisition (`programmedSizes` of the image the acquisition
started from), never those of an earlier one.  (The statement is about the modelled
`StreamHandle`: `startStreamingLoop` re-reads the parameters on every start; that the real
`StreamHandle` does so is tied by the acquisition sessions of the harness.) -/
theorem params_roundtrip_every_session (p : Profile) (rs : List (Mem → Mem)) (x : StreamHandle × St)
    (sb s : Nat) (hst : Between x sb s) (hrs : ∀ r ∈ rs, Reconf sb s r) :
    ∀ y ∈ sessions p rs x, ∃ e t, InScope y.1 s e ∧
      y.2.1 = .ok (programmedParams y.1 s e t) ∧ y.2.2 = programmedParams y.1 s e t := by
  induction rs generalizing x with
  | nil => intro y hy; simp [sessions] at hy
  | cons r rs ih =>
    obtain ⟨h1, h2⟩ := session_step p r x sb s hst (hrs r (by simp))
    intro y hy
    simp only [sessions, List.mem_cons] at hy
    rcases hy with rfl | hy
    · exact h1
    · exact ih _ h2 (fun r' hr' => hrs r' (by simp [hr'])) y hy

/-! ## 4. Arbitrary devices, handle states and fault schedules -/

/-- `enable_streaming` = SIRM address resolution, then `enableAt`. -/
theorem enableStreaming_factors (p : Profile) (st : St) :
    enableStreaming p st =
      match getSirm st with
      | (.ok s, st1) => enableAt p s st1
      | (.err e, st1) => (.err e, st1)
      | (.panic, st1) => (.panic, st1) := by
  unfold enableStreaming
  rw [M.bind_eq]
  cases getSirm st with
  | mk r st1 => cases r <;> rfl

/-- The SIRM address resolution (`ControlHandle::sirm`) performs reads only and leaves the
image unchanged, whatever the device does. -/
theorem resolution_reads_only (st : St) :
    ∃ pre, (getSirm st).2.dev.log = st.dev.log ++ pre ∧ (getSirm st).2.dev.mem = st.dev.mem ∧
      ∀ a ∈ pre, a.isRead := by
  obtain ⟨pre, h1, h2, h3, _⟩ := getSirm_reads st
  exact ⟨pre, h1, by rw [h2, replay_reads _ _ h3], h3⟩

/-- **failure_atomic_enable** (and the general form of **enable_last**): for every image, handle
state, fault schedule and profile, with `new` the accesses of the call and `lost` the final write
`SI_CONTROL := 1` that the device executed but whose acknowledge was lost:
* the image changes exactly by the applied writes of `new`;
* no access except the very last one sets the enable bit;
* if any access failed the call returns `Err` (not `Ok`, not a panic);
* if the call does not return `Ok`, the only access that can have set the enable bit is `lost`;
* if the call does not return `Ok` and there was no `lost`, the enable bit is set afterwards only
  if it was set before and no write of this call touched it (the disable write itself was refused). -/
theorem failure_atomic_enable (p : Profile) (s : Nat) (st : St) :
    let lost := Access.w (s + SI_CONTROL) (toLE 4 1) false true
    ∃ new, (enableAt p s st).2.dev.log = st.dev.log ++ new ∧
      (enableAt p s st).2.dev.mem = replay new st.dev.mem ∧
      (∀ a ∈ new.dropLast, ¬ a.enables s) ∧
      ((∃ a ∈ new, a.succeeded = false) → ∃ err, (enableAt p s st).1 = .err err) ∧
      ((enableAt p s st).1 ≠ .ok () → ∀ a ∈ new, a.enables s → a = lost) ∧
      ((enableAt p s st).1 ≠ .ok () → lost ∉ new → enabledIn (enableAt p s st).2.dev.mem s →
          enabledIn st.dev.mem s ∧ ∀ a ∈ new, ¬ a.touches s) := by
  intro lost
  obtain ⟨quiet, last, h1, h2, h3, h4, h5⟩ := enableAt_any p s st
  have hdrop : ∀ a ∈ (quiet ++ last).dropLast, ¬ a.enables s := by
    rcases h5 with ⟨rfl, _⟩ | ⟨ok, ap, rfl, _⟩
    · intro a ha; rw [List.append_nil] at ha; exact h3 a (List.dropLast_subset _ ha)
    · intro a ha; rw [List.dropLast_concat] at ha; exact h3 a ha
  have hnotok : (enableAt p s st).1 ≠ .ok () → ∀ a ∈ quiet ++ last, a.enables s → a = lost := by
    intro hne a ha hen
    rcases List.mem_append.mp ha with ha | ha
    · exact absurd hen (h3 a ha)
    · rcases h5 with ⟨rfl, _⟩ | ⟨ok, ap, rfl, g3, _, _⟩
      · simp at ha
      · simp only [List.mem_cons, List.not_mem_nil, or_false] at ha; subst ha
        have hok : ok = false := by
          cases ok with
          | false => rfl
          | true => exact absurd (g3.mp rfl) hne
        subst hok
        cases ap with
        | true => rfl
        | false => exact hen.elim
  refine ⟨quiet ++ last, h1, h2, hdrop, ?_, hnotok, ?_⟩
  · rintro ⟨a, ha, hfail⟩
    rcases List.mem_append.mp ha with ha | ha
    · cases hres : (enableAt p s st).1 with
      | err e => exact ⟨e, rfl⟩
      | ok u =>
        have := h4 (by rw [hres]; simp) a ha
        rw [hfail] at this; cases this
      | panic =>
        have := h4 (by rw [hres]; simp) a ha
        rw [hfail] at this; cases this
    · rcases h5 with ⟨rfl, _⟩ | ⟨ok, ap, rfl, _, _, g5⟩
      · simp at ha
      · simp only [List.mem_cons, List.not_mem_nil, or_false] at ha; subst ha
        exact g5 hfail
  · intro hne hlost hen
    have hq : ∀ a ∈ quiet ++ last, Quiet s a := by
      intro a ha hena
      exact hlost (hnotok hne a ha hena ▸ ha)
    rw [h2, enabledIn_iff_byte] at hen
    obtain ⟨g1, g2⟩ := replay_enable_bit s _ _ hq hen
    exact ⟨(enabledIn_iff_byte _ _).mpr g1, g2⟩

/-- **never_panics**: `enable_streaming` does not panic — for every device image (any register
values: alignment exponent 0..255, any required sizes), every handle state, every fault schedule
and both build profiles the call returns `Ok` or `Err`. -/
theorem never_panics (p : Profile) (st : St) : (enableStreaming p st).1 ≠ .panic :=
  (NP.enableStreaming p st).1

/-- **failure_atomic_enable for the whole call** (`enable_streaming` = SIRM address resolution,
then `enableAt`): for every state, image, fault schedule and profile — if the resolution fails
the call fails with the same error after reads only and the image is unchanged; otherwise, with
`s` the resolved SIRM address and `pre` the (read-only) accesses of the resolution, the accesses of
the call are `pre ++ new` with everything `failure_atomic_enable` says about `new`. -/
theorem failure_atomic_enable_streaming (p : Profile) (st : St) :
    (∃ pre, (∀ a ∈ pre, a.isRead) ∧ (getSirm st).2.dev.log = st.dev.log ++ pre ∧
      (getSirm st).2.dev.mem = st.dev.mem) ∧
    (∀ s, (getSirm st).1 = .ok s →
      let st1 := (getSirm st).2
      let lost := Access.w (s + SI_CONTROL) (toLE 4 1) false true
      enableStreaming p st = enableAt p s st1 ∧
      ∃ new, (enableStreaming p st).2.dev.log = st1.dev.log ++ new ∧
        (enableStreaming p st).2.dev.mem = replay new st.dev.mem ∧
        (∀ a ∈ new.dropLast, ¬ a.enables s) ∧
        ((∃ a ∈ new, a.succeeded = false) → ∃ err, (enableStreaming p st).1 = .err err) ∧
        ((enableStreaming p st).1 ≠ .ok () → ∀ a ∈ new, a.enables s → a = lost) ∧
        ((enableStreaming p st).1 ≠ .ok () → lost ∉ new → enabledIn (enableStreaming p st).2.dev.mem s →
            enabledIn st.dev.mem s ∧ ∀ a ∈ new, ¬ a.touches s)) ∧
    (∀ e, (getSirm st).1 = .err e → (enableStreaming p st).1 = .err e ∧
      (enableStreaming p st).2 = (getSirm st).2) := by
  obtain ⟨pre, hp1, hp2, hp3⟩ := resolution_reads_only st
  refine ⟨⟨pre, hp3, hp1, hp2⟩, ?_, ?_⟩
  · intro s hs st1 lost
    have hfac : enableStreaming p st = enableAt p s st1 := by
      rw [enableStreaming_factors]
      cases hg : getSirm st with
      | mk r st' =>
        have : r = .ok s := by rw [hg] at hs; exact hs
        subst this
        simp only [st1, hg]
    refine ⟨hfac, ?_⟩
    obtain ⟨new, h1, h2, h3, h4, h5, h6⟩ := failure_atomic_enable p s st1
    rw [hfac]
    have hmem : st1.dev.mem = st.dev.mem := hp2
    rw [hmem] at h2 h6
    exact ⟨new, h1, h2, h3, h4, h5, h6⟩
  · intro e he
    rw [enableStreaming_factors]
    cases hg : getSirm st with
    | mk r st' =>
      have : r = .err e := by rw [hg] at he; exact he
      subst this
      exact ⟨rfl, rfl⟩

/-- **never_panics (other entry points)**: `disable_streaming`, `StreamParams::from_control` and
`start_streaming_loop` do not panic either, for every image, state and fault schedule. -/
theorem never_panics_disable_and_readback (st : St) (sh : StreamHandle) :
    (disableStreaming st).1 ≠ .panic ∧ (fromControl st).1 ≠ .panic ∧
    (startStreamingLoop sh st).1 ≠ .panic := by
  have h1 := (NP.disableStreaming st).1
  have h2 := (NP.fromControl st).1
  refine ⟨h1, h2, ?_⟩
  simp only [startStreamingLoop]
  cases hfc : fromControl st with
  | mk r st' =>
    rw [hfc] at h2
    cases r with
    | ok sp => simp only; split <;> simp
    | err e => simp
    | panic => exact absurd rfl h2

/-- **enable_with_stream_already_enabled**: the stream is still enabled (SI_CONTROL reads with
bit 0 set) and the device fails the disable write (error status, transport error, lost
acknowledge: fault `f`): `enable_streaming` returns exactly that error, its only accesses are the
SI_CONTROL read and the failed disable write — no size register is read or written, no enable
write is attempted — and the image is untouched unless the device executed the disable write
although its acknowledge was lost. -/
theorem enable_with_stream_already_enabled (p : Profile) (m : Mem) (log : List Access)
    (fs : List (Option Fault)) (f : Fault) (c : Option (Nat × Nat)) (s : Nat)
    (hs : s + SI_CONTROL + 4 ≤ 2 ^ 64) (hm : m.rangeMapped (s + SI_CONTROL) 4 = true)
    (hen : enabledIn m s) :
    enableStreaming p ⟨⟨m, log, none :: some f :: fs⟩, c, some s⟩ =
      (.err f.err,
       ⟨⟨if f.applied then m.write (s + SI_CONTROL) (toLE 4 0) else m,
         log ++ [.r (s + SI_CONTROL) 4 true, .w (s + SI_CONTROL) (toLE 4 0) false f.applied], fs⟩,
        c, some s⟩) := by
  have hen' : fromLE (m.read (s + SI_CONTROL) 4) % 2 = 1 := hen
  have hri : readInputs s ⟨⟨m, log, none :: some f :: fs⟩, c, some s⟩ =
      (.err f.err,
       ⟨⟨if f.applied then m.write (s + SI_CONTROL) (toLE 4 0) else m,
         log ++ [.r (s + SI_CONTROL) 4 true, .w (s + SI_CONTROL) (toLE 4 0) false f.applied], fs⟩,
        c, some s⟩) := by
    unfold readInputs
    rw [M.bind_ok _ _ _ _ _ (readReg_served s SI_CONTROL 4 m log _ c (some s) (by decide) hs hm)]
    simp only [hen', if_true]
    rw [M.bind_err _ _ _ _ _ (writeReg32_faulted s SI_CONTROL 0 m _ fs c (some s) f hs hm)]
    simp [List.append_assoc]
  unfold enableStreaming
  rw [M.bind_ok _ _ _ _ _ (getSirm_warm _ _ _)]
  unfold enableAt prepareAt
  rw [M.bind_err _ _ _ _ _ (M.bind_err _ _ _ _ _ hri)]

/-- **disable_streaming_never_panics**: for every device image, handle state and fault schedule. -/
theorem disable_streaming_never_panics (st : St) : (disableStreaming st).1 ≠ .panic :=
  (NP.disableStreaming st).1

/-- **disable_streaming_clears_enable_or_errors**: for every device image, handle state and
fault schedule, with `s` the SIRM address the handle resolves:
* `disable_streaming` returns `Ok` ⇒ its last access is the acknowledged write `SI_CONTROL := 0`
  and the stream-enable bit is clear in the device afterwards;
* otherwise it returns an `Err` (never a panic);
* in every case the call performs at most one write, `SI_CONTROL := 0`, after reads only; so if
  the enable bit is set afterwards it was set before and the call did NOT return `Ok`
  (disable never enables, and never reports success while the stream is still enabled).
If the SIRM address cannot be resolved the call fails with that error after reads only. -/
theorem disable_streaming_clears_enable_or_errors (st : St) :
    (∀ e, (getSirm st).1 = .err e → (disableStreaming st).1 = .err e ∧
      (disableStreaming st).2 = (getSirm st).2) ∧
    (∀ s, (getSirm st).1 = .ok s →
      ((disableStreaming st).1 = .ok () ∨ ∃ e, (disableStreaming st).1 = .err e) ∧
      ((disableStreaming st).1 = .ok () →
        ¬ enabledIn (disableStreaming st).2.dev.mem s ∧
        (disableStreaming st).2.dev.log =
          (getSirm st).2.dev.log ++ [.w (s + SI_CONTROL) (toLE 4 0) true true]) ∧
      (enabledIn (disableStreaming st).2.dev.mem s →
        enabledIn st.dev.mem s ∧ (disableStreaming st).1 ≠ .ok ())) := by
  have hfac : disableStreaming st = match getSirm st with
      | (.ok s, st1) => writeReg32 s SI_CONTROL 0 st1
      | (.err e, st1) => (.err e, st1)
      | (.panic, st1) => (.panic, st1) := by
    unfold disableStreaming
    rw [M.bind_eq]
    cases getSirm st with
    | mk r st1 => cases r <;> rfl
  obtain ⟨pre, _, hmem, _⟩ := resolution_reads_only st
  constructor
  · intro e he
    rw [hfac]
    cases hg : getSirm st with
    | mk r st1 =>
      have : r = .err e := by rw [hg] at he; exact he
      subst this; exact ⟨rfl, rfl⟩
  · intro s hs
    cases hg : getSirm st with
    | mk r st1 =>
      have hr : r = .ok s := by rw [hg] at hs; exact hs
      subst hr
      have hd : disableStreaming st = writeReg32 s SI_CONTROL 0 st1 := by rw [hfac, hg]
      have hm1 : st1.dev.mem = st.dev.mem := by rw [hg] at hmem; exact hmem
      rw [hd]
      rcases writeReg32_cases s SI_CONTROL 0 st1 with ⟨g1, g2⟩ | ⟨ok, ap, g1, g2, g3, g4, g5⟩
      · -- refused before any access
        have hnp := (NP.writeReg32 s SI_CONTROL 0 st1).1
        refine ⟨?_, fun h => absurd h g2, ?_⟩
        · cases hres : (writeReg32 s SI_CONTROL 0 st1).1 with
          | ok u => exact Or.inl rfl
          | err e => exact Or.inr ⟨e, rfl⟩
          | panic => exact absurd hres hnp
        · intro hen
          rw [g1, hm1] at hen
          exact ⟨hen, g2⟩
      · cases ok with
        | true =>
          have hap : ap = true := g4 rfl
          subst hap
          have hok := g3.mp rfl
          have hmem' : (writeReg32 s SI_CONTROL 0 st1).2.dev.mem =
              st1.dev.mem.write (s + SI_CONTROL) (toLE 4 0) := by rw [g2]; rfl
          refine ⟨Or.inl hok, fun _ => ⟨by rw [hmem']; exact enabledIn_write_zero _ _, g1⟩, ?_⟩
          intro hen
          rw [hmem'] at hen
          exact absurd hen (enabledIn_write_zero _ _)
        | false =>
          obtain ⟨e, he⟩ := g5 rfl
          have hne : (writeReg32 s SI_CONTROL 0 st1).1 ≠ .ok () := by rw [he]; simp
          refine ⟨Or.inr ⟨e, he⟩, fun h => absurd h hne, ?_⟩
          intro hen
          cases ap with
          | true =>
            have hmem' : (writeReg32 s SI_CONTROL 0 st1).2.dev.mem =
                st1.dev.mem.write (s + SI_CONTROL) (toLE 4 0) := by rw [g2]; rfl
            rw [hmem'] at hen
            exact absurd hen (enabledIn_write_zero _ _)
          | false =>
            have hmem' : (writeReg32 s SI_CONTROL 0 st1).2.dev.mem = st1.dev.mem := by rw [g2]; rfl
            rw [hmem', hm1] at hen
            exact ⟨hen, hne⟩

/-- **disable_streaming** on a conforming device: one write `SI_CONTROL := 0`, the enable bit is
clear afterwards. -/
theorem disable_clears (m : Mem) (log : List Access) (c : Option (Nat × Nat)) (s : Nat)
    (hs : SirmOk m s) :
    ∃ st', disableStreaming ⟨⟨m, log, []⟩, c, some s⟩ = (.ok (), st') ∧
      st'.dev.log = log ++ [.w (s + SI_CONTROL) (toLE 4 0) true true] ∧ ¬ enabledIn st'.dev.mem s := by
  have hsp := hs.inSpace
  simp only [SIRM_LEN] at hsp
  refine ⟨mkSt (m.write (s + SI_CONTROL) (toLE 4 0))
    (log ++ [.w (s + SI_CONTROL) (toLE 4 0) true true]) c (some s), ?_, rfl, ?_⟩
  · unfold disableStreaming
    rw [M.bind_ok _ _ _ _ _ (getSirm_warm _ _ _)]
    exact writeReg32_ok s SI_CONTROL 0 m log c (some s) (by simp only [SI_CONTROL]; omega)
      (hs.sub SI_CONTROL 4 (by decide))
  · simp only [enabledIn, regVal]
    rw [read_write32_eq]
    decide

/-! ## Non-vacuity: a concrete conforming device (alignment 16, stream left enabled, required
leader 52, payload 1 000 000, trailer 100 > leader) satisfies the hypotheses, and concrete
faulted runs exhibit the failure cases. -/

/-! ## 6. A device that publishes new requirements when the host disables the stream

`Model/StreamingPublish.lean`: USB3 Vision keeps the required sizes frozen while the stream is
enabled; a device that was reconfigured while a (dead) host left it streaming shows the OLD
required sizes and publishes the current ones (`pd`: required payload, leader, trailer — the 16
bytes at SIRM + 8) the moment a write clears the stream-enable bit.  `Prim.publishing (pubOf s pd)`
is the handle over that device.  The property demands coverage of what the device requires when
the sizes are programmed and the stream is enabled, i.e. of the PUBLISHED sizes: they are what the
device shows from the disable write on, in particular at the enable write and after the call. -/

private theorem ResolvesTo.resolves {m : Mem} {log sb si} {s : Nat} (h : ResolvesTo m sb si s) :
    Resolves (mkSt m log sb si) s := by
  cases h with
  | warm h => exact .warm h
  | cold h1 h2 b h3 => exact .cold h1 h2 b h3
  | mixed h1 b cap h2 hcap hsp hm haddr _ => exact .mixed h1 b cap h2 hcap hsp hm haddr

/-- **publishing_device_run**: on a fault-free publishing device whose SIRM is mapped, from every
cache state that resolves: if the stream is still enabled the whole call — result, access log,
final image, caches — is that of the one-command-per-register model on a device that shows the
published registers from the start (the only access before the disable write that looks at the
SIRM is the read of SI_CONTROL); if the stream is not enabled nothing is published and the call is
the plain one. -/
theorem publishing_device_run (p : Profile) (s : Nat) (pd : Bytes) (m : Mem) (log sb si)
    (hs : SirmOk m s) (hpd : pd.length = 16) (hr : ResolvesTo m sb si s) :
    (enabledIn m s → enableStreamingG (Prim.publishing (pubOf s pd)) p (mkSt m log sb si) =
      enableStreaming p (mkSt (m.write (s + REQUIRED_PAYLOAD_SIZE) pd) log sb si)) ∧
    (¬ enabledIn m s → enableStreamingG (Prim.publishing (pubOf s pd)) p (mkSt m log sb si) =
      enableStreaming p (mkSt m log sb si)) :=
  enableStreamingG_pub p s pd m log sb si hs hpd hr

/-- **published_requirements_covered**: the stream is still enabled, the device will publish `pd`
on disable, and the PUBLISHED configuration is in the theorem scope (the stale visible one may be
anything).  Then the call returns `Ok`; afterwards the device shows the published requirements
and the programmed sizes cover THEM: maximum leader ≥ required leader, maximum trailer ≥ required
trailer, size × count + final1 + final2 ≥ required payload — all read from the final image —,
every size is a multiple of the alignment, the first write of the call is `SI_CONTROL := 0`, the
last access is `SI_CONTROL := 1`, and the enable bit is set. -/
theorem published_requirements_covered (p : Profile) (s e : Nat) (pd : Bytes) (m : Mem) (log sb si)
    (hs : SirmOk m s) (hpd : pd.length = 16) (hr : ResolvesTo m sb si s) (hen : enabledIn m s)
    (hin : InScope (m.write (s + REQUIRED_PAYLOAD_SIZE) pd) s e) :
    let r := enableStreamingG (Prim.publishing (pubOf s pd)) p (mkSt m log sb si)
    let img := r.2.dev.mem
    r.1 = .ok () ∧ img.read (s + REQUIRED_PAYLOAD_SIZE) 16 = pd ∧
    regVal img s REQUIRED_LEADER_SIZE 4 ≤ regVal img s MAXIMUM_LEADER_SIZE 4 ∧
    regVal img s REQUIRED_TRAILER_SIZE 4 ≤ regVal img s MAXIMUM_TRAILER_SIZE 4 ∧
    regVal img s REQUIRED_PAYLOAD_SIZE 8 ≤
      regVal img s PAYLOAD_TRANSFER_SIZE_REG 4 * regVal img s PAYLOAD_TRANSFER_COUNT 4 +
      regVal img s PAYLOAD_FINAL_TRANSFER1_SIZE 4 + regVal img s PAYLOAD_FINAL_TRANSFER2_SIZE 4 ∧
    (2 ^ e ∣ regVal img s PAYLOAD_TRANSFER_SIZE_REG 4 ∧ 2 ^ e ∣ regVal img s PAYLOAD_FINAL_TRANSFER1_SIZE 4 ∧
      2 ^ e ∣ regVal img s PAYLOAD_FINAL_TRANSFER2_SIZE 4 ∧ 2 ^ e ∣ regVal img s MAXIMUM_LEADER_SIZE 4 ∧
      2 ^ e ∣ regVal img s MAXIMUM_TRAILER_SIZE 4) ∧
    enabledIn img s ∧
    ∃ new, r.2.dev.log = log ++ new ∧
      firstWrite new = some (.w (s + SI_CONTROL) (toLE 4 0) true true) ∧
      new.getLast? = some (.w (s + SI_CONTROL) (toLE 4 1) true true) ∧
      (∀ a ∈ new.dropLast, ¬ a.enables s) := by
  intro r img
  have hconf : Conforming (mkSt (m.write (s + REQUIRED_PAYLOAD_SIZE) pd) log sb si) s e :=
    ⟨rfl, (hr.write REQUIRED_PAYLOAD_SIZE pd (by rw [hpd]; decide)).resolves,
      ⟨hs.inSpace, by simpa using hs.mapped⟩, hin⟩
  have hrun : r = enableStreaming p (mkSt (m.write (s + REQUIRED_PAYLOAD_SIZE) pd) log sb si) :=
    (enableStreamingG_pub p s pd m log sb si hs hpd hr).1 hen
  have himg := enable_image p _ s e hconf
  have hen1 : enabledIn (m.write (s + REQUIRED_PAYLOAD_SIZE) pd) s := by
    unfold enabledIn regVal
    rw [Mem.read_write_disjoint _ _ _ _ _ (by simp [SI_CONTROL, REQUIRED_PAYLOAD_SIZE])]
    exact hen
  have hl := leader_covered p _ s e hconf
  have ht := trailer_covered p _ s e hconf
  have hp := payload_covered p _ s e hconf
  have hal := all_aligned p _ s e hconf
  obtain ⟨new1, k1, k2⟩ := disable_first p _ s e hconf hen1
  obtain ⟨new2, j1, j2, j3, j4⟩ := enable_last p _ s e hconf
  have hnew : new1 = new2 := List.append_cancel_left (k1.symm.trans j1)
  subst hnew
  simp only at hp hal
  have hmem : img = (enableStreaming p (mkSt (m.write (s + REQUIRED_PAYLOAD_SIZE) pd) log sb si)).2.dev.mem := by
    simp only [img, hrun]
  -- the required registers of the final image are the published ones
  have hreq : ∀ off n, REQUIRED_PAYLOAD_SIZE ≤ off → off + n ≤ MAXIMUM_LEADER_SIZE →
      regVal img s off n = regVal (m.write (s + REQUIRED_PAYLOAD_SIZE) pd) s off n := by
    intro off n h1 h2
    simp only [regVal]
    rw [hmem, himg.2, enableImage_read_required _ _ _ _ _ (by omega) (by omega)]
  rw [← hmem] at hl ht hp hal j4
  rw [← hreq REQUIRED_LEADER_SIZE 4 (by decide) (by decide)] at hl
  rw [← hreq REQUIRED_TRAILER_SIZE 4 (by decide) (by decide)] at ht
  rw [← hreq REQUIRED_PAYLOAD_SIZE 8 (by decide) (by decide)] at hp
  refine ⟨by rw [hrun]; exact himg.1, ?_, hl, ht, hp, hal, j4, new1, by rw [hrun]; exact k1, k2, j2, j3⟩
  rw [hmem, himg.2, enableImage_read_required _ _ _ _ _ (Nat.le_refl _) (by simp [REQUIRED_PAYLOAD_SIZE, MAXIMUM_LEADER_SIZE])]
  have := Mem.read_write_same m (s + REQUIRED_PAYLOAD_SIZE) pd
  rwa [hpd] at this

/-- **published_params_roundtrip**: the parameters `StreamParams::from_control` reads back on the
publishing device after that call are the programmed ones, and `maximum_payload_size()` covers the
PUBLISHED required payload. -/
theorem published_params_roundtrip (p : Profile) (s e b : Nat) (pd : Bytes) (m : Mem) (log sb si)
    (hs : SirmOk m s) (hpd : pd.length = 16) (hr : ResolvesTo m sb si s) (hen : enabledIn m s)
    (hin : InScope (m.write (s + REQUIRED_PAYLOAD_SIZE) pd) s e) (hb : Bootstrap m b s) :
    let st' := (enableStreamingG (Prim.publishing (pubOf s pd)) p (mkSt m log sb si)).2
    let sz := programmedSizes (m.write (s + REQUIRED_PAYLOAD_SIZE) pd) s e
    ∃ st'' t, fromControlG (Prim.publishing (pubOf s pd)) st' =
        (.ok ⟨sz.maxLeader, sz.maxTrailer, sz.transferSize, sz.transferCount, sz.final1, sz.final2, t⟩, st'') ∧
      st''.dev.mem = st'.dev.mem ∧
      ∃ n, StreamParams.maximumPayloadSize p
            ⟨sz.maxLeader, sz.maxTrailer, sz.transferSize, sz.transferCount, sz.final1, sz.final2, t⟩ = .ok n ∧
        regVal st'.dev.mem s REQUIRED_PAYLOAD_SIZE 8 ≤ n := by
  intro st' sz
  have hconf : Conforming (mkSt (m.write (s + REQUIRED_PAYLOAD_SIZE) pd) log sb si) s e :=
    ⟨rfl, (hr.write REQUIRED_PAYLOAD_SIZE pd (by rw [hpd]; decide)).resolves,
      ⟨hs.inSpace, by simpa using hs.mapped⟩, hin⟩
  have hrun : st' = (enableStreaming p (mkSt (m.write (s + REQUIRED_PAYLOAD_SIZE) pd) log sb si)).2 := by
    simp only [st', (enableStreamingG_pub p s pd m log sb si hs hpd hr).1 hen]
  obtain ⟨st'', t, k1, k2, n, k3, k4⟩ := params_roundtrip p _ s e b hconf
    (Bootstrap.write_in_sirm hb REQUIRED_PAYLOAD_SIZE pd (by rw [hpd]; decide))
  refine ⟨st'', t, by rw [fromControlG_pub, hrun]; exact k1, by rw [hrun]; exact k2, n, k3, ?_⟩
  have : regVal st'.dev.mem s REQUIRED_PAYLOAD_SIZE 8 =
      regVal (m.write (s + REQUIRED_PAYLOAD_SIZE) pd) s REQUIRED_PAYLOAD_SIZE 8 := by
    simp only [regVal]
    rw [hrun, (enable_image p _ s e hconf).2,
      enableImage_read_required _ _ _ _ _ (Nat.le_refl _) (by simp [REQUIRED_PAYLOAD_SIZE, MAXIMUM_LEADER_SIZE])]
  rw [this]; exact k4

/-! ## 7. Tie G for the constants

The literal constants of the hand-written models are compared with files regenerated from the
current source on every check: `Gen/C15Consts.lean` (tools/gen_c15_arith.py:
`PAYLOAD_TRANSFER_SIZE` of control_handle.rs), `Gen/RegMap.lean` (tools/gen_regmap.py: register
offsets and lengths of device/src/u3v/register_map.rs), `Gen/CmdConsts.lean`
(tools/gen_cmd_consts.py: command / acknowledge header lengths of cmd.rs). -/

/-- (offset, length) of the register `name` in a generated table -/
def genReg (tbl : List (String × Nat × Nat)) (name : String) : Option (Nat × Nat) :=
  (tbl.find? (fun r => r.1 == name)).map (fun r => r.2)

/-- **gen_consts_tie**: generated constants = model constants.  `PAYLOAD_TRANSFER_SIZE`; every
register the models access, with the length they access it with (`readReg .. 4/8`,
`writeReg32`); and the three header lengths of the limits layer: the chunking code of
`Model/StreamingLimits.lean` IS the same code with the generated constants in place of the
literals 12 (acknowledge header), 24 (`ReadMem` command = command header + its SCD), 20
(`WriteMem` command header + address). -/
theorem gen_consts_tie :
    Streaming.PAYLOAD_TRANSFER_SIZE = Gen.C15Consts.PAYLOAD_TRANSFER_SIZE ∧
    (genReg Gen.RegMap.sirm "SI_INFO" = some (SI_INFO, 4) ∧
     genReg Gen.RegMap.sirm "SI_CONTROL" = some (SI_CONTROL, 4) ∧
     genReg Gen.RegMap.sirm "REQUIRED_PAYLOAD_SIZE" = some (REQUIRED_PAYLOAD_SIZE, 8) ∧
     genReg Gen.RegMap.sirm "REQUIRED_LEADER_SIZE" = some (REQUIRED_LEADER_SIZE, 4) ∧
     genReg Gen.RegMap.sirm "REQUIRED_TRAILER_SIZE" = some (REQUIRED_TRAILER_SIZE, 4) ∧
     genReg Gen.RegMap.sirm "MAXIMUM_LEADER_SIZE" = some (MAXIMUM_LEADER_SIZE, 4) ∧
     genReg Gen.RegMap.sirm "PAYLOAD_TRANSFER_SIZE" = some (PAYLOAD_TRANSFER_SIZE_REG, 4) ∧
     genReg Gen.RegMap.sirm "PAYLOAD_TRANSFER_COUNT" = some (PAYLOAD_TRANSFER_COUNT, 4) ∧
     genReg Gen.RegMap.sirm "PAYLOAD_FINAL_TRANSFER1_SIZE" = some (PAYLOAD_FINAL_TRANSFER1_SIZE, 4) ∧
     genReg Gen.RegMap.sirm "PAYLOAD_FINAL_TRANSFER2_SIZE" = some (PAYLOAD_FINAL_TRANSFER2_SIZE, 4) ∧
     genReg Gen.RegMap.sirm "MAXIMUM_TRAILER_SIZE" = some (MAXIMUM_TRAILER_SIZE, 4)) ∧
    (genReg Gen.RegMap.abrm "DEVICE_CAPABILITY" = some (ABRM_DEVICE_CAPABILITY, 8) ∧
     genReg Gen.RegMap.abrm "MAXIMUM_DEVICE_RESPONSE_TIME" = some (ABRM_MAXIMUM_DEVICE_RESPONSE_TIME, 4) ∧
     genReg Gen.RegMap.abrm "SBRM_ADDRESS" = some (ABRM_SBRM_ADDRESS, 8) ∧
     genReg Gen.RegMap.sbrm "U3VCP_CAPABILITY_REGISTER" = some (SBRM_U3VCP_CAPABILITY, 8) ∧
     genReg Gen.RegMap.sbrm "SIRM_ADDRESS" = some (SBRM_SIRM_ADDRESS, 8)) ∧
    (∀ L a n, devReadL L a n =
      if L.maxAck ≤ Gen.CmdConsts.ACK_HEADER_LENGTH then M.fail .io
      else readLoopL L (min (L.maxAck - Gen.CmdConsts.ACK_HEADER_LENGTH) 65535) n a n) ∧
    (∀ L m fuel a n, readLoopL L m (fuel + 1) a n =
      if n = 0 then pure [] else
      if L.maxCmd < Gen.CmdConsts.HEADER_LEN + Gen.CmdConsts.READMEM_SCD_LEN then M.fail .io else do
        let bs ← devRead a (min m n)
        let rest ← readLoopL L m fuel (a + min m n) (n - min m n)
        pure (bs ++ rest)) ∧
    (∀ L a data, devWriteL L a data =
      if data.length = 0 then pure ()
      else if L.maxCmd ≤ Gen.CmdConsts.WRITE_CHUNK_HEADER then M.fail .io
      else writeLoopL (L.maxCmd - Gen.CmdConsts.WRITE_CHUNK_HEADER) data.length a data) := by
  refine ⟨rfl, ⟨by decide, by decide, by decide, by decide, by decide, by decide, by decide, by decide,
    by decide, by decide, by decide⟩, ⟨by decide, by decide, by decide, by decide, by decide⟩,
    fun _ _ _ => rfl, fun _ _ _ _ _ => rfl, fun _ _ _ => rfl⟩

/-- device image from (base, bytes) regions -/
def memOfRegions (rs : List (Nat × Bytes)) : Mem :=
  { byte := fun x =>
      match rs.find? (fun r => r.1 ≤ x && x < r.1 + r.2.length) with
      | some r => match r.2[x - r.1]? with
        | some b => b
        | none => 0
      | none => 0
    mapped := fun x => rs.any (fun r => r.1 ≤ x && x < r.1 + r.2.length) }

/-- ABRM fragment (SBRM at 0x2000), SBRM (SIRM available, at 0x1000), SIRM -/
def exMem : Mem := memOfRegions
  [(0x1C4, toLE 8 0 ++ toLE 4 200 ++ toLE 8 0x3000 ++ toLE 8 0x2000),
   (0x2000, toLE 4 0x10000 ++ toLE 8 1 ++ toLE 8 0 ++ toLE 4 1024 ++ toLE 4 1024 ++ toLE 4 1 ++
            toLE 8 0x1000 ++ toLE 4 0x30),
   (0x1000, toLE 4 (4 * 2 ^ 24) ++ toLE 4 1 ++ toLE 8 1000000 ++ toLE 4 52 ++ toLE 4 100 ++
            toLE 4 7 ++ toLE 4 7 ++ toLE 4 7 ++ toLE 4 7 ++ toLE 4 7 ++ toLE 4 7)]

def exSt : St := ⟨⟨exMem, [], []⟩, none, none⟩

example : Conforming exSt 0x1000 4 :=
  ⟨rfl, .cold rfl rfl 0x2000 ⟨by decide, by decide, by decide, by decide, by decide, by decide,
      by decide, by decide⟩,
    ⟨by decide, by decide⟩, ⟨by decide, by decide, by decide, by decide, by decide⟩⟩

/-- the mixed cache state (SBRM cached through the public `sbrm()`, SIRM not) -/
example : Conforming ⟨⟨exMem, [], []⟩, some (0x2000, 1), none⟩ 0x1000 4 :=
  ⟨rfl, .mixed rfl 0x2000 1 rfl (by decide) (by decide) (by decide) (by decide),
    ⟨by decide, by decide⟩, ⟨by decide, by decide, by decide, by decide, by decide⟩⟩

/-- hypotheses of `params_roundtrip_every_session` are satisfiable -/
example : Between (StreamHandle.new, exSt) 0x2000 0x1000 :=
  ⟨rfl, rfl, Or.inr (Or.inl ⟨rfl, rfl⟩), ⟨⟨by decide, by decide⟩, ⟨by decide, by decide, by decide, by decide,
    by decide, by decide, by decide, by decide⟩⟩⟩
example : Reconf 0x2000 0x1000 (fun _ => exMem) := by
  intro _ _
  show GoodImg exMem 0x2000 0x1000 ∧ ∃ e, InScope exMem 0x1000 e
  exact ⟨⟨⟨by decide, by decide⟩, ⟨by decide, by decide, by decide, by decide, by decide, by decide,
    by decide, by decide⟩⟩, 4, ⟨by decide, by decide, by decide, by decide, by decide⟩⟩

example : enabledIn exSt.dev.mem 0x1000 := by decide

example : programmed exSt 0x1000 4 = ⟨65536, 15, 16960, 0, 64, 112⟩ := by decide

example : ArithScope 4 52 1000000 100 := ⟨by decide, by decide, by decide, by decide⟩
example : ArithScope 31 (2 ^ 31) (2 ^ 62) 1 := ⟨by decide, by decide, by decide, by decide⟩

/-- the device refuses the 10th access (the first size write): `Err`, stream disabled -/
def exFault1 : St := ⟨⟨exMem, [], List.replicate 9 none ++ [some ⟨.io, false⟩]⟩, none, none⟩
example : (enableStreaming .dev exFault1).1 = .err .io := by decide
example : ¬ enabledIn (enableStreaming .dev exFault1).2.dev.mem 0x1000 := by decide

/-- `enable_with_stream_already_enabled`: hypotheses satisfiable (warm cache, stream enabled, the
disable write — second access — refused) and the conclusion on the concrete device -/
example : exMem.rangeMapped (0x1000 + SI_CONTROL) 4 = true ∧ enabledIn exMem 0x1000 := by decide
example : (enableStreaming .dev ⟨⟨exMem, [], [none, some ⟨.io, false⟩]⟩, none, some 0x1000⟩).1 = .err .io ∧
    (enableStreaming .dev ⟨⟨exMem, [], [none, some ⟨.io, false⟩]⟩, none, some 0x1000⟩).2.dev.log.length = 2 := by
  decide

/-- `disable_streaming_clears_enable_or_errors`: both branches occur -/
example : (getSirm exSt).1 = .ok 0x1000 ∧ (disableStreaming exSt).1 = .ok () ∧
    ¬ enabledIn (disableStreaming exSt).2.dev.mem 0x1000 := by decide
example : (disableStreaming ⟨⟨exMem, [], [some ⟨.timeout, false⟩]⟩, none, some 0x1000⟩).1 = .err .timeout ∧
    enabledIn (disableStreaming ⟨⟨exMem, [], [some ⟨.timeout, false⟩]⟩, none, some 0x1000⟩).2.dev.mem 0x1000 := by
  decide

/-- the device refuses the disable write itself: `Err`, the stream stays enabled, no size written -/
def exFault2 : St := ⟨⟨exMem, [], List.replicate 4 none ++ [some ⟨.io, false⟩]⟩, none, none⟩
example : (enableStreaming .dev exFault2).1 = .err .io ∧
    enabledIn (enableStreaming .dev exFault2).2.dev.mem 0x1000 ∧
    (enableStreaming .dev exFault2).2.dev.log.length = 5 := by decide

/-! ## 5. The negotiated limits inside the model

`Model/StreamingLimits.lean`: `Prim.limits L` is the handle whose `open` negotiated
`maximum_cmd_length = L.maxCmd` and `maximum_ack_length = L.maxAck`; `ControlHandle::read` cuts a
register read into `ReadMem` commands of at most `min (L.maxAck - 12) 65535` bytes (refused without
a command when `L.maxAck ≤ 12` or `L.maxCmd < 24`), `ControlHandle::write` cuts a register write
into `WriteMem` commands of at most `L.maxCmd - 20` bytes.  `enableStreamingG (Prim.limits L)` is
`enable_streaming` of that handle.  Every pair of limits falls into one of three classes:
`24 ≤ maxCmd ∧ 20 ≤ maxAck` (one command per register: the model of sections 1-4, literally),
`24 ≤ maxCmd ∧ 13 ≤ maxAck` (reads may be split), `maxCmd < 24 ∨ maxAck ≤ 12` (every read refused). -/

/-- **limits_single_command**: with room for an 8 byte register in one command
(`max_cmd ≥ 24`, `max_ack ≥ 20`) the handle with limits IS the model of sections 1-4 — the
assumption "one register access = one command" of those sections is a theorem about the chunking
code, and every theorem above holds verbatim for every such pair of limits. -/
theorem limits_single_command (L : Limits) (hc : 24 ≤ L.maxCmd) (ha : 20 ≤ L.maxAck) :
    (∀ p, enableStreamingG (Prim.limits L) p = enableStreaming p) ∧
    disableStreamingG (Prim.limits L) = disableStreaming ∧
    getSbrmG (Prim.limits L) = getSbrm ∧
    fromControlG (Prim.limits L) = fromControl ∧
    startStreamingLoopG (Prim.limits L) = startStreamingLoop :=
  limits_eq_single L hc ha

/-- the generic text instantiated with single commands is the model of sections 1-4 -/
theorem generic_model_is_the_model (p : Profile) :
    enableStreamingG Prim.single p = enableStreaming p ∧ disableStreamingG Prim.single = disableStreaming ∧
    fromControlG Prim.single = fromControl ∧ startStreamingLoopG Prim.single = startStreamingLoop :=
  ⟨enableStreamingG_single p, disableStreamingG_single, fromControlG_single, startStreamingLoopG_single⟩

/-- **chunked_read_exact**: on a fault-free device a register read under ANY limits that let
reads through returns exactly what a single read of the `n` bytes returns (the bytes, or `Io` when
part of the range is unmapped), leaves image, caches and fault schedule alone and logs read
commands only. -/
theorem chunked_read_exact (L : Limits) (hc : 24 ≤ L.maxCmd) (ha : 13 ≤ L.maxAck) (a n : Nat) (st : St)
    (hf : st.dev.faults = []) :
    ∃ rs, (∀ r ∈ rs, r.isRead) ∧
      devReadL L a n st = ((devRead a n st).1, addLog st rs) := by
  obtain ⟨rs, h1, h2⟩ := devReadL_faultfree L hc ha a n st hf
  obtain ⟨rt, _, h3⟩ := devRead_faultfree a n st hf
  exact ⟨rs, h1, by rw [h2, h3]⟩

/-- **enable_refused_below_limits**: limits that cannot carry a read (`max_cmd < 24`: the 24 byte
`ReadMem` command does not fit; `max_ack ≤ 12`: no room for data) make `enable_streaming` fail —
for every image, cache state, fault schedule and profile — with the handle state and the device
untouched: no command at all is sent, in particular no write (not even a part of the
`SI_CONTROL` write) reaches the device. -/
theorem enable_refused_below_limits (L : Limits) (h : L.maxCmd < 24 ∨ L.maxAck ≤ 12) (p : Profile) (st : St) :
    ∃ e, enableStreamingG (Prim.limits L) p st = (.err e, st) :=
  enableStreamingG_refused (Prim.limits_refuses L h) p st

/-- **failure_atomic_enable_limits**: `failure_atomic_enable_streaming` for EVERY pair of limits
that lets the operation through (`max_cmd ≥ 24`, any `max_ack`; with `max_ack ≤ 12` it degenerates
to the refusal above): every image, cache state, fault schedule (one entry per COMMAND, so a
register read may fail in its second half) and profile.  The resolution sends read commands only;
no command but the last sets the enable bit; a failed command surfaces as `Err`; after a failed
call the bit is set only through the lost acknowledge of the final write, or because it was set
before and untouched. -/
theorem failure_atomic_enable_limits (L : Limits) (hc : 24 ≤ L.maxCmd) (p : Profile) (st : St) :
    (∃ pre, (∀ a ∈ pre, a.isRead) ∧ (getSirmG (Prim.limits L) st).2.dev.log = st.dev.log ++ pre ∧
      (getSirmG (Prim.limits L) st).2.dev.mem = st.dev.mem) ∧
    (∀ s, (getSirmG (Prim.limits L) st).1 = .ok s →
      let st1 := (getSirmG (Prim.limits L) st).2
      let lost := Access.w (s + SI_CONTROL) (toLE 4 1) false true
      enableStreamingG (Prim.limits L) p st = enableAtG (Prim.limits L) p s st1 ∧
      ∃ new, (enableStreamingG (Prim.limits L) p st).2.dev.log = st1.dev.log ++ new ∧
        (enableStreamingG (Prim.limits L) p st).2.dev.mem = replay new st.dev.mem ∧
        (∀ a ∈ new.dropLast, ¬ a.enables s) ∧
        ((∃ a ∈ new, a.succeeded = false) → ∃ err, (enableStreamingG (Prim.limits L) p st).1 = .err err) ∧
        ((enableStreamingG (Prim.limits L) p st).1 ≠ .ok () → ∀ a ∈ new, a.enables s → a = lost) ∧
        ((enableStreamingG (Prim.limits L) p st).1 ≠ .ok () → lost ∉ new →
          enabledIn (enableStreamingG (Prim.limits L) p st).2.dev.mem s →
            enabledIn st.dev.mem s ∧ ∀ a ∈ new, ¬ a.touches s)) ∧
    (∀ e, (getSirmG (Prim.limits L) st).1 = .err e → (enableStreamingG (Prim.limits L) p st).1 = .err e ∧
      (enableStreamingG (Prim.limits L) p st).2 = (getSirmG (Prim.limits L) st).2) :=
  failure_atomic_enableStreamingG (Prim.limits_sound L hc) p st

/-- **limits_invisible_without_faults**: on a fault-free device, for every pair of limits that
lets reads through (`max_cmd ≥ 24`, `max_ack ≥ 13`), every cache state and image (conforming or
not): `enable_streaming`, `disable_streaming` and `from_control` return the same result, leave the
same image and caches and send the same write commands in the same order as the one-command-per-
register model. -/
theorem limits_invisible_without_faults (L : Limits) (hc : 24 ≤ L.maxCmd) (ha : 13 ≤ L.maxAck)
    (st : St) (hf : st.dev.faults = []) :
    (∀ p, (enableStreamingG (Prim.limits L) p st).1 = (enableStreaming p st).1 ∧
      Rel (enableStreamingG (Prim.limits L) p st).2 (enableStreaming p st).2) ∧
    ((disableStreamingG (Prim.limits L) st).1 = (disableStreaming st).1 ∧
      Rel (disableStreamingG (Prim.limits L) st).2 (disableStreaming st).2) ∧
    ((fromControlG (Prim.limits L) st).1 = (fromControl st).1 ∧
      Rel (fromControlG (Prim.limits L) st).2 (fromControl st).2) :=
  have hπ := Prim.limits_faithful L hc ha
  ⟨fun p => Sim.enableStreamingG hπ p st st (Rel.refl st hf),
   Sim.disableStreamingG hπ st st (Rel.refl st hf), Sim.fromControlG hπ st st (Rel.refl st hf)⟩

/-- **coverage_under_limits**: the coverage statement of the property for EVERY pair of limits
that lets the operation through (`max_cmd ≥ 24`, `max_ack ≥ 13`; register reads are cut into
several commands when `max_ack < 20`): on a conforming device the call returns `Ok`, every
command succeeded, the final image is the one of `enable_image`, hence maximum leader / trailer
cover the required ones, size × count + final1 + final2 covers the required payload, every
programmed size is a multiple of the alignment; the write commands are exactly: `SI_CONTROL := 0`
iff the stream was enabled (first), the six size writes, `SI_CONTROL := 1` (last), and the
enable bit is set afterwards. -/
theorem coverage_under_limits (L : Limits) (hc : 24 ≤ L.maxCmd) (ha : 13 ≤ L.maxAck) (p : Profile)
    (st : St) (s e : Nat) (h : Conforming st s e) :
    let r := enableStreamingG (Prim.limits L) p st
    let img := r.2.dev.mem
    r.1 = .ok () ∧ img = enableImage st.dev.mem s (programmed st s e) ∧
    regVal st.dev.mem s REQUIRED_LEADER_SIZE 4 ≤ regVal img s MAXIMUM_LEADER_SIZE 4 ∧
    regVal st.dev.mem s REQUIRED_TRAILER_SIZE 4 ≤ regVal img s MAXIMUM_TRAILER_SIZE 4 ∧
    regVal st.dev.mem s REQUIRED_PAYLOAD_SIZE 8 ≤
      regVal img s PAYLOAD_TRANSFER_SIZE_REG 4 * regVal img s PAYLOAD_TRANSFER_COUNT 4 +
      regVal img s PAYLOAD_FINAL_TRANSFER1_SIZE 4 + regVal img s PAYLOAD_FINAL_TRANSFER2_SIZE 4 ∧
    (2 ^ e ∣ regVal img s PAYLOAD_TRANSFER_SIZE_REG 4 ∧ 2 ^ e ∣ regVal img s PAYLOAD_FINAL_TRANSFER1_SIZE 4 ∧
      2 ^ e ∣ regVal img s PAYLOAD_FINAL_TRANSFER2_SIZE 4 ∧ 2 ^ e ∣ regVal img s MAXIMUM_LEADER_SIZE 4 ∧
      2 ^ e ∣ regVal img s MAXIMUM_TRAILER_SIZE 4) ∧
    enabledIn img s ∧
    ∃ new, r.2.dev.log = st.dev.log ++ new ∧ (∀ a ∈ new, a.succeeded = true) ∧
      writesOf new = (if enabledIn st.dev.mem s then [disableW s] else []) ++
        writesLog s (sizeWrites (programmed st s e)) ++ [.w (s + SI_CONTROL) (toLE 4 1) true true] := by
  intro r img
  obtain ⟨hres, hrel⟩ := Sim.enableStreamingG (Prim.limits_faithful L hc ha) p st st (Rel.refl st h.noFaults)
  have himg := enable_image p st s e h
  have hok : r.1 = .ok () := hres.trans himg.1
  have hmem : img = (enableStreaming p st).2.dev.mem := hrel.mem
  have hl := leader_covered p st s e h
  have ht := trailer_covered p st s e h
  have hp := payload_covered p st s e h
  have hal := all_aligned p st s e h
  obtain ⟨_, _, _, _, hen⟩ := enable_last p st s e h
  simp only at hp hal
  rw [← hmem] at hl ht hp hal hen
  refine ⟨hok, hmem.trans himg.2, hl, ht, hp, hal, hen, ?_⟩
  obtain ⟨new, g1, _, _, g4⟩ := enableStreamingG_ext (Prim.limits_sound L hc) p st
  refine ⟨new, g1, g4 (fun e he => by rw [show (enableStreamingG (Prim.limits L) p st).1 = .ok () from hok] at he; cases he), ?_⟩
  obtain ⟨pre, c, hpre, hrun⟩ := enable_run p st s e h
  have hw := hrel.writes
  rw [g1, hrun] at hw
  simp only [writesOf_append, writesOf_reads _ hpre, List.append_nil] at hw
  rw [← writesOf_enableScript]
  exact List.append_cancel_left hw

/-- **params_roundtrip_under_limits**: for every pair of limits that lets the operation through,
`StreamParams::from_control` of the same handle (its reads are cut by the same limits), run on
the state a successful `enable_streaming` leaves behind, returns exactly the six programmed
values, does not modify the image, and `maximum_payload_size()` covers the required payload. -/
theorem params_roundtrip_under_limits (L : Limits) (hc : 24 ≤ L.maxCmd) (ha : 13 ≤ L.maxAck) (p : Profile)
    (st : St) (s e sb : Nat) (h : Conforming st s e) (hb : Bootstrap st.dev.mem sb s) :
    let st' := (enableStreamingG (Prim.limits L) p st).2
    let sz := programmed st s e
    ∃ t, (fromControlG (Prim.limits L) st').1 =
        .ok ⟨sz.maxLeader, sz.maxTrailer, sz.transferSize, sz.transferCount, sz.final1, sz.final2, t⟩ ∧
      (fromControlG (Prim.limits L) st').2.dev.mem = st'.dev.mem ∧
      ∃ n, StreamParams.maximumPayloadSize p
            ⟨sz.maxLeader, sz.maxTrailer, sz.transferSize, sz.transferCount, sz.final1, sz.final2, t⟩ = .ok n ∧
        regVal st.dev.mem s REQUIRED_PAYLOAD_SIZE 8 ≤ n := by
  intro st' sz
  have hπ := Prim.limits_faithful L hc ha
  obtain ⟨_, hrel⟩ := Sim.enableStreamingG hπ p st st (Rel.refl st h.noFaults)
  obtain ⟨g1, g2⟩ := Sim.fromControlG hπ _ _ hrel
  obtain ⟨st'', t, k1, k2, n, k3, k4⟩ := params_roundtrip p st s e sb h hb
  refine ⟨t, ?_, ?_, n, k3, k4⟩
  · rw [g1, k1]
  · rw [g2.mem, k1]; exact k2.trans hrel.mem.symm

/-- **disable_under_split_writes**: `max_cmd` 21..23 is reachable by `disable_streaming` on a
handle whose SIRM cache is warm from an earlier session (every read is refused, but this call
needs none): on a fault-free device with SI_CONTROL mapped, for EVERY `max_cmd ≥ 21` the call
returns `Ok`, the register write is cut into successful `WriteMem` commands of at most
`max_cmd - 20` bytes (nothing else is sent), SI_CONTROL is 0 afterwards and the enable bit clear. -/
theorem disable_under_split_writes (L : Limits) (hc : 21 ≤ L.maxCmd) (s : Nat) (m : Mem) (log sb)
    (hsp : s + SI_CONTROL + 4 ≤ 2 ^ 64) (hm : m.rangeMapped (s + SI_CONTROL) 4 = true) :
    ∃ ws, (∀ w ∈ ws, w.okWriteUpTo (L.maxCmd - 20)) ∧
      disableStreamingG (Prim.limits L) (mkSt m log sb (some s)) =
        (.ok (), mkSt (m.write (s + SI_CONTROL) (toLE 4 0)) (log ++ ws) sb (some s)) ∧
      ¬ enabledIn (m.write (s + SI_CONTROL) (toLE 4 0)) s := by
  obtain ⟨ws, h1, h2⟩ := disableStreamingL_warm L hc s m log sb hsp hm
  exact ⟨ws, h1, h2, enabledIn_write_zero m s⟩

/-- **disable_never_sets_enable_limits**: `disable_streaming` under EVERY pair of limits, on every
device image, cache state and fault schedule (one entry per command, so the split write may stop
half way): the image changes exactly by the executed commands, none of which sets the enable bit
of any SIRM (a partially executed disable can only have cleared it), and a failed command
surfaces as `Err`. -/
theorem disable_never_sets_enable_limits (L : Limits) (st : St) :
    ∃ new, (disableStreamingG (Prim.limits L) st).2.dev.log = st.dev.log ++ new ∧
      (disableStreamingG (Prim.limits L) st).2.dev.mem = replay new st.dev.mem ∧
      (∀ a ∈ new, ∀ s, ¬ a.enables s) ∧
      ((∀ e, (disableStreamingG (Prim.limits L) st).1 ≠ .err e) → ∀ a ∈ new, a.succeeded = true) :=
  disableStreamingL_quiet L st

/-- **never_panics_limits**: for EVERY pair of negotiated limits (no hypothesis on them), every
device image, cache state, fault schedule and both profiles: `enable_streaming`,
`disable_streaming`, `StreamParams::from_control` and `start_streaming_loop` return `Ok` or `Err`. -/
theorem never_panics_limits (L : Limits) (p : Profile) (st : St) (sh : StreamHandle) :
    (enableStreamingG (Prim.limits L) p st).1 ≠ .panic ∧
    (disableStreamingG (Prim.limits L) st).1 ≠ .panic ∧
    (fromControlG (Prim.limits L) st).1 ≠ .panic ∧
    (startStreamingLoopG (Prim.limits L) sh st).1 ≠ .panic := by
  have hπ := Prim.limits_noPanic L
  have h2 := (NP.fromControlG hπ st).1
  refine ⟨(NP.enableStreamingG hπ p st).1, (NP.disableStreamingG hπ st).1, h2, ?_⟩
  simp only [startStreamingLoopG]
  cases hfc : fromControlG (Prim.limits L) st with
  | mk r st' =>
    rw [hfc] at h2
    cases r with
    | ok sp => simp only; split <;> simp
    | err e => simp
    | panic => exact absurd rfl h2

/-! ### Non-vacuity of section 5 -/

/-- max_ack = 13: every register read is cut into 1 byte commands (4 resp. 8 of them) -/
example : (enableStreamingG (Prim.limits ⟨24, 13⟩) .dev exSt).1 = .ok () ∧
    (enableStreamingG (Prim.limits ⟨24, 13⟩) .dev exSt).2.dev.log.length = 24 + 25 + 7 ∧
    (enableStreaming .dev exSt).2.dev.log.length = 3 + 13 := by decide +kernel
/-- max_ack = 17: an 8 byte read is 5 + 3 bytes; a fault on the second half surfaces as `Err` -/
example : (enableStreamingG (Prim.limits ⟨64, 17⟩) .dev ⟨⟨exMem, [], [none, some ⟨.timeout, false⟩]⟩, none, none⟩).1
    = .err .timeout := by decide
/-- max_cmd = 23: refused, nothing logged -/
example : (enableStreamingG (Prim.limits ⟨23, 1024⟩) .dev exSt).1 = .err .io ∧
    (enableStreamingG (Prim.limits ⟨23, 1024⟩) .dev exSt).2.dev.log = [] := by decide
/-- max_cmd = 22 after a re-open with warm caches: `disable_streaming` needs no read, its write is
cut into two 2 byte commands and clears the enable bit -/
example : (disableStreamingG (Prim.limits ⟨22, 1024⟩) ⟨⟨exMem, [], []⟩, none, some 0x1000⟩).1 = .ok () ∧
    (disableStreamingG (Prim.limits ⟨22, 1024⟩) ⟨⟨exMem, [], []⟩, none, some 0x1000⟩).2.dev.log =
      [.w 0x1004 [0, 0] true true, .w 0x1006 [0, 0] true true] := by decide

/-! ### Non-vacuity of section 6 -/

/-- the device shows payload 1000000 / leader 52 / trailer 100 while streaming and will publish
payload 5000000 / leader 1024 / trailer 5000 -/
def exPub : Bytes := toLE 8 5000000 ++ toLE 4 1024 ++ toLE 4 5000
example : SirmOk exMem 0x1000 ∧ exPub.length = 16 ∧ enabledIn exMem 0x1000 :=
  ⟨⟨by decide, by decide⟩, by decide, by decide⟩
example : ResolvesTo exMem none none 0x1000 :=
  .cold rfl rfl 0x2000 ⟨by decide, by decide, by decide, by decide, by decide, by decide, by decide, by decide⟩
example : InScope (exMem.write (0x1000 + REQUIRED_PAYLOAD_SIZE) exPub) 0x1000 4 :=
  ⟨by decide, by decide, by decide, by decide, by decide⟩
/-- the programmed sizes cover the published, not the stale, requirements -/
example : (enableStreamingG (Prim.publishing (pubOf 0x1000 exPub)) .dev exSt).1 = .ok () ∧
    regVal (enableStreamingG (Prim.publishing (pubOf 0x1000 exPub)) .dev exSt).2.dev.mem 0x1000 MAXIMUM_LEADER_SIZE 4 = 1024 ∧
    regVal (enableStreamingG (Prim.publishing (pubOf 0x1000 exPub)) .dev exSt).2.dev.mem 0x1000 MAXIMUM_TRAILER_SIZE 4 = 5008 ∧
    regVal (enableStreamingG (Prim.publishing (pubOf 0x1000 exPub)) .dev exSt).2.dev.mem 0x1000 PAYLOAD_TRANSFER_COUNT 4 = 76 ∧
    regVal (enableStreaming .dev exSt).2.dev.mem 0x1000 MAXIMUM_LEADER_SIZE 4 = 64 := by decide +kernel

end CamVerif.C15
