/-
C07 — Faulty or hostile device responses yield errors, never panics or made-up data.

Property theorems only (helper lemmas: `Proofs/C07.lean`).  The transport `dev : Dev σ` is
ARBITRARY: any state type, any function from its state to the next answer (bytes, lengths,
statuses, ids, kinds, transport errors — and therefore any bootstrap register contents and
any negotiated limits).  The single assumption on it is `Honest`: a bulk-in transfer never
reports more bytes than the buffer it was given (what libusb guarantees; an oversized device
packet is an OVERFLOW error).  Everything else is quantified: every handle state (any
configuration incl. degenerate limits 0, ≤12, ≤20, 2^32-1 and retry count 0), every address,
length and data, both build profiles.

Typing preconditions (these are the Rust types, not restrictions): lengths are `usize`
(`< 2^64`), `maximum_cmd_length` is a `u32`, `next_req_id` is a `u16`.
-/
import CamVerif.Proofs.C07
import CamVerif.Props.C06
namespace CamVerif.C07
open CamVerif CamVerif.Control

variable {σ : Type} {dev : Dev σ}

/-! ## 1. ops_total -/

/-- **ops_total**: whatever the device answers, `open`, `read` and `write` return `Ok` or an
error — never panic (no `unwrap`, slice index, `chunks_mut(0)`, `copy_from_slice` length
mismatch, arithmetic overflow or underflow is reachable), in both build profiles, for every
handle state: any negotiated limits, any retry count, any request id, any buffer length,
open or not, any address and length (also ranges that wrap the address space). -/
theorem ops_total (hh : Honest dev) (p : Profile) (s : St σ) (a n : Nat) (data : Bytes)
    (hn : n < 2 ^ 64) (hd : data.length < 2 ^ 64) (hu32 : s.h.cfg.maxCmd < 2 ^ 32)
    (hid : s.h.nextReqId < 2 ^ 16) :
    (Control.open dev p s).2 ≠ .panic ∧ (Control.read dev p s a n).2 ≠ .panic ∧
    (Control.write dev p s a data).2 ≠ .panic :=
  ⟨(open_inv hh p s).1, (read_inv hh p s a n hn).1.no_panic,
    (write_inv hh p s a data hd hu32 hid).1.no_panic⟩

/-- `initialize_config` alone (arbitrary bootstrap register contents) never panics either. -/
theorem initialize_config_total (hh : Honest dev) (p : Profile) (s : St σ) :
    (initializeConfig dev p s).2 ≠ .panic :=
  (initializeConfig_inv hh p s).no_panic

/-! ## 2. ok_is_genuine -/

/-- **ok_is_genuine (read)**: if `read(a, n)` returns `Ok(d)` then the handle was open, `d` has
exactly `n` bytes, and — chunk by chunk, in the chunking `min(maxAck−12, 65535)` of the
request (`GenuineRead`) — every chunk of `d` has the requested length and is the typed
ReadMem view of a packet that was really received (it is in the log, and fits the receive
buffer), parses as an acknowledge, has status Success, kind ReadMem, and the request id of
the chunk's command (`id0 + k mod 2^16` for the k-th chunk). -/
theorem ok_is_genuine_read (hh : Honest dev) (p : Profile) (s : St σ) (a n : Nat) (d : Bytes)
    (hn : n < 2 ^ 64) (hok : (Control.read dev p s a n).2 = .ok d) :
    d.length = n ∧ s.h.opened = true ∧ 12 < s.h.cfg.maxAck ∧
    GenuineRead p (Control.read dev p s a n).1.logRev (min (s.h.cfg.maxAck - 12) 65535) (n + 1) n
      s.h.nextReqId d :=
  (read_inv hh p s a n hn).2 d hok

/-- what the typed ReadMem view of a genuine acknowledge is: the first `scd_len` bytes of the
packet's SCD, all present in the packet — so `scd_len` equals the chunk length. -/
theorem genuine_read_payload (p : Profile) (id : Nat) (v bytes : Bytes)
    (h : Genuine p id .readMem readView v bytes) :
    ∃ ack, Ack.AckPacket.parse p bytes = .ok ack ∧ ack.ccd.status.kind = .genCp .success ∧
      ack.ccd.requestId = id ∧ ack.ccd.scdKind = .readMem ∧
      v = ack.rawScd.take ack.ccd.scdLen ∧ ack.ccd.scdLen ≤ ack.rawScd.length ∧
      ack.ccd.scdLen = v.length := by
  obtain ⟨ack, h1, h2, h3, h4, h5⟩ := h
  refine ⟨ack, h1, h2, h3, h4, ?_⟩
  simp only [readView, Ack.ReadMem.parse, Ack.parseDataScd] at h5
  split at h5
  · cases h5
  · next hlt =>
    injection h5 with h5
    refine ⟨h5.symm, by omega, ?_⟩
    rw [← h5, List.length_take]; omega

/-- **ok_is_genuine (write)**: if `write(a, data)` returns `Ok` then the handle was open and
every chunk command of the write (`writeChunkList`, whose data concatenates to `data`) was
confirmed by a really received acknowledge that parses, has status Success, kind WriteMem,
the chunk command's request id, and reports exactly the chunk's length as written. -/
theorem ok_is_genuine_write (hh : Honest dev) (p : Profile) (s : St σ) (a : Nat) (data : Bytes)
    (hd : data.length < 2 ^ 64) (hu32 : s.h.cfg.maxCmd < 2 ^ 32) (hid : s.h.nextReqId < 2 ^ 16)
    (hok : (Control.write dev p s a data).2 = .ok ()) :
    s.h.opened = true ∧ (data ≠ [] → 20 < s.h.cfg.maxCmd) ∧
    GenuineWrite p (Control.write dev p s a data).1.logRev
      (C06.writeChunkList p a s.h.cfg.maxCmd (data.length + 1) 0 data) s.h.nextReqId :=
  (write_inv hh p s a data hd hu32 hid).2 hok

/-! ## 3. pending_bounded -/

/-- **pending_bounded (one transaction)**: one `send_cmd` performs exactly one bulk-out
transfer and at most `retry_count` bulk-in transfers, whatever the device answers (endless
pending acknowledges included); with `retry_count = 0` it performs none and fails. -/
theorem pending_bounded_txn (hh : Honest dev) (p : Profile) (s : St σ) (c : Cmd.Cmd)
    (hc : C09.Constructible p c) :
    ∃ evs, (sendCmd dev p readView s c).1.logRev = evs ++ s.logRev ∧
      recvCount evs ≤ s.h.cfg.retry ∧ sendCount evs = 1 := by
  exact (sendCmd_inv hh p readView readView_total s c hc).1.log

/-- **pending_bounded (operations)**: during `read`, `write` and `open` the number of bulk-in
transfers is at most `retry_count` times the number of commands sent — no unbounded loop. -/
theorem pending_bounded (hh : Honest dev) (p : Profile) (s : St σ) (a n : Nat) (data : Bytes)
    (hn : n < 2 ^ 64) (hd : data.length < 2 ^ 64) (hu32 : s.h.cfg.maxCmd < 2 ^ 32)
    (hid : s.h.nextReqId < 2 ^ 16) :
    (∃ evs, (Control.read dev p s a n).1.logRev = evs ++ s.logRev ∧
      recvCount evs ≤ s.h.cfg.retry * sendCount evs) ∧
    (∃ evs, (Control.write dev p s a data).1.logRev = evs ++ s.logRev ∧
      recvCount evs ≤ s.h.cfg.retry * sendCount evs) ∧
    (∃ evs, (Control.open dev p s).1.logRev = evs ++ s.logRev ∧
      recvCount evs ≤ s.h.cfg.retry * sendCount evs) :=
  ⟨(read_inv hh p s a n hn).1.log, (write_inv hh p s a data hd hu32 hid).1.log,
    (open_inv hh p s).2.2.2.1⟩

/-! ## 4. usable_after_error -/

/-- The handle state relation "still usable": same configuration (negotiated limits, retry
count), still open, request id still a u16. -/
structure Usable (h h' : Handle) : Prop where
  cfg : h'.cfg = h.cfg
  opened : h'.opened = h.opened
  id16 : h'.nextReqId < 2 ^ 16

/-- **usable_after_error (frame)**: whatever the device did and whatever `read` / `write`
returned (`Ok` or any error), the handle afterwards is `Usable`. -/
theorem usable_after_any (hh : Honest dev) (p : Profile) (s : St σ) (a n : Nat) (data : Bytes)
    (hn : n < 2 ^ 64) (hd : data.length < 2 ^ 64) (hu32 : s.h.cfg.maxCmd < 2 ^ 32)
    (hid : s.h.nextReqId < 2 ^ 16) :
    Usable s.h (Control.read dev p s a n).1.h ∧ Usable s.h (Control.write dev p s a data).1.h := by
  obtain ⟨h1, _⟩ := read_inv hh p s a n hn
  obtain ⟨h2, _⟩ := write_inv hh p s a data hd hu32 hid
  exact ⟨⟨h1.cfg, h1.opened, h1.id16 hid⟩, ⟨h2.cfg, h2.opened, h2.id16 hid⟩⟩

/-- **usable_after_error**: take any handle that is open with limits `lim` negotiated; let an
arbitrary (hostile) device answer a `read` and a `write` in any way, with any outcome.  If the
device then behaves (any conforming transport `dev2` in any state `d2`, pending plan below
the retry count), the next `read` returns exactly the device memory and the next `write`
stores exactly the data (by C06). -/
theorem usable_after_error {σ2 M : Type} [Spec.Conf.MemLike M] {dev2 : Dev σ2}
    {view2 : σ2 → Spec.Conf.View M} {lim : Spec.Conf.Limits} {plan : Nat → Nat} {ms : Nat}
    (hh : Honest dev) (hc : Spec.Conf.Conforming dev2 view2 lim plan ms) (p : Profile)
    (s : St σ) (a n : Nat) (data : Bytes) (hn : n < 2 ^ 64) (hd : data.length < 2 ^ 64)
    (hr : C06.Ready s lim plan ms) (hu32 : lim.maxCmd < 2 ^ 32)
    (d2 : σ2) (a' n' : Nat) (data' : Bytes) (hsp : a' + n' ≤ 2 ^ 64) (hn' : n' < 2 ^ 64)
    (hsp' : a' + data'.length ≤ 2 ^ 64) (hd' : data'.length < 2 ^ 64)
    (hcmd : 24 ≤ lim.maxCmd) (hack : 16 ≤ lim.maxAck) :
    (Control.read dev2 p ⟨(Control.write dev p (Control.read dev p s a n).1 a data).1.h, d2, []⟩
        a' n').2 = .ok (Spec.Conf.readRange (view2 d2).mem a' n') ∧
    (Control.write dev2 p ⟨(Control.write dev p (Control.read dev p s a n).1 a data).1.h, d2, []⟩
        a' data').2 = .ok () ∧
    (view2 (Control.write dev2 p
        ⟨(Control.write dev p (Control.read dev p s a n).1 a data).1.h, d2, []⟩ a' data').1.d).mem =
      Spec.Conf.writeRange (view2 d2).mem a' data' := by
  obtain ⟨h1, _⟩ := read_inv hh p s a n hn
  have hu1 : (Control.read dev p s a n).1.h.cfg.maxCmd < 2 ^ 32 := by
    rw [h1.cfg, hr.maxCmd]; exact hu32
  obtain ⟨h2, _⟩ := write_inv hh p (Control.read dev p s a n).1 a data hd hu1 (h1.id16 hr.id16)
  have hready : C06.Ready (σ := σ2)
      ⟨(Control.write dev p (Control.read dev p s a n).1 a data).1.h, d2, []⟩ lim plan ms :=
    ⟨by simp only; rw [h2.opened, h1.opened]; exact hr.opened,
     by simp only; rw [h2.cfg, h1.cfg]; exact hr.maxCmd,
     by simp only; rw [h2.cfg, h1.cfg]; exact hr.maxAck,
     h2.id16 (h1.id16 hr.id16), hr.ms16,
     by simp only; rw [h2.cfg, h1.cfg]; exact hr.plan_lt_retry⟩
  obtain ⟨s3, hs3, _⟩ := C06.read_exact hc p _ a' n' hready hsp hn' hcmd (by omega)
  obtain ⟨s4, hs4, hm4, _⟩ := C06.write_exact hc p _ a' data' hready hsp' hd' (by omega) hu32 hack
  refine ⟨by rw [hs3], by rw [hs4], by rw [hs4]; exact hm4⟩

/-- **open after a failed open**: when `open` fails, the channel is closed again (`opened =
false`, so the next `open` renegotiates instead of silently keeping the default limits) —
unless releasing the interface failed too, which the log shows; when it succeeds the handle
is open. -/
theorem open_failure_closes (hh : Honest dev) (p : Profile) (s : St σ)
    (hclosed : s.h.opened = false) :
    ((Control.open dev p s).2 = .ok () → (Control.open dev p s).1.h.opened = true) ∧
    (∀ e, (Control.open dev p s).2 = .err e →
      (Control.open dev p s).1.h.opened = false ∨
      ∃ ue, Ev.ctl .release (some ue) ∈ (Control.open dev p s).1.logRev) := by
  obtain ⟨_, _, _, _, h5, h6⟩ := open_inv hh p s
  exact ⟨h5, fun e he => h6 e he hclosed⟩

/-! ## Non-vacuity -/

/-- the reference conforming device is honest -/
example : Honest (Spec.Conf.refDev (M := Nat → UInt8) ⟨64, 64⟩ (fun _ => 0) 0) := by
  intro st n b h
  simp only [Spec.Conf.refDev] at h
  split at h
  · simp at h
  · next pkt q _ =>
    split at h
    · simp at h
    · simp only [Except.ok.injEq] at h; subst h; omega

/-- a hostile device: accepts every command and answers every receive with the same 13
garbage bytes -/
def garbageDev : Dev Unit where
  send _ _ := ((), none)
  recv _ _ := ((), .ok [0x55, 0x33, 0x56, 0x43, 0xFF, 0xFF, 1, 8, 0xFF, 0xFF, 0, 0, 7])
  ctl _ _ := ((), none)

/-- a device that answers every receive with a pending acknowledge for request id 0 -/
def pendingDev : Dev Unit where
  send _ _ := ((), none)
  recv _ _ := ((), .ok (Spec.Conf.pendingAck 0 0))
  ctl _ _ := ((), none)

def hostState : St Unit := ⟨⟨0, ⟨1, 3, 64, 64⟩, 0, true, none⟩, (), []⟩

example : (Control.read garbageDev .dev hostState 0x1000 10).2 = .err .io := by decide +kernel

example : (Control.read pendingDev .dev hostState 0x1000 10).2 = .err .io ∧
    recvCount (Control.read pendingDev .dev hostState 0x1000 10).1.logRev = 3 := by decide +kernel

example : (Control.open garbageDev .release ⟨Handle.new, (), []⟩).2 = .err .io ∧
    (Control.open garbageDev .release ⟨Handle.new, (), []⟩).1.h.opened = false := by decide +kernel

end CamVerif.C07
