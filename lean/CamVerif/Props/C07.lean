/-
C07 — Faulty or hostile device responses yield errors, never panics or made-up data.

Property theorems only (helper lemmas: `Proofs/C07.lean`).  The transport `dev : Dev σ` is
ARBITRARY: any state type, any function from its state to the next answer (bytes, lengths,
statuses, ids, kinds, transport errors — and therefore any bootstrap register contents and
any negotiated limits).  The single assumption on it is `Honest`: a bulk-in transfer never
reports more bytes than the buffer it was given (what libusb guarantees; an oversized device
packet is an OVERFLOW error).  Everything else is quantified: every handle state (any
configuration incl. degenerate limits 0, ≤12, ≤20, 2^32-1 and retry count 0), every address,
length and data, both build profiles.

Typing preconditions (these are the Rust types, not restrictions): lengths are `usize`
(`< 2^64`), `maximum_cmd_length` is a `u32`, `next_req_id` is a `u16`.
-/
import CamVerif.Proofs.C07
import CamVerif.Proofs.C07Stream
import CamVerif.Props.C06
namespace CamVerif.C07
open CamVerif CamVerif.Control

variable {σ : Type} {dev : Dev σ}

/-! ## 1. ops_total -/

/-- **ops_total**: whatever the device answers, `open`, `read` and `write` return `Ok` or an
error — never panic (no `unwrap`, slice index, `chunks_mut(0)`, `copy_from_slice` length
mismatch, arithmetic overflow or underflow is reachable), in both build profiles, for every
handle state: any negotiated limits, any retry count, any request id, any buffer length,
open or not, any address and length (also ranges that wrap the address space). -/
theorem ops_total (hh : Honest dev) (p : Profile) (s : St σ) (a n : Nat) (data : Bytes)
    (hn : n < 2 ^ 64) (hd : data.length < 2 ^ 64) (hu32 : s.h.cfg.maxCmd < 2 ^ 32)
    (hid : s.h.nextReqId < 2 ^ 16) :
    (Control.open dev p s).2 ≠ .panic ∧ (Control.read dev p s a n).2 ≠ .panic ∧
    (Control.write dev p s a data).2 ≠ .panic :=
  ⟨(open_inv hh p s).1, (read_inv hh p s a n hn).1.no_panic,
    (write_inv hh p s a data hd hu32 hid).1.no_panic⟩

/-- `initialize_config` alone (arbitrary bootstrap register contents) never panics either. -/
theorem initialize_config_total (hh : Honest dev) (p : Profile) (s : St σ) :
    (initializeConfig dev p s).2 ≠ .panic :=
  (initializeConfig_inv hh p s).no_panic

/-- **disable_streaming_total**: `disable_streaming` — the cached lookups `sirm()` → `sbrm()` →
`abrm()` (up to four register reads, any cache state), the SIRM-available capability bit, the
checked address of SI_CONTROL and one 4-byte write — returns `Ok` or an error, never panics,
whatever the device answers and whatever addresses / capabilities its bootstrap registers
advertise (SIRM unavailable, SI_CONTROL beyond the address space, …), on an open or closed
handle, both profiles. -/
theorem disable_streaming_total (hh : Honest dev) (p : Profile) (s : St σ) (c : Caches)
    (hid : s.h.nextReqId < 2 ^ 16) (hu32 : s.h.cfg.maxCmd < 2 ^ 32) :
    (disableStreaming dev p s c).2.2 ≠ .panic :=
  disableStreaming_inv hh p s c hid hu32

/-! ## 2. ok_is_genuine -/

/-- **ok_is_genuine (read)**: if `read(a, n)` returns `Ok(d)` then the handle was open, `d` has
exactly `n` bytes, and the events `evs` this very call logged decompose — chunk by chunk, in
the chunking `min(maxAck−12, 65535)` of the request (`GenuineRead`) — into one transaction
per chunk (`GenuineSeg`): the chunk's ReadMem command carrying request id `id0 + k`, sent
successfully, then receives only (no other command in between), and the LAST of these
receives delivered a packet that fits the receive buffer, parses as an acknowledge, has status
Success, kind ReadMem and the command's request id, and whose ReadMem view — of exactly the
requested length — is that chunk of `d`.  An acknowledge received before the command was sent
(a stale one) can therefore never be the source of the data. -/
theorem ok_is_genuine_read (hh : Honest dev) (p : Profile) (s : St σ) (a n : Nat) (d : Bytes)
    (hn : n < 2 ^ 64) (hok : (Control.read dev p s a n).2 = .ok d) :
    d.length = n ∧ s.h.opened = true ∧ 12 < s.h.cfg.maxAck ∧
    ∃ evs, (Control.read dev p s a n).1.logRev = evs ++ s.logRev ∧
      GenuineRead p (min (s.h.cfg.maxAck - 12) 65535) a (n + 1) 0 n s.h.nextReqId d evs :=
  (read_inv hh p s a n hn).2 d hok

/-- what the typed ReadMem view of a genuine acknowledge is: the first `scd_len` bytes of the
packet's SCD, all present in the packet — so `scd_len` equals the chunk length. -/
theorem genuine_read_payload (p : Profile) (id : Nat) (v bytes : Bytes)
    (h : Genuine p id .readMem readView v bytes) :
    ∃ ack, Ack.AckPacket.parse p bytes = .ok ack ∧ ack.ccd.status.kind = .genCp .success ∧
      ack.ccd.requestId = id ∧ ack.ccd.scdKind = .readMem ∧
      v = ack.rawScd.take ack.ccd.scdLen ∧ ack.ccd.scdLen ≤ ack.rawScd.length ∧
      ack.ccd.scdLen = v.length := by
  obtain ⟨ack, h1, h2, h3, h4, h5⟩ := h
  refine ⟨ack, h1, h2, h3, h4, ?_⟩
  simp only [readView, Ack.ReadMem.parse, Ack.parseDataScd] at h5
  split at h5
  · cases h5
  · next hlt =>
    injection h5 with h5
    refine ⟨h5.symm, by omega, ?_⟩
    rw [← h5, List.length_take]; omega

/-- **ok_is_genuine (write)**: if `write(a, data)` returns `Ok` then the handle was open and
the events this very call logged decompose, chunk command by chunk command
(`writeChunkList`, whose data concatenates to `data`), into one transaction each: the chunk's
WriteMem command with request id `id0 + k`, then receives only, the last of which delivered a
genuine WriteMem acknowledge (parses, Success, kind WriteMem, the command's id) reporting
exactly the chunk's length as written. -/
theorem ok_is_genuine_write (hh : Honest dev) (p : Profile) (s : St σ) (a : Nat) (data : Bytes)
    (hd : data.length < 2 ^ 64) (hu32 : s.h.cfg.maxCmd < 2 ^ 32) (hid : s.h.nextReqId < 2 ^ 16)
    (hok : (Control.write dev p s a data).2 = .ok ()) :
    s.h.opened = true ∧ (data ≠ [] → 20 < s.h.cfg.maxCmd) ∧
    ∃ evs, (Control.write dev p s a data).1.logRev = evs ++ s.logRev ∧
      GenuineWrite p (C06.writeChunkList p a s.h.cfg.maxCmd (data.length + 1) 0 data)
        s.h.nextReqId evs :=
  (write_inv hh p s a data hd hu32 hid).2 hok

/-- **a fresh request id for every command**: whatever the device does and whatever the
outcome (success, error status, time-out, exhausted retries), a `send_cmd` that put its
command on the wire leaves `next_req_id` advanced by one — an acknowledge of an abandoned
command can never match the id of a later command (until the 16-bit id wraps). -/
theorem fresh_id_per_command (hh : Honest dev) (p : Profile) (s : St σ) (c : Cmd.Cmd)
    (hc : C09.Constructible p c) (hfit : c.cmdLen ≤ s.h.cfg.maxCmd) :
    (sendCmd dev p readView s c).1.h.nextReqId = (s.h.nextReqId + 1) % 2 ^ 16 := by
  have hlen := (C09.len_agree p c s.h.nextReqId hc).1
  have hsink := (C09.sink_exact c s.h.nextReqId
    (max s.h.bufLen (max c.cmdLen c.maximumAckLen))).2.2.1 (by rw [hlen]; omega)
  rcases hsd : dev.send s.d (c.serialize s.h.nextReqId) with ⟨d, r⟩
  simp only [sendCmd, if_neg (Nat.not_lt.mpr hfit), hsink, hlen, ne_eq, not_true_eq_false,
    if_false, hsd]
  cases r with
  | some e => rfl
  | none =>
    simp only [St.push]
    rw [(recvLoop_inv hh p readView readView_total (ackKindOf c) s.h.nextReqId _ _).h_eq]

/-! ## 3. pending_bounded, configured time-outs and lengths -/

/-- **pending_bounded (one transaction)**: one `send_cmd` performs at most one bulk-out
transfer and at most `retry_count` bulk-in transfers, whatever the device answers (endless
pending acknowledges or endless acknowledges of other commands included); with
`retry_count = 0` it performs none and fails. -/
theorem pending_bounded_txn (hh : Honest dev) (p : Profile) (s : St σ) (c : Cmd.Cmd)
    (hc : C09.Constructible p c) :
    ∃ evs, (sendCmd dev p readView s c).1.logRev = evs ++ s.logRev ∧
      sendCount evs ≤ 1 ∧ recvCount evs ≤ s.h.cfg.retry :=
  (sendCmd_inv hh p readView readView_total s c hc).one_send

/-- **pending_bounded (operations)** and **configured time-outs / lengths**: during `read` and
`write` the number of bulk-in transfers is at most `retry_count` times the number of commands
sent — no unbounded loop —, every command put on the wire is at most the configured
`maximum_cmd_length` long, and every bulk transfer is given exactly the configured
`timeout_duration` (`EvsOk`); for `open` the receive bound holds as well. -/
theorem pending_bounded (hh : Honest dev) (p : Profile) (s : St σ) (a n : Nat) (data : Bytes)
    (hn : n < 2 ^ 64) (hd : data.length < 2 ^ 64) (hu32 : s.h.cfg.maxCmd < 2 ^ 32)
    (hid : s.h.nextReqId < 2 ^ 16) :
    (∃ evs, (Control.read dev p s a n).1.logRev = evs ++ s.logRev ∧
      recvCount evs ≤ s.h.cfg.retry * sendCount evs ∧
      EvsOk s.h.cfg.maxCmd s.h.cfg.xfer evs) ∧
    (∃ evs, (Control.write dev p s a data).1.logRev = evs ++ s.logRev ∧
      recvCount evs ≤ s.h.cfg.retry * sendCount evs ∧
      EvsOk s.h.cfg.maxCmd s.h.cfg.xfer evs) ∧
    (∃ evs, (Control.open dev p s).1.logRev = evs ++ s.logRev ∧
      recvCount evs ≤ s.h.cfg.retry * sendCount evs) :=
  ⟨(read_inv hh p s a n hn).1.log, (write_inv hh p s a data hd hu32 hid).1.log,
    (open_inv hh p s).2.2.2.1⟩

/-- **no unlimited transfer**: the timeout handed to every transfer (`Config.xfer`, the `t` of
`EvsOk` in `pending_bounded`) is at least 1 ms whatever the configuration holds — in particular
for a device advertising a Maximum Device Response Time of 0, which libusb would read as
"wait forever".  (That each transport call then RETURNS is an assumption on the transport, see
`props/C07.json`.) -/
theorem transfer_timeout_never_zero (c : Config) : 1 ≤ c.xfer ∧ c.timeoutMs ≤ c.xfer := by
  simp only [Config.xfer]; omega

/-! ## 4. usable_after_error -/

/-- The handle state relation "still usable": same configuration (negotiated limits, retry
count), still open, request id still a u16. -/
structure Usable (h h' : Handle) : Prop where
  cfg : h'.cfg = h.cfg
  opened : h'.opened = h.opened
  id16 : h'.nextReqId < 2 ^ 16

/-- **usable_after_error (frame)**: whatever the device did and whatever `read` / `write`
returned (`Ok` or any error), the handle afterwards is `Usable`. -/
theorem usable_after_any (hh : Honest dev) (p : Profile) (s : St σ) (a n : Nat) (data : Bytes)
    (hn : n < 2 ^ 64) (hd : data.length < 2 ^ 64) (hu32 : s.h.cfg.maxCmd < 2 ^ 32)
    (hid : s.h.nextReqId < 2 ^ 16) :
    Usable s.h (Control.read dev p s a n).1.h ∧ Usable s.h (Control.write dev p s a data).1.h := by
  obtain ⟨h1, _⟩ := read_inv hh p s a n hn
  obtain ⟨h2, _⟩ := write_inv hh p s a data hd hu32 hid
  exact ⟨⟨h1.cfg, h1.opened, h1.id16 hid⟩, ⟨h2.cfg, h2.opened, h2.id16 hid⟩⟩

/-- **usable_after_error**: take any handle that is open with limits `lim` negotiated; let an
arbitrary (hostile) device answer a `read` and a `write` in any way, with any outcome, and call
the handle afterwards `h'`.  If the device then behaves — any conforming transport `dev2` in
any state `d2` whose bulk-in pipe (a FIFO: nothing the host did not fetch disappears) still
holds `stale` leftovers of the hostile phase that are well-formed acknowledges of OTHER request
ids fitting the buffer, with `|stale| + pendings < retry` — then the very next `read` returns
exactly the device memory (the stale acknowledges are fetched and discarded, never returned as
data), the very next `write` stores exactly the data, and afterwards the pipe is empty, so all
C06 theorems apply again (`C06.Ready`). -/
theorem usable_after_error {σ2 M : Type} [Spec.Conf.MemLike M] {dev2 : Dev σ2}
    {view2 : σ2 → Spec.Conf.View M} {lim : Spec.Conf.Limits} {plan : Nat → Nat} {ms : Nat}
    (hh : Honest dev) (hc : Spec.Conf.Conforming dev2 view2 lim plan ms) (p : Profile)
    (s : St σ) (a n : Nat) (data : Bytes) (hn : n < 2 ^ 64) (hd : data.length < 2 ^ 64)
    (hop : s.h.opened = true) (hmc : s.h.cfg.maxCmd = lim.maxCmd)
    (hma : s.h.cfg.maxAck = lim.maxAck) (hid : s.h.nextReqId < 2 ^ 16) (hms : ms < 2 ^ 16)
    (hu32 : lim.maxCmd < 2 ^ 32)
    (d2 : σ2) (stale : List Bytes) (hq : (view2 d2).queue = stale)
    (hbudget : ∀ i, stale.length + plan i < s.h.cfg.retry)
    (hstale : C06.StaleOk p (Control.write dev p (Control.read dev p s a n).1 a data).1.h.nextReqId
      (Control.write dev p (Control.read dev p s a n).1 a data).1.h.bufLen stale)
    (a' n' : Nat) (data' : Bytes) (hsp : a' + n' ≤ 2 ^ 64) (hn' : 0 < n' ∧ n' < 2 ^ 64)
    (hsp' : a' + data'.length ≤ 2 ^ 64) (hd' : data' ≠ [] ∧ data'.length < 2 ^ 64)
    (hcmd : 24 ≤ lim.maxCmd) (hack : 16 ≤ lim.maxAck) :
    let h' := (Control.write dev p (Control.read dev p s a n).1 a data).1.h
    (Control.read dev2 p ⟨h', d2, []⟩ a' n').2 = .ok (Spec.Conf.readRange (view2 d2).mem a' n') ∧
    C06.Ready view2 (Control.read dev2 p ⟨h', d2, []⟩ a' n').1 lim plan ms ∧
    (Control.write dev2 p ⟨h', d2, []⟩ a' data').2 = .ok () ∧
    (view2 (Control.write dev2 p ⟨h', d2, []⟩ a' data').1.d).mem =
      Spec.Conf.writeRange (view2 d2).mem a' data' ∧
    (view2 (Control.write dev2 p ⟨h', d2, []⟩ a' data').1.d).queue = [] := by
  intro h'
  obtain ⟨h1, _⟩ := read_inv hh p s a n hn
  have hu1 : (Control.read dev p s a n).1.h.cfg.maxCmd < 2 ^ 32 := by
    rw [h1.cfg, hmc]; exact hu32
  obtain ⟨h2, _⟩ := write_inv hh p (Control.read dev p s a n).1 a data hd hu1 (h1.id16 hid)
  have hcfg : h'.cfg = s.h.cfg := h2.cfg.trans h1.cfg
  have hrec : Recoverable p view2 (⟨h', d2, []⟩ : St σ2) lim plan ms stale :=
    ⟨by simp only; rw [show h'.opened = s.h.opened from h2.opened.trans h1.opened]; exact hop,
     by simp only; rw [hcfg]; exact hmc, by simp only; rw [hcfg]; exact hma,
     h2.id16 (h1.id16 hid), hms, by simp only; rw [hcfg]; exact hbudget, hq, hstale⟩
  obtain ⟨s3, hs3, hm3, hq3, hcfg3, hop3, hid3⟩ :=
    read_conforming_stale hc p _ stale a' n' hrec hsp hn'.2 hcmd (by omega)
  obtain ⟨s4, hs4, hm4, hq4, _⟩ :=
    write_conforming_stale hc p _ stale a' data' hrec hsp' hd'.2 (by omega) hu32 hack
  rw [if_neg (by omega)] at hq3
  rw [if_neg hd'.1] at hq4
  refine ⟨by rw [hs3], ?_, by rw [hs4], by rw [hs4]; exact hm4, by rw [hs4]; exact hq4⟩
  rw [hs3]
  exact ⟨hq3, hop3, by rw [hcfg3]; exact hrec.maxCmd, by rw [hcfg3]; exact hrec.maxAck, hid3, hms,
    fun i => by rw [hcfg3]; have := hrec.budget i; omega⟩

/-- **open after a failed open**: when `open` fails, the channel is closed again (`opened =
false`, so the next `open` renegotiates instead of silently keeping the default limits) —
unless releasing the interface failed too, which the log shows; when it succeeds the handle
is open. -/
theorem open_failure_closes (hh : Honest dev) (p : Profile) (s : St σ)
    (hclosed : s.h.opened = false) :
    ((Control.open dev p s).2 = .ok () → (Control.open dev p s).1.h.opened = true) ∧
    (∀ e, (Control.open dev p s).2 = .err e →
      (Control.open dev p s).1.h.opened = false ∨
      ∃ t ue, Ev.ctl .release t (some ue) ∈ (Control.open dev p s).1.logRev) := by
  obtain ⟨_, _, _, _, h5, h6⟩ := open_inv hh p s
  exact ⟨h5, fun e he => h6 e he hclosed⟩

/-! ## 5. request ids over whole histories, re-opening -/

/-- one call of the public control API -/
inductive Call where
  | «open»
  | close
  | read (a n : Nat)
  | write (a : Nat) (data : Bytes)

/-- the Rust types of the arguments (lengths are `usize`) -/
def Call.Typed : Call → Prop
  | .read _ n => n < 2 ^ 64
  | .write _ data => data.length < 2 ^ 64
  | _ => True

/-- state after one call (its result — `Ok` or any error — is dropped) -/
def runCall (dev : Dev σ) (p : Profile) (s : St σ) : Call → St σ
  | .open => (Control.open dev p s).1
  | .close => (Control.close dev s).1
  | .read a n => (Control.read dev p s a n).1
  | .write a data => (Control.write dev p s a data).1

/-- state after a history of calls -/
def runCalls (dev : Dev σ) (p : Profile) : List Call → St σ → St σ
  | [], s => s
  | c :: cs, s => runCalls dev p cs (runCall dev p s c)

/-- one call: id accounting, and the typing invariants it preserves -/
theorem call_ids (hh : Honest dev) (p : Profile) (s : St σ) (c : Call) (hc : c.Typed)
    (hid : s.h.nextReqId < 2 ^ 16) (hu32 : s.h.cfg.maxCmd < 2 ^ 32) :
    (∃ evs, (runCall dev p s c).logRev = evs ++ s.logRev ∧
      IdsOk s.h.nextReqId (runCall dev p s c).h.nextReqId evs) ∧
    (runCall dev p s c).h.nextReqId < 2 ^ 16 ∧ (runCall dev p s c).h.cfg.maxCmd < 2 ^ 32 := by
  cases c with
  | «open» =>
    obtain ⟨h1, h2⟩ := open_ids hh p s
    exact ⟨h1, (open_inv hh p s).2.2.1 hid, h2 hu32⟩
  | close =>
    simp only [runCall, Control.close]
    by_cases hop : (!s.h.opened) = true
    · simp only [if_pos hop]
      exact ⟨⟨[], by simp, IdsOk.nil _⟩, hid, hu32⟩
    · simp only [if_neg hop]
      have h1 := (ctlReq_inv (dev := dev) s .release).1
      rcases e1 : ctlReq dev s .release with ⟨s1, r1⟩
      rw [e1] at h1; simp only at h1
      rcases r1 with u | e | _
      · exact ⟨h1.ids, h1.id16 hid, h1.u32 hu32⟩
      · exact ⟨h1.ids, h1.id16 hid, h1.u32 hu32⟩
      · exact ⟨h1.ids, h1.id16 hid, h1.u32 hu32⟩
  | read a n =>
    obtain ⟨h1, _⟩ := read_inv hh p s a n hc
    exact ⟨h1.ids, h1.id16 hid, by simp only [runCall]; rw [h1.cfg]; exact hu32⟩
  | write a data =>
    obtain ⟨h1, _⟩ := write_inv hh p s a data hc hu32 hid
    exact ⟨h1.ids, h1.id16 hid, by simp only [runCall]; rw [h1.cfg]; exact hu32⟩

/-- **ids_continue_across_history**: over ANY history of `open` / `close` / `read` / `write`
calls — in any order, with any outcomes, against an arbitrary (hostile) transport, including
failed opens, re-opens after close, calls on a closed handle — `next_req_id` advances by
exactly the number of commands put on the wire, and those commands carry the consecutive ids
`id0, id0+1, …` (mod 2^16) in the order they were sent (`IdsOk`): every command gets a fresh
id, and nothing else — neither `open` nor `close` nor an error path — ever resets, skips or
reuses an id. -/
theorem ids_continue_across_history (hh : Honest dev) (p : Profile) :
    ∀ (calls : List Call) (s : St σ), (∀ c ∈ calls, c.Typed) → s.h.nextReqId < 2 ^ 16 →
      s.h.cfg.maxCmd < 2 ^ 32 →
      ∃ evs, (runCalls dev p calls s).logRev = evs ++ s.logRev ∧
        IdsOk s.h.nextReqId (runCalls dev p calls s).h.nextReqId evs := by
  intro calls
  induction calls with
  | nil => intro s _ _ _; exact ⟨[], by simp [runCalls], IdsOk.nil _⟩
  | cons c cs ih =>
    intro s hty hid hu32
    obtain ⟨⟨e1, l1, i1⟩, hid1, hu1⟩ := call_ids hh p s c (hty c (List.mem_cons_self ..)) hid hu32
    obtain ⟨e2, l2, i2⟩ := ih (runCall dev p s c) (fun x hx => hty x (List.mem_cons_of_mem _ hx))
      hid1 hu1
    exact ⟨e2 ++ e1, by simp only [runCalls]; rw [l2, l1]; simp, i1.trans i2⟩

/-- **open_after_failed_open_succeeds**: let `open` of a closed handle fail against an arbitrary
(hostile) transport, the channel having been closed again (`opened = false`; otherwise the log
shows the failed release, `open_failure_closes`).  Against ANY conforming device `dev2` (limits
at least 24 / 20, control requests succeeding, bootstrap registers advertising `lim` and `T`,
pending plan below the — unchanged — retry count) the next `open` of that handle succeeds and
leaves it `C06.Ready` for `lim` with `timeout_duration = T`: nothing the failed attempt left
behind (cached capability, buffer, request id, the reset 128/128 lengths) gets in the way. -/
theorem open_after_failed_open_succeeds {σ2 M : Type} [Spec.Conf.MemLike M] {dev2 : Dev σ2}
    {view2 : σ2 → Spec.Conf.View M} {lim : Spec.Conf.Limits} {plan : Nat → Nat} {ms : Nat}
    (hh : Honest dev) (hc : Spec.Conf.Conforming dev2 view2 lim plan ms)
    (hk : C06.CtlOk dev2 view2) (p : Profile) (s : St σ) (hid : s.h.nextReqId < 2 ^ 16)
    (hclosedAgain : (Control.open dev p s).1.h.opened = false)
    (d2 : σ2) (T sbrm : Nat) (hboot : C06.Boot (view2 d2).mem lim T sbrm)
    (hplan : ∀ i, plan i < s.h.cfg.retry) (hcmd : 24 ≤ lim.maxCmd) (hack : 20 ≤ lim.maxAck)
    (hms : ms < 2 ^ 16) :
    ∃ s', Control.open dev2 p ⟨(Control.open dev p s).1.h, d2, []⟩ = (s', .ok ()) ∧
      C06.Ready view2 s' lim plan ms ∧ s'.h.cfg.timeoutMs = T := by
  obtain ⟨_, hretry, hid16, _, _, _⟩ := open_inv hh p s
  obtain ⟨s', hs', hr, hT, _⟩ := C06.open_negotiates hc hk p
    (⟨(Control.open dev p s).1.h, d2, []⟩ : St σ2) T sbrm hboot hclosedAgain (hid16 hid)
    (by simp only; rw [hretry]; exact hplan) hcmd hack hms
  exact ⟨s', hs', hr, hT⟩

/-! ## Non-vacuity -/

/-- a history with a failing open (garbage device), reads on the closed handle, a close -/
example : (∀ c ∈ [Call.open, .read 0 4, .close, .open, .write 8 [1, 2]], c.Typed) := by
  intro c hc; simp at hc; rcases hc with rfl | rfl | rfl | rfl | rfl <;> simp [Call.Typed]


/-- the reference conforming device is honest -/
example : Honest (Spec.Conf.refDev (M := Nat → UInt8) ⟨64, 64⟩ (fun _ => 0) 0) := by
  intro st n b h
  simp only [Spec.Conf.refDev] at h
  split at h
  · simp at h
  · next pkt q _ =>
    split at h
    · simp at h
    · simp only [Except.ok.injEq] at h; subst h; omega

/-- a hostile device: accepts every command and answers every receive with the same 13
garbage bytes -/
def garbageDev : Dev Unit where
  send _ _ := ((), none)
  recv _ _ := ((), .ok [0x55, 0x33, 0x56, 0x43, 0xFF, 0xFF, 1, 8, 0xFF, 0xFF, 0, 0, 7])
  ctl _ _ := ((), none)

/-- a device that answers every receive with a pending acknowledge for request id 0 -/
def pendingDev : Dev Unit where
  send _ _ := ((), none)
  recv _ _ := ((), .ok (Spec.Conf.pendingAck 0 0))
  ctl _ _ := ((), none)

def hostState : St Unit := ⟨⟨0, ⟨1, 3, 64, 64⟩, 0, true, none⟩, (), []⟩

example : (Control.read garbageDev .dev hostState 0x1000 10).2 = .err .io := by decide +kernel

example : (Control.read pendingDev .dev hostState 0x1000 10).2 = .err .io ∧
    recvCount (Control.read pendingDev .dev hostState 0x1000 10).1.logRev = 3 := by decide +kernel

example : (Control.open garbageDev .release ⟨Handle.new, (), []⟩).2 = .err .io ∧
    (Control.open garbageDev .release ⟨Handle.new, (), []⟩).1.h.opened = false := by decide +kernel

/-- the auditor's scenario on the FIFO reference device: retry count 3, the device sends 3
pending acknowledges before its answer to the first command.  The first read fails (retries
exhausted) and leaves its answer queued; the next read — of another address — fetches and
discards that stale acknowledge and returns the memory at ITS address. -/
def slowDev : Dev (Spec.Conf.RefState (Nat → UInt8)) :=
  Spec.Conf.refDev ⟨64, 64⟩ (fun i => if i = 0 then 3 else 0) 0

def slowState : St (Spec.Conf.RefState (Nat → UInt8)) :=
  ⟨⟨7, ⟨1, 3, 64, 64⟩, 0, true, none⟩, ⟨fun a => UInt8.ofNat a, [], 0⟩, []⟩

example : (Control.read slowDev .dev slowState 0x1000 4).2 = .err .io ∧
    (Control.read slowDev .dev slowState 0x1000 4).1.d.queue.length = 1 ∧
    (Control.read slowDev .dev (Control.read slowDev .dev slowState 0x1000 4).1 0x2010 4).2 =
      .ok [0x10, 0x11, 0x12, 0x13] ∧
    (Control.read slowDev .dev (Control.read slowDev .dev slowState 0x1000 4).1 0x2010 4).1.d.queue
      = [] := by decide +kernel

/-- `disable_streaming` against the garbage device errs; against the reference device whose
registers advertise an SBRM at 0x10000 with SIRM available at 0x20000 it clears SI_CONTROL -/
example : (disableStreaming garbageDev .dev hostState Caches.empty).2.2 = .err .io := by
  decide +kernel

example :
    let mem : Nat → UInt8 := fun a =>
      if a = 0x01D8 + 2 then 1 else if a = 0x10004 then 1 else if a = 0x10020 + 2 then 2
      else if a = 0x20004 then 0xFF else 0
    let out := disableStreaming (Spec.Conf.refDev ⟨64, 64⟩ (fun _ => 0) 0) .dev
      ⟨⟨0, ⟨1, 3, 64, 64⟩, 0, true, none⟩, ⟨mem, [], 0⟩, []⟩ Caches.empty
    out.2.2 = .ok () ∧ out.2.1 = ⟨some (0x10000, 1), some 0x20000⟩ ∧
      out.1.d.mem 0x20004 = 0 := by decide +kernel

/-- ids over histories with failing opens, a close, calls on a closed handle and a re-open:
a garbage device (two failed opens: ids 0, 1; the read on the closed handle sends nothing) and
the slow reference device starting at id 7 (a failing read, a close, a refused read, a
re-open, a read and a write): nine commands on the wire, ids 7..15 without gap or repeat. -/
example : sentIds (runCalls garbageDev .release [.open, .close, .open, .read 0 4]
      ⟨Handle.new, (), []⟩).logRev = [0, 1] ∧
    (runCalls garbageDev .release [.open, .close, .open, .read 0 4]
      ⟨Handle.new, (), []⟩).h.nextReqId = 2 ∧
    sentIds (runCalls slowDev .dev
      [.read 0x1000 4, .close, .read 0 4, .open, .read 0x2010 4, .write 3 [1, 2, 3]]
      slowState).logRev = [7, 8, 9, 10, 11, 12, 13, 14, 15] := by decide +kernel

end CamVerif.C07
