/-
C16 — Camera start/stop/close keep the device acquisition state consistent.

Property theorems only.  Vocabulary (`startSeq`, `stopSeq`, `AllOk`, `CallShape`, `EmitsAt`,
`expectedSubs`, `FlagTracksLoop`, `Consistent`, `Clean`) is in `CamVerif.Spec.Camera`; the
model of `camera.rs` is `CamVerif.Model.Camera`; helper lemmas are in `CamVerif.Proofs.C16`.

Every statement quantifies over EVERY environment `env` — i.e. every fault plan
`env.plan : Nat → Bool` (any set of failing sub-operation indices, not just single faults),
every description `env.xml` unless stated, both behaviours of a failing loop stop — and
either every state `s` or every call sequence `ops : List Op` (induction, no depth bound).
-/
import CamVerif.Proofs.C16
namespace CamVerif.C16
open CamVerif CamVerif.Camera

/-! ## The effects of every call -/

/-- **call_protocol** (master statement).  For every call, state and fault plan: the call
appends a segment `seg` to the trace whose sub-operations are, in order, a prefix of the
expected protocol sequence of that call (all of it when the call succeeds), every effect
before a failing one succeeded, a failing effect is the last one, and its error is returned
(`CallShape`). -/
theorem call_protocol (env : Env) (op : Op) (s : State) :
    EmitsAt (call env op) (expectedSubs env op s.dev) s :=
  emitsAt_call env op s

private theorem eq_map_ok_of_allOk {seg : List Effect} {l : List Sub}
    (h : seg.map (·.sub) = l) (hall : AllOk seg) : seg = l.map (⟨·, .ok⟩) := by
  induction seg generalizing l with
  | nil => simp at h; subst h; rfl
  | cons e es ih =>
    cases l with
    | nil => simp at h
    | cons k ks =>
      simp only [List.map_cons, List.cons.injEq] at h
      have he : e.out = .ok := hall e (by simp)
      have := ih h.2 (fun x hx => hall x (by simp [hx]))
      rw [List.map_cons, ← this]
      congr 1
      cases e
      simp_all

/-- **start_order**.  Every `start_streaming` call, from every state under every fault plan,
performs a prefix of: enable_streaming, TLParamsLocked := 1, AcquisitionStart, loop start —
in this order, each step only after all earlier ones succeeded; a successful call performs
exactly these four, all successful. -/
theorem start_order (env : Env) (cap : Nat) (s : State) :
    ∃ seg, (step env (.start cap) s).2.trace = s.trace ++ seg ∧
      seg.map (·.sub) <+: startSeq ∧ CallShape seg (step env (.start cap) s).1 ∧
      ((step env (.start cap) s).1 = .ok () → seg = startSeq.map (⟨·, .ok⟩)) := by
  obtain ⟨seg, ht, _, hsh, hp, hok⟩ := emitsAt_call env (.start cap) s
  refine ⟨seg, ht, ?_, hsh, ?_⟩
  · simp only [expectedSubs] at hp
    split at hp
    · exact List.IsPrefix.trans hp List.nil_prefix
    · exact hp
  · intro h
    have hm := hok () h
    have hall : AllOk seg := by
      have := hsh
      simp only [step] at h
      rw [h] at this
      exact this
    simp only [expectedSubs] at hm
    split at hm
    · -- a guard fired: the call cannot have succeeded
      rename_i hg
      exfalso
      simp only [step, call, startStreaming] at h
      rw [getDev_bind] at h
      simp only [Bool.or_eq_true, beq_iff_eq] at hg
      rcases hg with (hg | hg) | hg
      · simp [hg, throwErr] at h
      · by_cases h1 : s.dev.loopFlag = true
        · simp [h1, throwErr] at h
        · simp [h1, hg, throwErr] at h
      · by_cases h1 : s.dev.loopFlag = true
        · simp [h1, throwErr] at h
        · by_cases h2 : s.dev.ctxt.isNone = true
          · simp [h1, h2, throwErr] at h
          · simp [h1, h2, hg, panicM] at h
    · exact eq_map_ok_of_allOk hm hall

/-- **stop_order**.  Every `stop_streaming` call performs nothing when no loop is running,
and otherwise a prefix of: loop stop, AcquisitionStop, TLParamsLocked := 0,
disable_streaming — in this order, each only after the earlier ones succeeded; a successful
call on a running loop performs exactly these four, all successful. -/
theorem stop_order (env : Env) (s : State) :
    ∃ seg, (step env .stop s).2.trace = s.trace ++ seg ∧
      CallShape seg (step env .stop s).1 ∧
      (s.dev.loopFlag = false → seg = [] ∧ (step env .stop s).1 = .ok ()) ∧
      (s.dev.loopFlag = true → seg.map (·.sub) <+: stopSeq ∧
        ((step env .stop s).1 = .ok () → seg = stopSeq.map (⟨·, .ok⟩))) := by
  obtain ⟨seg, ht, _, hsh, hp, hok⟩ := emitsAt_call env .stop s
  refine ⟨seg, ht, hsh, ?_, ?_⟩
  · intro hf
    simp only [expectedSubs, hf, Bool.false_eq_true, if_false, List.prefix_nil] at hp
    refine ⟨by simpa using hp, ?_⟩
    simp [step, call, stopStreaming, getDev_bind, hf, pure_apply]
  · intro hf
    simp only [expectedSubs, hf, if_true] at hp hok
    refine ⟨hp, fun h => ?_⟩
    have hall : AllOk seg := by
      have := hsh
      simp only [step] at h
      rw [h] at this
      exact this
    exact eq_map_ok_of_allOk (hok () h) hall

/-- **stop_order (close)**.  `close` performs the stop protocol first (when a loop runs),
and closes the two handles (in the order `env.closeCtrlFirst` says — the property does not
order these two independent operations) only after all of it succeeded, the second only after
the first succeeded. -/
theorem close_order (env : Env) (s : State) :
    ∃ seg, (step env .close s).2.trace = s.trace ++ seg ∧
      CallShape seg (step env .close s).1 ∧
      seg.map (·.sub) <+: (if s.dev.loopFlag then stopSeq else []) ++
        pairSubs env.closeCtrlFirst .ctrlClose .strmClose ∧
      ((step env .close s).1 = .ok () →
        seg = ((if s.dev.loopFlag then stopSeq else []) ++
          pairSubs env.closeCtrlFirst .ctrlClose .strmClose).map (⟨·, .ok⟩)) := by
  obtain ⟨seg, ht, _, hsh, hp, hok⟩ := emitsAt_call env .close s
  refine ⟨seg, ht, hsh, hp, fun h => ?_⟩
  have hall : AllOk seg := by
    have := hsh
    simp only [step] at h
    rw [h] at this
    exact this
  exact eq_map_ok_of_allOk (hok () h) hall

/-- **open_order**: `open` opens the two handles in the order `env.openCtrlFirst` says, the
second only after the first succeeded. -/
theorem open_order (env : Env) (s : State) :
    ∃ seg, (step env .open s).2.trace = s.trace ++ seg ∧ CallShape seg (step env .open s).1 ∧
      seg.map (·.sub) <+: pairSubs env.openCtrlFirst .ctrlOpen .strmOpen ∧
      ((step env .open s).1 = .ok () →
        seg = (pairSubs env.openCtrlFirst .ctrlOpen .strmOpen).map (⟨·, .ok⟩)) := by
  obtain ⟨seg, ht, _, hsh, hp, hok⟩ := emitsAt_call env .open s
  refine ⟨seg, ht, hsh, hp, fun h => ?_⟩
  have hall : AllOk seg := by
    have := hsh
    simp only [step] at h
    rw [h] at this
    exact this
  exact eq_map_ok_of_allOk (hok () h) hall

/-! ## No second loop -/

/-- **no_second_loop (already streaming)**: the call fails with `InStreaming`; the state —
including the trace and the fault-plan position — is untouched: no effect at all. -/
theorem no_second_loop_streaming (env : Env) (cap : Nat) (s : State)
    (h : s.dev.loopFlag = true) : step env (.start cap) s = (.err .inStreaming, s) := by
  simp [step, call, startStreaming, getDev_bind, h, throwErr]

/-- **no_second_loop (no description loaded)**: the call fails with `GenApiContextMissing`
and has no effect at all (in particular streaming is NOT enabled on the device). -/
theorem no_second_loop_no_context (env : Env) (cap : Nat) (s : State)
    (hf : s.dev.loopFlag = false) (h : s.dev.ctxt = none) :
    step env (.start cap) s = (.err .ctxtMissing, s) := by
  simp [step, call, startStreaming, getDev_bind, h, hf, throwErr]

/-- `start_streaming(0)` panics (documented) before any effect. -/
theorem start_zero_cap_panics_without_effect (env : Env) (s : State) (x : Xml)
    (hf : s.dev.loopFlag = false) (h : s.dev.ctxt = some x) :
    step env (.start 0) s = (.panic, s) := by
  simp [step, call, startStreaming, getDev_bind, h, hf, panicM]

/-! ## A failing step stops the call -/

/-- **fault_stops_call**.  For every call, state and fault plan: if some effect of the call
failed, it is the LAST effect of the call (no later step is performed), every earlier effect
succeeded, and the call returns that step's error.  Each effect consumes exactly one
fault-plan index. -/
theorem fault_stops_call (env : Env) (op : Op) (s : State) :
    ∃ seg, (step env op s).2.trace = s.trace ++ seg ∧
      (step env op s).2.counter = s.counter + seg.length ∧
      ∀ pre e post, seg = pre ++ e :: post → e.out ≠ .ok →
        post = [] ∧ AllOk pre ∧ (step env op s).1 = .err (errOf e) := by
  obtain ⟨seg, ht, hc, hsh, _, _⟩ := emitsAt_call env op s
  refine ⟨seg, ht, hc, ?_⟩
  intro pre e post hseg hne
  have hmem : e ∈ seg := by rw [hseg]; simp
  simp only [step]
  rcases hr : (call env op s).1 with a | er | _
  · rw [hr] at hsh; exact absurd (hsh e hmem) hne
  · rw [hr] at hsh
    rcases hsh with ⟨hall, _⟩ | ⟨pre', e', hseg', hpre', hne', her⟩
    · exact absurd (hall e hmem) hne
    · have hrev : post.reverse ++ e :: pre.reverse = e' :: pre'.reverse := by
        have := congrArg List.reverse (hseg.symm.trans hseg')
        simpa using this
      cases hpost : post.reverse with
      | nil =>
        rw [hpost] at hrev
        simp only [List.nil_append, List.cons.injEq] at hrev
        have hp : pre = pre' := by simpa using congrArg List.reverse hrev.2
        refine ⟨by simpa using hpost, hp ▸ hpre', ?_⟩
        rw [her, hrev.1]
      | cons x xs =>
        rw [hpost] at hrev
        simp only [List.cons_append, List.cons.injEq] at hrev
        have : e ∈ pre'.reverse := by rw [← hrev.2]; simp
        exact absurd (hpre' e (by simpa using this)) hne
  · rw [hr] at hsh; exact absurd (hsh e hmem) hne

/-- A call that returns `ok` performed only successful effects. -/
theorem ok_call_all_effects_ok (env : Env) (op : Op) (s : State)
    (h : (step env op s).1 = .ok ()) :
    ∃ seg, (step env op s).2.trace = s.trace ++ seg ∧ AllOk seg := by
  obtain ⟨seg, ht, _, hsh, _, _⟩ := emitsAt_call env op s
  refine ⟨seg, ht, ?_⟩
  simp only [step] at h
  rw [h] at hsh
  exact hsh

/-! ## The streaming flag tracks the loop, in every reachable state -/

/-- **flag_tracks_loop**.  After EVERY call sequence under EVERY fault plan (any number of
failing sub-operations), for every description and both failed-stop behaviours:
`is_loop_running()` is true iff exactly one receive loop is alive, there is never more than
one, and the number of live loops is the one determined by the effect trace alone (loop
starts that succeeded minus loop stops that ended a loop).  This is a statement about the
camera over a stream handle whose flag and loops change together in `start_streaming_loop` /
`stop_streaming_loop` (the model's handle); that the real `u3v::StreamHandle` flag tracks the
loop THREAD is not shown here (listed under `partial`). -/
theorem flag_tracks_loop (env : Env) (ops : List Op) :
    let s := runOps env ops State.init
    (s.dev.loopFlag = true ↔ s.dev.loops = 1) ∧ s.dev.loops ≤ 1 ∧
      liveLoops env.stopFailKills s.trace = s.dev.loops := by
  intro s
  have h : LoopInv env.stopFailKills s := loopInv_runOps env ops State.init (loopInv_init _)
  obtain ⟨h1, h2⟩ := h
  unfold FlagTracksLoop at h1
  refine ⟨?_, ?_, h2⟩
  · cases hf : s.dev.loopFlag <;> simp [hf] at h1 <;> simp [h1]
  · cases hf : s.dev.loopFlag <;> simp [hf] at h1 <;> simp [h1]

/-- **no_second_loop (global form)**: in a reachable state a `start_streaming` call that
starts a loop can only happen when no loop is alive — so no trace ever holds two live loops. -/
theorem never_two_loops (env : Env) (ops : List Op) :
    liveLoops env.stopFailKills (runOps env ops State.init).trace ≤ 1 := by
  have := flag_tracks_loop env ops
  simp only at this
  omega

/-! ## Close leaves a clean device when nothing failed -/

/-- **consistent_unless_protocol_step_fails** (per state).  From ANY state whose device state is
consistent (and whose loaded description, if any, is complete), with the complete description
on the device: every call leaves the device state consistent again unless a step of the
start/stop protocol itself fails in it (`Harmless`: the effect succeeded, or it is an
open/close of a handle, a description retrieval or a parameter read — e.g. `load_context`
refused with NotOpened on a closed handle).  Whatever the call returns. -/
theorem consistent_unless_protocol_step_fails (env : Env) (hx : env.xml = Xml.full) (op : Op)
    (s : State) (hs : Good s.dev) :
    ∃ seg, (step env op s).2.trace = s.trace ++ seg ∧
      (AllHarmless seg → Good (step env op s).2.dev) :=
  triple_snd (good_call (H := Harmless) (t0 := s.trace) env hx hprot_harmless op)
    ⟨[], by simp, fun _ => hs⟩

/-- **consistent_step**: the special case "no effect of the call failed". -/
theorem consistent_step (env : Env) (hx : env.xml = Xml.full) (op : Op) (s : State)
    (hs : Good s.dev) :
    ∃ seg, (step env op s).2.trace = s.trace ++ seg ∧ (AllOk seg → Good (step env op s).2.dev) := by
  obtain ⟨seg, ht, h⟩ := consistent_unless_protocol_step_fails env hx op s hs
  exact ⟨seg, ht, fun hall => h (fun e he => Or.inl (hall e he))⟩

/-- **open / load_context / params access (reads and writes of other features) never disturb
consistency**, whichever of their sub-operations fail (injected fault or NotOpened) and
whatever they return. -/
theorem consistent_kept_by_open_load_param (env : Env) (hx : env.xml = Xml.full) (op : Op)
    (hop : op = .open ∨ op = .load ∨ op = .param ∨ ∃ v, op = .gate v) (s : State)
    (hs : Good s.dev) :
    Good (step env op s).2.dev := by
  have hP : OkP (fun _ => True) s.trace Good s := ⟨[], by simp, fun _ => hs⟩
  have key : OkP (fun _ => True) s.trace Good (step env op s).2 := by
    rcases hop with rfl | rfl | rfl | ⟨v, rfl⟩
    · exact triple_snd (good_openCam env) hP
    · exact triple_snd (good_loadContext env hx) hP
    · exact triple_snd (good_paramAccess env) hP
    · exact triple_snd (good_gateAccess env v) hP
  obtain ⟨seg, _, h⟩ := key
  exact h (fun _ _ => trivial)

/-- A `stop_streaming` call while no loop runs returns `Ok` and touches nothing (refused
`start_streaming` calls: `no_second_loop_streaming`, `no_second_loop_no_context`,
`start_zero_cap_panics_without_effect`). -/
theorem stop_idle_changes_nothing (env : Env) (s : State) (h : s.dev.loopFlag = false) :
    step env .stop s = (.ok (), s) := by
  simp [step, call, stopStreaming, getDev_bind, h, pure_apply]

/-- **close_clean** (per state).  From ANY state with a consistent device state, whatever
happened before: if no device/stream operation fails during `close` itself, `close` returns
`Ok`, and afterwards the loop is stopped, no loop is alive, the payload channel is gone,
TLParamsLocked is 0, the stream is disabled, the device is not acquiring, both handles are
closed and the register cache is empty. -/
theorem close_clean_from_consistent (env : Env) (s : State) (hs : Good s.dev) :
    ∃ seg, (step env .close s).2.trace = s.trace ++ seg ∧
      (AllOk seg → (step env .close s).1 = .ok () ∧ Clean (step env .close s).2.dev) := by
  obtain ⟨h1, h2, h3⟩ := good_closeCam (H := fun e => e.out = .ok) (t0 := s.trace) env hprot_ok
    (GE := fun _ => False) (Or.inl (fun _ _ ho h => ho h)) s ⟨[], by simp, fun _ => hs⟩
  rcases hr : call env .close s with ⟨res, s'⟩
  simp only [step, hr]
  cases res with
  | ok a =>
    obtain ⟨seg, ht, hB⟩ := h1 a s' hr
    exact ⟨seg, ht, fun hall => ⟨rfl, (hB hall).2⟩⟩
  | err e =>
    obtain ⟨seg, ht, hB⟩ := h2 e s' hr
    exact ⟨seg, ht, fun hall => (hB hall).elim⟩
  | panic =>
    obtain ⟨seg, ht, hB⟩ := h3 s' hr
    exact ⟨seg, ht, fun hall => (hB hall).elim⟩

/-- **consistent_history**.  With the complete description on the device, after every call
sequence in which no PROTOCOL STEP failed (refusals such as NotOpened on a closed handle, failed
opens/closes/description reads/parameter reads, InStreaming / GenApiContextMissing, the
`cap = 0` panic are all allowed): the device state is consistent. -/
theorem consistent_history (env : Env) (hx : env.xml = Xml.full) (ops : List Op) :
    let s := runOps env ops State.init
    AllHarmless s.trace → Good s.dev := by
  intro s hall
  obtain ⟨seg, ht, hB⟩ := good_runOps (H := Harmless) env hx hprot_harmless ops State.init good_init
  rw [List.nil_append] at ht
  exact hB (ht ▸ hall)

/-- **consistent_without_failure**: the special case "nothing failed at all". -/
theorem consistent_without_failure (env : Env) (hx : env.xml = Xml.full) (ops : List Op) :
    let s := runOps env ops State.init
    AllOk s.trace → Consistent s.dev := by
  intro s hall
  exact (consistent_history env hx ops (fun e he => Or.inl (hall e he))).1

/-- **close_clean**.  With the complete description on the device, for every call sequence
`ops` followed by `close`, under every fault plan: if no protocol step failed in the history
(see `consistent_history`; e.g. `[load (NotOpened), open, load, start 1]` qualifies) and nothing
fails during the close itself, then `close` returns `Ok` and leaves a clean device. -/
theorem close_clean (env : Env) (hx : env.xml = Xml.full) (ops : List Op) :
    let s := runOps env ops State.init
    AllHarmless s.trace →
      ∃ seg, (step env .close s).2.trace = s.trace ++ seg ∧
        (AllOk seg → (step env .close s).1 = .ok () ∧ Clean (step env .close s).2.dev) := by
  intro s hall
  exact close_clean_from_consistent env s (consistent_history env hx ops hall)

/-! ## What a failing start / stop leaves behind -/

/-- **call_effects_determine_visible_state** (per state).  For every call, state and fault plan:
the device-visible state after the call is the state before it with the call's successful
effects applied in order (failed effects change nothing — a fact about the recording fake,
see the assumptions).  With `start_order` / `stop_order` this says exactly what a failing
start or stop leaves: e.g. a start whose AcquisitionStart fails leaves streaming enabled and
TLParamsLocked = 1; a stop whose TLParamsLocked := 0 fails leaves the device locked and
enabled but no longer acquiring. -/
theorem call_effects_determine_visible_state (env : Env) (op : Op) (s : State) :
    ∃ seg, (step env op s).2.trace = s.trace ++ seg ∧
      (step env op s).2.dev.visible = seg.foldl applyEffect s.dev.visible :=
  triple_snd (vis_call (v0 := s.dev.visible) (t0 := s.trace) env op) ⟨[], by simp, rfl⟩

/-- **failed_start_leaves**.  A `start_streaming` call that does not return `Ok` (error or
panic) started no loop: flag, live loops, payload channel, context and handles are as before. -/
theorem failed_start_leaves (env : Env) (cap : Nat) (s : State)
    (h : (step env (.start cap) s).1 ≠ .ok ()) :
    NoLoopChange s.dev (step env (.start cap) s).2.dev := by
  obtain ⟨_, h2, h3⟩ := exact_startStreaming env cap s.dev s rfl
  rcases hr : call env (.start cap) s with ⟨res, s'⟩
  simp only [step, hr] at h ⊢
  cases res with
  | ok a => exact absurd rfl h
  | err e => exact h2 e s' hr
  | panic => exact h3 s' hr

/-- **failed_stop_leaves**.  A `stop_streaming` call that does not return `Ok` either changed
nothing of the loop state (the loop stop itself failed and the loop survived), or the loop is
gone (and with it the payload channel) while later protocol steps were not performed — the
device-visible remainder is given by `call_effects_determine_visible_state`. -/
theorem failed_stop_leaves (env : Env) (s : State) (h : (step env .stop s).1 ≠ .ok ()) :
    LoopGoneOrSame s.dev (step env .stop s).2.dev := by
  obtain ⟨_, h2, h3⟩ := exact_stopStreaming env s.dev s rfl
  rcases hr : call env .stop s with ⟨res, s'⟩
  simp only [step, hr] at h ⊢
  cases res with
  | ok a => exact absurd rfl h
  | err e => exact h2 e s' hr
  | panic => exact h3 s' hr

/-! ## The whole trace follows the acquisition protocol -/

/-- **global_protocol_order**.  In the complete effect trace of EVERY call sequence under EVERY
fault plan (and every description, both failed-stop behaviours), every attempt of a protocol
step — successful or failing — comes directly after its required predecessors, all successful
(`requiredBefore`): TLParamsLocked := 1 directly after enable_streaming; AcquisitionStart
directly after enable, TLParamsLocked := 1; loop start directly after enable,
TLParamsLocked := 1, AcquisitionStart; AcquisitionStop directly after the loop stop;
TLParamsLocked := 0 directly after loop stop, AcquisitionStop; disable_streaming directly after
loop stop, AcquisitionStop, TLParamsLocked := 0. -/
theorem global_protocol_order (env : Env) (ops : List Op) :
    ProtocolOrdered (runOps env ops State.init).trace :=
  (ord_runOps env ops State.init ord_init).1

/-- Reading of `global_protocol_order` for the receive loop: wherever a loop start is attempted
in the trace, the three effects directly before it are enable ok, TLParamsLocked := 1 ok,
AcquisitionStart ok. -/
theorem loop_start_only_after_acquisition_start (env : Env) (ops : List Op)
    (pre post : List Effect) (o : Out)
    (h : (runOps env ops State.init).trace = pre ++ ⟨.loopStart, o⟩ :: post) :
    ∃ pre', pre = pre' ++ [⟨.enable, .ok⟩, ⟨.lockSet 1, .ok⟩, ⟨.acqStart, .ok⟩] :=
  global_protocol_order env ops pre ⟨.loopStart, o⟩ post h

/-- Reading for the stop side: wherever disable_streaming is attempted, the three effects
directly before it are loop stop ok, AcquisitionStop ok, TLParamsLocked := 0 ok. -/
theorem disable_only_after_stop_protocol (env : Env) (ops : List Op)
    (pre post : List Effect) (o : Out)
    (h : (runOps env ops State.init).trace = pre ++ ⟨.disable, o⟩ :: post) :
    ∃ pre', pre = pre' ++ [⟨.loopStop, .ok⟩, ⟨.acqStop, .ok⟩, ⟨.lockSet 0, .ok⟩] :=
  global_protocol_order env ops pre ⟨.disable, o⟩ post h

/-! ## The device-visible state is determined by the effect trace -/

/-- **device_state_is_trace_replay**.  After every call sequence under every fault plan, what
the MODEL says the device and the handles hold (control/stream handle open, streaming enabled,
TLParamsLocked, acquiring) is the replay of the effect trace: successful effects applied in
order, failed effects changing nothing.  "Failed effects change nothing" is a fact about the
recording fake that stands for the device (an assumption, see props/C16.json): a write the
device executed but whose acknowledge was lost would leave the real device ahead of this
replay.  Under that assumption every statement about these state components (`Clean`,
`Consistent`, …) is a statement about the device-visible effects. -/
theorem device_state_is_trace_replay (env : Env) (ops : List Op) :
    (runOps env ops State.init).dev.visible = visibleOf (runOps env ops State.init).trace :=
  by
    obtain ⟨seg, ht, hv⟩ := vis_runOps (v0 := {}) (t0 := []) env ops State.init ⟨[], rfl, rfl⟩
    rw [List.nil_append] at ht
    rw [hv, ht]
    rfl

/-! ## Exact device state after a successful start / stop (every state, every fault plan) -/

/-- A `start_streaming` call that returns `Ok` found no loop running, a loaded description and
`cap ≠ 0`, and leaves: streaming enabled, TLParamsLocked = 1, device acquiring, flag set, one
more live loop — nothing else changed (but the two written registers are now cached). -/
theorem start_ok_state (env : Env) (cap : Nat) (s s' : State)
    (h : step env (.start cap) s = (.ok (), s')) :
    s'.dev = startedDev s.dev cap ∧ s.dev.loopFlag = false ∧ s.dev.ctxt ≠ none ∧ cap ≠ 0 :=
  (exact_startStreaming env cap s.dev s rfl).1 () s' h

/-- **start_returns_the_loops_channel**.  After a `start_streaming(cap)` call that returns `Ok`,
the receive loop holds the sender of the very channel whose receiver was returned to the caller,
and that channel has payload capacity `cap` (give-back capacity `DEFAULT_BUFFER_CAP` = 5). -/
theorem start_returns_the_loops_channel (env : Env) (cap : Nat) (s s' : State)
    (h : step env (.start cap) s = (.ok (), s')) : s'.dev.chan = some (cap, 5) := by
  rw [(start_ok_state env cap s s' h).1]
  rfl

/-- A `stop_streaming` call that returns `Ok` either found no loop running and changed
nothing, or leaves: streaming disabled, TLParamsLocked = 0, not acquiring, one live loop less. -/
theorem stop_ok_state (env : Env) (s s' : State) (h : step env .stop s = (.ok (), s')) :
    s'.dev = if s.dev.loopFlag then stoppedDev env s.dev else s.dev :=
  (exact_stopStreaming env s.dev s rfl).1 () s' h

/-! ## Growth round: the cache after close; nothing after a failed step -/

/-- **stop_sequence_populates_cache**.  The writes of a successful stop sequence are cached
(WriteThrough, the schema default): after `stop_streaming` on a running loop the context holds
cached values for the TLParamsLocked and AcquisitionStop registers. -/
theorem stop_sequence_populates_cache (env : Env) (s s' : State)
    (h : step env .stop s = (.ok (), s')) (hf : s.dev.loopFlag = true) :
    s'.dev.cache.lock = true ∧ s'.dev.cache.stop = true := by
  have := stop_ok_state env s s' h
  rw [hf] at this
  simp only [if_true] at this
  rw [this]
  exact ⟨rfl, rfl⟩

/-- **close_drops_cache_last**.  After EVERY `close` that returns `Ok`, from every state and
under every fault plan — in particular a close while streaming, which runs the stop sequence
whose `AcquisitionStop` / `TLParamsLocked := 0` writes populate the cache
(`stop_sequence_populates_cache`) — the context's cache holds no value: clearing is the LAST
thing `close` does, after those writes. -/
theorem close_drops_cache_last (env : Env) (s s' : State)
    (h : step env .close s = (.ok (), s')) :
    s'.dev.cache = Cache.empty ∧
      (s.dev.loopFlag = true → ∃ seg, s'.trace = s.trace ++ seg ∧
        (⟨.acqStop, .ok⟩ : Effect) ∈ seg ∧ (⟨.lockSet 0, .ok⟩ : Effect) ∈ seg) := by
  refine ⟨(cache_closeCam env s trivial).1 () s' h, fun hf => ?_⟩
  obtain ⟨seg, ht, _, _, hok⟩ := close_order env s
  rw [h] at ht hok
  refine ⟨seg, ht, ?_, ?_⟩ <;>
    · rw [hok rfl, hf]
      simp [stopSeq]

/-- **failed_step_performs_nothing_later** (whole trace).  In the trace of EVERY call sequence
under EVERY fault plan: the effect that directly follows a FAILED effect is never a
continuation step of the start/stop protocol (TLParamsLocked := 1, AcquisitionStart, loop
start, AcquisitionStop, TLParamsLocked := 0, disable_streaming all require a successful
predecessor) — the call was abandoned at the failing step. -/
theorem failed_step_performs_nothing_later (env : Env) (ops : List Op)
    (pre post : List Effect) (e e' : Effect)
    (h : (runOps env ops State.init).trace = pre ++ e :: e' :: post) (he : e.out ≠ .ok) :
    requiredBefore e'.sub = [] := by
  have hord := global_protocol_order env ops (pre ++ [e]) e' post (by simp [h])
  obtain ⟨p, hp⟩ := hord
  by_cases hr : requiredBefore e'.sub = []
  · exact hr
  · obtain ⟨l, c, hl, hc⟩ := requiredBefore_last_ok _ hr
    rw [hl] at hp
    have := last_eq_of_append_eq hp
    rw [this] at he
    exact absurd hc he

/-- The corollary for the `TLParamsLocked := 1` step: when that write fails, the next effect in
the trace is not `AcquisitionStart` (nor a loop start): the device is never told to acquire
after a failed lock. -/
theorem no_acquisition_start_after_failed_lock (env : Env) (ops : List Op)
    (pre post : List Effect) (o : Out) (e' : Effect)
    (h : (runOps env ops State.init).trace = pre ++ ⟨.lockSet 1, o⟩ :: e' :: post) (ho : o ≠ .ok) :
    e'.sub ≠ .acqStart ∧ e'.sub ≠ .loopStart := by
  have := failed_step_performs_nothing_later env ops pre post ⟨.lockSet 1, o⟩ e' h ho
  constructor <;> intro hs <;> rw [hs] at this <;> simp [requiredBefore] at this

/-- The same per call, for every state: a `start_streaming` call whose `TLParamsLocked := 1`
write fails performs neither `AcquisitionStart` nor a loop start. -/
theorem lock_failure_ends_start (env : Env) (cap : Nat) (s : State) :
    ∃ seg, (step env (.start cap) s).2.trace = s.trace ++ seg ∧
      ∀ o, (⟨.lockSet 1, o⟩ : Effect) ∈ seg → o ≠ .ok →
        ∀ o', (⟨.acqStart, o'⟩ : Effect) ∉ seg ∧ (⟨.loopStart, o'⟩ : Effect) ∉ seg := by
  obtain ⟨seg, ht, hp, _, _⟩ := start_order env cap s
  obtain ⟨seg', ht', _, hfs⟩ := fault_stops_call env (.start cap) s
  have hseg : seg' = seg := List.append_cancel_left (ht'.symm.trans ht)
  subst hseg
  refine ⟨seg', ht, fun o hmem ho o' => ?_⟩
  obtain ⟨pre, post, hsplit⟩ := List.append_of_mem hmem
  obtain ⟨hpost, _, _⟩ := hfs pre _ post hsplit ho
  subst hpost
  -- the sub-operations of `seg'` are a prefix of the start protocol and end with `lockSet 1`
  obtain ⟨t, ht2⟩ := hp
  rw [hsplit] at ht2 ⊢
  simp only [List.map_append, List.map_cons, List.map_nil, startSeq] at ht2
  rcases pre with _ | ⟨a, _ | ⟨b, _ | ⟨c, _ | ⟨d, r⟩⟩⟩⟩ <;>
    simp only [List.map_nil, List.map_cons, List.nil_append, List.cons_append, List.cons.injEq,
      reduceCtorEq, false_and, and_false] at ht2
  · -- pre = [a]: seg' = [a, lockSet 1]
    obtain ⟨ha, _, _⟩ := ht2
    constructor <;> intro hm <;>
      simp only [List.nil_append, List.cons_append, List.mem_cons, List.mem_nil_iff, or_false,
        Effect.mk.injEq, reduceCtorEq, false_and, or_false] at hm <;>
      · rw [← hm] at ha; simp at ha
  · -- four or more effects before the failing lock write: longer than the protocol
    exact absurd ht2.2.2.2.2 (by simp)

/-! ## Growth round: the `u3v::StreamHandle` instance of the stream handle

All theorems above quantify over `env`, hence over `env.handle`: they hold for the model of the
real `u3v::StreamHandle` (flag = `cancellation_tx.is_some()`, start refuses with InStreaming
itself, stop takes the sender before sending, a send to a dead loop fails with the flag
cleared) exactly as for the recording fake — in particular `flag_tracks_loop` for every
history of CALLS.  What the calls cannot see is a loop thread that dies on its own; histories
with that environment event (`Ev.loopDies`) are covered here. -/

/-- **u3v_live_loop_is_reported**.  For the `u3v` handle, after EVERY history of camera calls
interleaved with spontaneous loop deaths, under every fault plan: at most one loop thread is
alive, and a live loop is always reported by `is_loop_running()`. -/
theorem u3v_live_loop_is_reported (env : Env) (hh : env.handle = .u3v) (evs : List Ev) :
    let s := runEvs env evs State.init
    s.dev.loops ≤ 1 ∧ (s.dev.loops = 1 → s.dev.loopFlag = true) :=
  u3v_runEvs env hh evs State.init ⟨by simp [State.init], by simp [State.init]⟩

/-- **flag_tracks_loop_without_deaths** (either handle): in a history without a spontaneous loop
death the flag is set iff exactly one loop is alive.  So for the `u3v` handle the clause "the
streaming flag matches whether a loop is running" can fail only after the loop thread died by
itself (which C12 `dead_only_by_panic` + C11 `build_total` exclude) — see the witness below. -/
theorem flag_tracks_loop_without_deaths (env : Env) (evs : List Ev)
    (hnd : ∀ ev ∈ evs, ev ≠ Ev.loopDies) :
    let s := runEvs env evs State.init
    (s.dev.loopFlag = true ↔ s.dev.loops = 1) ∧ s.dev.loops ≤ 1 := by
  intro s
  have h : LoopInv env.stopFailKills s := loopInv_runEvs env evs hnd State.init (loopInv_init _)
  obtain ⟨h1, _⟩ := h
  unfold FlagTracksLoop at h1
  constructor
  · cases hf : s.dev.loopFlag <;> simp [hf] at h1 <;> simp [h1]
  · cases hf : s.dev.loopFlag <;> simp [hf] at h1 <;> simp [h1]

/-- **u3v_stop_on_dead_loop**.  `u3v` handle holding a sender whose loop thread is gone (flag
set, no live loop): `stop_streaming` attempts the loop stop, which fails; `Poisoned` is returned,
the flag is cleared, and nothing else of the stop protocol is performed (AcquisitionStop,
TLParamsLocked := 0 and disable_streaming are NOT issued: the device stays in acquisition). -/
theorem u3v_stop_on_dead_loop (env : Env) (hh : env.handle = .u3v) (s : State)
    (hf : s.dev.loopFlag = true) (hl : s.dev.loops = 0) :
    (step env .stop s).1 = .err .streamPoisoned ∧
      (step env .stop s).2.trace = s.trace ++ [⟨.loopStop, .fault⟩] ∧
      (step env .stop s).2.dev.loopFlag = false ∧
      (step env .stop s).2.dev.visible = s.dev.visible := by
  have ho : outcome (stopEnv env s.dev) false s ≠ .ok := by
    rw [outcome_stopEnv_u3v hh]; simp [hf, hl]
  have hfault : outcome (stopEnv env s.dev) false s = .fault := by
    rw [outcome_stopEnv_u3v hh]; simp [hf, hl]
  have hstop : loopStopOp env s = (.err .streamPoisoned,
      failSt .loopStop .fault (loopStopFail env) s) := by
    unfold loopStopOp
    rw [getDev_bind, subOp_fail ho, hfault]
  have hcall : step env .stop s = (.err .streamPoisoned,
      failSt .loopStop .fault (loopStopFail env) s) := by
    simp only [step, call, stopStreaming]
    rw [getDev_bind]
    simp only [hf, Bool.not_true, Bool.false_eq_true, if_false]
    exact bind_of_err hstop
  rw [hcall]
  refine ⟨rfl, rfl, ?_, ?_⟩
  · simp [failSt, loopStopFail, hh]
  · simp [failSt, loopStopFail_visible]

/-- **in_streaming_iff_flag** (no_second_loop, both directions, every state, both handles).
`start_streaming` returns the InStreaming refusal exactly when the streaming flag is set — and
then it has no effect at all.  In particular the `u3v` handle's own "already streaming" check
inside `start_streaming_loop` is never the one that fires under the camera (it would fire only
after enable / TLParamsLocked / AcquisitionStart had been issued). -/
theorem in_streaming_iff_flag (env : Env) (cap : Nat) (s : State) :
    ((step env (.start cap) s).1 = .err .inStreaming ↔ s.dev.loopFlag = true) ∧
      ((step env (.start cap) s).1 = .err .inStreaming → (step env (.start cap) s).2 = s) := by
  have hfwd : (step env (.start cap) s).1 = .err .inStreaming → s.dev.loopFlag = true := by
    intro h
    cases hf : s.dev.loopFlag with
    | true => rfl
    | false =>
      obtain ⟨_, h2⟩ := start_not_inStreaming env cap s hf
      rcases hr : call env (.start cap) s with ⟨res, s'⟩
      simp only [step, hr] at h
      subst h
      exact absurd rfl (h2 _ s' hr)
  refine ⟨⟨hfwd, fun hf => by rw [no_second_loop_streaming env cap s hf]⟩, fun h => ?_⟩
  rw [no_second_loop_streaming env cap s (hfwd h)]

/-- **u3v_open_while_streaming_returns** (mirrors the repair of `StreamHandle::open`).  On the
`u3v` handle with the flag set, the stream-handle part of `open` returns `Ok` whatever the fault
plan says — it takes no lock and has no way to fail or block — and leaves the loop, the flag, the
payload channel, the context, the cache and the device untouched (the only bookkeeping: the handle
counts as opened, it is in use). -/
theorem u3v_open_while_streaming_returns (env : Env) (hh : env.handle = .u3v) (s : State)
    (hf : s.dev.loopFlag = true) :
    strmOpenOp env s = (.ok (), okSt .strmOpen (fun d => { d with strmOpen := true }) s) := by
  have ho : outcome (openEnv env s.dev) false s = .ok := by
    simp [outcome, openEnv, hh, hf]
  unfold strmOpenOp
  rw [getDev_bind, subOp_ok ho]

/-- hence `Camera::open` while streaming on the `u3v` handle fails only if the control handle's
open fails: with the control-handle open succeeding, the call returns `Ok`. -/
theorem u3v_camera_open_while_streaming (env : Env) (hh : env.handle = .u3v) (s : State)
    (hf : s.dev.loopFlag = true) (hc : ∀ k, env.plan k = false) :
    (step env .open s).1 = .ok () := by
  have hco : ∀ s' : State, outcome env false s' = .ok := by
    intro s'; simp [outcome, hc]
  have hso : ∀ s' : State, s'.dev.loopFlag = true → strmOpenOp env s' =
      (.ok (), okSt .strmOpen (fun d => { d with strmOpen := true }) s') :=
    fun s' h => u3v_open_while_streaming_returns env hh s' h
  have hctrl : ∀ s' : State, ctrlOpenOp env s' =
      (.ok (), okSt .ctrlOpen (fun d => { d with ctrlOpen := true }) s') := by
    intro s'; unfold ctrlOpenOp; rw [subOp_ok (hco s')]
  simp only [step, call, openCam, handlePair]
  split
  · rw [bind_of_ok (hctrl s), hso _ (by simpa [okSt] using hf)]
  · rw [bind_of_ok (hso s hf), hctrl]

/-! ## Non-vacuity: concrete runs of the model (the hypotheses above are satisfiable and the
conclusions are the expected concrete traces) -/

/-- no fault at all, complete description, loop survives a failed stop -/
def envOk : Env := { plan := fun _ => false, xml := Xml.full, stopFailKills := false }
/-- a fault at sub-operation index `k` only -/
def envFault (k : Nat) : Env := { plan := fun i => i == k, xml := Xml.full, stopFailKills := false }

/-- the implementation may open/close the stream handle first: every theorem covers it -/
def envSwapped : Env :=
  { plan := fun _ => false, xml := Xml.full, stopFailKills := false,
    openCtrlFirst := false, closeCtrlFirst := false }

example : (runOps envSwapped [.open, .load, .start 1, .close] State.init).trace =
    [⟨.strmOpen, .ok⟩, ⟨.ctrlOpen, .ok⟩, ⟨.genapi, .ok⟩,
     ⟨.enable, .ok⟩, ⟨.lockSet 1, .ok⟩, ⟨.acqStart, .ok⟩, ⟨.loopStart, .ok⟩,
     ⟨.loopStop, .ok⟩, ⟨.acqStop, .ok⟩, ⟨.lockSet 0, .ok⟩, ⟨.disable, .ok⟩,
     ⟨.strmClose, .ok⟩, ⟨.ctrlClose, .ok⟩] := by decide

example : Clean (runOps envSwapped [.open, .load, .start 1, .close] State.init).dev := by
  unfold Clean; decide

-- open, load, start(3): the start performs exactly the four protocol steps, in order
example : (runOps envOk [.open, .load, .start 3] State.init).trace =
    [⟨.ctrlOpen, .ok⟩, ⟨.strmOpen, .ok⟩, ⟨.genapi, .ok⟩,
     ⟨.enable, .ok⟩, ⟨.lockSet 1, .ok⟩, ⟨.acqStart, .ok⟩, ⟨.loopStart, .ok⟩] := by decide

example : (runOps envOk [.open, .load, .start 3] State.init).dev.loopFlag = true := by decide

-- ... a second start is refused without any effect
example : runResults envOk [.open, .load, .start 3, .start 3] State.init =
    [.ok (), .ok (), .ok (), .err .inStreaming] := by decide

-- ... and close performs the stop protocol, then closes both handles, and the device is clean
example : ((runOps envOk [.open, .load, .param, .start 3, .close] State.init).trace.drop 8) =
    [⟨.loopStop, .ok⟩, ⟨.acqStop, .ok⟩, ⟨.lockSet 0, .ok⟩, ⟨.disable, .ok⟩,
     ⟨.ctrlClose, .ok⟩, ⟨.strmClose, .ok⟩] := by decide

example : Clean (runOps envOk [.open, .load, .param, .start 3, .close] State.init).dev := by
  unfold Clean; decide

example : AllOk (runOps envOk [.open, .load, .param, .start 3, .close] State.init).trace := by
  unfold AllOk; decide

-- `Good` (hypothesis of consistent_step / close_clean_from_consistent) holds while streaming
example : Good (runOps envOk [.open, .load, .param, .start 3] State.init).dev := by
  unfold Good Consistent FlagTracksLoop CtxtOk; decide

example : visibleOf (runOps envOk [.open, .load, .start 3] State.init).trace =
    { ctrlOpen := true, strmOpen := true, enabled := true, lock := 1, acquiring := true } := by
  decide

-- the cache really was non-empty before the close
example : (runOps envOk [.open, .load, .param, .start 3] State.init).dev.cache =
    { lock := true, start := true, stop := false, gain := true } := by decide

-- a fault at AcquisitionStart (global index 5): the error is returned, the loop is not started,
-- and the device is left enabled and locked (which is why close_clean needs "no failure")
example : runResults (envFault 5) [.open, .load, .start 3] State.init =
    [.ok (), .ok (), .err .genApiDevice] := by decide

example : ((runOps (envFault 5) [.open, .load, .start 3] State.init).trace.drop 3) =
    [⟨.enable, .ok⟩, ⟨.lockSet 1, .ok⟩, ⟨.acqStart, .fault⟩] := by decide

example : (runOps (envFault 5) [.open, .load, .start 3] State.init).dev.loopFlag = false ∧
    (runOps (envFault 5) [.open, .load, .start 3] State.init).dev.enabled = true := by decide

-- start without a description / with cap = 0: refused resp. panic, no effect
example : step envOk (.start 3) (runOps envOk [.open] State.init) =
    (.err .ctxtMissing, runOps envOk [.open] State.init) :=
  no_second_loop_no_context _ _ _ (by decide) (by decide)

example : (step envOk (.start 0) (runOps envOk [.open, .load] State.init)).1 = .panic := by decide

-- the auditor's sequence: the first load is refused with NotOpened (a harmless effect); the
-- history still qualifies for consistent_history / close_clean, and close leaves a clean device
example : (runOps envOk [.load, .open, .load, .start 1] State.init).trace.head? =
    some ⟨.genapi, .notOpened⟩ := by decide

example : AllHarmless (runOps envOk [.load, .open, .load, .start 1] State.init).trace := by
  unfold AllHarmless Harmless; decide

example : Clean (runOps envOk [.load, .open, .load, .start 1, .close] State.init).dev := by
  unfold Clean; decide

-- the payload channel of a successful start(3)
example : (runOps envOk [.open, .load, .start 3] State.init).dev.chan = some (3, 5) := by decide

-- failed_start_leaves / call_effects_determine_visible_state on the AcquisitionStart fault
example : (runOps (envFault 5) [.open, .load, .start 3] State.init).dev.visible =
    { ctrlOpen := true, strmOpen := true, enabled := true, lock := 1, acquiring := false } := by
  decide

-- params access that writes another feature (one that a description may let gate the access
-- mode reported for TLParamsLocked) before start and while streaming: TLParamsLocked := 1 is
-- still written before AcquisitionStart, and TLParamsLocked := 0 on stop
example : (runOps envOk [.open, .load, .gate 1, .start 1, .gate 2, .stop] State.init).trace.drop 3 =
    [⟨.gateSet 1, .ok⟩, ⟨.enable, .ok⟩, ⟨.lockSet 1, .ok⟩, ⟨.acqStart, .ok⟩, ⟨.loopStart, .ok⟩,
     ⟨.gateSet 2, .ok⟩, ⟨.loopStop, .ok⟩, ⟨.acqStop, .ok⟩, ⟨.lockSet 0, .ok⟩, ⟨.disable, .ok⟩] := by
  decide

-- growth round (a): close while streaming: the stop sequence's writes are cached, close drops them
example : (runOps envOk [.open, .load, .start 1, .stop] State.init).dev.cache =
    { lock := true, start := true, stop := true, gain := false, gate := false } := by decide

example : (step envOk .close (runOps envOk [.open, .load, .start 1] State.init)).1 = .ok () ∧
    (step envOk .close (runOps envOk [.open, .load, .start 1] State.init)).2.dev.cache = Cache.empty := by
  decide

-- growth round (a): TLParamsLocked := 1 fails (global index 4): no AcquisitionStart afterwards
example : (runOps (envFault 4) [.open, .load, .start 1, .stop, .close] State.init).trace.drop 3 =
    [⟨.enable, .ok⟩, ⟨.lockSet 1, .fault⟩, ⟨.ctrlClose, .ok⟩, ⟨.strmClose, .ok⟩] := by decide

-- growth round (b): the u3v handle
/-- `u3v::StreamHandle` model, no injected fault -/
def envU3v : Env := { plan := fun _ => false, xml := Xml.full, stopFailKills := false, handle := .u3v }

example : envU3v.handle = .u3v := rfl

-- an ordinary session behaves like the fake's
example : (runEvs envU3v [.call .open, .call .load, .call (.start 1), .call .close] State.init).trace =
    (runOps envOk [.open, .load, .start 1, .close] State.init).trace := by decide

-- WHERE flag_tracks_loop FAILS for the real handle: the loop thread dies by itself; the handle
-- keeps reporting a running loop although none is alive ...
example : (runEvs envU3v [.call .open, .call .load, .call (.start 1), .loopDies] State.init).dev.loopFlag = true ∧
    (runEvs envU3v [.call .open, .call .load, .call (.start 1), .loopDies] State.init).dev.loops = 0 := by
  decide

-- ... a second start is refused as "already streaming" ...
example : (stepEv envU3v (.call (.start 1))
    (runEvs envU3v [.call .open, .call .load, .call (.start 1), .loopDies] State.init)).1 =
    .err .inStreaming := by decide

-- ... and stop returns Poisoned after the loop-stop attempt, clears the flag and leaves the device
-- locked, enabled and acquiring (hypotheses of u3v_stop_on_dead_loop are satisfiable); a later
-- close then finds no loop and closes the handles without the stop protocol
example : (stepEv envU3v (.call .stop)
    (runEvs envU3v [.call .open, .call .load, .call (.start 1), .loopDies] State.init)).1 =
    .err .streamPoisoned := by decide

example : (runEvs envU3v [.call .open, .call .load, .call (.start 1), .loopDies, .call .stop, .call .close]
    State.init).dev.visible =
    { ctrlOpen := false, strmOpen := false, enabled := true, lock := 1, acquiring := true } := by decide

-- the repaired open: `open load start1 load open` on the u3v handle returns Ok for the last open
-- even when the fault plan asks the stream-handle open to fail (index 9 = that sub-operation)
example : runResults { envU3v with plan := fun i => i == 9 } [.open, .load, .start 1, .load, .open]
    State.init = [.ok (), .ok (), .ok (), .ok (), .ok ()] := by decide

-- (on the recording fake the same plan makes it fail: the fast path is the u3v handle's)
example : (runResults { envOk with plan := fun i => i == 9 } [.open, .load, .start 1, .load, .open]
    State.init).getLast? = some (.err .streamIo) := by decide

end CamVerif.C16
