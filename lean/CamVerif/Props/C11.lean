/-
C11 — Stream leader/trailer decoding and payload assembly are faithful and in-bounds.

Property theorems only.  Helper lemmas: `Proofs/C11Stream.lean`, `Proofs/C11Pixel.lean`.
Model: `Model/Stream.lean` (hand-written, tied by correspondence) and `Gen/PixelFormat.lean`
(regenerated from `device/src/pixel_format.rs` on every run).  Independent reference:
`Spec/StreamLayout.lean` (absolute-offset decoders written from the U3V layout).

Every statement quantifies over all byte strings / all codes / all buffers and sizes and both
build profiles; nothing is bounded.
-/
import CamVerif.Proofs.C11Stream
import CamVerif.Proofs.C11Pixel
import CamVerif.Proofs.C11Growth
import CamVerif.Spec.PFNC
namespace CamVerif.C11
open CamVerif CamVerif.Stream
open CamVerif.Spec
open CamVerif.Gen.PixelFormat (PixelFormat decode encode? decodeTable encodeTable allFormats)

/-! ## 1. Parsers: total -/

/-- **parse_total**: for every byte string, the generic leader / trailer parsers and all six
specific-part parsers return `ok` or `err`, never panic (in particular the slice
`&buf[cursor.position()..]` is always in range). -/
theorem parse_total (b : Bytes) :
    Leader.parse b ≠ .panic ∧ Trailer.parse b ≠ .panic ∧
    ImageLeader.fromBytes b ≠ .panic ∧ ImageExtendedChunkLeader.fromBytes b ≠ .panic ∧
    ChunkLeader.fromBytes b ≠ .panic ∧ ImageTrailer.fromBytes b ≠ .panic ∧
    ImageExtendedChunkTrailer.fromBytes b ≠ .panic ∧ ChunkTrailer.fromBytes b ≠ .panic :=
  ⟨Leader.parse_ne_panic b, Trailer.parse_ne_panic b, ImageLeader.fromBytes_ne_panic b,
    ImageLeader.fromBytes_ne_panic b, ChunkLeader.fromBytes_ne_panic b,
    ImageTrailer.fromBytes_ne_panic b, ImageExtendedChunkTrailer.fromBytes_ne_panic b,
    ChunkTrailer.fromBytes_ne_panic b⟩

/-- Errors are classified as the code does: a packet shorter than a field that must be read is
`BufferIo`, a wrong magic (checked as soon as 4 bytes are there) is `InvalidPacket`. -/
theorem parse_error_classes (b : Bytes) :
    (b.length < 4 → Leader.parse b = .err .bufferIo ∧ Trailer.parse b = .err .bufferIo) ∧
    (4 ≤ b.length → le b 0 4 ≠ LEADER_MAGIC → Leader.parse b = .err .invalidPacket) ∧
    (4 ≤ b.length → le b 0 4 ≠ TRAILER_MAGIC → Trailer.parse b = .err .invalidPacket) := by
  refine ⟨?_, ?_, ?_⟩
  · intro h; rw [Leader.parse_eq, Trailer.parse_eq, if_pos h, if_pos h]; exact ⟨rfl, rfl⟩
  · intro h hm; rw [Leader.parse_eq, if_neg (by omega), if_pos hm]
  · intro h hm; rw [Trailer.parse_eq, if_neg (by omega), if_pos hm]

/-! ## 2. Parsers: faithful to the independent layout decoder -/

/-- **parse_faithful (generic leader)**: on `ok`, leader size, block id and payload type are
what the absolute-offset decoder reads, and the specific part is the packet from byte 20. -/
theorem leader_parse_faithful (b : Bytes) (l : Leader) (h : Leader.parse b = .ok l) :
    StreamLayout.genericLeader b = some ⟨l.leaderSize, l.blockId, specType l.payloadType⟩ ∧
    l.raw = b.drop 20 := by
  obtain ⟨h20, hm, ht, hs, hi, hr⟩ := Leader.parse_ok h
  refine ⟨?_, hr⟩
  simp [StreamLayout.genericLeader, u32At_eq b 0 (by omega), u16At_eq b 4 (by omega),
    u16At_eq b 6 (by omega), u64At_eq b 8 (by omega), u16At_eq b 16 (by omega),
    u16At_eq b 18 (by omega), hm, (tryFrom_type_spec _ _).mp ht, hs, hi]

/-- Converse: every packet the layout decoder accepts is parsed (with those fields), so the
parser accepts exactly the well-formed generic leaders. -/
theorem leader_parse_complete (b : Bytes) (g : StreamLayout.GenericLeader)
    (h : StreamLayout.genericLeader b = some g) :
    ∃ l, Leader.parse b = .ok l ∧ g = ⟨l.leaderSize, l.blockId, specType l.payloadType⟩ := by
  have h20 := genericLeader_length b g h
  simp only [StreamLayout.genericLeader, u32At_eq b 0 (by omega), u16At_eq b 4 (by omega),
    u16At_eq b 6 (by omega), u64At_eq b 8 (by omega), u16At_eq b 16 (by omega),
    u16At_eq b 18 (by omega), Option.bind_eq_bind, Option.bind_some] at h
  rw [Leader.parse_eq, if_neg (by omega)]
  split at h
  · rename_i hm
    rw [if_neg (by simp [LEADER_MAGIC, hm]), if_neg (by omega)]
    split at h
    · rename_i t ht
      cases h
      cases t
      · rw [(tryFrom_type_spec (le b 18 2) .image).mpr ht]; exact ⟨_, rfl, rfl⟩
      · rw [(tryFrom_type_spec (le b 18 2) .imageExtendedChunk).mpr ht]; exact ⟨_, rfl, rfl⟩
      · rw [(tryFrom_type_spec (le b 18 2) .chunk).mpr ht]; exact ⟨_, rfl, rfl⟩
    · cases h
  · cases h

/-- **parse_faithful (image leader)**: timestamp, pixel-format code (decoded through the
generated table), width, height, offsets and x padding are the layout decoder's fields. -/
theorem image_leader_faithful (b : Bytes) (l : Leader) (il : ImageLeader)
    (h : Leader.parse b = .ok l) (hs : ImageLeader.fromBytes l.raw = .ok il) :
    ∃ s, StreamLayout.imageLeader b = some s ∧ il.timestamp = s.timestamp ∧
      decode s.pixelFormatCode = some il.pixelFormat ∧ il.width = s.width ∧ il.height = s.height ∧
      il.xOffset = s.xOffset ∧ il.yOffset = s.yOffset ∧ il.xPadding = s.xPadding := by
  obtain ⟨h20, _, _, _, _, hr⟩ := Leader.parse_ok h
  rw [hr] at hs
  obtain ⟨h32, hpf, hts, hw, hh, hxo, hyo, hxp⟩ := ImageLeader.fromBytes_ok hs
  simp only [List.length_drop, le_drop, Nat.reduceAdd] at h32 hpf hts hw hh hxo hyo hxp
  refine ⟨⟨le b 20 8, le b 28 4, le b 32 4, le b 36 4, le b 40 4, le b 44 4, le b 48 2⟩, ?_,
    hts, hpf, hw, hh, hxo, hyo, hxp⟩
  simp [StreamLayout.imageLeader, u64At_eq b 20 (by omega), u32At_eq b 28 (by omega),
    u32At_eq b 32 (by omega), u32At_eq b 36 (by omega), u32At_eq b 40 (by omega),
    u32At_eq b 44 (by omega), u16At_eq b 48 (by omega), u16At_eq b 50 (by omega)]

/-- **parse_faithful (image extended chunk leader)**: same layout as the image leader. -/
theorem image_extended_chunk_leader_faithful (b : Bytes) (l : Leader) (il : ImageLeader)
    (h : Leader.parse b = .ok l) (hs : ImageExtendedChunkLeader.fromBytes l.raw = .ok il) :
    ∃ s, StreamLayout.imageLeader b = some s ∧ il.timestamp = s.timestamp ∧
      decode s.pixelFormatCode = some il.pixelFormat ∧ il.width = s.width ∧ il.height = s.height ∧
      il.xOffset = s.xOffset ∧ il.yOffset = s.yOffset ∧ il.xPadding = s.xPadding :=
  image_leader_faithful b l il h hs

/-- **parse_faithful (chunk leader)**. -/
theorem chunk_leader_faithful (b : Bytes) (l : Leader) (cl : ChunkLeader)
    (h : Leader.parse b = .ok l) (hs : ChunkLeader.fromBytes l.raw = .ok cl) :
    StreamLayout.chunkLeaderTimestamp b = some cl.timestamp := by
  obtain ⟨h20, _, _, _, _, hr⟩ := Leader.parse_ok h
  rw [hr] at hs
  obtain ⟨h8, hts⟩ := ChunkLeader.fromBytes_ok hs
  simp only [List.length_drop, le_drop, Nat.reduceAdd] at h8 hts
  simp [StreamLayout.chunkLeaderTimestamp, u64At_eq b 20 (by omega), hts]

/-- **parse_faithful (generic trailer)**: trailer size, block id, status and valid payload
size are the layout decoder's fields; the specific part is the packet from byte 28. -/
theorem trailer_parse_faithful (b : Bytes) (t : Trailer) (h : Trailer.parse b = .ok t) :
    StreamLayout.genericTrailer b =
      some ⟨t.trailerSize, t.blockId, specStatus t.payloadStatus, t.validPayloadSize⟩ ∧
    t.raw = b.drop 28 := by
  obtain ⟨h28, hm, hst, hs, hi, hv, hr⟩ := Trailer.parse_ok h
  refine ⟨?_, hr⟩
  simp [StreamLayout.genericTrailer, u32At_eq b 0 (by omega), u16At_eq b 4 (by omega),
    u16At_eq b 6 (by omega), u64At_eq b 8 (by omega), u16At_eq b 16 (by omega),
    u16At_eq b 18 (by omega), u64At_eq b 20 (by omega), hm, (tryFrom_status_spec _ _).mp hst,
    hs, hi, hv]

/-- Converse for the generic trailer. -/
theorem trailer_parse_complete (b : Bytes) (g : StreamLayout.GenericTrailer)
    (h : StreamLayout.genericTrailer b = some g) :
    ∃ t, Trailer.parse b = .ok t ∧
      g = ⟨t.trailerSize, t.blockId, specStatus t.payloadStatus, t.validPayloadSize⟩ := by
  have h28 := genericTrailer_length b g h
  simp only [StreamLayout.genericTrailer, u32At_eq b 0 (by omega), u16At_eq b 4 (by omega),
    u16At_eq b 6 (by omega), u64At_eq b 8 (by omega), u16At_eq b 16 (by omega),
    u16At_eq b 18 (by omega), u64At_eq b 20 (by omega), Option.bind_eq_bind, Option.bind_some] at h
  rw [Trailer.parse_eq, if_neg (by omega)]
  split at h
  · rename_i hm
    rw [if_neg (by simp [TRAILER_MAGIC, hm]), if_neg (by omega)]
    split at h
    · rename_i s hs
      cases h
      cases s
      · rw [(tryFrom_status_spec (le b 16 2) .success).mpr hs]
        dsimp only; rw [if_neg (by omega)]; exact ⟨_, rfl, rfl⟩
      · rw [(tryFrom_status_spec (le b 16 2) .dataDiscarded).mpr hs]
        dsimp only; rw [if_neg (by omega)]; exact ⟨_, rfl, rfl⟩
      · rw [(tryFrom_status_spec (le b 16 2) .dataOverrun).mpr hs]
        dsimp only; rw [if_neg (by omega)]; exact ⟨_, rfl, rfl⟩
    · cases h
  · cases h

/-- **parse_faithful (specific trailers)**: actual height / chunk layout id of the image,
image-extended-chunk and chunk trailers are the layout decoder's fields. -/
theorem specific_trailers_faithful (b : Bytes) (t : Trailer) (h : Trailer.parse b = .ok t) :
    (∀ x, ImageTrailer.fromBytes t.raw = .ok x →
      StreamLayout.imageTrailerHeight b = some x.actualHeight) ∧
    (∀ x, ImageExtendedChunkTrailer.fromBytes t.raw = .ok x →
      StreamLayout.extTrailer b = some (x.actualHeight, x.chunkLayoutId)) ∧
    (∀ x, ChunkTrailer.fromBytes t.raw = .ok x →
      StreamLayout.chunkTrailerLayoutId b = some x.chunkLayoutId) := by
  obtain ⟨h28, _, _, _, _, _, hr⟩ := Trailer.parse_ok h
  rw [hr]
  refine ⟨?_, ?_, ?_⟩
  · intro x hx
    obtain ⟨h4, hh⟩ := ImageTrailer.fromBytes_ok hx
    simp only [List.length_drop, le_drop, Nat.reduceAdd] at h4 hh
    simp [StreamLayout.imageTrailerHeight, u32At_eq b 28 (by omega), hh]
  · intro x hx
    obtain ⟨h8, hh, hl⟩ := ImageExtendedChunkTrailer.fromBytes_ok hx
    simp only [List.length_drop, le_drop, Nat.reduceAdd] at h8 hh hl
    simp [StreamLayout.extTrailer, u32At_eq b 28 (by omega), u32At_eq b 32 (by omega), hh, hl]
  · intro x hx
    obtain ⟨h4, hl⟩ := ChunkTrailer.fromBytes_ok hx
    simp only [List.length_drop, le_drop, Nat.reduceAdd] at h4 hl
    simp [StreamLayout.chunkTrailerLayoutId, u32At_eq b 28 (by omega), hl]

/-- Converse for the specific leaders: a packet whose generic leader parses and whose image
leader part is complete in the layout decoder, with a pixel-format code the table knows, is
decoded (to exactly those fields); an unknown code is `InvalidPacket`. -/
theorem image_leader_complete (b : Bytes) (l : Leader) (s : StreamLayout.ImageLeader)
    (h : Leader.parse b = .ok l) (hs : StreamLayout.imageLeader b = some s) :
    (∀ f, decode s.pixelFormatCode = some f →
      ImageLeader.fromBytes l.raw =
        .ok ⟨s.timestamp, f, s.width, s.height, s.xOffset, s.yOffset, s.xPadding⟩ ∧
      ImageExtendedChunkLeader.fromBytes l.raw =
        .ok ⟨s.timestamp, f, s.width, s.height, s.xOffset, s.yOffset, s.xPadding⟩) ∧
    (decode s.pixelFormatCode = none →
      ImageLeader.fromBytes l.raw = .err .invalidPacket ∧
      ImageExtendedChunkLeader.fromBytes l.raw = .err .invalidPacket) := by
  have h52 := imageLeader_length b s hs
  obtain ⟨_, _, _, _, _, hr⟩ := Leader.parse_ok h
  simp only [StreamLayout.imageLeader, u64At_eq b 20 (by omega), u32At_eq b 28 (by omega),
    u32At_eq b 32 (by omega), u32At_eq b 36 (by omega), u32At_eq b 40 (by omega),
    u32At_eq b 44 (by omega), u16At_eq b 48 (by omega), u16At_eq b 50 (by omega),
    Option.bind_eq_bind, Option.bind_some, Option.pure_def, Option.some.injEq] at hs
  subst hs
  rw [ImageExtendedChunkLeader.fromBytes_eq, hr, ImageLeader.fromBytes_eq]
  simp only [List.length_drop, le_drop, Nat.reduceAdd]
  rw [if_neg (by omega)]
  refine ⟨?_, ?_⟩
  · intro f hf
    rw [pixelFormatTryFrom_ok.mpr hf]
    dsimp only
    rw [if_neg (by omega)]
    exact ⟨rfl, rfl⟩
  · intro hn
    have : pixelFormatTryFrom (le b 28 4) = .err .invalidPacket := by
      unfold pixelFormatTryFrom; rw [hn]
    rw [this]
    exact ⟨rfl, rfl⟩

/-- Converse for the chunk leader and the three specific trailers. -/
theorem chunk_leader_and_trailers_complete (b : Bytes) :
    (∀ l ts, Leader.parse b = .ok l → StreamLayout.chunkLeaderTimestamp b = some ts →
      ChunkLeader.fromBytes l.raw = .ok ⟨ts⟩) ∧
    (∀ t h, Trailer.parse b = .ok t → StreamLayout.imageTrailerHeight b = some h →
      ImageTrailer.fromBytes t.raw = .ok ⟨h⟩) ∧
    (∀ t h c, Trailer.parse b = .ok t → StreamLayout.extTrailer b = some (h, c) →
      ImageExtendedChunkTrailer.fromBytes t.raw = .ok ⟨h, c⟩) ∧
    (∀ t c, Trailer.parse b = .ok t → StreamLayout.chunkTrailerLayoutId b = some c →
      ChunkTrailer.fromBytes t.raw = .ok ⟨c⟩) := by
  refine ⟨?_, ?_, ?_, ?_⟩
  · intro l ts hl hs
    obtain ⟨_, _, _, _, _, hr⟩ := Leader.parse_ok hl
    have h28 : 28 ≤ b.length := by
      by_cases h : 28 ≤ b.length
      · exact h
      · simp [StreamLayout.chunkLeaderTimestamp, u64At_none b 20 (by omega)] at hs
    simp only [StreamLayout.chunkLeaderTimestamp, u64At_eq b 20 (by omega), Option.some.injEq] at hs
    subst hs
    rw [hr, ChunkLeader.fromBytes_eq]
    simp only [List.length_drop, le_drop, Nat.reduceAdd]
    rw [if_neg (by omega)]
  · intro t h ht hs
    obtain ⟨_, _, _, _, _, _, hr⟩ := Trailer.parse_ok ht
    have h32 : 32 ≤ b.length := by
      by_cases h : 32 ≤ b.length
      · exact h
      · simp [StreamLayout.imageTrailerHeight, u32At_none b 28 (by omega)] at hs
    simp only [StreamLayout.imageTrailerHeight, u32At_eq b 28 (by omega), Option.some.injEq] at hs
    subst hs
    rw [hr, ImageTrailer.fromBytes_eq]
    simp only [List.length_drop, le_drop, Nat.reduceAdd]
    rw [if_neg (by omega)]
  · intro t h c ht hs
    obtain ⟨_, _, _, _, _, _, hr⟩ := Trailer.parse_ok ht
    have h36 : 36 ≤ b.length := by
      by_cases h : 36 ≤ b.length
      · exact h
      · simp [StreamLayout.extTrailer, u32At_none b 32 (by omega)] at hs
    simp only [StreamLayout.extTrailer, u32At_eq b 28 (by omega), u32At_eq b 32 (by omega),
      Option.bind_eq_bind, Option.bind_some, Option.pure_def, Option.some.injEq, Prod.mk.injEq] at hs
    obtain ⟨h1, h2⟩ := hs
    subst h1 h2
    rw [hr, ImageExtendedChunkTrailer.fromBytes_eq]
    simp only [List.length_drop, le_drop, Nat.reduceAdd]
    rw [if_neg (by omega)]
  · intro t c ht hs
    obtain ⟨_, _, _, _, _, _, hr⟩ := Trailer.parse_ok ht
    have h32 : 32 ≤ b.length := by
      by_cases h : 32 ≤ b.length
      · exact h
      · simp [StreamLayout.chunkTrailerLayoutId, u32At_none b 28 (by omega)] at hs
    simp only [StreamLayout.chunkTrailerLayoutId, u32At_eq b 28 (by omega), Option.some.injEq] at hs
    subst hs
    rw [hr, ChunkTrailer.fromBytes_eq]
    simp only [List.length_drop, le_drop, Nat.reduceAdd]
    rw [if_neg (by omega)]

/-- Every decoded field fits the Rust type that holds it (the `Nat` carriers of the model
never leave the machine range, so `as usize` casts in the builder are identities). -/
theorem parse_field_widths (b : Bytes) :
    (∀ l, Leader.parse b = .ok l → l.leaderSize < 2 ^ 16 ∧ l.blockId < 2 ^ 64) ∧
    (∀ t, Trailer.parse b = .ok t →
      t.trailerSize < 2 ^ 16 ∧ t.blockId < 2 ^ 64 ∧ t.validPayloadSize < 2 ^ 64) ∧
    (∀ il, ImageLeader.fromBytes b = .ok il →
      il.timestamp < 2 ^ 64 ∧ il.width < 2 ^ 32 ∧ il.height < 2 ^ 32 ∧ il.xOffset < 2 ^ 32 ∧
      il.yOffset < 2 ^ 32 ∧ il.xPadding < 2 ^ 16) := by
  refine ⟨?_, ?_, ?_⟩
  · intro l h
    obtain ⟨_, _, _, hs, hi, _⟩ := Leader.parse_ok h
    rw [hs, hi]
    exact ⟨le_lt b 6 2, le_lt b 8 8⟩
  · intro t h
    obtain ⟨_, _, _, hs, hi, hv, _⟩ := Trailer.parse_ok h
    rw [hs, hi, hv]
    exact ⟨le_lt b 6 2, le_lt b 8 8, le_lt b 20 8⟩
  · intro il h
    obtain ⟨_, _, hts, hw, hh, hxo, hyo, hxp⟩ := ImageLeader.fromBytes_ok h
    rw [hts, hw, hh, hxo, hyo, hxp]
    exact ⟨le_lt b 0 8, le_lt b 12 4, le_lt b 16 4, le_lt b 20 4, le_lt b 24 4, le_lt b 28 2⟩

/-! ## 3. Pixel-format codes map one-to-one to formats (generated tables) -/

/-- **pixel_bijection (encode then decode)**: every variant has an encode arm, its code fits
`u32`, and decoding that code gives the variant back. -/
theorem pixel_decode_encode (f : PixelFormat) :
    ∃ c, encode? f = some c ∧ c < 2 ^ 32 ∧ decode c = some f := by
  obtain ⟨c, hc⟩ := Pixel.encode_total f
  exact ⟨c, hc, (Pixel.decode_of_encode hc).2, (Pixel.decode_of_encode hc).1⟩

/-- **pixel_bijection (decode then encode)**: for all `2^32` codes (indeed all naturals), a
code that decodes to `f` is the code `f` encodes to. -/
theorem pixel_encode_decode (c : Nat) (f : PixelFormat) (h : decode c = some f) :
    encode? f = some c :=
  Pixel.encode_of_decode h

/-- **pixel_bijection (one-to-one)**: two codes decoding to the same format are equal, and two
formats encoding to the same code are equal. -/
theorem pixel_one_to_one :
    (∀ c₁ c₂ f, decode c₁ = some f → decode c₂ = some f → c₁ = c₂) ∧
    (∀ f₁ f₂ c, encode? f₁ = some c → encode? f₂ = some c → f₁ = f₂) := by
  refine ⟨?_, ?_⟩
  · intro c₁ c₂ f h₁ h₂
    have e₁ := Pixel.encode_of_decode h₁
    have e₂ := Pixel.encode_of_decode h₂
    rw [e₁] at e₂
    exact Option.some.inj e₂
  · intro f₁ f₂ c h₁ h₂
    have d₁ := (Pixel.decode_of_encode h₁).1
    have d₂ := (Pixel.decode_of_encode h₂).1
    rw [d₁] at d₂
    exact Option.some.inj d₂

/-- **pixel_codes_are_pfnc**: the code of every format is the one the frozen, independent PFNC
reference (`Spec/PFNC.lean`) assigns to it — so a *consistent* renumbering of both Rust tables,
which keeps them bijective, is still rejected — and every reference code has PFNC structure
(colour byte 0x01 / 0x02 with a non-zero bits-per-pixel byte, or the vendor range 0x40 used by
the IDS formats). -/
theorem pixel_codes_are_pfnc :
    (∀ f : PixelFormat, encode? f = Gen.PixelFormat.lookupFormat f PFNC.table) ∧
    PFNC.table.length = allFormats.length ∧
    PFNC.table.all (fun fc => (((PFNC.colourByte fc.2 == 1 || PFNC.colourByte fc.2 == 2) &&
      PFNC.bppByte fc.2 != 0) || PFNC.colourByte fc.2 == 0x40) && decide (fc.2 < 2 ^ 32)) = true := by
  refine ⟨?_, by decide +kernel, by decide +kernel⟩
  intro f
  cases f <;> decide +kernel

/-- **pixel_bijection (tables)**: the literals of the decode arms are pairwise distinct (no
shadowed arm), so are the variants they produce and both columns of the encode table; every
enum constructor is listed, and both tables have exactly one arm per constructor. -/
theorem pixel_tables_distinct_and_complete :
    (decodeTable.map (·.1)).Nodup ∧ (decodeTable.map (·.2)).Nodup ∧
    (encodeTable.map (·.1)).Nodup ∧ (encodeTable.map (·.2)).Nodup ∧
    (∀ f : PixelFormat, f ∈ allFormats) ∧ allFormats.Nodup ∧
    decodeTable.length = allFormats.length ∧ encodeTable.length = allFormats.length :=
  ⟨Pixel.decode_codes_nodup, Pixel.decode_formats_nodup, Pixel.encode_formats_nodup,
    Pixel.encode_codes_nodup, Pixel.mem_allFormats, Pixel.allFormats_nodup,
    Pixel.table_lengths.1, Pixel.table_lengths.2⟩

/-! ## 4. Payload assembly -/

/-- **walk_terminates**: the backwards chunk walk of `build_image_extended_payload` ends
within `off + 1` iterations for every buffer and start offset (no hypothesis at all):
with fuel `> off` the model's loop never runs out of fuel. -/
theorem walk_terminates (p : Profile) (buf : Bytes) (fuel off : Nat) (h : off < fuel) :
    chunkWalk p buf fuel off ≠ none := by
  have := chunkWalk_isSome p buf fuel off h
  intro hn
  rw [hn] at this
  cases this

/-- What `build_bounds` establishes about a built payload. -/
structure BuiltFrom (l : Leader) (t : Trailer) (buf : Bytes) (recv : Nat) (pl : Payload) : Prop where
  status : t.payloadStatus = .success
  id : pl.id = l.blockId
  type : pl.payloadType = l.payloadType
  valid : pl.validPayloadSize = t.validPayloadSize
  valid_le : pl.validPayloadSize ≤ recv
  payload : pl.payload = buf
  parts :
    match l.payloadType with
    | .image =>
      ∃ il it, ImageLeader.fromBytes l.raw = .ok il ∧ ImageTrailer.fromBytes t.raw = .ok it ∧
        pl.timestampNs = il.timestamp ∧
        pl.imageInfo = some ⟨il.width, it.actualHeight, il.xOffset, il.yOffset, il.pixelFormat,
          t.validPayloadSize⟩
    | .imageExtendedChunk =>
      ∃ il it s, ImageExtendedChunkLeader.fromBytes l.raw = .ok il ∧
        ImageExtendedChunkTrailer.fromBytes t.raw = .ok it ∧
        pl.timestampNs = il.timestamp ∧
        pl.imageInfo = some ⟨il.width, it.actualHeight, il.xOffset, il.yOffset, il.pixelFormat, s⟩ ∧
        s + 8 ≤ t.validPayloadSize ∧
        ∃ ns, StreamLayout.ChunksBack buf t.validPayloadSize ns ∧ ns.getLast? = some s
    | .chunk =>
      ∃ cl ct, ChunkLeader.fromBytes l.raw = .ok cl ∧ ChunkTrailer.fromBytes t.raw = .ok ct ∧
        pl.timestampNs = cl.timestamp ∧ pl.imageInfo = none

/-- **build_bounds** (structure level): for every leader, trailer (with a `u64` valid size),
buffer and received count with `recv ≤ |buf|`, a successfully built payload has its id and
type from the leader, its timestamp / geometry / pixel format from the specific leader, its
height from the specific trailer, `valid_payload_size` from the trailer with
`valid ≤ recv`; its image size is `valid` (image) or the data size of the FIRST chunk of a
well-formed chunk sequence filling exactly `buf[0..valid)` (image extended chunk). -/
theorem build_bounds (p : Profile) (l : Leader) (t : Trailer) (buf : Bytes) (recv : Nat)
    (pl : Payload) (hrecv : recv ≤ buf.length) (hwf : t.validPayloadSize < 2 ^ 64)
    (h : build p l t buf recv = .ok pl) : BuiltFrom l t buf recv pl := by
  unfold build at h
  split at h; · cases h
  rename_i hst
  split at h; · cases h
  rename_i hv
  have hst' : t.payloadStatus = .success := by simpa using hst
  have hv' : t.validPayloadSize ≤ recv := by omega
  split at h
  · rename_i hty
    unfold buildImage at h
    obtain ⟨il, hil, h⟩ := bind_eq_ok.mp h
    obtain ⟨it, hit, h⟩ := bind_eq_ok.mp h
    cases h
    exact ⟨hst', rfl, hty.symm, rfl, hv', rfl, by
      rw [hty]; exact ⟨il, it, mapErr_eq_ok.mp hil, mapErr_eq_ok.mp hit, rfl, rfl⟩⟩
  · rename_i hty
    unfold buildImageExtended at h
    obtain ⟨il, hil, h⟩ := bind_eq_ok.mp h
    obtain ⟨it, hit, h⟩ := bind_eq_ok.mp h
    obtain ⟨s, hs, h⟩ := bind_eq_ok.mp h
    cases h
    obtain ⟨r, hr, hrun⟩ := chunkWalkRun_eq p buf t.validPayloadSize
    rw [hrun] at hs
    obtain ⟨_, hok⟩ := chunkWalk_sound p buf _ _ (by omega) hwf r hr
    obtain ⟨hle, ns, hch, hlast⟩ := hok s hs
    exact ⟨hst', rfl, hty.symm, rfl, hv', rfl, by
      rw [hty]
      exact ⟨il, it, s, mapErr_eq_ok.mp hil, mapErr_eq_ok.mp hit, rfl, rfl, hle, ns, hch, hlast⟩⟩
  · rename_i hty
    unfold buildChunk at h
    obtain ⟨cl, hcl, h⟩ := bind_eq_ok.mp h
    obtain ⟨ct, hct, h⟩ := bind_eq_ok.mp h
    cases h
    exact ⟨hst', rfl, hty.symm, rfl, hv', rfl, by
      rw [hty]; exact ⟨cl, ct, mapErr_eq_ok.mp hcl, mapErr_eq_ok.mp hct, rfl, rfl⟩⟩

/-- **build_bounds** (size chain): `image_size ≤ valid_payload_size ≤ recv ≤ |buf|`. -/
theorem build_size_chain (p : Profile) (l : Leader) (t : Trailer) (buf : Bytes) (recv : Nat)
    (pl : Payload) (hrecv : recv ≤ buf.length) (hwf : t.validPayloadSize < 2 ^ 64)
    (h : build p l t buf recv = .ok pl) :
    pl.validPayloadSize ≤ recv ∧ pl.validPayloadSize ≤ pl.payload.length ∧
    ∀ info, pl.imageInfo = some info → info.imageSize ≤ pl.validPayloadSize := by
  have hb := build_bounds p l t buf recv pl hrecv hwf h
  refine ⟨hb.valid_le, by rw [hb.payload]; exact Nat.le_trans hb.valid_le hrecv, ?_⟩
  intro info hinfo
  have hparts := hb.parts
  rw [hb.valid]
  split at hparts
  · obtain ⟨il, it, _, _, _, hi⟩ := hparts
    rw [hi] at hinfo; cases hinfo; exact Nat.le_refl _
  · obtain ⟨il, it, s, _, _, _, hi, hle, _⟩ := hparts
    rw [hi] at hinfo; cases hinfo; dsimp only; omega
  · obtain ⟨_, _, _, _, _, hi⟩ := hparts
    rw [hi] at hinfo; cases hinfo

/-- **views_in_bounds**: for a built payload, `payload()`, `image()` and `into_vec()` never
index outside the buffer; they return exactly the first `valid` / `image_size` bytes of the
receive buffer. -/
theorem views_in_bounds {ε : Type} (p : Profile) (l : Leader) (t : Trailer) (buf : Bytes)
    (recv : Nat) (pl : Payload) (hrecv : recv ≤ buf.length) (hwf : t.validPayloadSize < 2 ^ 64)
    (h : build p l t buf recv = .ok pl) :
    (pl.payloadView : Res ε Bytes) = .ok (buf.take pl.validPayloadSize) ∧
    pl.intoVec = buf.take pl.validPayloadSize ∧
    (pl.imageInfo = none → (pl.image : Res ε (Option Bytes)) = .ok none) ∧
    (∀ info, pl.imageInfo = some info →
      (pl.image : Res ε (Option Bytes)) = .ok (some (buf.take info.imageSize))) := by
  obtain ⟨h1, h2, h3⟩ := build_size_chain p l t buf recv pl hrecv hwf h
  have hp := (build_bounds p l t buf recv pl hrecv hwf h).payload
  rw [hp] at h2
  refine ⟨?_, ?_, ?_, ?_⟩
  · simp only [Payload.payloadView, sliceTo, hp, if_pos h2]
  · simp only [Payload.intoVec, hp, if_pos h2]
  · intro hn
    simp only [Payload.image, hn]
  · intro info hi
    have := h3 info hi
    have hle : info.imageSize ≤ buf.length := by omega
    simp only [Payload.image, hi, sliceTo, hp, if_pos hle]

/-- **build_total** (structure level): with `recv ≤ |buf|` the builder never panics — neither
the slice index of the chunk walk, nor `try_into().unwrap()`, nor the `usize` arithmetic
(`u32 as usize + 4` cannot overflow on 64 bit), in both build profiles. -/
theorem build_total (p : Profile) (l : Leader) (t : Trailer) (buf : Bytes) (recv : Nat)
    (hrecv : recv ≤ buf.length) (hwf : t.validPayloadSize < 2 ^ 64) :
    build p l t buf recv ≠ .panic := by
  unfold build
  split; · simp
  split; · simp
  rename_i hv
  split
  · unfold buildImage
    refine bind_ne_panic (mapErr_ne_panic (ImageLeader.fromBytes_ne_panic _)) fun il _ => ?_
    refine bind_ne_panic (mapErr_ne_panic (ImageTrailer.fromBytes_ne_panic _)) fun it _ => ?_
    simp
  · unfold buildImageExtended
    refine bind_ne_panic (mapErr_ne_panic (ImageLeader.fromBytes_ne_panic _)) fun il _ => ?_
    refine bind_ne_panic (mapErr_ne_panic (ImageExtendedChunkTrailer.fromBytes_ne_panic _)) fun it _ => ?_
    refine bind_ne_panic ?_ fun s _ => by simp
    obtain ⟨r, hr, hrun⟩ := chunkWalkRun_eq p buf t.validPayloadSize
    rw [hrun]
    exact (chunkWalk_sound p buf _ _ (by omega) hwf r hr).1
  · unfold buildChunk
    refine bind_ne_panic (mapErr_ne_panic (ChunkLeader.fromBytes_ne_panic _)) fun cl _ => ?_
    refine bind_ne_panic (mapErr_ne_panic (ChunkTrailer.fromBytes_ne_panic _)) fun ct _ => ?_
    simp

/-- The two refusals of `build`: a non-success status and a valid size above the received
count are errors (never a payload), whatever the rest says. -/
theorem build_refuses (p : Profile) (l : Leader) (t : Trailer) (buf : Bytes) (recv : Nat)
    (h : t.payloadStatus ≠ .success ∨ recv < t.validPayloadSize) :
    build p l t buf recv = .err .invalidPayload := by
  unfold build
  by_cases hs : t.payloadStatus ≠ .success
  · rw [if_pos hs]
  · rw [if_neg hs]
    rcases h with h | h
    · exact absurd h hs
    · rw [if_pos h]

/-- The walk is exact: it accepts precisely the buffers whose first `valid` bytes form a
non-empty well-formed chunk sequence, and returns the first chunk's data size. -/
theorem walk_exact (p : Profile) (buf : Bytes) (valid s : Nat) (hlen : valid ≤ buf.length)
    (h64 : valid < 2 ^ 64) :
    chunkWalkRun p buf valid = .ok s ↔
      ∃ ns, StreamLayout.ChunksBack buf valid ns ∧ ns.getLast? = some s := by
  obtain ⟨r, hr, hrun⟩ := chunkWalkRun_eq p buf valid
  rw [hrun]
  constructor
  · intro h
    exact ((chunkWalk_sound p buf _ _ hlen h64 r hr).2 s h).2
  · rintro ⟨ns, hch, hlast⟩
    have := chunkWalk_complete p buf ns valid (valid + 1) s hch hlast hlen h64 (by omega)
    rw [this] at hr
    exact (Option.some.inj hr).symm

/-- **build_accepts**: conversely, whenever the trailer reports success, the declared valid size
does not exceed the received count and the specific parts decode (and, for image extended
chunk, the valid bytes form a non-empty well-formed chunk sequence), `build` succeeds with
exactly these fields — so `build` fails only for the reasons listed in `build_bounds`. -/
theorem build_accepts (p : Profile) (l : Leader) (t : Trailer) (buf : Bytes) (recv : Nat)
    (hs : t.payloadStatus = .success) (hv : t.validPayloadSize ≤ recv) :
    (∀ il it, l.payloadType = .image → ImageLeader.fromBytes l.raw = .ok il →
      ImageTrailer.fromBytes t.raw = .ok it →
      build p l t buf recv = .ok ⟨l.blockId, .image,
        some ⟨il.width, it.actualHeight, il.xOffset, il.yOffset, il.pixelFormat, t.validPayloadSize⟩,
        buf, t.validPayloadSize, il.timestamp⟩) ∧
    (∀ il it ns s, l.payloadType = .imageExtendedChunk →
      ImageExtendedChunkLeader.fromBytes l.raw = .ok il →
      ImageExtendedChunkTrailer.fromBytes t.raw = .ok it →
      recv ≤ buf.length → t.validPayloadSize < 2 ^ 64 →
      StreamLayout.ChunksBack buf t.validPayloadSize ns → ns.getLast? = some s →
      build p l t buf recv = .ok ⟨l.blockId, .imageExtendedChunk,
        some ⟨il.width, it.actualHeight, il.xOffset, il.yOffset, il.pixelFormat, s⟩,
        buf, t.validPayloadSize, il.timestamp⟩) ∧
    (∀ cl ct, l.payloadType = .chunk → ChunkLeader.fromBytes l.raw = .ok cl →
      ChunkTrailer.fromBytes t.raw = .ok ct →
      build p l t buf recv = .ok ⟨l.blockId, .chunk, none, buf, t.validPayloadSize, cl.timestamp⟩) := by
  have h1 : ¬ t.payloadStatus ≠ .success := by simp [hs]
  have h2 : ¬ t.validPayloadSize > recv := by omega
  refine ⟨?_, ?_, ?_⟩
  · intro il it hty hil hit
    simp only [build, if_neg h1, if_neg h2, hty, buildImage, mapErr_ok' hil, mapErr_ok' hit,
      Res.bind_ok, Res.pure_eq]
  · intro il it ns s hty hil hit hrecv hwf hch hlast
    have hw := (walk_exact p buf t.validPayloadSize s (by omega) hwf).mpr ⟨ns, hch, hlast⟩
    simp only [build, if_neg h1, if_neg h2, hty, buildImageExtended, mapErr_ok' hil, mapErr_ok' hit,
      hw, Res.bind_ok, Res.pure_eq]
  · intro cl ct hty hcl hct
    simp only [build, if_neg h1, if_neg h2, hty, buildChunk, mapErr_ok' hcl, mapErr_ok' hct,
      Res.bind_ok, Res.pure_eq]

/-! ### Byte level: the hook `verif_build_payload` = parse both packets, then build -/

/-- **build_total** (byte level): for all leader bytes, trailer bytes, buffers and received
counts with `recv ≤ |buf|`, parsing + building never panics. -/
theorem verif_build_total (p : Profile) (lb tb buf : Bytes) (recv : Nat) (hrecv : recv ≤ buf.length) :
    verifBuildPayload p lb tb buf recv ≠ .panic := by
  unfold verifBuildPayload
  refine bind_ne_panic (mapErr_ne_panic (Leader.parse_ne_panic _)) fun l _ => ?_
  refine bind_ne_panic (mapErr_ne_panic (Trailer.parse_ne_panic _)) fun t ht => ?_
  have := ((parse_field_widths tb).2.1 t (mapErr_eq_ok.mp ht)).2.2
  exact build_total p l t buf recv hrecv this

/-- **build_bounds** (byte level): a payload built from leader/trailer BYTES comes from the
parsed leader and trailer (whose fields are the layout decoder's, section 2) and satisfies the
size chain, so its views are in bounds. -/
theorem verif_build_bounds (p : Profile) (lb tb buf : Bytes) (recv : Nat) (pl : Payload)
    (hrecv : recv ≤ buf.length) (h : verifBuildPayload p lb tb buf recv = .ok pl) :
    ∃ l t, Leader.parse lb = .ok l ∧ Trailer.parse tb = .ok t ∧ BuiltFrom l t buf recv pl ∧
      pl.validPayloadSize ≤ recv ∧
      (∀ info, pl.imageInfo = some info → info.imageSize ≤ pl.validPayloadSize) ∧
      (pl.payloadView : Res Unit Bytes) ≠ .panic ∧ (pl.image : Res Unit (Option Bytes)) ≠ .panic := by
  unfold verifBuildPayload at h
  obtain ⟨l, hl, h⟩ := bind_eq_ok.mp h
  obtain ⟨t, ht, h⟩ := bind_eq_ok.mp h
  have hl' := mapErr_eq_ok.mp hl
  have ht' := mapErr_eq_ok.mp ht
  have hwf := ((parse_field_widths tb).2.1 t ht').2.2
  have hb := build_bounds p l t buf recv pl hrecv hwf h
  obtain ⟨c1, _, c3⟩ := build_size_chain p l t buf recv pl hrecv hwf h
  obtain ⟨v1, _, v3, v4⟩ := views_in_bounds (ε := Unit) p l t buf recv pl hrecv hwf h
  refine ⟨l, t, hl', ht', hb, c1, c3, by rw [v1]; simp, ?_⟩
  cases hi : pl.imageInfo with
  | none => rw [v3 hi]; simp
  | some info => rw [v4 info hi]; simp

/-! ## Non-vacuity: concrete packets satisfying the hypotheses -/

/-- a 52-byte image leader: id 51, Mono8 (0x01080001), 16x2, timestamp 100 -/
def exLeader : Bytes :=
  [0x55, 0x33, 0x56, 0x4C, 0, 0, 52, 0, 51, 0, 0, 0, 0, 0, 0, 0, 0, 0, 0x01, 0x00,
   100, 0, 0, 0, 0, 0, 0, 0, 0x01, 0x00, 0x08, 0x01, 16, 0, 0, 0, 2, 0, 0, 0,
   0, 0, 0, 0, 0, 0, 0, 0, 0, 0, 0, 0]

/-- the same with payload type image-extended-chunk (0x4001) -/
def exLeaderExt : Bytes := exLeader.set 19 0x40

/-- a 36-byte trailer: id 51, status success, valid payload size 20, height 2, layout id 7 -/
def exTrailer : Bytes :=
  [0x55, 0x33, 0x56, 0x54, 0, 0, 36, 0, 51, 0, 0, 0, 0, 0, 0, 0, 0, 0, 0, 0,
   20, 0, 0, 0, 0, 0, 0, 0, 2, 0, 0, 0, 7, 0, 0, 0]

/-- 24-byte receive buffer: chunk 0 = 4 data bytes + id + len 4, chunk 1 = 0 data bytes + id +
len 0, then 4 bytes the device did not declare valid -/
def exBuf : Bytes :=
  [9, 9, 9, 9, 0, 0, 0, 1, 0, 0, 0, 4, 0, 0, 0, 2, 0, 0, 0, 0, 0xEE, 0xEE, 0xEE, 0xEE]

example : ∃ l, Leader.parse exLeader = .ok l ∧ l.blockId = 51 ∧ l.payloadType = .image ∧
    l.leaderSize = 52 := by
  refine ⟨⟨52, 51, .image, exLeader.drop 20⟩, by decide, rfl, rfl, rfl⟩

example : StreamLayout.genericLeader exLeader = some ⟨52, 51, .image⟩ := by decide

example : StreamLayout.genericTrailer exTrailer = some ⟨36, 51, .success, 20⟩ := by decide

/-- image payload: image size = valid = 20 ≤ recv = 22 ≤ |buf| = 24 -/
example : ∃ pl, verifBuildPayload .dev exLeader exTrailer exBuf 22 = .ok pl ∧ pl.id = 51 ∧
    pl.validPayloadSize = 20 ∧ pl.timestampNs = 100 ∧
    pl.imageInfo = some ⟨16, 2, 0, 0, .Mono8, 20⟩ := by
  refine ⟨⟨51, .image, some ⟨16, 2, 0, 0, .Mono8, 20⟩, exBuf, 20, 100⟩, by decide +kernel,
    rfl, rfl, rfl, rfl⟩

/-- image-extended-chunk payload: the walk finds two chunks and returns the first one's size 4 -/
example : ∃ pl, verifBuildPayload .release exLeaderExt exTrailer exBuf 20 = .ok pl ∧
    pl.imageInfo = some ⟨16, 2, 0, 0, .Mono8, 4⟩ ∧
    (pl.image : Res Unit (Option Bytes)) = .ok (some [9, 9, 9, 9]) := by
  refine ⟨⟨51, .imageExtendedChunk, some ⟨16, 2, 0, 0, .Mono8, 4⟩, exBuf, 20, 100⟩,
    by decide +kernel, rfl, by decide⟩

/-- The byte order of the chunk length field is a TRANSCRIPTION CHOICE taken from the code
(`Spec.StreamLayout.chunkLengthOrder`, assumption in props/C11.json), and it matters: this
24-byte payload is one well-formed 16-byte chunk when its length field `10 00 00 00` is read
little-endian (what independent recollection says U3V cameras send); the code reads
0x10000000 and refuses it.  `walk_exact` / `build_accepts` certify the transcribed order only. -/
def exBufLE : Bytes := List.replicate 16 9 ++ [1, 0, 0, 0, 0x10, 0, 0, 0]

example : StreamLayout.ChunksBackO .little exBufLE 24 [16] ∧
    chunkWalkRun .dev exBufLE 24 = .err .invalidPayload ∧
    ¬ ∃ ns s, StreamLayout.ChunksBack exBufLE 24 ns ∧ ns.getLast? = some s := by
  have hw : chunkWalkRun .dev exBufLE 24 = .err .invalidPayload := by decide
  refine ⟨⟨by decide, by decide, ?_⟩, hw, ?_⟩
  · show 24 - 8 - 16 = 0
    decide
  · rintro ⟨ns, s, hch, hlast⟩
    have := (walk_exact .dev exBufLE 24 s (by decide) (by decide)).mpr ⟨ns, hch, hlast⟩
    rw [hw] at this
    cases this

example : StreamLayout.ChunksBack exBuf 20 [0, 4] := by
  refine ⟨by decide, by decide, by decide, by decide, ?_⟩
  show 20 - 8 - 0 - 8 - 4 = 0
  decide

/-- received one byte less than declared valid: refused -/
example : verifBuildPayload .dev exLeader exTrailer exBuf 19 = .err .invalidPayload := by
  decide +kernel

/-- the premise `recv ≤ |buf|` matters: with a lying `recv` the payload is built and its view
would index out of range -/
example : ∃ pl, verifBuildPayload .dev exLeader exTrailer (exBuf.take 10) 20 = .ok pl ∧
    (pl.payloadView : Res Unit Bytes) = .panic := by
  refine ⟨⟨51, .image, some ⟨16, 2, 0, 0, .Mono8, 20⟩, exBuf.take 10, 20, 100⟩, by decide +kernel,
    by decide⟩

example : decode 0x01080001 = some .Mono8 ∧ encode? .Mono8 = some 0x01080001 ∧ decode 0 = none := by
  decide +kernel

/-! ## 5. Growth round: size-field lies, the walk for all 32-bit size fields, views as Spec functions -/

/-- **trailer_decode_ignores_size_field_lies**: the device-supplied `trailer_size` field plays
no role in decoding (the code's real rule: only the BYTES RECEIVED count).
(1) A trailer of at least the fixed 28 bytes never panics, its specific part is everything
from byte 28, and each specific view succeeds exactly when the received bytes suffice
(32 / 36 / 32), with the fields at their fixed offsets.
(2) Overwriting bytes 6..8 (the size field) with ANY value changes nothing but the reported
`trailer_size`: same outcome, same fields, same specific part — for every byte string. -/
theorem trailer_decode_ignores_size_field_lies (b : Bytes) :
    (28 ≤ b.length → Trailer.parse b ≠ .panic ∧ ∀ t, Trailer.parse b = .ok t →
      t.raw = b.drop 28 ∧
      ImageTrailer.fromBytes t.raw =
        (if b.length < 32 then .err .bufferIo else .ok ⟨le b 28 4⟩) ∧
      ImageExtendedChunkTrailer.fromBytes t.raw =
        (if b.length < 36 then .err .bufferIo else .ok ⟨le b 28 4, le b 32 4⟩) ∧
      ChunkTrailer.fromBytes t.raw =
        (if b.length < 32 then .err .bufferIo else .ok ⟨le b 28 4⟩)) ∧
    (∀ b', AgreeOutside 6 8 b b' →
      Trailer.parse b' =
        match Trailer.parse b with
        | .ok t => .ok { t with trailerSize := le b' 6 2 }
        | .err e => .err e
        | .panic => .panic) := by
  refine ⟨?_, ?_⟩
  · intro h28
    refine ⟨Trailer.parse_ne_panic b, ?_⟩
    intro t ht
    obtain ⟨_, _, _, _, _, _, hr⟩ := Trailer.parse_ok ht
    rw [hr, ImageTrailer.fromBytes_eq, ImageExtendedChunkTrailer.fromBytes_eq, ChunkTrailer.fromBytes_eq]
    simp only [List.length_drop, le_drop, Nat.reduceAdd]
    refine ⟨by first | rfl | trivial, ?_, ?_, ?_⟩
    · by_cases h : b.length < 32
      · rw [if_pos h, if_pos (by omega)]
      · rw [if_neg h, if_neg (by omega)]
    · by_cases h : b.length < 36
      · rw [if_pos h, if_pos (by omega)]
      · rw [if_neg h, if_neg (by omega)]
    · by_cases h : b.length < 32
      · rw [if_pos h, if_pos (by omega)]
      · rw [if_neg h, if_neg (by omega)]
  · intro b' ⟨hlen, hlo, hhi⟩
    rw [Trailer.parse_eq b', Trailer.parse_eq b, ← hlen,
      ← le_congr_lo hlo 0 4 (by omega), ← le_congr_hi hhi 16 2 (by omega),
      ← le_congr_hi hhi 8 8 (by omega), ← le_congr_hi hhi 20 8 (by omega),
      ← drop_congr_hi hhi 28 (by omega)]
    by_cases h1 : b.length < 4
    · simp only [if_pos h1]
    · simp only [if_neg h1]
      by_cases h2 : le b 0 4 ≠ TRAILER_MAGIC
      · simp only [if_pos h2]
      · simp only [if_neg h2]
        by_cases h3 : b.length < 18
        · simp only [if_pos h3]
        · simp only [if_neg h3]
          cases PayloadStatus.tryFrom (le b 16 2) with
          | panic => rfl
          | err e => rfl
          | ok s =>
            dsimp only
            by_cases h4 : b.length < 28
            · simp only [if_pos h4]
            · simp only [if_neg h4]

/-- **leader_decode_ignores_size_field_lies**: likewise the device-supplied `leader_size` field
(bytes 6..8) plays no role: overwriting it with ANY value changes nothing but the reported
`leader_size` — same outcome, same block id and payload type, same specific part (hence the
same specific-leader views) — for every byte string; and the specific part of a parsed leader
is always everything from byte 20. -/
theorem leader_decode_ignores_size_field_lies (b : Bytes) :
    (∀ l, Leader.parse b = .ok l → l.raw = b.drop 20) ∧
    (∀ b', AgreeOutside 6 8 b b' →
      Leader.parse b' =
        match Leader.parse b with
        | .ok l => .ok { l with leaderSize := le b' 6 2 }
        | .err e => .err e
        | .panic => .panic) := by
  refine ⟨fun l hl => (Leader.parse_ok hl).2.2.2.2.2, ?_⟩
  intro b' ⟨hlen, hlo, hhi⟩
  rw [Leader.parse_eq b', Leader.parse_eq b, ← hlen,
    ← le_congr_lo hlo 0 4 (by omega), ← le_congr_hi hhi 18 2 (by omega),
    ← le_congr_hi hhi 8 8 (by omega), ← drop_congr_hi hhi 20 (by omega)]
  by_cases h1 : b.length < 4
  · simp only [if_pos h1]
  · simp only [if_neg h1]
    by_cases h2 : le b 0 4 ≠ LEADER_MAGIC
    · simp only [if_pos h2]
    · simp only [if_neg h2]
      by_cases h3 : b.length < 20
      · simp only [if_pos h3]
      · simp only [if_neg h3]
        cases PayloadType.tryFrom (le b 18 2) with
        | panic => rfl
        | err e => rfl
        | ok s => rfl

/-- **chunk_walk_total_and_exact**: for every payload buffer, every `valid_payload_size` within
it and both build profiles, the backwards chunk walk of `build_image_extended_payload`
terminates, never panics (no slice index out of range, no failing `try_into().unwrap()`, no
`usize` overflow — for ALL 32-bit size fields, `0xFFFF_FFFC ..= 0xFFFF_FFFF` included), gives
the same result in the dev and the release profile, accepts exactly the Spec's chunk layouts
returning the first chunk's size with `image_size + 8 ≤ valid`, and answers a size field that
claims more than what precedes it with an error. -/
theorem chunk_walk_total_and_exact (p : Profile) (buf : Bytes) (valid : Nat)
    (hlen : valid ≤ buf.length) (h64 : valid < 2 ^ 64) :
    (∀ fuel, valid < fuel → chunkWalk p buf fuel valid ≠ none) ∧
    chunkWalkRun p buf valid ≠ .panic ∧
    (∀ q, chunkWalkRun q buf valid = chunkWalkRun p buf valid) ∧
    (∀ s, chunkWalkRun p buf valid = .ok s ↔
      ∃ ns, StreamLayout.ChunksBack buf valid ns ∧ ns.getLast? = some s) ∧
    (∀ s, chunkWalkRun p buf valid = .ok s → s + 8 ≤ valid) ∧
    (∀ n, 4 ≤ valid →
      StreamLayout.chunkLenAt StreamLayout.chunkLengthOrder buf (valid - 4) = some n →
      valid < n + 8 → chunkWalkRun p buf valid = .err .invalidPayload) := by
  obtain ⟨r, hr, hrun⟩ := chunkWalkRun_eq p buf valid
  have hs := chunkWalk_sound p buf _ _ hlen h64 r hr
  refine ⟨fun fuel hf => walk_terminates p buf fuel valid hf, by rw [hrun]; exact hs.1,
    fun q => chunkWalkRun_profile_indep q p buf valid hlen h64,
    fun s => walk_exact p buf valid s hlen h64, ?_, ?_⟩
  · intro s h
    rw [hrun] at h
    exact (hs.2 s h).1
  · intro n h4 hn hbig
    exact chunkWalkRun_oversize p buf valid n h4 hlen h64 hn hbig

/-- **image_leader_decoders_agree**: the two duplicated specific-leader decoders
(`ImageLeader::from_bytes`, `ImageExtendedChunkLeader::from_bytes`) are the same function on
every byte string (of the model; the harness feeds both real decoders every generated leader
and compares each with the model). -/
theorem image_leader_decoders_agree (b : Bytes) :
    ImageExtendedChunkLeader.fromBytes b = ImageLeader.fromBytes b := rfl

/-- **build_payload_views_consistent (Image)**: for every accepted (leader bytes, payload buffer,
trailer bytes) triple of payload type Image, every view the `Payload` offers is the Spec's
function of the three packets: id = leader block id, timestamp / width / offsets / pixel format
(through the generated table) = the Spec image leader's, height = the Spec image trailer's,
valid size = the Spec trailer's (status success, `≤ recv`), image size = valid size, and
`payload()`, `image()`, `into_vec()` are exactly the first `valid` bytes of the buffer. -/
theorem build_payload_views_consistent_image {ε : Type} (p : Profile) (lb tb buf : Bytes)
    (recv : Nat) (pl : Payload) (hrecv : recv ≤ buf.length)
    (h : verifBuildPayload p lb tb buf recv = .ok pl) (hty : pl.payloadType = .image) :
    ∃ g st sl ht f,
      StreamLayout.genericLeader lb = some g ∧ g.payloadType = .image ∧
      StreamLayout.genericTrailer tb = some st ∧ st.status = .success ∧
      StreamLayout.imageLeader lb = some sl ∧ StreamLayout.imageTrailerHeight tb = some ht ∧
      decode sl.pixelFormatCode = some f ∧ st.validPayloadSize ≤ recv ∧
      pl.id = g.blockId ∧ pl.timestampNs = sl.timestamp ∧
      pl.validPayloadSize = st.validPayloadSize ∧
      pl.imageInfo = some ⟨sl.width, ht, sl.xOffset, sl.yOffset, f, st.validPayloadSize⟩ ∧
      (pl.payloadView : Res ε Bytes) = .ok (buf.take st.validPayloadSize) ∧
      (pl.image : Res ε (Option Bytes)) = .ok (some (buf.take st.validPayloadSize)) ∧
      pl.intoVec = buf.take st.validPayloadSize := by
  obtain ⟨l, t, hl, ht, hwf, hb⟩ := verifBuild_unpack h
  have B := build_bounds p l t buf recv pl hrecv hwf hb
  have hlt : l.payloadType = .image := by rw [← B.type]; exact hty
  have parts := B.parts
  simp only [hlt] at parts
  obtain ⟨il, it, hil, hit, hts, hinfo⟩ := parts
  obtain ⟨sl, hsl, e1, e2, e3, _, e5, e6, _⟩ := image_leader_faithful lb l il hl hil
  have hh := (specific_trailers_faithful tb t ht).1 it hit
  obtain ⟨v1, v2, _, v4⟩ := views_in_bounds (ε := ε) p l t buf recv pl hrecv hwf hb
  have hv := B.valid
  have v4' := v4 _ hinfo
  refine ⟨_, _, sl, it.actualHeight, il.pixelFormat, (leader_parse_faithful lb l hl).1, by rw [hlt]; rfl,
    (trailer_parse_faithful tb t ht).1, by rw [B.status]; rfl, hsl, hh, e2, by rw [← hv]; exact B.valid_le,
    B.id, by rw [hts, e1], hv, by rw [hinfo, e3, e5, e6], by rw [v1, hv], by rw [v4'], by rw [v2, hv]⟩

/-- **build_payload_views_consistent (Chunk)**: id = leader block id, timestamp = the Spec
chunk leader's, valid size = the Spec trailer's (status success, `≤ recv`), the chunk trailer
is present, there is no image (`image_info = None`, `image() = None`), and `payload()` /
`into_vec()` are exactly the first `valid` bytes of the buffer. -/
theorem build_payload_views_consistent_chunk {ε : Type} (p : Profile) (lb tb buf : Bytes)
    (recv : Nat) (pl : Payload) (hrecv : recv ≤ buf.length)
    (h : verifBuildPayload p lb tb buf recv = .ok pl) (hty : pl.payloadType = .chunk) :
    ∃ g st ts lay,
      StreamLayout.genericLeader lb = some g ∧ g.payloadType = .chunk ∧
      StreamLayout.genericTrailer tb = some st ∧ st.status = .success ∧
      StreamLayout.chunkLeaderTimestamp lb = some ts ∧
      StreamLayout.chunkTrailerLayoutId tb = some lay ∧ st.validPayloadSize ≤ recv ∧
      pl.id = g.blockId ∧ pl.timestampNs = ts ∧ pl.validPayloadSize = st.validPayloadSize ∧
      pl.imageInfo = none ∧
      (pl.payloadView : Res ε Bytes) = .ok (buf.take st.validPayloadSize) ∧
      (pl.image : Res ε (Option Bytes)) = .ok none ∧
      pl.intoVec = buf.take st.validPayloadSize := by
  obtain ⟨l, t, hl, ht, hwf, hb⟩ := verifBuild_unpack h
  have B := build_bounds p l t buf recv pl hrecv hwf hb
  have hlt : l.payloadType = .chunk := by rw [← B.type]; exact hty
  have parts := B.parts
  simp only [hlt] at parts
  obtain ⟨cl, ct, hcl, hct, hts, hinfo⟩ := parts
  have hts' := chunk_leader_faithful lb l cl hl hcl
  have hlay := (specific_trailers_faithful tb t ht).2.2 ct hct
  obtain ⟨v1, v2, v3, _⟩ := views_in_bounds (ε := ε) p l t buf recv pl hrecv hwf hb
  have hv := B.valid
  refine ⟨_, _, cl.timestamp, ct.chunkLayoutId, (leader_parse_faithful lb l hl).1, by rw [hlt]; rfl,
    (trailer_parse_faithful tb t ht).1, by rw [B.status]; rfl, hts', hlay, by rw [← hv]; exact B.valid_le,
    B.id, hts, hv, hinfo, by rw [v1, hv], v3 hinfo, by rw [v2, hv]⟩

/-- **build_payload_views_consistent (ImageExtendedChunk)**: as for Image, with the Spec
extended-chunk trailer (height, layout id), and the image is the FIRST chunk of the Spec chunk
layout of `buf[0..valid)`: image size `s` with `s + 8 ≤ valid`, `image()` = first `s` bytes. -/
theorem build_payload_views_consistent_image_extended_chunk {ε : Type} (p : Profile)
    (lb tb buf : Bytes) (recv : Nat) (pl : Payload) (hrecv : recv ≤ buf.length)
    (h : verifBuildPayload p lb tb buf recv = .ok pl)
    (hty : pl.payloadType = .imageExtendedChunk) :
    ∃ g st sl ht lay f s ns,
      StreamLayout.genericLeader lb = some g ∧ g.payloadType = .imageExtendedChunk ∧
      StreamLayout.genericTrailer tb = some st ∧ st.status = .success ∧
      StreamLayout.imageLeader lb = some sl ∧ StreamLayout.extTrailer tb = some (ht, lay) ∧
      decode sl.pixelFormatCode = some f ∧ st.validPayloadSize ≤ recv ∧
      StreamLayout.ChunksBack buf st.validPayloadSize ns ∧ ns.getLast? = some s ∧
      s + 8 ≤ st.validPayloadSize ∧
      pl.id = g.blockId ∧ pl.timestampNs = sl.timestamp ∧
      pl.validPayloadSize = st.validPayloadSize ∧
      pl.imageInfo = some ⟨sl.width, ht, sl.xOffset, sl.yOffset, f, s⟩ ∧
      (pl.payloadView : Res ε Bytes) = .ok (buf.take st.validPayloadSize) ∧
      (pl.image : Res ε (Option Bytes)) = .ok (some (buf.take s)) ∧
      pl.intoVec = buf.take st.validPayloadSize := by
  obtain ⟨l, t, hl, ht, hwf, hb⟩ := verifBuild_unpack h
  have B := build_bounds p l t buf recv pl hrecv hwf hb
  have hlt : l.payloadType = .imageExtendedChunk := by rw [← B.type]; exact hty
  have parts := B.parts
  simp only [hlt] at parts
  obtain ⟨il, it, s, hil, hit, hts, hinfo, hle, ns, hch, hlast⟩ := parts
  obtain ⟨sl, hsl, e1, e2, e3, _, e5, e6, _⟩ :=
    image_extended_chunk_leader_faithful lb l il hl hil
  have hh := (specific_trailers_faithful tb t ht).2.1 it hit
  obtain ⟨v1, v2, _, v4⟩ := views_in_bounds (ε := ε) p l t buf recv pl hrecv hwf hb
  have hv := B.valid
  have v4' := v4 _ hinfo
  refine ⟨_, _, sl, it.actualHeight, it.chunkLayoutId, il.pixelFormat, s, ns,
    (leader_parse_faithful lb l hl).1, by rw [hlt]; rfl,
    (trailer_parse_faithful tb t ht).1, by rw [B.status]; rfl, hsl, hh, e2,
    by rw [← hv]; exact B.valid_le, hch, hlast, hle,
    B.id, by rw [hts, e1], hv, by rw [hinfo, e3, e5, e6], by rw [v1, hv], by rw [v4'], by rw [v2, hv]⟩

/-! ### Non-vacuity of the growth-round theorems -/

/-- the example trailer with a LYING size field (claims 4 bytes, i.e. less than the fixed part) -/
def exTrailerLie : Bytes := (exTrailer.set 6 4).set 7 0

/-- the example leader claiming `leader_size = 0` -/
def exLeaderLie : Bytes := (exLeader.set 6 0).set 7 0

example : AgreeOutside 6 8 exLeader exLeaderLie ∧ ∃ l, Leader.parse exLeaderLie = .ok l ∧ l.leaderSize = 0 ∧
    (ImageLeader.fromBytes l.raw).isOk = true :=
  ⟨⟨by decide, by decide, by decide⟩, ⟨0, 51, .image, exLeaderLie.drop 20⟩, by decide, rfl, by decide +kernel⟩

example : AgreeOutside 6 8 exTrailer exTrailerLie := ⟨by decide, by decide, by decide⟩

example : ∃ t, Trailer.parse exTrailerLie = .ok t ∧ t.trailerSize = 4 ∧ t.validPayloadSize = 20 ∧
    ImageExtendedChunkTrailer.fromBytes t.raw = .ok ⟨2, 7⟩ := by
  refine ⟨⟨4, 51, .success, 20, exTrailerLie.drop 28⟩, by decide, rfl, rfl, by decide⟩

/-- a size field of 0xFFFF_FFFF at the end of an 8-byte valid region: error in both profiles -/
def exBufHuge : Bytes := [0, 0, 0, 1, 0xFF, 0xFF, 0xFF, 0xFF]

example : chunkWalkRun .dev exBufHuge 8 = .err .invalidPayload ∧
    chunkWalkRun .release exBufHuge 8 = .err .invalidPayload ∧
    StreamLayout.chunkLenAt StreamLayout.chunkLengthOrder exBufHuge 4 = some 0xFFFFFFFF := by decide

example : ∃ pl, verifBuildPayload .dev exLeaderExt exTrailer exBuf 20 = .ok pl ∧
    pl.payloadType = .imageExtendedChunk := by
  refine ⟨⟨51, .imageExtendedChunk, some ⟨16, 2, 0, 0, .Mono8, 4⟩, exBuf, 20, 100⟩, by decide +kernel, rfl⟩

example : ∃ pl, verifBuildPayload .dev exLeader exTrailer exBuf 22 = .ok pl ∧ pl.payloadType = .image := by
  refine ⟨⟨51, .image, some ⟨16, 2, 0, 0, .Mono8, 20⟩, exBuf, 20, 100⟩, by decide +kernel, rfl⟩

/-- a 28-byte chunk leader (type 0x4000) and the example trailer read as a chunk trailer -/
def exLeaderChunk : Bytes := (exLeader.take 28).set 18 0x00 |>.set 19 0x40

example : ∃ pl, verifBuildPayload .dev exLeaderChunk exTrailer exBuf 20 = .ok pl ∧
    pl.payloadType = .chunk ∧ pl.imageInfo = none := by
  refine ⟨⟨51, .chunk, none, exBuf, 20, 100⟩, by decide +kernel, rfl, rfl⟩

example : ImageExtendedChunkLeader.fromBytes (exLeader.drop 20) = ImageLeader.fromBytes (exLeader.drop 20) ∧
    (ImageLeader.fromBytes (exLeader.drop 20)).isOk = true := by decide +kernel

end CamVerif.C11
