/-
C04 — Register caching is observationally transparent.

Property theorems only.  Vocabulary (`Coherent`, `Declared`, `PortDeclared`, `HistOk`,
`LogSub`, `Inv`, `Rel`) is in `CamVerif.Spec.CacheSpec`; the model
(`CamVerif.Model.Cache`) is the register/cache layer of `cameleon-genapi` after the repairs
of F-C04-1, F-C04-2, F-C04-3 and F-C04-4; helper lemmas are in `CamVerif.Proofs.C04{Store,Inv,Sim,Ops,Keeps,Via,Table,DynKey,DynSteps}`.

Everything is quantified over every description `g` with `Declared p g`, every device
(image, static rejection ranges, rejected write ordinals, prior log), every history and both
build profiles.  Nothing is bounded.

Device rejections: see `Cache.Dev` — out-of-image accesses, static no-access / no-write
ranges, the `k`-th write attempt for `k ∈ rejW` (atomic), and NON-ATOMIC rejections `rejP`: the
device reports an error but leaves arbitrary bytes at the start of the written range (part of
the data applied, all of it applied with the acknowledge lost, or garbage).  Write ordinals
are the same in both runs because both perform the same writes (`log_sub_writes`).  Transient
*read* failures are excluded on purpose: a read the device refuses only sometimes is visible
through any cache.

Which theorem needs what: `sim`, `log_sub`, `prim_preserve*` need `Declared` (+ `HistOk`);
the NoCache theorems need only `NoCacheAbsent`, proved for every description and history
(`nocache_absent_invariant`); `own_write_visible` needs nothing.
-/
import CamVerif.Proofs.C04DynSteps
namespace CamVerif.C04
open CamVerif CamVerif.Cache

/-! ## Example description (non-vacuity of `Declared`) -/

/-- Port; a NoCache selector; two overlapping IntRegs (WriteThrough / WriteAround) that list
each other; two StructReg entries (same address, disjoint bit fields) that list each other;
a selector-addressed register with stride = length listing the port;
an Integer (pValue + one pValueCopy), a Command, a Boolean and an Enumeration on top. -/
def exGraph : Graph :=
  [ .port,
    .reg ⟨.int .le .unsigned, 0, none, 1, .noCache, .rw, [], 0⟩,
    .reg ⟨.int .le .unsigned, 4, none, 4, .writeThrough, .rw, [3, 6], 0⟩,
    .reg ⟨.int .be .signed, 6, none, 2, .writeAround, .rw, [2, 6], 0⟩,
    .reg ⟨.masked .le .unsigned 0 3, 12, none, 1, .writeThrough, .rw, [5, 6], 0⟩,
    .reg ⟨.masked .le .unsigned 4 7, 12, none, 1, .writeThrough, .rw, [4, 6], 0⟩,
    .reg ⟨.raw, 2, some (1, 2), 2, .writeThrough, .rw, [0], 0⟩,
    .integer 3 [1],
    .command 7 5,
    .boolean 2 1 0,
    .enumeration 3 [1, 2] ]

def exDev : Dev :=
  ⟨[1, 0, 9, 9, 1, 2, 3, 4, 5, 6, 7, 8, 0xA5, 0, 0, 0], [(15, 1)], [(8, 2)], [1], [], 0, []⟩

/-- overlapping WriteThrough / WriteAround registers: hit, write through the other one, re-read -/
def exHist1 : List Op := [.value 2, .value 2, .setValue 3 (.int (-2)), .value 2, .value 3]
/-- StructReg entry siblings sharing one byte -/
def exHist2 : List Op := [.value 4, .value 5, .setValue 5 (.int 3), .value 4, .value 5]
/-- selector-addressed raw write, a command whose write the device rejects, `is_done` -/
def exHist3 : List Op :=
  [.value 2, .write 6 [0xEE, 0xFF], .value 2, .execute 8, .isDone 8, .value 7]

example : Declared Profile.dev exGraph := by decide
example : Declared Profile.release exGraph := by decide
example : HistOk exGraph exHist1 ∧ HistOk exGraph exHist2 ∧ HistOk exGraph exHist3 := by
  refine ⟨?_, ?_, ?_⟩ <;> intro n a d h <;> simp [exHist1, exHist2, exHist3] at h

/-- A selector-addressed register (selector = 1-byte unsigned IntReg, stride 4 = length, so
it never clashes with itself) only has to declare the registers its address hull
`[16, 16 + 255*4 + 4)` can meet: node 3 at address 20 yes, the selector itself (address 0) and
node 4 (address 8) no.  In the release profile addresses may wrap, so there it must declare all. -/
def exGraph2 : Graph :=
  [ .port,
    .reg ⟨.int .le .unsigned, 0, none, 1, .writeThrough, .rw, [], 0⟩,
    .reg ⟨.int .le .unsigned, 16, some (1, 4), 4, .writeThrough, .rw, [3], 0⟩,
    .reg ⟨.int .le .unsigned, 20, none, 4, .writeAround, .rw, [2], 0⟩,
    .reg ⟨.int .le .unsigned, 8, none, 2, .writeThrough, .rw, [], 0⟩ ]

example : Declared Profile.dev exGraph2 := by decide
example : ¬ Declared Profile.release exGraph2 := by decide

/-- the same register read at two selector positions, the selector switched in between
(cache keyed by address): the third read of the register is a hit -/
example :
    let h : List Op := [.value 2, .setValue 1 (.int 1), .value 2, .setValue 1 (.int 0), .value 2]
    let d : Dev := ⟨[0, 0, 0, 0, 0, 0, 0, 0, 0, 0, 0, 0, 0, 0, 0, 0, 1, 0, 0, 0, 2, 0, 0, 0], [], [], [], [], 0, []⟩
    (runHist defaultCache Profile.dev exGraph2 (initDefault exGraph2 d) h).1 =
        [.ok (.int 1), .ok .unit, .ok (.int 2), .ok .unit, .ok (.int 1)] ∧
      (runHist defaultCache Profile.dev exGraph2 (initDefault exGraph2 d) h).2.dev.log.length = 5 := by
  decide +kernel

/-- Raw `IPort::write`: every cachable register lists the port, so `PortDeclared` holds and a
history with a raw port write satisfies `HistOk` non-vacuously. -/
def exGraphP : Graph :=
  [ .port,
    .reg ⟨.int .le .unsigned, 0, none, 2, .writeThrough, .rw, [0], 0⟩,
    .reg ⟨.int .le .unsigned, 1, none, 1, .writeAround, .rw, [0], 0⟩ ]

def exHistP : List Op := [.value 1, .value 2, .portWrite 0 1 [9], .value 1, .value 2]

example : PortDeclared exGraphP 0 := by decide
example : Declared Profile.dev exGraphP ∧ Declared Profile.release exGraphP := by decide
example : HistOk exGraphP exHistP := by
  intro n a d h
  simp only [exHistP, List.mem_cons, reduceCtorEq, Op.portWrite.injEq, List.not_mem_nil,
    false_or, or_false] at h
  obtain ⟨rfl, _, _⟩ := h
  decide
/-- without the declaration the port write is outside `HistOk` -/
example : ¬ PortDeclared exGraph 0 := by decide

/-- both registers are re-read from the device after the raw port write -/
example :
    (runHist defaultCache Profile.dev exGraphP
      (initDefault exGraphP ⟨[1, 2, 0xAA, 0xBB], [], [], [], [], 0, []⟩) exHistP).1 =
      [.ok (.int 0x0201), .ok (.int 2), .ok .unit, .ok (.int 0x0901),
       .ok (.int 9)] := by
  decide +kernel

/-- dropping one sibling declaration is detected -/
example : ¬ Declared Profile.dev
    [ .port,
      .reg ⟨.masked .le .unsigned 0 3, 12, none, 1, .writeThrough, .rw, [2], 0⟩,
      .reg ⟨.masked .le .unsigned 4 7, 12, none, 1, .writeThrough, .rw, [], 0⟩ ] := by decide

/-! ## 1. Every primitive preserves coherence -/

private theorem rel_self {p : Profile} {g : Graph} {s : St Store} (h : Inv p g s.cache s.dev) :
    Rel p g s ⟨(), s.dev⟩ :=
  ⟨⟨rfl, rfl, rfl, rfl, rfl, rfl, logSub_refl _⟩, h⟩

/-- `read_and_cache` (raw register read / cache miss), including the device failure path. -/
theorem prim_preserve_readAndCache {p : Profile} {g : Graph} {s : St Store} {n : NodeId} {r : Reg}
    {a : Int} (buflen : Nat) (hI : Inv p g s.cache s.dev) (hn : g[n]? = some (.reg r))
    (hk : KeyAddr p g r a) :
    Inv p g (readAndCache defaultCache g n r a buflen s).2.cache
      (readAndCache defaultCache g n r a buflen s).2.dev :=
  (sim_readAndCache buflen hn hk s _ (rel_self hI)).2.1.2

/-- `with_cache_or_read` after the address is known (hit or miss). -/
theorem prim_preserve_cachedRead {p : Profile} {g : Graph} {s : St Store} {n : NodeId} {r : Reg}
    {a : Int} (hI : Inv p g s.cache s.dev) (hn : g[n]? = some (.reg r)) (hk : KeyAddr p g r a) :
    Inv p g (cachedRead defaultCache g n r a s).2.cache (cachedRead defaultCache g n r a s).2.dev :=
  (sim_cachedRead hn hk s _ (rel_self hI)).2.1.2

/-- `write_and_cache` after the address is known, for all three modes, including a rejected
device write and a `pPort` that is not a port.  This is where `Declared` is needed. -/
theorem prim_preserve_writeAt {p : Profile} {g : Graph} (hD : Declared p g) {s : St Store}
    {n : NodeId} {r : Reg} {a : Int} {buf : Bytes} (hI : Inv p g s.cache s.dev)
    (hn : g[n]? = some (.reg r)) (hk : KeyAddr p g r a) (hlen : buf.length = r.len) :
    Inv p g (writeAt defaultCache g n r a buf s).2.cache (writeAt defaultCache g n r a buf s).2.dev :=
  (sim_writeAt hD hn hk hlen s _ (rel_self hI)).2.1.2

/-- `invalidate_cache_by`, `invalidate_cache_of`, `clear_cache`. -/
theorem prim_preserve_invalidations {p : Profile} {g : Graph} {s : St Store}
    (hI : Inv p g s.cache s.dev) (n : NodeId) :
    Inv p g (invBy defaultCache n s).2.cache (invBy defaultCache n s).2.dev ∧
    Inv p g (invOf defaultCache n s).2.cache (invOf defaultCache n s).2.dev ∧
    Inv p g (clearCache defaultCache s).2.cache (clearCache defaultCache s).2.dev :=
  ⟨inv_invalidateBy hI n, inv_invalidateOf hI n, inv_clear hI⟩

/-- raw `IPort::write` (declared port) and `IPort::read`. -/
theorem prim_preserve_port {p : Profile} {g : Graph} {s : St Store} (hI : Inv p g s.cache s.dev)
    (pn : NodeId) (a : Int) (buf : Bytes) (l : Nat) :
    (PortDeclared g pn →
      Inv p g (portWrite defaultCache g pn a buf s).2.cache (portWrite defaultCache g pn a buf s).2.dev) ∧
    Inv p g (portRead g pn a l s).2.cache (portRead g pn a l s).2.dev :=
  ⟨fun hP => (sim_portWrite hP a buf s _ (rel_self hI)).2.1.2,
   (sim_portRead pn a l s _ (rel_self hI)).2.1.2⟩

/-- Headline form: whatever single public operation runs, `Coherent` (and the key / table
invariants it rests on) holds afterwards. -/
theorem prim_preserve {p : Profile} {g : Graph} (hD : Declared p g) {s : St Store}
    (hI : Inv p g s.cache s.dev) (op : Op)
    (hop : ∀ n a d, op = .portWrite n a d → PortDeclared g n) :
    Coherent (run defaultCache p g s op).2.cache (run defaultCache p g s op).2.dev ∧
      Inv p g (run defaultCache p g s op).2.cache (run defaultCache p g s op).2.dev :=
  have h := (sim_run hD op hop (rel_self hI)).2.2
  ⟨h.coherent, h⟩

/-- the freshly built cache satisfies the invariant on every device -/
example (p : Profile) (d : Dev) : Inv p exGraph (initDefault exGraph d).cache (initDefault exGraph d).dev :=
  (rel_init p exGraph d).2

/-! ## 2. Simulation: cached and uncached runs are indistinguishable -/

/-- From any related pair of states, any history gives equal results (values, error classes,
panics) and related final states (equal device image, `Coherent` cache). -/
theorem sim_from {p : Profile} {g : Graph} (hD : Declared p g) (h : List Op) (hH : HistOk g h)
    {sC : St Store} {sU : St Unit} (hR : Rel p g sC sU) :
    (runHist defaultCache p g sC h).1 = (runHist sinkCache p g sU h).1 ∧
      (runHist defaultCache p g sC h).2.dev.mem = (runHist sinkCache p g sU h).2.dev.mem ∧
      Rel p g (runHist defaultCache p g sC h).2 (runHist sinkCache p g sU h).2 :=
  have := sim_runHist hD h hH hR
  ⟨this.1, this.2.1.mem, this.2⟩

/-- **sim**: for every declared description, device (image + rejection plan) and history,
the build with `DefaultCacheStore` and the build with `CacheSink` return identical results
and leave identical bytes in the device. -/
theorem sim (p : Profile) (g : Graph) (hD : Declared p g) (d : Dev) (h : List Op)
    (hH : HistOk g h) :
    (runHist defaultCache p g (initDefault g d) h).1 = (runHist sinkCache p g (initSink d) h).1 ∧
      (runHist defaultCache p g (initDefault g d) h).2.dev.mem =
        (runHist sinkCache p g (initSink d) h).2.dev.mem :=
  have := sim_from hD h hH (rel_init p g d)
  ⟨this.1, this.2.1⟩

/-- the example histories (hits, all three modes, overlap, struct entries, selector-addressed
raw write, rejected write, command path) with their results -/
example :
    (runHist defaultCache Profile.dev exGraph (initDefault exGraph exDev) exHist1).1 =
      [.ok (.int 0x04030201), .ok (.int 0x04030201), .ok .unit, .ok (.int 0xFEFF0201),
       .ok (.int (-2))] := by
  decide +kernel

example :
    (runHist defaultCache Profile.dev exGraph (initDefault exGraph exDev) exHist2).1 =
      [.ok (.int 5), .ok (.int 10), .ok .unit, .ok (.int 5), .ok (.int 3)] := by
  decide +kernel

example :
    (runHist defaultCache Profile.dev exGraph (initDefault exGraph exDev) exHist3).1 =
      [.ok (.int 0x04030201), .ok .unit, .ok (.int 0x0403FFEE), .err .device, .ok (.bool true),
       .ok (.int 0x0304)] := by
  decide +kernel

/-- Enumeration and Boolean features: write through the Enumeration (invalidates node 2, which
lists the written register), a Boolean write the device rejects, a Boolean whose register
holds neither OnValue nor OffValue -/
example :
    (runHist defaultCache Profile.dev exGraph (initDefault exGraph exDev)
      [.value 2, .setValue 10 (.int 2), .value 10, .value 2, .setValue 9 (.bool true), .value 9]).1 =
      [.ok (.int 0x04030201), .ok .unit, .ok (.int 2), .ok (.int 0x02000201), .err .device,
       .err .invalidNode] := by
  decide +kernel

/-! ## 3. Caching never adds device accesses -/

theorem LogSub.length_le {lc lu : List Access} (h : LogSub lc lu) : lc.length ≤ lu.length := by
  induction h with
  | nil => exact Nat.le_refl _
  | keep a _ ih => simp only [List.length_cons]; omega
  | dropR a _ _ _ ih => simp only [List.length_cons]; omega

theorem LogSub.writes_eq {lc lu : List Access} (h : LogSub lc lu) :
    lc.filter (·.write) = lu.filter (·.write) := by
  induction h with
  | nil => rfl
  | keep a _ ih => simp only [List.filter_cons, ih]
  | dropR a hw _ _ ih => simp only [List.filter_cons, hw, ih]; rfl

theorem LogSub.sublist {lc lu : List Access} (h : LogSub lc lu) : lc.Sublist lu := by
  induction h with
  | nil => exact .slnil
  | keep a _ ih => exact .cons_cons a ih
  | dropR a _ _ _ ih => exact .cons a ih

/-- **log_sub**: the cached access log is the uncached log minus some successful reads. -/
theorem log_sub (p : Profile) (g : Graph) (hD : Declared p g) (d : Dev) (h : List Op)
    (hH : HistOk g h) :
    LogSub (runHist defaultCache p g (initDefault g d) h).2.dev.log
      (runHist sinkCache p g (initSink d) h).2.dev.log :=
  (sim_from hD h hH (rel_init p g d)).2.2.1.log

/-- … hence never more accesses, the very same write attempts in the same order (data and
outcome included), and the cached log is a sublist of the uncached one. -/
theorem log_sub_writes (p : Profile) (g : Graph) (hD : Declared p g) (d : Dev) (h : List Op)
    (hH : HistOk g h) :
    let lc := (runHist defaultCache p g (initDefault g d) h).2.dev.log
    let lu := (runHist sinkCache p g (initSink d) h).2.dev.log
    lc.length ≤ lu.length ∧ lc.filter (·.write) = lu.filter (·.write) ∧ lc.Sublist lu :=
  have := log_sub p g hD d h hH
  ⟨this.length_le, this.writes_eq, this.sublist⟩

/-- in the examples the cache really saves reads -/
example :
    ((runHist defaultCache Profile.dev exGraph (initDefault exGraph exDev) exHist2).2.dev.log.length,
     (runHist sinkCache Profile.dev exGraph (initSink exDev) exHist2).2.dev.log.length) = (4, 6) := by
  decide +kernel

/-! ## 4. A NoCache register is never served from memory -/

/-- `NoCacheAbsent` (no cache entry belongs to a NoCache register) holds for the freshly built
store and after every history — on EVERY description and device, declared or not. -/
theorem nocache_absent_invariant (p : Profile) (g : Graph) (d : Dev) (h : List Op) :
    NoCacheAbsent g (initDefault g d).cache ∧
      NoCacheAbsent g (runHist defaultCache p g (initDefault g d) h).2.cache :=
  ⟨noCacheAbsent_init g d,
   keeps_runHist (storeInv_noCacheAbsent g) h _ (noCacheAbsent_init g d)⟩

/-- … and every single operation preserves it. -/
theorem nocache_absent_step (p : Profile) (g : Graph) (s : St Store) (op : Op)
    (hA : NoCacheAbsent g s.cache) : NoCacheAbsent g (run defaultCache p g s op).2.cache :=
  keeps_evalOp (storeInv_noCacheAbsent g) (fuelOf g) op s hA

/-- **nocache_always_reads** (primitive level): in every such state `value`/`read` of a
`NoCache` register goes to `read_and_cache`, and a successful `read_and_cache` appends
exactly one successful R entry for the register's key. -/
theorem nocache_always_reads {g : Graph} {s : St Store} (hA : NoCacheAbsent g s.cache)
    {n : NodeId} {r : Reg} (hn : g[n]? = some (.reg r)) (hm : r.mode = .noCache) (a : Int) :
    cachedRead defaultCache g n r a s = readAndCache defaultCache g n r a r.len s ∧
    ∀ buflen bs s', readAndCache defaultCache g n r a buflen s = (.ok bs, s') →
      s'.dev.log = ⟨false, a, r.len, bs, true⟩ :: s.dev.log ∧ s.dev.peek a r.len = some bs :=
  ⟨cachedRead_nocache hA hn hm a, fun _ _ _ h => readAndCache_ok_log h⟩

/-- **nocache_always_reads, operation level**: a successful `value` (IInteger / IFloat /
IString) of a `NoCache` register — cache enabled, any description, any reachable state —
performed a successful device read of the register's length as its last device access:
the log is `R(a, len, bytes) :: pre ++ old log`. -/
theorem nocache_value_always_reads {p : Profile} {g : Graph} {s s' : St Store}
    (hA : NoCacheAbsent g s.cache) {n : NodeId} {r : Reg} (hn : g[n]? = some (.reg r))
    (hm : r.mode = .noCache) {v : Val} (h : run defaultCache p g s (.value n) = (.ok v, s')) :
    ∃ a bs pre, s'.dev.log = ⟨false, a, r.len, bs, true⟩ :: (pre ++ s.dev.log) :=
  opValue_nocache hA hn hm h

/-- raw `IRegister::read` is never served from the cache, whatever the mode, and returns the
bytes the device delivered. -/
theorem raw_read_always_reads {p : Profile} {g : Graph} {s s' : St Store} {n : NodeId} {r : Reg}
    (hn : g[n]? = some (.reg r)) {buflen : Nat} {v : Val}
    (h : run defaultCache p g s (.read n buflen) = (.ok v, s')) :
    ∃ a bs pre, v = .bytes bs ∧ s'.dev.log = ⟨false, a, r.len, bs, true⟩ :: (pre ++ s.dev.log) :=
  opRead_reads hn h

/-- node 1 of the example is a NoCache register: two reads, two device accesses -/
example :
    (runHist defaultCache Profile.dev exGraph (initDefault exGraph exDev) [.value 1, .value 1]).2.dev.log =
      [⟨false, 0, 1, [1], true⟩, ⟨false, 0, 1, [1], true⟩] := by
  decide +kernel

/-! ## 5. A register's own write is never hidden by an older cached read -/

/-- **own_write_visible** (cache enabled, no hypothesis on the description or the state):
after a successful write of `buf` through register `n` at key `(a, len)`, the next read of `n`
at the same key returns `buf`, whatever was cached before — for WriteThrough, WriteAround
and NoCache. -/
theorem own_write_visible {g : Graph} {s s' : St Store} {n : NodeId} {r : Reg} {a : Int}
    {buf : Bytes} (hlen : buf.length = r.len)
    (hw : writeAt defaultCache g n r a buf s = (.ok (), s')) :
    (cachedRead defaultCache g n r a s').1 = .ok buf := by
  rw [writeAt_eq] at hw
  split at hw
  · rename_i hport
    obtain ⟨h1, h2⟩ := Prod.mk.inj hw
    have hok : s.dev.writeOk a buf.length = true := by
      rw [write_fst] at h1
      split at h1
      · assumption
      · cases h1
    have hpk : s'.dev.peek a r.len = some buf := by
      rw [← h2, ← hlen]; exact peek_write_same hok
    by_cases hwt : r.mode = .writeThrough
    · have hget : s'.cache.get n a r.len = some buf := by
        rw [← h2]
        show Store.get (if _ then Store.cache _ n a r.len buf else _) n a r.len = some buf
        rw [if_pos ⟨hok, hwt⟩, get_cache, if_pos ⟨rfl, rfl, rfl⟩]
      show (match Store.get s'.cache n a r.len with
        | some bs => (Res.ok bs, s')
        | none => readAndCache defaultCache g n r a r.len s').1 = _
      rw [hget]
    · have hget : s'.cache.get n a r.len = none := by
        rw [← h2]
        show Store.get (if _ then _ else Store.invalidateOf _ n) n a r.len = none
        rw [if_neg (fun h => hwt h.2), get_invalidateOf, if_pos rfl]
      show (match Store.get s'.cache n a r.len with
        | some bs => (Res.ok bs, s')
        | none => readAndCache defaultCache g n r a r.len s').1 = _
      rw [hget]
      dsimp only
      rw [readAndCache_eq, if_neg (by simp), if_pos hport, hpk]
  · cases hw

/-- **own_write_visible, operation level** (registers with a constant address): after a
successful raw `IRegister::write` of `buf` through an IntReg — whatever its caching mode,
whatever the description declares and whatever an earlier read left in the cache — the next
`value()` decodes `buf`. -/
theorem own_write_visible_op {p : Profile} {g : Graph} {s s' : St Store}
    {n : NodeId} {r : Reg} (hn : g[n]? = some (.reg r))
    (hsel : r.sel = none) {e : Endian} {sg : Sign} (hk : r.kind = .int e sg) {buf : Bytes} {v : Val}
    (hw : run defaultCache p g s (.write n buf) = (.ok v, s')) :
    (run defaultCache p g s' (.value n)).1 =
      (match intFromSlice buf e sg with
       | .ok i => .ok (.int i)
       | .err x => .err x
       | .panic => .panic) := by
  obtain ⟨hlen, hwa⟩ := opWrite_static_inv hn hsel hw
  have hvis := own_write_visible hlen hwa
  simp only [run, evalOp, opValue, hn, hk, fuelOf, evalInt]
  rw [bind_apply, bind_apply, wcor_static _ _ _ hsel, hvis]
  dsimp only [M.lift]
  cases intFromSlice buf e sg <;> rfl

/-- the WriteAround instance that used to fail (F-C04-1): read 0, write 7, read → 7 -/
example :
    (runHist defaultCache Profile.dev
      [.port, .reg ⟨.int .le .unsigned, 0, none, 2, .writeAround, .rw, [], 0⟩]
      (initDefault [.port, .reg ⟨.int .le .unsigned, 0, none, 2, .writeAround, .rw, [], 0⟩]
        ⟨[0, 0, 0xAA, 0xBB], [], [], [], [], 0, []⟩)
      [.value 1, .setValue 1 (.int 7), .value 1]).1 = [.ok (.int 0), .ok .unit, .ok (.int 7)] := by
  decide +kernel

/-! ## 6. Feature nodes invalidate before they forward (mechanism clause)

`Declared` accepts "t lists the writing register or its port".  Descriptions that list only a
FEATURE node above the writer (Integer / Boolean / Enumeration / Command) are not covered by
`sim`; for them the theorems below state the mechanism outright, and the harness evaluates the
cached-vs-uncached oracle on such graphs (`declared_for_history` in `c04.rs`). -/

/-- Every feature write starts by `invalidate_cache_by(self)` and only then forwards:
`IntegerNode::set_value` (`integer.rs:99`), `EnumerationNode::set_entry_by_value`
(`enumeration.rs:141`, for a declared entry value), `BooleanNode::set_value` (`boolean.rs:90`),
`CommandNode::execute` (`command.rs:60`) — for every cache implementation. -/
theorem feature_write_invalidates_first {κ : Type} (ops : CacheOps κ) (p : Profile) (g : Graph)
    (fuel : Nat) (n : NodeId) :
    (∀ pv cs v, g[n]? = some (.integer pv cs) →
      setInt ops p g (fuel + 1) n v =
        (invBy ops n >>= fun _ => setInt ops p g fuel pv v >>= fun _ =>
          forEachM (fun c => setInt ops p g fuel c v) cs)) ∧
    (∀ pv vals v, g[n]? = some (.enumeration pv vals) → vals.contains v = true →
      setInt ops p g (fuel + 1) n v = (invBy ops n >>= fun _ => setInt ops p g fuel pv v)) ∧
    (∀ pv on off b, g[n]? = some (.boolean pv on off) →
      opSetValue ops p g fuel n (.bool b) =
        (invBy ops n >>= fun _ => setInt ops p g fuel pv (if b then on else off) >>= fun _ =>
          M.pure .unit)) ∧
    (∀ pv cv, g[n]? = some (.command pv cv) →
      opExecute ops p g fuel n =
        (invBy ops n >>= fun _ => setInt ops p g fuel pv cv >>= fun _ => M.pure .unit)) := by
  refine ⟨?_, ?_, ?_, ?_⟩
  · intro pv cs v hn
    simp only [setInt, hn]
  · intro pv vals v hn hv
    simp only [setInt, hn, hv, if_true]
  · intro pv on off b hn
    simp only [opSetValue, hn]
  · intro pv cv hn
    simp only [opExecute, hn]

/-- … and right after that first step no register that lists the feature as `pInvalidator`
has a cache entry (default cache, any state whose table is the parser's). -/
theorem feature_invalidate_clears_listers {g : Graph} {s : St Store} (hT : TableOk g s.cache)
    (f t : NodeId) (rt : Reg) (ht : g[t]? = some (.reg rt)) (hf : f ∈ rt.invs) (a : Int) (l : Nat) :
    (invBy defaultCache f s).2.cache.get t a l = none := by
  show (Store.invalidateBy s.cache f).get t a l = none
  rw [get_invalidateBy, if_pos (hT t rt f ht hf)]

example : TableOk exGraph (initDefault exGraph exDev).cache := buildStore_table exGraph

/-! ## 7. Feature-level declarations: "… or a feature node through which the write is issued"

`DeclaredFor p g h` (decidable, `Cache.declaredForB`): operation by operation, every register
write the operation can issue is declared by each cachable register `t` it may overlap through
the writing register, its port, or a feature node through which THIS operation issues the
write — `IntegerNode::set_value` (`integer.rs:99`), `EnumerationNode::set_entry_by_value`
(`enumeration.rs:141`), `BooleanNode::set_value` (`boolean.rs:90`), `CommandNode::execute`
(`command.rs:60`) each call `invalidate_cache_by(self)` before forwarding along `pValue` /
`pValueCopy`.  The feature counts only for registers outside the operation's footprint (what it
writes, and the selector registers it reads for the addresses): the code does NOT invalidate
again after re-populating such a register on the way. -/

/-- A cached register (node 1) that lists ONLY the Integer feature above the register that
overlaps it (node 2, address 1 inside node 1's range); a Command and a Boolean on top of the
Integer. -/
def exGraphV : Graph :=
  [ .port,
    .reg ⟨.int .le .unsigned, 0, none, 2, .writeThrough, .rw, [3], 0⟩,
    .reg ⟨.int .le .unsigned, 1, none, 1, .noCache, .rw, [], 0⟩,
    .integer 2 [],
    .command 3 7,
    .boolean 3 5 6 ]

def exHistV : List Op :=
  [.value 1, .setValue 3 (.int 9), .value 1, .execute 4, .value 1, .setValue 5 (.bool true), .value 1]

/-- not declared in the narrow sense, declared for histories that write through the features,
not declared for a direct write of the register below the feature -/
example : ¬ Declared Profile.dev exGraphV := by decide
example : DeclaredFor Profile.dev exGraphV exHistV ∧ DeclaredFor Profile.release exGraphV exHistV := by
  decide
example : ¬ DeclaredFor Profile.dev exGraphV [.value 1, .setValue 2 (.int 9), .value 1] := by decide
example : ¬ DeclaredFor Profile.dev exGraphV [.value 1, .write 2 [9], .value 1] := by decide

/-- `Declared` + `HistOk` is the special case that uses no feature-level declaration. -/
theorem declared_implies_declaredFor {p : Profile} {g : Graph} (hD : Declared p g) (h : List Op)
    (hH : HistOk g h) : DeclaredFor p g h :=
  declaredFor_of_declared hD h hH

/-- **sim, feature-level declarations included**: for every description, device (image and
rejection plan) and history with `DeclaredFor p g h`, the cached and the uncached build return
identical results and leave identical device bytes — from any related pair of states. -/
theorem sim_via_from {p : Profile} {g : Graph} (h : List Op) (hH : DeclaredFor p g h)
    {sC : St Store} {sU : St Unit} (hR : Rel p g sC sU) :
    (runHist defaultCache p g sC h).1 = (runHist sinkCache p g sU h).1 ∧
      (runHist defaultCache p g sC h).2.dev.mem = (runHist sinkCache p g sU h).2.dev.mem ∧
      Rel p g (runHist defaultCache p g sC h).2 (runHist sinkCache p g sU h).2 :=
  have := sim_runHist_via h hH hR
  ⟨this.1, this.2.1.mem, this.2⟩

theorem sim_via (p : Profile) (g : Graph) (d : Dev) (h : List Op) (hH : DeclaredFor p g h) :
    (runHist defaultCache p g (initDefault g d) h).1 = (runHist sinkCache p g (initSink d) h).1 ∧
      (runHist defaultCache p g (initDefault g d) h).2.dev.mem =
        (runHist sinkCache p g (initSink d) h).2.dev.mem :=
  have := sim_via_from h hH (rel_init p g d)
  ⟨this.1, this.2.1⟩

/-- **log_sub, feature-level declarations included**: the cached log is the uncached log minus
some successful reads (never more accesses, same write attempts). -/
theorem log_sub_via (p : Profile) (g : Graph) (d : Dev) (h : List Op) (hH : DeclaredFor p g h) :
    LogSub (runHist defaultCache p g (initDefault g d) h).2.dev.log
      (runHist sinkCache p g (initSink d) h).2.dev.log :=
  (sim_via_from h hH (rel_init p g d)).2.2.1.log

/-- every declared operation preserves coherence (`Inv`), feature-level declarations included -/
theorem prim_preserve_via {p : Profile} {g : Graph} {s : St Store} (hI : Inv p g s.cache s.dev)
    (op : Op) (hop : opOk p g op = true) :
    Coherent (run defaultCache p g s op).2.cache (run defaultCache p g s op).2.dev ∧
      Inv p g (run defaultCache p g s op).2.cache (run defaultCache p g s op).2.dev :=
  have h := (sim_run_via op hop (rel_self hI)).2.2
  ⟨h.coherent, h⟩

/-- the example: through the Integer, the Command and the Boolean the cached register is
re-read from the device each time; the direct write of the register below (not `DeclaredFor`)
really is stale with the cache — the hypothesis is needed -/
example :
    (runHist defaultCache Profile.dev exGraphV
      (initDefault exGraphV ⟨[1, 2, 0xAA, 0xBB], [], [], [], [], 0, []⟩) exHistV).1 =
      [.ok (.int 0x0201), .ok .unit, .ok (.int 0x0901), .ok .unit, .ok (.int 0x0701), .ok .unit,
       .ok (.int 0x0501)] := by
  decide +kernel

example :
    (runHist defaultCache Profile.dev exGraphV
      (initDefault exGraphV ⟨[1, 2, 0xAA, 0xBB], [], [], [], [], 0, []⟩)
      [.value 1, .setValue 2 (.int 9), .value 1]).1 ≠
    (runHist sinkCache Profile.dev exGraphV
      (initSink ⟨[1, 2, 0xAA, 0xBB], [], [], [], [], 0, []⟩)
      [.value 1, .setValue 2 (.int 9), .value 1]).1 := by
  decide +kernel

/-! ## 8. Access queries under the cache (`is_readable` / `is_writable` with controllers)

`Op.isReadable` / `Op.isWritable` evaluate `pIsImplemented` / `pIsAvailable` / `pIsLocked`
(`utils::bool_from_id`: a Boolean node's value, else an integer node's value `!= 0`) and the
`pValue` chain through the SAME cached read path; `is_done` consults `is_readable` of its target.
They are ordinary operations of `runHist`, so `sim`, `sim_via`, `log_sub` and
`nocache_absent_invariant` cover histories that contain them. -/

/-- Taken alone, an access query is transparent on EVERY description — it writes nothing, so no
declaration is needed: equal answers (or error classes), related final states. -/
theorem access_queries_transparent {p : Profile} {g : Graph} (n : NodeId) {sC : St Store}
    {sU : St Unit} (hR : Rel p g sC sU) :
    ((run defaultCache p g sC (.isReadable n)).1 = (run sinkCache p g sU (.isReadable n)).1 ∧
      Rel p g (run defaultCache p g sC (.isReadable n)).2 (run sinkCache p g sU (.isReadable n)).2) ∧
    ((run defaultCache p g sC (.isWritable n)).1 = (run sinkCache p g sU (.isWritable n)).1 ∧
      Rel p g (run defaultCache p g sC (.isWritable n)).2 (run sinkCache p g sU (.isWritable n)).2) :=
  ⟨run_of_sim (sim_opIsReadable (fuelOf g) n) hR, run_of_sim (sim_opIsWritable (fuelOf g) n) hR⟩

/-- A register (node 2) available while node 1 is non-zero and locked by a Boolean over node 1;
an Integer (node 4) implemented per the Boolean and locked by node 1.  Trailing pseudo node: the
controller table. -/
def exGraphC : Graph :=
  [ .port,
    .reg ⟨.int .le .unsigned, 0, none, 1, .writeThrough, .rw, [], 0⟩,
    .reg ⟨.int .le .unsigned, 1, none, 1, .writeThrough, .rw, [], 0⟩,
    .boolean 1 1 0,
    .integer 2 [],
    .ctls [(2, (none, some 1, some 3)), (4, (some 3, none, some 1))] ]

def exHistC : List Op :=
  [.isReadable 2, .isWritable 2, .isReadable 4, .isWritable 4, .setValue 1 (.int 0), .isReadable 2,
   .isWritable 4, .isReadable 2]

example : Declared Profile.dev exGraphC ∧ HistOk exGraphC exHistC := by
  refine ⟨by decide, ?_⟩
  intro n a d h
  simp [exHistC] at h

/-- the answers follow the controllers (and change when the controlling register is written);
the cached run needs 2 device accesses, the uncached one 11 -/
example :
    (runHist defaultCache Profile.dev exGraphC
      (initDefault exGraphC ⟨[1, 0, 0xAA, 0xBB], [], [], [], [], 0, []⟩) exHistC).1 =
      [.ok (.bool true), .ok (.bool false), .ok (.bool true), .ok (.bool false), .ok .unit,
       .ok (.bool false), .ok (.bool false), .ok (.bool false)] := by
  decide +kernel

example :
    (runHist defaultCache Profile.dev exGraphC
      (initDefault exGraphC ⟨[1, 0, 0xAA, 0xBB], [], [], [], [], 0, []⟩) exHistC).2.dev.log.length = 2 := by
  decide +kernel

/-- the partially applied, rejected write that used to fail (F-C04-3): WriteThrough register,
read `0x11111111`, `set_value(0x22222222)` on a device that applies two bytes and then reports an
error, read again → what the device holds (`0x11112222`), not the stale cached value -/
example :
    (runHist defaultCache Profile.dev
      [.port, .reg ⟨.int .le .unsigned, 0, none, 4, .writeThrough, .rw, [], 0⟩]
      (initDefault [.port, .reg ⟨.int .le .unsigned, 0, none, 4, .writeThrough, .rw, [], 0⟩]
        ⟨[0x11, 0x11, 0x11, 0x11], [], [], [], [(0, (2, []))], 0, []⟩)
      [.value 1, .setValue 1 (.int 0x22222222), .value 1]).1 =
      [.ok (.int 0x11111111), .err .device, .ok (.int 0x11112222)] := by
  decide +kernel

/-! ## 9. `clear_cache` keeps the `pInvalidator` declarations

`DefaultCacheStore::clear` (`store.rs`) empties the value store only; the `invalidators` table
built by the parser stays.  (A `clear` that resets the whole store to `Default` would make every
later `invalidate_cache_by` a no-op: registers cached after the clear would never be dropped.) -/

/-- **clear_preserves_invalidators** (primitive level, every state): `clear_cache` removes every
cache entry, leaves the invalidator table (hence the targets of every `invalidate_cache_by`) and
the device untouched. -/
theorem clear_preserves_invalidators (s : St Store) :
    (clearCache defaultCache s).2.cache.invalidators = s.cache.invalidators ∧
    (∀ m, (clearCache defaultCache s).2.cache.targets m = s.cache.targets m) ∧
    (∀ n a l, (clearCache defaultCache s).2.cache.get n a l = none) ∧
    (clearCache defaultCache s).2.dev = s.dev :=
  ⟨invalidators_clear _, fun m => targets_congr (invalidators_clear _) m,
   fun n a l => get_clear _ n a l, rfl⟩

/-- **invalidators_invariant**: on EVERY description (declared or not), device and history —
with `clear_cache` anywhere in it — the invalidator table after the history is the one the
parser built, so `TableOk` (every `pInvalidator` registration is present) holds in every
reachable state. -/
theorem invalidators_invariant (p : Profile) (g : Graph) (d : Dev) (h : List Op) :
    (runHist defaultCache p g (initDefault g d) h).2.cache.invalidators = (buildStore g).invalidators ∧
      TableOk g (runHist defaultCache p g (initDefault g d) h).2.cache :=
  have := invalidators_runHist p g (initDefault g d) h
  ⟨this, tableOk_congr this (buildStore_table g)⟩

/-- … and from any state, for one operation or a history. -/
theorem invalidators_preserved (p : Profile) (g : Graph) (s : St Store) (op : Op) (h : List Op) :
    (run defaultCache p g s op).2.cache.invalidators = s.cache.invalidators ∧
      (runHist defaultCache p g s h).2.cache.invalidators = s.cache.invalidators :=
  ⟨invalidators_run p g s op, invalidators_runHist p g s h⟩

/-- Consequence: in every reachable state of every description — after any number of clears — a
feature's / register's `invalidate_cache_by(f)` still drops every register that lists `f`. -/
theorem listers_dropped_after_any_history (p : Profile) (g : Graph) (d : Dev) (h : List Op)
    (f t : NodeId) (rt : Reg) (ht : g[t]? = some (.reg rt)) (hf : f ∈ rt.invs) (a : Int) (l : Nat) :
    (invBy defaultCache f (runHist defaultCache p g (initDefault g d) h).2).2.cache.get t a l = none :=
  feature_invalidate_clears_listers (invalidators_invariant p g d h).2 f t rt ht hf a l

/-- **clear_cache is a no-op for the observer**: clearing the cache of a state related to an
uncached state leaves it related to the SAME uncached state, so every declared continuation
returns what the uncached build returns without the clear. -/
theorem clear_cache_noop {p : Profile} {g : Graph} {sC : St Store} {sU : St Unit}
    (hR : Rel p g sC sU) (h : List Op) (hH : DeclaredFor p g h) :
    (run defaultCache p g sC .clearCache).1 = .ok .unit ∧
      Rel p g (run defaultCache p g sC .clearCache).2 sU ∧
      (runHist defaultCache p g (run defaultCache p g sC .clearCache).2 h).1 =
        (runHist sinkCache p g sU h).1 ∧
      (runHist defaultCache p g (run defaultCache p g sC .clearCache).2 h).2.dev.mem =
        (runHist sinkCache p g sU h).2.dev.mem :=
  have hR' : Rel p g (run defaultCache p g sC .clearCache).2 sU := ⟨hR.1, inv_clear hR.2⟩
  have := sim_via_from h hH hR'
  ⟨rfl, hR', this.1, this.2.1⟩

/-- **sim over histories with arbitrary clears**: inserting `clear_cache` anywhere in a history
keeps it inside `HistOk` / `DeclaredFor`, so `sim` and `sim_via` apply to it. -/
theorem sim_clear_anywhere (p : Profile) (g : Graph) (hD : Declared p g) (d : Dev) (h1 h2 : List Op)
    (hH : HistOk g (h1 ++ h2)) :
    (runHist defaultCache p g (initDefault g d) (h1 ++ .clearCache :: h2)).1 =
        (runHist sinkCache p g (initSink d) (h1 ++ .clearCache :: h2)).1 ∧
      (runHist defaultCache p g (initDefault g d) (h1 ++ .clearCache :: h2)).2.dev.mem =
        (runHist sinkCache p g (initSink d) (h1 ++ .clearCache :: h2)).2.dev.mem :=
  sim p g hD d _ (histOk_insert_clear hH)

theorem sim_via_clear_anywhere (p : Profile) (g : Graph) (d : Dev) (h1 h2 : List Op)
    (hH : DeclaredFor p g (h1 ++ h2)) :
    (runHist defaultCache p g (initDefault g d) (h1 ++ .clearCache :: h2)).1 =
        (runHist sinkCache p g (initSink d) (h1 ++ .clearCache :: h2)).1 ∧
      (runHist defaultCache p g (initDefault g d) (h1 ++ .clearCache :: h2)).2.dev.mem =
        (runHist sinkCache p g (initSink d) (h1 ++ .clearCache :: h2)).2.dev.mem :=
  sim_via p g d _ (declaredFor_insert_clear hH)

/-- populate, clear, re-populate, write through the overlapping register: the entry cached
AFTER the clear is still invalidated (this is what a `clear` that wipes the table breaks) -/
example :
    (runHist defaultCache Profile.dev exGraph (initDefault exGraph exDev)
      [.value 2, .clearCache, .value 2, .setValue 3 (.int (-2)), .value 2]).1 =
      [.ok (.int 0x04030201), .ok .unit, .ok (.int 0x04030201), .ok .unit, .ok (.int 0xFEFF0201)] ∧
    (runHist defaultCache Profile.dev exGraph (initDefault exGraph exDev)
      [.value 2, .clearCache, .value 2]).2.cache.invalidators = (buildStore exGraph).invalidators ∧
    (runHist defaultCache Profile.dev exGraph (initDefault exGraph exDev)
      [.value 2, .clearCache, .value 2]).2.dev.log.length = 2 := by
  decide +kernel

/-! ## 10. `Command::execute` whose device write is applied but reported as failed

`CommandNode::execute` (`command.rs:54-64`) runs `invalidate_cache_by(self)` BEFORE it forwards
the write along `pValue`, so the registers that list the Command node are dropped even when the
write comes back as an error (acknowledge lost, partially applied, rejected). -/

/-- **execute_invalidates_before_write**: for a Command `n` whose `execute` is declared
(`DeclaredFor` vocabulary: `opOk p g (.execute n)`), from any related pair of states and on every
device of the faulty-device alphabet: the cached and the uncached build return the same result
(`.ok`, or `.err .device` for a write the device applied but did not acknowledge), the states stay
related (equal device bytes, coherent cache), and every register that lists the Command node and
is outside the operation's footprint has NO cache entry afterwards — whatever the result was. -/
theorem execute_invalidates_before_write {p : Profile} {g : Graph} {n pv : NodeId} {cv : Int}
    (hn : g[n]? = some (.command pv cv)) (hop : opOk p g (.execute n) = true)
    {sC : St Store} {sU : St Unit} (hR : Rel p g sC sU) :
    (run defaultCache p g sC (.execute n)).1 = (run sinkCache p g sU (.execute n)).1 ∧
      Rel p g (run defaultCache p g sC (.execute n)).2 (run sinkCache p g sU (.execute n)).2 ∧
      ∀ t rt, g[t]? = some (.reg rt) → n ∈ rt.invs → protectedOf g pv t = true →
        ∀ a l, (run defaultCache p g sC (.execute n)).2.cache.get t a l = none := by
  obtain ⟨h1, h2, h3⟩ := execute_simA hn hop hR
  exact ⟨h1, h2, fun t rt ht hm hu a l => h3 t ⟨hu, rt, ht, n, List.mem_cons_self, hm⟩ a l⟩

/-- the device side of "applied but failed": the `k`-th write attempt planned as `k ↦ (m, junk)`
with `m ≥ len` on an otherwise acceptable range reports an error and leaves exactly the written
bytes in the image. -/
theorem lost_ack_write_applied (d : Dev) (a : Int) (data junk : Bytes) {m : Nat}
    (hal : d.allowed a data.length = true) (hp : alGet d.wcount d.rejP = some (m, junk))
    (hm : data.length ≤ m) :
    (d.write a data).1 = .err .device ∧ (d.write a data).2.mem = patch d.mem a.toNat data :=
  write_lost_ack d a data junk hal hp hm

/-- A cached register (node 1) that lists ONLY the Command (node 4) whose write — through the
Integer 3 into the NoCache register 2 at address 1 — lands inside its range. -/
def exGraphE : Graph :=
  [ .port,
    .reg ⟨.int .le .unsigned, 0, none, 2, .writeThrough, .rw, [4], 0⟩,
    .reg ⟨.int .le .unsigned, 1, none, 1, .noCache, .rw, [], 0⟩,
    .integer 2 [],
    .command 3 7 ]

/-- write attempt 0 is applied, its acknowledge lost -/
def exDevE : Dev := ⟨[1, 2, 0xAA, 0xBB], [], [], [], [(0, (1, []))], 0, []⟩

example : ¬ Declared Profile.dev exGraphE := by decide
example : opOk Profile.dev exGraphE (.execute 4) = true ∧ protectedOf exGraphE 3 1 = true ∧
    DeclaredFor Profile.dev exGraphE [.value 1, .execute 4, .value 1, .isDone 4] := by decide

/-- `execute` reports the device error, the device holds the command value, and the dependent
register is re-read from the device (not served stale) — in both builds -/
example :
    (runHist defaultCache Profile.dev exGraphE (initDefault exGraphE exDevE)
      [.value 1, .execute 4, .value 1, .isDone 4]).1 =
      [.ok (.int 0x0201), .err .device, .ok (.int 0x0701), .ok (.bool false)] ∧
    (runHist sinkCache Profile.dev exGraphE (initSink exDevE)
      [.value 1, .execute 4, .value 1, .isDone 4]).1 =
      [.ok (.int 0x0201), .err .device, .ok (.int 0x0701), .ok (.bool false)] ∧
    (runHist defaultCache Profile.dev exGraphE (initDefault exGraphE exDevE)
      [.value 1, .execute 4]).2.dev.mem = [1, 7, 0xAA, 0xBB] := by
  decide +kernel

/-! ## 11. Registers whose cache key varies (node-valued `<pLength>` / `<pAddress>` …)

The cache is keyed by `(nid, address, length)` (`store.rs`), and `RegisterBase` evaluates
`length` and `address` at every access (`register_base.rs:77-78, 121-129`).  The primitives of
the model take the register record and the address as ARGUMENTS, so an access of a register with
node-valued length `L` / address `a` is the primitive run with `{ r with len := L }` at `a`.
The theorems of this section hold at every key — no `KeyAddr`, no `KeysOk`, no description. -/

/-- **dynkey_read**: in a coherent state a read of register `n` at ANY key `(a, r.len)` returns,
when it succeeds, exactly the bytes the device holds for that range now (whether served from the
cache — e.g. from an entry cached before the key changed away and back — or read), leaves the
cache coherent and the device bytes unchanged. -/
theorem dynkey_read {g : Graph} {s : St Store} (hC : Coherent s.cache s.dev) (n : NodeId) (r : Reg)
    (a : Int) :
    (∀ bs, (cachedRead defaultCache g n r a s).1 = .ok bs → s.dev.peek a r.len = some bs) ∧
      Coherent (cachedRead defaultCache g n r a s).2.cache (cachedRead defaultCache g n r a s).2.dev ∧
      (cachedRead defaultCache g n r a s).2.dev.mem = s.dev.mem :=
  ⟨fun _ h => cachedRead_anykey_device hC n r a h, cachedRead_anykey_coherent hC n r a⟩

/-- **dynkey_write**: a write through register `n` at ANY key keeps the cache coherent — for all
three modes, an accepted / rejected / partially applied device write and a `pPort` that is not a
port — provided it is covered (`WriteCovered`): every cache entry whose range meets the written
range belongs to a register that lists `n` or `n`'s port, or to `n` itself (the write drops every
entry of `n`, under whatever key — F-C04-4). -/
theorem dynkey_write {g : Graph} {s : St Store} (hC : Coherent s.cache s.dev) (n : NodeId) (r : Reg)
    (a : Int) (buf : Bytes) (hlen : buf.length = r.len) (hW : WriteCovered s.cache n r a) :
    Coherent (writeAt defaultCache g n r a buf s).2.cache (writeAt defaultCache g n r a buf s).2.dev :=
  writeAt_anykey_coherent hC n r a buf hlen hW

/-- What a description must declare for `WriteCovered`: every OTHER register that owns a cache
entry (meeting the written range) lists the writer or the writer's port.  The writer need not
list itself, whatever keys it has been cached under. -/
theorem dynkey_covered {c : Store} {n : NodeId} {r : Reg} (a : Int) :
    ((∀ t a' l' bs, t ≠ n → c.get t a' l' = some bs → t ∈ c.targets n ∨ t ∈ c.targets r.port) →
      WriteCovered c n r a) ∧
    ((∀ t a' l' bs, t ≠ n → c.get t a' l' = some bs → overlaps a r.len a' l' = true →
        t ∈ c.targets n ∨ t ∈ c.targets r.port) → WriteCovered c n r a) :=
  ⟨writeCovered_of_all_listed a, writeCovered_of_overlapping_listed⟩

/-- The history of finding F-C04-4 (repaired in /repo, commit f43c726; the harness' self-key
probe keeps replaying it on the real code): a WriteThrough IntReg at address 8 whose length is 4,
then 2, then 4 again.  Read at `(8,4)`; write `22 22` at `(8,2)`; read at `(8,4)`.
`invs` is the register's own `pInvalidator` list. -/
def exDynKey (invs : List NodeId) : R Bytes × Option Bytes :=
  let r4 : Reg := ⟨.int .le .unsigned, 8, none, 4, .writeThrough, .rw, invs, 0⟩
  let r2 : Reg := { r4 with len := 2 }
  let g : Graph := [.port, .reg r4]
  let s0 := initDefault g ⟨[4, 0, 0, 0, 0, 0, 0, 0, 0x11, 0x11, 0x11, 0x11, 0, 0, 0, 0], [], [], [], [], 0, []⟩
  let s1 := (cachedRead defaultCache g 1 r4 8 s0).2
  let s2 := (writeAt defaultCache g 1 r2 8 [0x22, 0x22] s1).2
  ((cachedRead defaultCache g 1 r4 8 s2).1, s2.dev.peek 8 4)

/-- whatever the register declares — nothing, itself, its port — the second read returns what the
device holds (`22 22 11 11`); before the repair the undeclared case returned the stale
`11 11 11 11` cached under the old key -/
example : exDynKey [] = (.ok [0x22, 0x22, 0x11, 0x11], some [0x22, 0x22, 0x11, 0x11]) ∧
    exDynKey [1] = (.ok [0x22, 0x22, 0x11, 0x11], some [0x22, 0x22, 0x11, 0x11]) ∧
    exDynKey [0] = (.ok [0x22, 0x22, 0x11, 0x11], some [0x22, 0x22, 0x11, 0x11]) := by
  decide +kernel

/-! ## 12. Sequences of accesses at varying keys (`Model.CacheDyn`, tied to the real code)

`runKSteps` runs register accesses at explicit keys: `value` (= `with_cache_or_read` +
`int_from_slice`), raw `write`, raw `read`, `clear_cache`, and `skip` (a `set_value` of a
value-store node — how the key sources change).  The harness' dyn-key stream generates
descriptions whose `<pLength>` / `<pAddress>` name value-store Integers, drives the REAL code
through the node API (both builds) and compares results, image and log with `runKSteps`.
`AllListed g` (decidable, `Cache.allListedB`): every cachable register lists every OTHER register
of the description or that register's port. -/

/-- **dynkey_steps_coherent**: on every `AllListed` description, device (image and rejection
plan) and sequence of accesses at ARBITRARY, varying keys, the cache stays coherent (every entry,
under whatever key it was cached, equals the bytes the device holds now), the invalidator table
stays complete and entries belong to cachable registers. -/
theorem dynkey_steps_coherent (g : Graph) (hA : AllListed g) (d : Dev) (ks : List KStep) :
    DynInv g (runKSteps defaultCache g (initDefault g d) ks).2.cache
        (runKSteps defaultCache g (initDefault g d) ks).2.dev ∧
      Coherent (runKSteps defaultCache g (initDefault g d) ks).2.cache
        (runKSteps defaultCache g (initDefault g d) ks).2.dev :=
  have := dynInv_steps hA ks (dynInv_init g d)
  ⟨this, this.coherent⟩

/-- … and every single step preserves the invariant from any state. -/
theorem dynkey_step_preserves {g : Graph} (hA : AllListed g) (k : KStep) {s : St Store}
    (hI : DynInv g s.cache s.dev) :
    DynInv g (runKStep defaultCache g k s).2.cache (runKStep defaultCache g k s).2.dev :=
  dynInv_step hA k hI

/-- **dynkey_value_is_device**: hence, after any such sequence, a successful `value` of a
register at ANY key — the key it had before its sources changed away and back included — is the
decoding of the bytes the device holds for that range now, i.e. what the build without a cache
returns for the same access. -/
theorem dynkey_value_is_device (g : Graph) (hA : AllListed g) (d : Dev) (ks : List KStep)
    {n : NodeId} {a : Int} {len : Nat} {v : Val} {s' : St Store}
    (h : runKStep defaultCache g (.value n a len) (runKSteps defaultCache g (initDefault g d) ks).2 =
      (.ok v, s')) :
    ∃ r e sg bs i, g[n]? = some (.reg r) ∧ r.kind = .int e sg ∧
      (runKSteps defaultCache g (initDefault g d) ks).2.dev.peek a len = some bs ∧
      intFromSlice bs e sg = .ok i ∧ v = .int i :=
  kstep_value_device (dynkey_steps_coherent g hA d ks).2 h

/-- the description of `exDynKey`: a single register is `AllListed` whatever it lists; two
overlapping registers must list each other (or the port) -/
def exGraphK (invs : List NodeId) : Graph :=
  [.port, .reg ⟨.int .le .unsigned, 8, none, 4, .writeThrough, .rw, invs, 0⟩]

example : AllListed (exGraphK []) ∧ AllListed (exGraphK [1]) ∧ AllListed (exGraphK [0]) := by decide
example : ¬ AllListed (exGraphK [] ++ [.reg ⟨.int .le .unsigned, 9, none, 2, .writeAround, .rw, [1], 0⟩]) ∧
    AllListed (exGraphK [2] ++ [.reg ⟨.int .le .unsigned, 9, none, 2, .writeAround, .rw, [1], 0⟩]) := by
  decide

/-- the history of the harness' self-key probe as steps (length 4 → 2 → 4 at address 8): the
last read returns the device bytes in both builds (F-C04-4 repaired; before, the cached build
returned the stale `0x11111111`) -/
example :
    let d : Dev := ⟨[4, 0, 0, 0, 0, 0, 0, 0, 0x11, 0x11, 0x11, 0x11, 0, 0, 0, 0], [], [], [], [], 0, []⟩
    let ks : List KStep := [.value 1 8 4, .skip, .write 1 8 [0x22, 0x22], .skip, .value 1 8 4]
    (runKSteps defaultCache (exGraphK []) (initDefault (exGraphK []) d) ks).1 =
        [.ok (.int 0x11111111), .ok .unit, .ok .unit, .ok .unit, .ok (.int 0x11112222)] ∧
      (runKSteps sinkCache (exGraphK []) (initSink d) ks).1 =
        [.ok (.int 0x11111111), .ok .unit, .ok .unit, .ok .unit, .ok (.int 0x11112222)] ∧
      (runKSteps defaultCache (exGraphK []) (initDefault (exGraphK []) d) ks).2.dev.log.length = 3 := by
  decide +kernel

end CamVerif.C04
