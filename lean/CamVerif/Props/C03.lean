/-
C03 — Feature evaluation follows GenApi dataflow semantics.

Property theorems only.  Part 1: the mechanism clauses — each dataflow rule of the
property statement, stated outright about the interpreter `exec` / its dispatch
functions, for every graph, state, profile, `Ops` instance and every record `r` of
interface calls available for referenced nodes.  Part 2: meta-theorems (fuel).
-/
import CamVerif.Proofs.GenApiLemmas
import CamVerif.Proofs.C03Fuel
import CamVerif.Proofs.C03Spec
import CamVerif.Proofs.C03SpecW
import CamVerif.Proofs.C03SpecMore
import CamVerif.Proofs.C03SpecFormula
import CamVerif.Proofs.C03Total
import CamVerif.Proofs.C03Acyclic
namespace CamVerif.C03
open CamVerif CamVerif.GenApi CamVerif.GenApiSem

variable {F E : Type}

/-! ## Vocabulary -/

/-- Run write-class computations in order on the evolving state; the first one that does
not succeed ends the run with its outcome (the rest is never started). -/
def runSeq : List (M F Unit) → M F Unit
  | [] => fun s => (.ok (), s, [])
  | m :: ms => fun s =>
    match m s with
    | (.ok (), s', l) => match runSeq ms s' with | (r, s'', l') => (r, s'', l ++ l')
    | (.err e, s', l) => (.err e, s', l)
    | (.panic, s', l) => (.panic, s', l)

/-- `runSeq` really stops: once a member fails, whatever follows is irrelevant. -/
theorem runSeq_stops (pre : List (M F Unit)) (m : M F Unit) (post post' : List (M F Unit))
    (s : S F) (h : ∀ s1 l1, runSeq pre s = (.ok (), s1, l1) → ∃ e s2 l2, m s1 = (.err e, s2, l2)) :
    runSeq (pre ++ m :: post) s = runSeq (pre ++ m :: post') s := by
  induction pre generalizing s with
  | nil =>
    obtain ⟨e, s2, l2, hm⟩ := h s [] rfl
    simp [runSeq, hm]
  | cons p pre ih =>
    simp only [List.cons_append, runSeq]
    cases hp : p s with
    | mk r rest =>
      obtain ⟨s', l⟩ := rest
      cases r with
      | ok u =>
        cases u
        simp only
        rw [ih s' (fun s1 l1 h1 => h s1 (l ++ l1) (by simp [runSeq, hp, h1]))]
      | err e => rfl
      | panic => rfl

/-! ## pValue: reads come from pValue only; writes fan out to every pValueCopy -/

/-- **pvalue_read**: the value of an Integer node with `<pValue>` is the value of the
pValue node read through its own interface — integer kind: as is; float kind: `as i64`;
enumeration: its current integer value — and no `pValueCopy` is consulted. -/
theorem pvalue_read (cx : Ctx F E) (r : Rec F) (p : NodeId) (copies : List NodeId) :
    vkIntValue cx r (.pValue p copies) =
      (if isIntKind cx p then r.intValue p
       else if isFloatKind cx p then (do let f ← r.floatValue p; pure (cx.ops.f2i f))
       else if isEnumKind cx p then r.enumCurrentValue p
       else R.err .invalidNode) ∧
    vkFloatValue cx r (.pValue p copies) =
      (if isIntKind cx p then (do let i ← r.intValue p; pure (cx.ops.i2f i))
       else if isFloatKind cx p then r.floatValue p
       else if isEnumKind cx p then (do let i ← r.enumCurrentValue p; pure (cx.ops.i2f i))
       else R.err .invalidNode) := ⟨rfl, rfl⟩

/-- **pvalue_read** at the level of `exec`: reading an Integer node whose `<pValue>` is an
integer-kind node is reading that node (same answer, same final state). -/
theorem pvalue_read_exec (cx : Ctx F E) (fuel : Nat) (n p : NodeId) (b : Base) (copies : List NodeId)
    (mn mx : ImmOrPNode SlotId) (inc : ImmOrPNode Int) (st : St F)
    (hg : cx.graph n = some (.integer b (.pValue p copies) mn mx inc)) (hp : isIntKind cx p = true) :
    exec cx (fuel + 2) (.intValue n) st = exec cx (fuel + 1) (.intValue p) st := by
  simp only [exec, top, intValueF, hg, vkIntValue, nidIntValue, hp, if_true, execRec, step]

/-- **pvalue_fanout**: a write to a node with `<pValue>` goes to the pValue node, then to
each `<pValueCopy>` node in document order, always with the same value; the first
failure ends the write (later copies are not touched). -/
theorem pvalue_fanout (cx : Ctx F E) (r : Rec F) (p : NodeId) (copies : List NodeId) (v : Int) (fv : F) :
    vkIntSet cx r (.pValue p copies) v =
      runSeq (nidIntSet cx r p v :: copies.map fun c => nidIntSet cx r c v) ∧
    vkFloatSet cx r (.pValue p copies) fv =
      runSeq (nidFloatSet cx r p fv :: copies.map fun c => nidFloatSet cx r c fv) := by
  have hi : ∀ cs : List NodeId, copiesIntSet cx r cs v = runSeq (cs.map fun c => nidIntSet cx r c v) := by
    intro cs
    induction cs with
    | nil => rfl
    | cons c cs ih =>
      funext s
      simp only [copiesIntSet, List.map_cons, runSeq, ← ih]
      show M.bind _ _ s = _
      unfold M.bind
      cases nidIntSet cx r c v s with
      | mk x rest => obtain ⟨s', l⟩ := rest; cases x <;> rfl
  have hf : ∀ cs : List NodeId, copiesFloatSet cx r cs fv = runSeq (cs.map fun c => nidFloatSet cx r c fv) := by
    intro cs
    induction cs with
    | nil => rfl
    | cons c cs ih =>
      funext s
      simp only [copiesFloatSet, List.map_cons, runSeq, ← ih]
      show M.bind _ _ s = _
      unfold M.bind
      cases nidFloatSet cx r c fv s with
      | mk x rest => obtain ⟨s', l⟩ := rest; cases x <;> rfl
  constructor
  · funext s
    simp only [vkIntSet, pValueIntSet, runSeq, ← hi]
    show M.bind _ _ s = _
    unfold M.bind
    cases nidIntSet cx r p v s with
    | mk x rest => obtain ⟨s', l⟩ := rest; cases x <;> rfl
  · funext s
    simp only [vkFloatSet, pValueFloatSet, runSeq, ← hf]
    show M.bind _ _ s = _
    unfold M.bind
    cases nidFloatSet cx r p fv s with
    | mk x rest => obtain ⟨s', l⟩ := rest; cases x <;> rfl

/-- how a numeric value reaches a referenced node: integer kind as is, float kind `as f64`,
enumeration through `set_entry_by_value`; anything else is `NotWritable` -/
theorem pvalue_target_dispatch (cx : Ctx F E) (r : Rec F) (t : NodeId) (v : Int) :
    nidIntSet cx r t v =
      (if isIntKind cx t then r.intSet t v
       else if isFloatKind cx t then r.floatSet t (cx.ops.i2f v)
       else if isEnumKind cx t then r.enumSetByValue t v
       else M.err .notWritable) := rfl

/-! ## pIndex: the first matching indexed value, else the default -/

/-- the entry chosen for selector value `i` is the first one whose index equals `i` … -/
theorem pindex_select_first (pre post : List (Int × ImmOrPNode SlotId)) (i : Int)
    (v dflt : ImmOrPNode SlotId) (hpre : ∀ e ∈ pre, e.1 ≠ i) :
    pIndexSelect (pre ++ (i, v) :: post) dflt i = v := by
  unfold pIndexSelect
  have : (pre ++ (i, v) :: post).find? (fun e => e.1 == i) = some (i, v) := by
    induction pre with
    | nil => simp
    | cons e pre ih =>
      have he : e.1 ≠ i := hpre e (by simp)
      simp only [List.cons_append, List.find?_cons]
      have : (e.1 == i) = false := by simpa using he
      rw [this]
      exact ih (fun e' he' => hpre e' (by simp [he']))
  rw [this]

/-- … and the default when no index equals `i`. -/
theorem pindex_select_default (entries : List (Int × ImmOrPNode SlotId)) (i : Int)
    (dflt : ImmOrPNode SlotId) (h : ∀ e ∈ entries, e.1 ≠ i) :
    pIndexSelect entries dflt i = dflt := by
  unfold pIndexSelect
  have : entries.find? (fun e => e.1 == i) = none := by
    rw [List.find?_eq_none]
    intro e he
    simpa using h e he
  rw [this]

/-- **pindex_select** (read, write, readable, writable): with the selector (an integer-kind
node, read through `IInteger::value`) currently at `i`, a node with `<pIndex>` reads
from / writes to / is as readable / writable as the selected indexed value; readable and
writable additionally require the selector to be *readable*; a selector that is not an
integer-kind node is `InvalidNode`. -/
theorem pindex_select (cx : Ctx F E) (r : Rec F) (sel : NodeId)
    (entries : List (Int × ImmOrPNode SlotId)) (dflt : ImmOrPNode SlotId) (v : Int) :
    vkIntValue cx r (.pIndex sel entries dflt) =
      (do let i ← pIndexIndex cx r sel; slotOrNodeIntValue cx r (pIndexSelect entries dflt i)) ∧
    vkIntSet cx r (.pIndex sel entries dflt) v =
      (do let i ← M.ofR (pIndexIndex cx r sel); slotOrNodeIntSet cx r (pIndexSelect entries dflt i) v) ∧
    vkIsReadable cx r (.pIndex sel entries dflt) =
      (do let sr ← pIndexSelReadable cx r sel
          if !sr then pure false else
          let i ← pIndexIndex cx r sel
          slotOrNodeIsReadable cx r (pIndexSelect entries dflt i)) ∧
    vkIsWritable cx r (.pIndex sel entries dflt) =
      (do let sr ← pIndexSelReadable cx r sel
          if !sr then pure false else
          let i ← pIndexIndex cx r sel
          slotOrNodeIsWritable cx r (pIndexSelect entries dflt i)) ∧
    pIndexIndex cx r sel = (if isIntKind cx sel then r.intValue sel else R.err .invalidNode) :=
  ⟨rfl, rfl, rfl, rfl, rfl⟩

/-- **pindex_select**, value level: if the selector currently evaluates to `i`, the value
of the node is the value of the selected branch. -/
theorem pindex_select_value (cx : Ctx F E) (r : Rec F) (sel : NodeId)
    (entries : List (Int × ImmOrPNode SlotId)) (dflt : ImmOrPNode SlotId) (s : S F) (i : Int)
    (hi : R.val (pIndexIndex cx r sel) s = .ok i) :
    R.val (vkIntValue cx r (.pIndex sel entries dflt)) s =
      R.val (slotOrNodeIntValue cx r (pIndexSelect entries dflt i)) s ∧
    R.val (vkFloatValue cx r (.pIndex sel entries dflt)) s =
      R.val (slotOrNodeFloatValue cx r (pIndexSelect entries dflt i)) s := by
  simp [vkIntValue, vkFloatValue, hi]

/-! ## Boolean: On / Off values -/

/-- **bool_on_off**: a Boolean node reads `true` when the underlying integer equals
`OnValue`, `false` when it equals `OffValue` (and not `OnValue`), and fails with
`InvalidNode` when it equals neither; writing `true` / `false` writes `OnValue` / `OffValue`. -/
theorem bool_on_off (cx : Ctx F E) (r : Rec F) (value : ImmOrPNode SlotId) (onV offV v : Int) (s : S F)
    (hv : R.val (slotOrNodeIntValue cx r value) s = .ok v) :
    (v = onV → R.val (boolValueOf cx r value onV offV) s = .ok true) ∧
    (v ≠ onV → v = offV → R.val (boolValueOf cx r value onV offV) s = .ok false) ∧
    (v ≠ onV → v ≠ offV → R.val (boolValueOf cx r value onV offV) s = .err .invalidNode) := by
  refine ⟨fun h => ?_, fun h1 h2 => ?_, fun h1 h2 => ?_⟩
  · simp [boolValueOf, hv, h, R.val_ite]
  · subst h2
    simp [boolValueOf, hv, h1, R.val_ite]
  · simp [boolValueOf, hv, h1, h2, R.val_ite]

theorem bool_on_off_set (cx : Ctx F E) (fuel : Nat) (n : NodeId) (b : Base) (value : ImmOrPNode SlotId)
    (onV offV : Int) (x : Bool) (st : St F) (hg : cx.graph n = some (.boolean b value onV offV)) :
    exec cx (fuel + 1) (.boolSet n x) st =
      runM (slotOrNodeIntSet cx (execRec cx fuel) value (if x then onV else offV)) st := by
  simp only [exec, top, boolSetF, hg]

/-! ## Enumeration: only declared entries -/

/-- `findEntryByValue` finds the *first* entry of the list whose value is `v` -/
theorem findEntry_some (cx : Ctx F E) (entries : List NodeId) (v : Int) (e : NodeId)
    (h : findEntryByValue cx entries v = .ok (some e)) :
    ∃ pre post b num sym, entries = pre ++ e :: post ∧
      cx.graph e = some (.enumEntry b v num sym) ∧
      ∀ e' ∈ pre, ∃ b' v' num' sym', cx.graph e' = some (.enumEntry b' v' num' sym') ∧ v' ≠ v := by
  induction entries with
  | nil => simp [findEntryByValue] at h
  | cons x xs ih =>
    unfold findEntryByValue at h
    cases hg : cx.graph x with
    | none => simp [hg] at h
    | some nd =>
      cases nd <;> simp only [hg] at h <;> try (simp at h; done)
      rename_i b ev num sym
      by_cases hv : (ev == v) = true
      · simp only [hv, if_true] at h
        have : x = e := by simpa using h
        subst this
        have hev : ev = v := by simpa using hv
        subst hev
        exact ⟨[], xs, b, num, sym, rfl, hg, by simp⟩
      · simp only [hv] at h
        obtain ⟨pre, post, b', num', sym', hxs, hge, hpre⟩ := ih h
        refine ⟨x :: pre, post, b', num', sym', by simp [hxs], hge, ?_⟩
        intro e' he'
        rcases List.mem_cons.mp he' with rfl | he'
        · exact ⟨b, ev, num, sym, hg, by simpa using hv⟩
        · exact hpre e' he'

/-- `findEntryByValue = none` means no entry of the list has value `v` -/
theorem findEntry_none (cx : Ctx F E) (entries : List NodeId) (v : Int)
    (h : findEntryByValue cx entries v = .ok none) :
    ∀ e ∈ entries, ∃ b v' num sym, cx.graph e = some (.enumEntry b v' num sym) ∧ v' ≠ v := by
  induction entries with
  | nil => simp
  | cons x xs ih =>
    unfold findEntryByValue at h
    cases hg : cx.graph x with
    | none => simp [hg] at h
    | some nd =>
      cases nd <;> simp only [hg] at h <;> try (simp at h; done)
      rename_i b ev num sym
      by_cases hv : (ev == v) = true
      · simp [hv] at h
      · simp only [hv] at h
        intro e he
        rcases List.mem_cons.mp he with rfl | he
        · exact ⟨b, ev, num, sym, hg, by simpa using hv⟩
        · exact ih h e he

/-- **enum_only_declared** (set): a value that no entry declares is refused with
`InvalidData` before anything happens — the state is unchanged and the device sees no
access at all; a declared value is forwarded to the value target unchanged. -/
theorem enum_only_declared_set (cx : Ctx F E) (r : Rec F) (entries : List NodeId)
    (value : ImmOrPNode SlotId) (v : Int) (s : S F) :
    (findEntryByValue cx entries v = .ok none →
        enumSetByValueOf cx r entries value v s = (.err .invalidData, s, [])) ∧
    (∀ e, findEntryByValue cx entries v = .ok (some e) →
        enumSetByValueOf cx r entries value v s = slotOrNodeIntSet cx r value v s) := by
  constructor
  · intro h
    simp only [enumSetByValueOf, h]
    rfl
  · intro e h
    simp only [enumSetByValueOf, h]
    show M.bind _ _ s = _
    unfold M.bind M.ofRes
    simp only
    cases slotOrNodeIntSet cx r value v s with
    | mk x rest => obtain ⟨s', l⟩ := rest; simp

/-- **enum_only_declared** (by name): an unknown symbolic name is refused the same way. -/
theorem enum_only_declared_set_name (cx : Ctx F E) (fuel : Nat) (n : NodeId) (b : Base)
    (entries : List NodeId) (value : ImmOrPNode SlotId) (name : String) (st : St F)
    (hg : cx.graph n = some (.enumeration b entries value))
    (h : entryValueBySymbolic cx entries name = .ok none) :
    exec cx (fuel + 1) (.enumSetByName n name) st = (.err .invalidData, st) := by
  simp only [exec, top, enumSetByNameF, hg, h, runM]
  cases st
  simp [M.ofRes, M.err, Bind.bind, M.bind, St.s]

/-- **enum_only_declared** (current entry): the reported entry is the first declared entry
whose value equals the current integer value; if none matches the call fails
(`InvalidNode`) instead of inventing an entry. -/
theorem enum_only_declared_current (cx : Ctx F E) (r : Rec F) (entries : List NodeId)
    (value : ImmOrPNode SlotId) (s : S F) (v : Int)
    (hv : R.val (slotOrNodeIntValue cx r value) s = .ok v) :
    (∀ e, findEntryByValue cx entries v = .ok (some e) →
        R.val (enumCurrentEntryOf cx r entries value) s = .ok e) ∧
    (findEntryByValue cx entries v = .ok none →
        R.val (enumCurrentEntryOf cx r entries value) s = .err .invalidNode) := by
  constructor
  · intro e h; simp [enumCurrentEntryOf, hv, h]
  · intro h; simp [enumCurrentEntryOf, hv, h]

/-! ## Command -/

/-- **command_execute**: executing a command reads the command value and writes it to
the value target. -/
theorem command_execute (cx : Ctx F E) (fuel : Nat) (n : NodeId) (b : Base)
    (value cmdValue : ImmOrPNode SlotId) (st : St F) (hg : cx.graph n = some (.command b value cmdValue)) :
    exec cx (fuel + 1) (.cmdExecute n) st =
      runM (do let v ← M.ofR (slotOrNodeIntValue cx (execRec cx fuel) cmdValue)
               slotOrNodeIntSet cx (execRec cx fuel) value v) st := by
  simp only [exec, top, cmdExecuteF, hg, commandExecute]

/-- **command_is_done**: an immediate value target is always done; a node target that is
not readable counts as done; otherwise done ⇔ the target's value differs from the
command value. -/
theorem command_is_done (cx : Ctx F E) (r : Rec F) (cmdValue : ImmOrPNode SlotId) (s : S F) :
    (∀ id, R.val (commandIsDone cx r (.imm id) cmdValue) s = .ok true) ∧
    (∀ t, R.val (nidIsReadable cx r t) s = .ok false →
        R.val (commandIsDone cx r (.pnode t) cmdValue) s = .ok true) ∧
    (∀ t cv rv, R.val (nidIsReadable cx r t) s = .ok true →
        R.val (slotOrNodeIntValue cx r cmdValue) s = .ok cv → R.val (nidIntValue cx r t) s = .ok rv →
        R.val (commandIsDone cx r (.pnode t) cmdValue) s = .ok (cv != rv)) := by
  refine ⟨fun id => rfl, fun t h => ?_, fun t cv rv h1 h2 h3 => ?_⟩
  · simp [commandIsDone, h, R.val_bite]
  · simp [commandIsDone, h1, h2, h3, R.val_bite]

/-! ## Registers: address = Σ address elements, length from Length / pLength -/

/-- plain mathematical sum -/
def isum : List Int → Int
  | [] => 0
  | x :: xs => x + isum xs

/-- every prefix sum (starting from `acc`) stays inside `i64` -/
def prefixesInI64 : Int → List Int → Prop
  | _, [] => True
  | acc, x :: xs => inI64 (acc + x) = true ∧ prefixesInI64 (acc + x) xs

private theorem sumAddrs_ok (cx : Ctx F E) (r : Rec F) (s : S F) :
    ∀ (addrs : List AddressKind) (vals : List Int) (acc : Int),
      addrs.length = vals.length →
      (∀ i (h1 : i < addrs.length) (h2 : i < vals.length),
          R.val (addrKindValue cx r addrs[i]) s = .ok vals[i]) →
      prefixesInI64 acc vals →
      R.val (sumAddrs cx r addrs acc) s = .ok (acc + isum vals)
  | [], [], acc, _, _, _ => by simp [sumAddrs, isum]
  | [], _ :: _, _, h, _, _ => by simp at h
  | _ :: _, [], _, h, _, _ => by simp at h
  | k :: ks, x :: xs, acc, hlen, hv, hp => by
    have h0 := hv 0 (by simp) (by simp)
    simp only [List.getElem_cons_zero] at h0
    obtain ⟨hin, hp'⟩ := hp
    simp only [sumAddrs, R.val_bind, h0, Res.bind_ok, R.val_ofRes, addI64, hin, if_true]
    rw [sumAddrs_ok cx r s ks xs (acc + x) (by simpa using hlen)
      (fun i h1 h2 => by
        have := hv (i + 1) (by simp; omega) (by simp; omega)
        simpa only [List.getElem_cons_succ] using this) hp']
    simp [isum, Int.add_assoc]

/-- **address_is_sum**: if the address elements of a register (in document order)
currently evaluate to `vals`, its effective address is their sum — provided the running
sum stays inside `i64` (otherwise: `address_overflow`). -/
theorem address_is_sum (cx : Ctx F E) (r : Rec F) (rb : RegBase) (vals : List Int) (s : S F)
    (hlen : rb.addrs.length = vals.length)
    (hv : ∀ i (h1 : i < rb.addrs.length) (h2 : i < vals.length),
        R.val (addrKindValue cx r rb.addrs[i]) s = .ok vals[i])
    (hp : prefixesInI64 0 vals) :
    R.val (regAddress cx r rb) s = .ok (isum vals) := by
  have := sumAddrs_ok cx r s rb.addrs vals 0 hlen hv hp
  simpa [regAddress] using this

/-- what each address element contributes: `<Address>` its constant, `<pAddress>` the
numeric value of the node, an embedded `<IntSwissKnife>` its value, `<pIndex>` the
selector's value, multiplied by `Offset` / `pOffset` when present. -/
theorem address_elements (cx : Ctx F E) (r : Rec F) (a : Int) (p k sel : NodeId)
    (off : ImmOrPNode Int) (s : S F) :
    addrKindValue cx r (.address (.imm a)) = pure a ∧
    addrKindValue cx r (.address (.pnode p)) = nidIntValue cx r p ∧
    addrKindValue cx r (.intSwissKnife k) = nidIntValue cx r k ∧
    R.val (addrKindValue cx r (.pIndex sel none)) s = R.val (nidIntValue cx r sel) s ∧
    addrKindValue cx r (.pIndex sel (some off)) =
      (do let b ← nidIntValue cx r sel
          let o ← immIntValue cx r off
          R.ofRes (mulI64 cx.profile b o)) := by
  refine ⟨rfl, rfl, rfl, ?_, rfl⟩
  simp only [addrKindValue, R.val_bind]
  cases R.val (nidIntValue cx r sel) s <;> rfl

/-- `pIndex × Offset` and the running sum are `i64` operations: in range exact; out of
range a panic with overflow checks (dev profile), two's-complement wrap without. -/
theorem address_overflow (p : Profile) (a b : Int) :
    (inI64 (a * b) = true → mulI64 p a b = .ok (a * b)) ∧
    (inI64 (a + b) = true → addI64 p a b = .ok (a + b)) ∧
    (inI64 (a * b) = false → mulI64 p a b = if p.overflowChecks then .panic else .ok (wrapI64 (a * b))) ∧
    (inI64 (a + b) = false → addI64 p a b = if p.overflowChecks then .panic else .ok (wrapI64 (a + b))) := by
  refine ⟨fun h => ?_, fun h => ?_, fun h => ?_, fun h => ?_⟩ <;> simp [mulI64, addI64, h]

/-- **length_from**: the length is the `<Length>` constant or the current numeric value
of the `<pLength>` node. -/
theorem length_from (cx : Ctx F E) (r : Rec F) (rb : RegBase) :
    regLength cx r rb =
      match rb.length with
      | .imm l => pure l
      | .pnode p => nidIntValue cx r p := by
  unfold regLength immIntValue
  cases rb.length <;> rfl

/-- every register access uses exactly that address and length: a raw `read` with a
buffer of `bufLen` bytes evaluates address, then length, checks `bufLen = length` and
performs one port read of `bufLen` bytes at the address. -/
theorem register_read_at (cx : Ctx F E) (r : Rec F) (rb : RegBase) (bufLen : Nat) (s : S F)
    (a l : Int) (ha : R.val (regAddress cx r rb) s = .ok a) (hl : R.val (regLength cx r rb) s = .ok l) :
    R.val (regRead cx r rb bufLen) s =
      if lenMatches bufLen l then R.val (portRead cx rb.port a bufLen) s else .err .invalidBuffer := by
  simp only [regRead, R.val_bind, ha, hl, Res.bind_ok, readAndCache]
  cases lenMatches bufLen l <;> simp

/-! ## Converters and swiss knives -/

/-- newer bindings shadow older ones (`HashMap::insert` overwrites): looking a name up in
`newer ++ older` finds the newest binding -/
theorem env_shadowing (newer older : Env E) (k : String) :
    Env.lookup (newer ++ older) k =
      match Env.lookup newer k with
      | some e => some e
      | none => Env.lookup older k := by
  unfold Env.lookup
  rw [List.find?_append]
  cases List.find? (fun e => e.1 == k) newer <;> rfl

private theorem foldl_cons_eq {α β : Type} (f : α → β) (l : List α) (init : List β) :
    l.foldl (fun env e => f e :: env) init = (l.map f).reverse ++ init := by
  induction l generalizing init with
  | nil => rfl
  | cons x xs ih => simp [ih]

/-- **converter / swiss-knife environment**: the formula environment consists of the
bindings inserted before (`TO` = current value of pValue, or `FROM` = the value being
written), then one binding per `<pVariable>` in document order, then the `<Constant>`s,
then the `<Expression>`s; a later binding of the same name shadows an earlier one. -/
theorem formula_env (cx : Ctx F E) (r : Rec F) (fm : Formulaic F E) (env0 env : Env E) (s : S F)
    (h : R.val (collectEnv cx r fm env0) s = .ok env) :
    ∃ env1, R.val (collectVars cx r fm.vars env0) s = .ok env1 ∧
      env = fm.exprs.reverse ++ (fm.consts.map fun c => (c.1, numLitExpr cx c.2)).reverse ++ env1 := by
  simp only [collectEnv, R.val_bind] at h
  obtain ⟨env1, h1, h⟩ := Res.bind_eq_ok h
  refine ⟨env1, h1, ?_⟩
  simp only [R.val_pure, Res.ok.injEq] at h
  rw [← h, foldl_cons_eq (fun e : String × E => (e.1, e.2)), foldl_cons_eq]
  simp [List.append_assoc]

/-- the variable bindings: one per `<pVariable Name="…">` in document order (so the last
one is the newest), each bound to the accessor named by the suffix of `Name` applied to
the referenced node -/
theorem formula_env_vars (cx : Ctx F E) (r : Rec F) (s : S F) :
    ∀ (vars : List (String × NodeId)) (env0 env1 : Env E),
      R.val (collectVars cx r vars env0) s = .ok env1 →
      ∃ bound : List (String × E), env1 = bound.reverse ++ env0 ∧
        bound.map (·.1) = vars.map (·.1) ∧
        ∀ i (h1 : i < bound.length) (h2 : i < vars.length), ∃ k,
          VarKind.ofName vars[i].1 = .ok k ∧ R.val (varGetValue cx r k vars[i].2) s = .ok bound[i].2
  | [], env0, env1, h => by
    simp [collectVars] at h
    exact ⟨[], by simp [h], rfl, fun i h1 => by simp at h1⟩
  | (name, n) :: vs, env0, env1, h => by
    simp only [collectVars, R.val_bind, R.val_ofRes] at h
    obtain ⟨k, hk, h⟩ := Res.bind_eq_ok h
    obtain ⟨e, he, h⟩ := Res.bind_eq_ok h
    obtain ⟨bound, hb, hn, hall⟩ := formula_env_vars cx r s vs ((name, e) :: env0) env1 h
    refine ⟨(name, e) :: bound, by simp [hb], by simp [hn], ?_⟩
    intro i h1 h2
    cases i with
    | zero => exact ⟨k, hk, he⟩
    | succ i =>
      simp only [List.getElem_cons_succ]
      exact hall i (by simpa using h1) (by simpa using h2)

/-- the `.Value` / `.Min` / `.Max` / `.Inc` / `.Enum.<entry>` accessors -/
theorem variable_accessors (cx : Ctx F E) (r : Rec F) (n : NodeId) (name : String) :
    varGetValue cx r .value n = exprFromNid cx r n ∧
    (isIntKind cx n = true →
      varGetValue cx r .min n = (do let v ← r.intMin n; pure (cx.ops.exprOfInt v)) ∧
      varGetValue cx r .max n = (do let v ← r.intMax n; pure (cx.ops.exprOfInt v)) ∧
      varGetValue cx r .inc n = (do
        let v ← r.intInc n
        match v with
        | some i => pure (cx.ops.exprOfInt i)
        | none => R.err .invalidNode)) ∧
    (isIntKind cx n = false → isFloatKind cx n = true →
      varGetValue cx r .min n = (do let v ← r.floatMin n; pure (cx.ops.exprOfFloat v)) ∧
      varGetValue cx r .max n = (do let v ← r.floatMax n; pure (cx.ops.exprOfFloat v))) ∧
    (∀ b entries value, cx.graph n = some (.enumeration b entries value) →
      varGetValue cx r (.enumEntry name) n = (do
        let v ← R.ofRes (entryValueBySymbolic cx entries name)
        match v with
        | some i => pure (cx.ops.exprOfInt i)
        | none => R.err .invalidNode)) := by
  refine ⟨rfl, fun hi => ?_, fun hi hf => ?_, fun b entries value hg => ?_⟩
  · simp [varGetValue, hi]; rfl
  · simp [varGetValue, hi, hf]
  · simp [varGetValue, hg]; rfl

/-- how the suffix of a `<pVariable Name>` selects the accessor -/
theorem variable_names (s : String) :
    VarKind.ofName s = VarKind.ofParts (s.splitOn ".") ∧
    VarKind.ofParts ["X"] = .ok .value ∧ VarKind.ofParts ["X", "Value"] = .ok .value ∧
    VarKind.ofParts ["X", "Min"] = .ok .min ∧ VarKind.ofParts ["X", "Max"] = .ok .max ∧
    VarKind.ofParts ["X", "Inc"] = .ok .inc ∧
    VarKind.ofParts ["X", "Enum", "On"] = .ok (.enumEntry "On") ∧
    VarKind.ofParts ["X", "Foo"] = .err .invalidNode ∧
    VarKind.ofParts ["X", "Min", "Y"] = .err .invalidNode := by
  refine ⟨rfl, ?_, ?_, ?_, ?_, ?_, ?_, ?_, ?_⟩ <;> decide

/-- a variable's plain value: integer / float nodes their value, boolean nodes 1 / 0,
enumerations the `NumericValue` (else the integer value as float) of the current entry -/
theorem variable_value (cx : Ctx F E) (r : Rec F) (n : NodeId) :
    exprFromNid cx r n =
      (if isIntKind cx n then (do let v ← r.intValue n; pure (cx.ops.exprOfInt v))
       else if isFloatKind cx n then (do let v ← r.floatValue n; pure (cx.ops.exprOfFloat v))
       else if isBoolKind cx n then (do
         let v ← r.boolValue n; pure (cx.ops.exprOfInt (if v then 1 else 0)))
       else if isEnumKind cx n then (do
         let e ← r.enumCurrentEntry n
         let f ← entryNumeric cx e
         pure (cx.ops.exprOfFloat f))
       else R.err .invalidNode) := rfl

/-- **converter_from**: the value of a Converter / IntConverter is `FormulaFrom` evaluated
in the environment `TO ↦ value of pValue`, variables, constants, expressions; the result
is taken `as f64` / `as i64`. -/
theorem converter_from (cx : Ctx F E) (fuel : Nat) (n pv : NodeId) (b : Base) (fm : Formulaic F E)
    (fTo fFrom : E) (st : St F) :
    (cx.graph n = some (.converter b fm fTo fFrom pv) →
      exec cx (fuel + 1) (.floatValue n) st = runR (do
        let to ← exprFromNid cx (execRec cx fuel) pv
        let env ← collectEnv cx (execRec cx fuel) fm [("TO", to)]
        let res ← R.ofRes (cx.ops.eval cx.profile env.lookup fFrom)
        pure (EvalResult.asFloat cx res)) .float st) ∧
    (cx.graph n = some (.intConverter b fm fTo fFrom pv) →
      exec cx (fuel + 1) (.intValue n) st = runR (do
        let to ← exprFromNid cx (execRec cx fuel) pv
        let env ← collectEnv cx (execRec cx fuel) fm [("TO", to)]
        let res ← R.ofRes (cx.ops.eval cx.profile env.lookup fFrom)
        pure (EvalResult.asInteger cx res)) .int st) := by
  constructor <;> intro hg <;>
    simp only [exec, top, floatValueF, intValueF, hg, converterEvalFrom, evalFormula, R.bind_assoc]

/-- **converter_to**: writing `x` evaluates `FormulaTo` in the environment
`FROM ↦ x`, variables, constants, expressions and hands the result to pValue
(`set_eval_result`: integer kind `as i64`, float kind `as f64`, boolean `≠ 0`,
enumeration by value). -/
theorem converter_to (cx : Ctx F E) (fuel : Nat) (n pv : NodeId) (b : Base) (fm : Formulaic F E)
    (fTo fFrom : E) (x : F) (i : Int) (st : St F) :
    (cx.graph n = some (.converter b fm fTo fFrom pv) →
      exec cx (fuel + 1) (.floatSet n x) st = runM (do
        let env ← M.ofR (collectEnv cx (execRec cx fuel) fm [("FROM", cx.ops.exprOfFloat x)])
        let res ← M.ofRes (cx.ops.eval cx.profile env.lookup fTo)
        setEvalResult cx (execRec cx fuel) pv res) st) ∧
    (cx.graph n = some (.intConverter b fm fTo fFrom pv) →
      exec cx (fuel + 1) (.intSet n i) st = runM (do
        let env ← M.ofR (collectEnv cx (execRec cx fuel) fm [("FROM", cx.ops.exprOfInt i)])
        let res ← M.ofRes (cx.ops.eval cx.profile env.lookup fTo)
        setEvalResult cx (execRec cx fuel) pv res) st) := by
  constructor <;> intro hg <;>
    simp only [exec, top, floatSetF, intSetF, hg, converterSet, evalFormula]

/-- where the result of `FormulaTo` goes -/
theorem set_eval_result (cx : Ctx F E) (r : Rec F) (t : NodeId) (res : EvalResult F) :
    setEvalResult cx r t res =
      (if isIntKind cx t then r.intSet t (EvalResult.asInteger cx res)
       else if isFloatKind cx t then r.floatSet t (EvalResult.asFloat cx res)
       else if isBoolKind cx t then r.boolSet t (EvalResult.asBool cx res)
       else if isEnumKind cx t then r.enumSetByValue t (EvalResult.asInteger cx res)
       else M.err .invalidNode) := rfl

/-- **swissknife_value**: the value (and min and max) of a SwissKnife / IntSwissKnife is
its `Formula` evaluated over variables, constants and expressions; it cannot be written. -/
theorem swissknife_value (cx : Ctx F E) (fuel : Nat) (n : NodeId) (b : Base) (fm : Formulaic F E)
    (f : E) (x : F) (i : Int) (st : St F) :
    (cx.graph n = some (.swissKnife b fm f) →
      exec cx (fuel + 1) (.floatValue n) st = runR (do
        let env ← collectEnv cx (execRec cx fuel) fm []
        let res ← R.ofRes (cx.ops.eval cx.profile env.lookup f)
        pure (EvalResult.asFloat cx res)) .float st ∧
      exec cx (fuel + 1) (.floatMin n) st = exec cx (fuel + 1) (.floatValue n) st ∧
      exec cx (fuel + 1) (.floatMax n) st = exec cx (fuel + 1) (.floatValue n) st ∧
      exec cx (fuel + 1) (.floatSet n x) st = (.err .notWritable, st)) ∧
    (cx.graph n = some (.intSwissKnife b fm f) →
      exec cx (fuel + 1) (.intValue n) st = runR (do
        let env ← collectEnv cx (execRec cx fuel) fm []
        let res ← R.ofRes (cx.ops.eval cx.profile env.lookup f)
        pure (EvalResult.asInteger cx res)) .int st ∧
      exec cx (fuel + 1) (.intMin n) st = exec cx (fuel + 1) (.intValue n) st ∧
      exec cx (fuel + 1) (.intMax n) st = exec cx (fuel + 1) (.intValue n) st ∧
      exec cx (fuel + 1) (.intSet n i) st = (.err .notWritable, st)) := by
  constructor <;> intro hg
  · refine ⟨?_, ?_, ?_, ?_⟩
    · simp only [exec, top, floatValueF, hg, swissKnifeEval, evalFormula, R.bind_assoc]
    · simp only [exec, top, floatValueF, floatMinF, hg]
    · simp only [exec, top, floatValueF, floatMaxF, hg]
    · cases st; simp [exec, top, floatSetF, hg, runM, M.err, St.s]
  · refine ⟨?_, ?_, ?_, ?_⟩
    · simp only [exec, top, intValueF, hg, swissKnifeEval, evalFormula, R.bind_assoc]
    · simp only [exec, top, intValueF, intMinF, hg]
    · simp only [exec, top, intValueF, intMaxF, hg]
    · cases st; simp [exec, top, intSetF, hg, runM, M.err, St.s]

/-! ## The first-principles pieces of the reference semantics, characterised -/

/-- **selectIndexed_spec**: the value `<pIndex>` selects is `v` exactly when either the list
of `<ValueIndexed>` splits as `pre ++ (i, v) :: post` with no index `i` in `pre`
(the first match in document order), or no element carries index `i` and `v` is the default. -/
theorem selectIndexed_spec {α : Type} (l : List (Int × α)) (dflt : α) (i : Int) (v : α) :
    selectIndexed l dflt i = v ↔
      (∃ pre post, l = pre ++ (i, v) :: post ∧ ∀ p ∈ pre, p.1 ≠ i) ∨
      ((∀ p ∈ l, p.1 ≠ i) ∧ v = dflt) := by
  induction l with
  | nil =>
    simp only [selectIndexed, List.nil_eq, List.append_eq_nil_iff, reduceCtorEq, and_false, false_and,
      exists_false, List.not_mem_nil, false_imp_iff, implies_true, true_and, false_or]
    exact eq_comm
  | cons hd tl ih =>
    obtain ⟨j, w⟩ := hd
    by_cases hj : j = i
    · subst hj
      simp only [selectIndexed, if_true]
      constructor
      · rintro rfl; exact .inl ⟨[], tl, rfl, by simp⟩
      · rintro (⟨pre, post, h, hp⟩ | ⟨h, _⟩)
        · cases pre with
          | nil => simp at h; exact h.1
          | cons a pre =>
            simp only [List.cons_append, List.cons.injEq] at h
            exact absurd (congrArg Prod.fst h.1).symm (hp a (by simp))
        · exact absurd rfl (h (j, w) (by simp))
    · simp only [selectIndexed, hj, if_false, ih]
      constructor
      · rintro (⟨pre, post, h, hp⟩ | ⟨h, hv⟩)
        · refine .inl ⟨(j, w) :: pre, post, by simp [h], ?_⟩
          intro p hp'
          rcases List.mem_cons.mp hp' with rfl | hp'
          · exact hj
          · exact hp p hp'
        · refine .inr ⟨?_, hv⟩
          intro p hp'
          rcases List.mem_cons.mp hp' with rfl | hp'
          · exact hj
          · exact h p hp'
      · rintro (⟨pre, post, h, hp⟩ | ⟨h, hv⟩)
        · cases pre with
          | nil => simp at h; exact absurd h.1.1 hj
          | cons a pre =>
            simp only [List.cons_append, List.cons.injEq] at h
            exact .inl ⟨pre, post, h.2, fun p hp' => hp p (by simp [hp'])⟩
        · exact .inr ⟨fun p hp' => h p (by simp [hp']), hv⟩

/-- **firstEntryWithValue_spec**: value `v` denotes entry `e` exactly when the entry list
splits as `pre ++ e :: post`, `e` is an entry declared with value `v`, and everything in
`pre` is an entry declared with a different value. -/
theorem firstEntryWithValue_spec (cx : Ctx F E) (es : List NodeId) (v : Int) (e : NodeId) :
    firstEntryWithValue cx es v = some e ↔
      ∃ pre post, es = pre ++ e :: post ∧ entryValue cx e = some v ∧
        ∀ p ∈ pre, ∃ pv, entryValue cx p = some pv ∧ pv ≠ v := by
  induction es with
  | nil => simp [firstEntryWithValue]
  | cons hd tl ih =>
    simp only [firstEntryWithValue]
    cases hv : entryValue cx hd with
    | none =>
      simp only [reduceCtorEq, false_iff]
      rintro ⟨pre, post, h, he, hp⟩
      cases pre with
      | nil => simp at h; rw [← h.1, hv] at he; cases he
      | cons a pre =>
        simp only [List.cons_append, List.cons.injEq] at h
        obtain ⟨pv, hpv, _⟩ := hp a (by simp)
        rw [← h.1, hv] at hpv; cases hpv
    | some ev =>
      simp only
      by_cases hev : ev = v
      · subst hev
        simp only [if_true, Option.some.injEq]
        constructor
        · rintro rfl; exact ⟨[], tl, rfl, hv, by simp⟩
        · rintro ⟨pre, post, h, he, hp⟩
          cases pre with
          | nil => simp at h; exact h.1
          | cons a pre =>
            simp only [List.cons_append, List.cons.injEq] at h
            obtain ⟨pv, hpv, hne⟩ := hp a (by simp)
            rw [← h.1, hv] at hpv; cases hpv; exact absurd rfl hne
      · simp only [hev, if_false, ih]
        constructor
        · rintro ⟨pre, post, h, he, hp⟩
          refine ⟨hd :: pre, post, by simp [h], he, ?_⟩
          intro p hp'
          rcases List.mem_cons.mp hp' with rfl | hp'
          · exact ⟨ev, hv, hev⟩
          · exact hp p hp'
        · rintro ⟨pre, post, h, he, hp⟩
          cases pre with
          | nil => simp at h; rw [← h.1, hv] at he; cases he; exact absurd rfl hev
          | cons a pre =>
            simp only [List.cons_append, List.cons.injEq] at h
            exact ⟨pre, post, h.2, he, fun p hp' => hp p (by simp [hp'])⟩

/-- **i64_arith_spec**: an `i64` result is the exact integer whenever that is in range; out
of range there is no result with overflow checks, and without them the result is the one
in-range integer congruent to the exact one modulo 2^64. -/
theorem i64_arith_spec (p : Profile) (x : Int) :
    (InI64 x → i64Result p x = some x) ∧
    (¬ InI64 x → p.overflowChecks = true → i64Result p x = none) ∧
    (¬ InI64 x → p.overflowChecks = false →
      ∃ r, i64Result p x = some r ∧ InI64 r ∧ (r - x) % 2 ^ 64 = 0) := by
  refine ⟨fun h => by simp [i64Result, h], fun h hc => by simp [i64Result, h, hc], fun h hc => ?_⟩
  refine ⟨Int.bmod x (2 ^ 64), by simp [i64Result, h, hc], ?_, ?_⟩
  · unfold InI64
    have h1 := @Int.le_bmod x (2 ^ 64) (by decide)
    have h2 := @Int.bmod_lt x (2 ^ 64) (by decide)
    constructor <;> omega
  · have : Int.bmod x (2 ^ 64) % 2 ^ 64 = x % 2 ^ 64 := Int.bmod_emod
    omega

/-- **image_read_spec**: a read of `len` bytes at `a` yields `bs` exactly when the range
`[a, a+len)` lies in the image and `bs` are the `len` bytes found there. -/
theorem image_read_spec (mem : Bytes) (a : Int) (len : Nat) (bs : Bytes) :
    imageRead mem a len = some bs ↔
      0 ≤ a ∧ a.toNat + len ≤ mem.length ∧ bs.length = len ∧
        ∀ i, i < len → bs[i]? = mem[a.toNat + i]? := by
  have key : ∀ (n k : Nat) (bs : Bytes), k + n ≤ mem.length →
      (imageBytes mem k n = some bs ↔ bs.length = n ∧ ∀ i, i < n → bs[i]? = mem[k + i]?) := by
    intro n
    induction n with
    | zero => intro k bs _; cases bs <;> simp [imageBytes]
    | succ n ih =>
      intro k bs hk
      have hlt : k < mem.length := by omega
      simp only [imageBytes, List.getElem?_eq_getElem hlt, Option.map_eq_some_iff]
      constructor
      · rintro ⟨t, ht, rfl⟩
        obtain ⟨hl, hi⟩ := (ih (k + 1) t (by omega)).mp ht
        refine ⟨by simp [hl], ?_⟩
        intro i hi'
        cases i with
        | zero => simp [List.getElem?_eq_getElem hlt]
        | succ i =>
          have := hi i (by omega)
          simp only [List.getElem?_cons_succ, this]
          congr 1; omega
      · rintro ⟨hl, hi⟩
        cases bs with
        | nil => simp at hl
        | cons b t =>
          have h0 := hi 0 (by omega)
          simp only [List.getElem?_cons_zero, Nat.add_zero, List.getElem?_eq_getElem hlt, Option.some.injEq] at h0
          refine ⟨t, (ih (k + 1) t (by omega)).mpr ⟨by simpa using hl, ?_⟩, by rw [h0]⟩
          intro i hi'
          have := hi (i + 1) (by omega)
          simp only [List.getElem?_cons_succ] at this
          rw [this]; congr 1; omega
  unfold imageRead
  by_cases h : 0 ≤ a ∧ a.toNat + len ≤ mem.length
  · simp only [h, and_self, if_true, true_and]
    exact key len a.toNat bs h.2
  · simp only [h, if_false, reduceCtorEq, false_iff]
    rintro ⟨h1, h2, _⟩; exact h ⟨h1, h2⟩

/-- **image_patch_spec**: storing `data` at index `k` keeps the image's length, puts `data`
at `[k, k + |data|)` and leaves every other byte as it was. -/
theorem image_patch_spec (mem : Bytes) (k : Nat) (data : Bytes) (h : k + data.length ≤ mem.length) :
    (imagePatch mem k data).length = mem.length ∧
    ∀ i, (imagePatch mem k data)[i]? =
      if k ≤ i ∧ i < k + data.length then data[i - k]? else mem[i]? := by
  induction mem generalizing k data with
  | nil =>
    have : data = [] := by cases data <;> simp at h ⊢
    subst this; simp [imagePatch]
  | cons m ms ih =>
    cases k with
    | zero =>
      cases data with
      | nil => simp [imagePatch]
      | cons d ds =>
        obtain ⟨h1, h2⟩ := ih 0 ds (by simp at h ⊢; omega)
        refine ⟨by simp [imagePatch, h1], ?_⟩
        intro i
        cases i with
        | zero => simp [imagePatch]
        | succ i =>
          simp only [imagePatch, List.getElem?_cons_succ, h2 i, List.length_cons]
          simp only [Nat.zero_le, true_and, Nat.zero_add, Nat.sub_zero, Nat.add_lt_add_iff_right,
            List.getElem?_cons_succ]
    | succ k =>
      obtain ⟨h1, h2⟩ := ih k data (by simp at h ⊢; omega)
      refine ⟨by simp [imagePatch, h1], ?_⟩
      intro i
      cases i with
      | zero => simp [imagePatch]
      | succ i =>
        simp only [imagePatch, List.getElem?_cons_succ, h2 i]
        simp only [Nat.add_le_add_iff_right, Nat.add_right_comm k 1, Nat.add_lt_add_iff_right,
          Nat.add_sub_add_right]

/-- **image_write_spec**: a device write succeeds exactly when its range lies in the image
and is disjoint from the refused window; then only the image changes, to the patched one. -/
theorem image_write_spec (d d' : Dev) (a : Int) (data : Bytes) :
    imageWrite d a data = some d' ↔
      0 ≤ a ∧ a.toNat + data.length ≤ d.mem.length ∧
      (d.roHi ≤ a.toNat ∨ a.toNat + data.length ≤ d.roLo) ∧
      d' = { d with mem := imagePatch d.mem a.toNat data } := by
  unfold imageWrite
  by_cases h : 0 ≤ a ∧ a.toNat + data.length ≤ d.mem.length ∧
      ¬ (a.toNat < d.roHi ∧ d.roLo < a.toNat + data.length)
  · simp only [h, and_self, if_true, Option.some.injEq, true_and, not_false_eq_true]
    obtain ⟨_, _, h3⟩ := h
    constructor
    · rintro rfl; exact ⟨by omega, rfl⟩
    · rintro ⟨_, rfl⟩; rfl
  · simp only [h, if_false, reduceCtorEq, false_iff]
    rintro ⟨h1, h2, h3, _⟩
    exact h ⟨h1, h2, by omega⟩

/-! ## Meta-theorems -/

/-- **fuel_mono**: a request that is answered without running out of fuel (result, final
value store, device image and log) is answered identically with any larger fuel — the
answer of `exec` does not depend on the fuel once there is enough of it. -/
theorem fuel_mono (cx : Ctx F E) (fuel k : Nat) (req : Req F) (st : St F)
    (h : (exec cx fuel req st).1 ≠ .err .outOfFuel) :
    exec cx (fuel + k) req st = exec cx fuel req st := by
  cases fuel with
  | zero => simp [exec] at h
  | succ f =>
    have : f + 1 + k = (f + k) + 1 := by omega
    rw [this]
    simp only [exec] at h ⊢
    exact (top_le (execRec_le cx f k) req st h).symm

/-- consequently two sufficient fuels agree -/
theorem fuel_irrelevant (cx : Ctx F E) (f1 f2 : Nat) (req : Req F) (st : St F)
    (h1 : (exec cx f1 req st).1 ≠ .err .outOfFuel) (h2 : (exec cx f2 req st).1 ≠ .err .outOfFuel) :
    exec cx f1 req st = exec cx f2 req st := by
  rcases Nat.le_total f1 f2 with h | h
  · obtain ⟨k, rfl⟩ := Nat.exists_eq_add_of_le h
    exact (fuel_mono cx f1 k req st h1).symm
  · obtain ⟨k, rfl⟩ := Nat.exists_eq_add_of_le h
    exact fuel_mono cx f2 k req st h2

/-- **acyclic_terminates**: on a graph that is acyclic w.r.t. a rank function (a node's
interface calls are determined by those of strictly lower-ranked nodes, `Acyclic`), with
helper layers that never answer the model-only `outOfFuel`, a request on node `n` with
fuel `rank n + 1` (or more) never runs out of fuel — and by `fuel_mono` its answer is the
same for every larger fuel. -/
theorem acyclic_terminates (cx : Ctx F E) (rank : NodeId → Nat) (hA : Acyclic cx rank)
    (hops : OpsTotal cx.ops) (req : Req F) (st : St F) (k : Nat) :
    (exec cx (rank (reqNode req) + 1 + k) req st).1 ≠ .err .outOfFuel ∧
    exec cx (rank (reqNode req) + 1 + k) req st = exec cx (rank (reqNode req) + 1) req st := by
  have h0 : (exec cx (rank (reqNode req) + 1) req st).1 ≠ .err .outOfFuel := by
    simp only [exec]
    let ok : NodeId → Bool := fun p => decide (rank p < rank (reqNode req))
    have ht : TotalRec (patchRec ok (execRec cx (rank (reqNode req)))) :=
      patch_total (fun p hp => total_below hA hops _ p (by simpa [ok] using hp))
    rw [hA.top req st _ (patchRec ok (execRec cx (rank (reqNode req))))
      (fun p hp => patch_agree _ (by simpa [ok] using hp))]
    exact top_total ht hops req st
  have h1 := fuel_mono cx (rank (reqNode req) + 1) k req st h0
  exact ⟨by rw [h1]; exact h0, h1⟩

/-- **acyclic_terminates**, syntactic form: if every node id a node mentions (controllers,
value sources and targets incl. copies, selectors and indexed values, min / max / inc
nodes, address and length elements, formula variables, converter pValue — `Node.Ref`)
has a strictly smaller rank (`WellRanked`), a request on node `n` is answered with fuel
`rank n + 1` and the answer is the same for every larger fuel. -/
theorem acyclic_terminates_syntactic (cx : Ctx F E) (rank : NodeId → Nat) (hW : WellRanked cx rank)
    (hops : OpsTotal cx.ops) (req : Req F) (st : St F) (k : Nat) :
    (exec cx (rank (reqNode req) + 1 + k) req st).1 ≠ .err .outOfFuel ∧
    exec cx (rank (reqNode req) + 1 + k) req st = exec cx (rank (reqNode req) + 1) req st :=
  acyclic_terminates cx rank hW.acyclic hops req st k

private theorem runR_fst {α : Type} (m : R F α) (f : α → Val F) (st : St F) :
    (runR m f st).1 =
      match R.val m st.s with
      | .ok a => .ok (f a)
      | .err e => .err e
      | .panic => .panic := by
  unfold runR R.val
  cases m st.s with
  | mk r l => cases r <;> rfl

private theorem read_iff {α : Type} {m : R F α} {f : α → Val F} {spec : Option α} (st : St F) (v : α)
    (hinj : ∀ a b, f a = f b → a = b)
    (h1 : ∀ a, R.val m st.s = .ok a → spec = some a) (h2 : ∀ a, spec = some a → R.val m st.s = .ok a) :
    (runR m f st).1 = .ok (f v) ↔ spec = some v := by
  rw [runR_fst]
  cases hm : R.val m st.s with
  | ok a =>
    have := h1 a hm
    simp only [Res.ok.injEq, this, Option.some.injEq]
    exact ⟨fun h => hinj _ _ h, fun h => by rw [h]⟩
  | err e =>
    simp only [reduceCtorEq, false_iff]
    intro hs; rw [h2 v hs] at hm; cases hm
  | panic =>
    simp only [reduceCtorEq, false_iff]
    intro hs; rw [h2 v hs] at hm; cases hm

/-- **refines_spec_partial**: on graphs without converter / swiss-knife nodes, a value read
of any node (Integer, IntReg, MaskedIntReg, Float, FloatReg, String, StringReg,
Enumeration: current value and current entry, Boolean; register address and length)
succeeds with `v` exactly when the independent clause-per-rule reference semantics
`GenApiSem.valSem` assigns `v` — for every such graph, state, profile and depth. -/
theorem refines_spec_partial (cx : Ctx F E) (hnf : NoFormulaNodes cx) (fuel : Nat) (n : NodeId) (st : St F) :
    (∀ v, (exec cx (fuel + 1) (.intValue n) st).1 = .ok (.int v) ↔ (valSem cx (fuel + 1)).int n st.s = some v) ∧
    (∀ v, (exec cx (fuel + 1) (.floatValue n) st).1 = .ok (.float v) ↔ (valSem cx (fuel + 1)).float n st.s = some v) ∧
    (∀ v, (exec cx (fuel + 1) (.strValue n) st).1 = .ok (.str v) ↔ (valSem cx (fuel + 1)).str n st.s = some v) ∧
    (∀ v, (exec cx (fuel + 1) (.enumCurrentValue n) st).1 = .ok (.int v) ↔ (valSem cx (fuel + 1)).enum n st.s = some v) ∧
    (∀ b, (exec cx (fuel + 1) (.boolValue n) st).1 = .ok (.bool b) ↔ specBool cx fuel n st.s = some b) ∧
    (∀ e, (exec cx (fuel + 1) (.enumCurrentEntry n) st).1 = .ok (.node e) ↔ specCurrentEntry cx fuel n st.s = some e) ∧
    (∀ a, (exec cx (fuel + 1) (.regAddress n) st).1 = .ok (.int a) ↔ specRegAddress cx fuel n st.s = some a) ∧
    (∀ l, (exec cx (fuel + 1) (.regLength n) st).1 = .ok (.int l) ↔ specRegLength cx fuel n st.s = some l) := by
  have ihB := valIH cx hnf fuel
  have ihA := specIH cx hnf fuel
  refine ⟨fun v => ?_, fun v => ?_, fun v => ?_, fun v => ?_, fun b => ?_, fun e => ?_, fun a => ?_, fun l => ?_⟩ <;>
    simp only [exec, top]
  · exact read_iff st v (fun a b h => by injection h) (fun a h => intValueF_spec ihB (hnf _) h) (fun a h => intValueF_exec ihA (hnf _) h)
  · exact read_iff st v (fun a b h => by injection h) (fun a h => floatValueF_spec ihB (hnf _) h) (fun a h => floatValueF_exec ihA (hnf _) h)
  · exact read_iff st v (fun a b h => by injection h) (fun a h => strValueF_spec ihB h) (fun a h => strValueF_exec ihA h)
  · exact read_iff st v (fun a b h => by injection h) (fun a h => enumCurrentValueF_spec ihB h) (fun a h => enumCurrentValueF_exec ihA h)
  · exact read_iff st b (fun a b h => by injection h) (fun a h => (boolValueF_iff cx hnf fuel n st.s a).mp h)
      (fun a h => (boolValueF_iff cx hnf fuel n st.s a).mpr h)
  · exact read_iff st e (fun a b h => by injection h) (fun a h => (enumCurrentEntryF_iff cx hnf fuel n st.s a).mp h)
      (fun a h => (enumCurrentEntryF_iff cx hnf fuel n st.s a).mpr h)
  · exact read_iff st a (fun a b h => by injection h) (fun x h => (regAddressF_iff cx hnf fuel n st.s x).mp h)
      (fun x h => (regAddressF_iff cx hnf fuel n st.s x).mpr h)
  · exact read_iff st l (fun a b h => by injection h) (fun x h => (regLengthF_iff cx hnf fuel n st.s x).mp h)
      (fun x h => (regLengthF_iff cx hnf fuel n st.s x).mpr h)

private theorem runM_eff (m : M F Unit) (st : St F) (s' : S F) :
    ((runM m st).1 = .ok .unit ∧ (runM m st).2.s = s') ↔ M.eff m st.s = (.ok (), s') := by
  unfold runM M.eff
  cases hm : m st.s with
  | mk r rest =>
    obtain ⟨s1, l⟩ := rest
    cases r with
    | ok u => cases u; simp [St.s]
    | err e => simp
    | panic => simp

/-- **refines_spec_partial (writes)**: on graphs without converter / swiss-knife nodes a
write (integer / float / string `set_value`, `set_entry_by_value`, boolean `set_value`,
command `execute`, raw register `write`) succeeds and leaves value store and device image
`s'` exactly when the independent reference semantics `GenApiSem.setSem` maps the state
to `s'` — in particular the final device memory of every successful write is the
reference one (pValue then every pValueCopy in order, the selected pIndex branch, one
port write of the encoded value at the effective address). -/
theorem refines_spec_partial_writes (cx : Ctx F E) (hnf : NoFormulaNodes cx) (fuel : Nat) (n : NodeId)
    (st : St F) (s' : S F) :
    (∀ v, ((exec cx (fuel + 1) (.intSet n v) st).1 = .ok .unit ∧ (exec cx (fuel + 1) (.intSet n v) st).2.s = s') ↔
        (setSem cx (fuel + 1)).int n v st.s = some s') ∧
    (∀ v, ((exec cx (fuel + 1) (.floatSet n v) st).1 = .ok .unit ∧ (exec cx (fuel + 1) (.floatSet n v) st).2.s = s') ↔
        (setSem cx (fuel + 1)).float n v st.s = some s') ∧
    (∀ v, ((exec cx (fuel + 1) (.strSet n v) st).1 = .ok .unit ∧ (exec cx (fuel + 1) (.strSet n v) st).2.s = s') ↔
        (setSem cx (fuel + 1)).str n v st.s = some s') ∧
    (∀ v, ((exec cx (fuel + 1) (.enumSetByValue n v) st).1 = .ok .unit ∧
           (exec cx (fuel + 1) (.enumSetByValue n v) st).2.s = s') ↔
        (setSem cx (fuel + 1)).enum n v st.s = some s') ∧
    (∀ b, ((exec cx (fuel + 1) (.boolSet n b) st).1 = .ok .unit ∧ (exec cx (fuel + 1) (.boolSet n b) st).2.s = s') ↔
        specBoolSet cx fuel n b st.s = some s') ∧
    (((exec cx (fuel + 1) (.cmdExecute n) st).1 = .ok .unit ∧ (exec cx (fuel + 1) (.cmdExecute n) st).2.s = s') ↔
        specCmdExecute cx fuel n st.s = some s') ∧
    (∀ data, ((exec cx (fuel + 1) (.regWrite n data) st).1 = .ok .unit ∧
              (exec cx (fuel + 1) (.regWrite n data) st).2.s = s') ↔
        specRegWrite cx fuel n data st.s = some s') := by
  have ihB := valIH cx hnf fuel
  have ihA := specIH cx hnf fuel
  have ihS := setIH cx hnf fuel
  refine ⟨fun v => ?_, fun v => ?_, fun v => ?_, fun v => ?_, fun b => ?_, ?_, fun data => ?_⟩ <;>
    simp only [exec, top, runM_eff, setSem]
  · exact intSetF_iff (hnf _) ihB ihA ihS
  · exact floatSetF_iff (hnf _) ihB ihA ihS
  · exact strSetF_iff ihB ihA ihS
  · exact enumSetByValueF_iff ihS
  · exact boolSetF_iffI ihS n b st.s s'
  · unfold cmdExecuteF specCmdExecute
    cases hg : cx.graph n with
    | none => simp
    | some nd =>
      cases nd <;> simp only <;> try (simp; done)
      rename_i b value cmdValue
      simp only [commandExecute, M.eff_bind_ok_iff, M.eff_ofR, Prod.mk.injEq, Option.bind_eq_some_iff]
      constructor
      · rintro ⟨v, s1, ⟨hv, rfl⟩, h⟩
        exact ⟨v, slotOrNodeIntValue_spec ihB hv, (sonSetInt_iff ihS).mp h⟩
      · rintro ⟨v, hv, h⟩
        exact ⟨v, st.s, ⟨sonInt_exec ihA hv, rfl⟩, (sonSetInt_iff ihS).mpr h⟩
  · unfold regWriteF specRegWrite
    cases hg : cx.graph n with
    | none => simp
    | some nd =>
      simp only
      cases hr : nd.regBase? with
      | none => simp
      | some rb => exact writeAndCache_iff ihB ihA

/-- **refines_spec_partial (limits and the remaining setters)**: on graphs without converter /
swiss-knife nodes, `min` / `max` / `inc` of integer and float features (through `pMin` /
`pMax` / `pInc`, the representation's range for registers, the mask's range for masked
registers), `max_length` of string features, `set_min` / `set_max`, and
`set_entry_by_symbolic` answer — respectively succeed with final state `s'` — exactly
when the reference definitions in `GenApiSem` say so. -/
theorem refines_spec_partial_limits (cx : Ctx F E) (hnf : NoFormulaNodes cx) (fuel : Nat) (n : NodeId)
    (st : St F) (s' : S F) :
    (∀ v, (exec cx (fuel + 1) (.intMin n) st).1 = .ok (.int v) ↔ specIntMin cx fuel n st.s = some v) ∧
    (∀ v, (exec cx (fuel + 1) (.intMax n) st).1 = .ok (.int v) ↔ specIntMax cx fuel n st.s = some v) ∧
    (∀ v, (exec cx (fuel + 1) (.intInc n) st).1 = .ok (.optInt v) ↔ specIntInc cx fuel n st.s = some v) ∧
    (∀ v, (exec cx (fuel + 1) (.floatMin n) st).1 = .ok (.float v) ↔ specFloatMin cx fuel n st.s = some v) ∧
    (∀ v, (exec cx (fuel + 1) (.floatMax n) st).1 = .ok (.float v) ↔ specFloatMax cx fuel n st.s = some v) ∧
    (∀ v, (exec cx (fuel + 1) (.floatInc n) st).1 = .ok (.optFloat v) ↔ specFloatInc cx fuel n st.s = some v) ∧
    (∀ v, (exec cx (fuel + 1) (.strMaxLength n) st).1 = .ok (.int v) ↔
        specStrMaxLength cx (fuel + 1) n st.s = some v) ∧
    (∀ v, ((exec cx (fuel + 1) (.intSetMin n v) st).1 = .ok .unit ∧ (exec cx (fuel + 1) (.intSetMin n v) st).2.s = s') ↔
        specIntSetMin cx fuel n v st.s = some s') ∧
    (∀ v, ((exec cx (fuel + 1) (.intSetMax n v) st).1 = .ok .unit ∧ (exec cx (fuel + 1) (.intSetMax n v) st).2.s = s') ↔
        specIntSetMax cx fuel n v st.s = some s') ∧
    (∀ v, ((exec cx (fuel + 1) (.floatSetMin n v) st).1 = .ok .unit ∧ (exec cx (fuel + 1) (.floatSetMin n v) st).2.s = s') ↔
        specFloatSetMin cx fuel n v st.s = some s') ∧
    (∀ v, ((exec cx (fuel + 1) (.floatSetMax n v) st).1 = .ok .unit ∧ (exec cx (fuel + 1) (.floatSetMax n v) st).2.s = s') ↔
        specFloatSetMax cx fuel n v st.s = some s') ∧
    (∀ name, ((exec cx (fuel + 1) (.enumSetByName n name) st).1 = .ok .unit ∧
              (exec cx (fuel + 1) (.enumSetByName n name) st).2.s = s') ↔
        specEnumSetByName cx fuel n name st.s = some s') := by
  refine ⟨fun v => ?_, fun v => ?_, fun v => ?_, fun v => ?_, fun v => ?_, fun v => ?_, fun v => ?_,
    fun v => ?_, fun v => ?_, fun v => ?_, fun v => ?_, fun name => ?_⟩ <;>
    simp only [exec, top, runM_eff]
  · exact read_iff st v (fun a b h => by injection h) (fun a h => (intMinF_iff cx hnf fuel n st.s a).mp h)
      (fun a h => (intMinF_iff cx hnf fuel n st.s a).mpr h)
  · exact read_iff st v (fun a b h => by injection h) (fun a h => (intMaxF_iff cx hnf fuel n st.s a).mp h)
      (fun a h => (intMaxF_iff cx hnf fuel n st.s a).mpr h)
  · exact read_iff st v (fun a b h => by injection h) (fun a h => (intIncF_iff cx hnf fuel n st.s a).mp h)
      (fun a h => (intIncF_iff cx hnf fuel n st.s a).mpr h)
  · exact read_iff st v (fun a b h => by injection h) (fun a h => (floatMinF_iff cx hnf fuel n st.s a).mp h)
      (fun a h => (floatMinF_iff cx hnf fuel n st.s a).mpr h)
  · exact read_iff st v (fun a b h => by injection h) (fun a h => (floatMaxF_iff cx hnf fuel n st.s a).mp h)
      (fun a h => (floatMaxF_iff cx hnf fuel n st.s a).mpr h)
  · exact read_iff st v (fun a b h => by injection h) (fun a h => (floatIncF_iff cx hnf fuel n st.s a).mp h)
      (fun a h => (floatIncF_iff cx hnf fuel n st.s a).mpr h)
  · have key := strMaxLength_iff cx hnf (fuel + 1) n st.s
    simp only [execRec, step] at key
    exact read_iff st v (fun a b h => by injection h) (fun a h => (key a).mp h) (fun a h => (key a).mpr h)
  · exact intSetMinF_iff cx hnf fuel n v st.s s'
  · exact intSetMaxF_iff cx hnf fuel n v st.s s'
  · exact floatSetMinF_iff cx hnf fuel n v st.s s'
  · exact floatSetMaxF_iff cx hnf fuel n v st.s s'
  · exact enumSetByNameF_iff cx hnf fuel n name st.s s'

/-- **refines_spec_partial (raw register read)**: on graphs without converter / swiss-knife
nodes, `IRegister::read` into a buffer of `bufLen` bytes succeeds with `bs` exactly when the
reference says the register's bytes (its length's worth of the device image at its address,
through a plain port) are `bs` and `bufLen` is that length. -/
theorem refines_spec_partial_regread (cx : Ctx F E) (hnf : NoFormulaNodes cx) (fuel : Nat) (n : NodeId)
    (bufLen : Nat) (st : St F) (bs : Bytes) :
    (exec cx (fuel + 1) (.regRead n bufLen) st).1 = .ok (.bytes bs) ↔
      specRegRead cx fuel n bufLen st.s = some bs := by
  simp only [exec, top]
  exact read_iff st bs (fun a b h => by injection h) (fun a h => (regReadF_iff cx hnf fuel n bufLen st.s a).mp h)
    (fun a h => (regReadF_iff cx hnf fuel n bufLen st.s a).mpr h)

/-- **refines_spec_formula_reads**: for EVERY graph — swiss knives and converters included,
no `NoFormulaNodes` hypothesis — a value read succeeds with `v` exactly when the reference
semantics assigns `v`.  For an (Int)SwissKnife that is its formula evaluated (by the
evaluator parameter) in the environment variables < constants < expressions, every
`<pVariable>` bound to what its accessor names (`X` / `X.Value` the current value — integer,
float, boolean as 1 / 0, enumeration as the NumericValue of its current entry —, `X.Min` /
`X.Max` / `X.Inc` the current limits, `X.Enum.<entry>` that entry's declared value); for an
(Int)Converter it is FormulaFrom in the same environment on top of `TO` = the current value
of pValue.  The same for the other read interfaces a formula variable can draw on: boolean
value, current entry, and the limits (an IntSwissKnife's minimum and maximum are its
value, converters have the type's range, neither has an increment). -/
theorem refines_spec_formula_reads (cx : Ctx F E) (fuel : Nat) (n : NodeId) (st : St F) :
    (∀ v, (exec cx (fuel + 1) (.intValue n) st).1 = .ok (.int v) ↔ (valSem cx (fuel + 1)).int n st.s = some v) ∧
    (∀ v, (exec cx (fuel + 1) (.floatValue n) st).1 = .ok (.float v) ↔ (valSem cx (fuel + 1)).float n st.s = some v) ∧
    (∀ v, (exec cx (fuel + 1) (.strValue n) st).1 = .ok (.str v) ↔ (valSem cx (fuel + 1)).str n st.s = some v) ∧
    (∀ v, (exec cx (fuel + 1) (.enumCurrentValue n) st).1 = .ok (.int v) ↔ (valSem cx (fuel + 1)).enum n st.s = some v) ∧
    (∀ b, (exec cx (fuel + 1) (.boolValue n) st).1 = .ok (.bool b) ↔ (valSem cx (fuel + 1)).bool n st.s = some b) ∧
    (∀ e, (exec cx (fuel + 1) (.enumCurrentEntry n) st).1 = .ok (.node e) ↔ (valSem cx (fuel + 1)).entry n st.s = some e) ∧
    (∀ v, (exec cx (fuel + 1) (.intMin n) st).1 = .ok (.int v) ↔ (valSem cx (fuel + 1)).intMin n st.s = some v) ∧
    (∀ v, (exec cx (fuel + 1) (.intMax n) st).1 = .ok (.int v) ↔ (valSem cx (fuel + 1)).intMax n st.s = some v) ∧
    (∀ v, (exec cx (fuel + 1) (.intInc n) st).1 = .ok (.optInt v) ↔ (valSem cx (fuel + 1)).intInc n st.s = some v) ∧
    (∀ v, (exec cx (fuel + 1) (.floatMin n) st).1 = .ok (.float v) ↔ (valSem cx (fuel + 1)).floatMin n st.s = some v) ∧
    (∀ v, (exec cx (fuel + 1) (.floatMax n) st).1 = .ok (.float v) ↔ (valSem cx (fuel + 1)).floatMax n st.s = some v) ∧
    (∀ v, (exec cx (fuel + 1) (.floatInc n) st).1 = .ok (.optFloat v) ↔ (valSem cx (fuel + 1)).floatInc n st.s = some v) := by
  have ih := fullIH cx (fuel + 1)
  have key : ∀ {α : Type} (m : R F α) (f : α → Val F) (o : Option α) (v : α),
      (∀ a b, f a = f b → a = b) → (∀ a, R.val m st.s = .ok a ↔ o = some a) →
      ((runR m f st).1 = .ok (f v) ↔ o = some v) :=
    fun m f o v hinj h => read_iff st v hinj (fun a ha => (h a).mp ha) (fun a ha => (h a).mpr ha)
  refine ⟨fun v => ?_, fun v => ?_, fun v => ?_, fun v => ?_, fun v => ?_, fun v => ?_, fun v => ?_,
    fun v => ?_, fun v => ?_, fun v => ?_, fun v => ?_, fun v => ?_⟩ <;> simp only [exec, top]
  · exact key _ _ _ v (fun a b h => by injection h) (fun a => ⟨ih.val.int n st.s a, ih.spec.int n st.s a⟩)
  · exact key _ _ _ v (fun a b h => by injection h) (fun a => ⟨ih.val.float n st.s a, ih.spec.float n st.s a⟩)
  · exact key _ _ _ v (fun a b h => by injection h) (fun a => ⟨ih.val.str n st.s a, ih.spec.str n st.s a⟩)
  · exact key _ _ _ v (fun a b h => by injection h) (fun a => ⟨ih.val.enum n st.s a, ih.spec.enum n st.s a⟩)
  · exact key _ _ _ v (fun a b h => by injection h) (ih.x.bool n st.s)
  · exact key _ _ _ v (fun a b h => by injection h) (ih.x.entry n st.s)
  · exact key _ _ _ v (fun a b h => by injection h) (ih.x.intMin n st.s)
  · exact key _ _ _ v (fun a b h => by injection h) (ih.x.intMax n st.s)
  · exact key _ _ _ v (fun a b h => by injection h) (ih.x.intInc n st.s)
  · exact key _ _ _ v (fun a b h => by injection h) (ih.x.floatMin n st.s)
  · exact key _ _ _ v (fun a b h => by injection h) (ih.x.floatMax n st.s)
  · exact key _ _ _ v (fun a b h => by injection h) (ih.x.floatInc n st.s)

/-- **refines_spec_formula_writes**: for EVERY graph — converters included — a write
(integer / float / string `set_value`, `set_entry_by_value`, boolean `set_value`) succeeds and
leaves value store and device image `s'` exactly when the reference write semantics maps the
state to `s'`.  For an (Int)Converter that is: FormulaTo evaluated in the environment `FROM`
(= the written value) < variables < constants < expressions, with the variables read before
anything is written, and the result written to pValue converted to the target's kind — an
integer target its integer conversion, a float target its float conversion, a boolean target
`true` exactly when the result is non-zero, an enumeration target the entry with that value
(swiss knives are not writable: no reference write, and the interpreter refuses). -/
theorem refines_spec_formula_writes (cx : Ctx F E) (fuel : Nat) (n : NodeId) (st : St F) (s' : S F) :
    (∀ v, ((exec cx (fuel + 1) (.intSet n v) st).1 = .ok .unit ∧ (exec cx (fuel + 1) (.intSet n v) st).2.s = s') ↔
        (setSem cx (fuel + 1)).int n v st.s = some s') ∧
    (∀ v, ((exec cx (fuel + 1) (.floatSet n v) st).1 = .ok .unit ∧ (exec cx (fuel + 1) (.floatSet n v) st).2.s = s') ↔
        (setSem cx (fuel + 1)).float n v st.s = some s') ∧
    (∀ v, ((exec cx (fuel + 1) (.strSet n v) st).1 = .ok .unit ∧ (exec cx (fuel + 1) (.strSet n v) st).2.s = s') ↔
        (setSem cx (fuel + 1)).str n v st.s = some s') ∧
    (∀ v, ((exec cx (fuel + 1) (.enumSetByValue n v) st).1 = .ok .unit ∧
           (exec cx (fuel + 1) (.enumSetByValue n v) st).2.s = s') ↔
        (setSem cx (fuel + 1)).enum n v st.s = some s') ∧
    (∀ b, ((exec cx (fuel + 1) (.boolSet n b) st).1 = .ok .unit ∧ (exec cx (fuel + 1) (.boolSet n b) st).2.s = s') ↔
        (setSem cx (fuel + 1)).bool n b st.s = some s') := by
  have ihS := fullSetIH cx (fuel + 1)
  refine ⟨fun v => ?_, fun v => ?_, fun v => ?_, fun v => ?_, fun b => ?_⟩ <;> simp only [exec, top, runM_eff]
  · exact ihS.int n v st.s s'
  · exact ihS.float n v st.s s'
  · exact ihS.str n v st.s s'
  · exact ihS.enum n v st.s s'
  · exact ihS.bool n b st.s s'

/-- **refines_spec_formula_rest**: the remaining interfaces, for EVERY graph (formula nodes
may occur anywhere among the referenced nodes): register address, length and raw
`IRegister::read`, string `max_length`, `set_min` / `set_max`, `set_entry_by_symbolic`, command
`execute` and raw register `write` succeed — with that answer, respectively with final value
store and device image `s'` — exactly when the reference definitions say so.  Together with
`refines_spec_formula_reads` / `_writes` this is everything `refines_spec_partial` / `_writes` /
`_limits` / `_regread` state, without their `NoFormulaNodes` hypothesis. -/
theorem refines_spec_formula_rest (cx : Ctx F E) (fuel : Nat) (n : NodeId) (st : St F) (s' : S F) :
    (∀ a, (exec cx (fuel + 1) (.regAddress n) st).1 = .ok (.int a) ↔ specRegAddress cx fuel n st.s = some a) ∧
    (∀ l, (exec cx (fuel + 1) (.regLength n) st).1 = .ok (.int l) ↔ specRegLength cx fuel n st.s = some l) ∧
    (∀ bufLen bs, (exec cx (fuel + 1) (.regRead n bufLen) st).1 = .ok (.bytes bs) ↔
        specRegRead cx fuel n bufLen st.s = some bs) ∧
    (∀ v, (exec cx (fuel + 1) (.strMaxLength n) st).1 = .ok (.int v) ↔
        specStrMaxLength cx (fuel + 1) n st.s = some v) ∧
    (∀ v, ((exec cx (fuel + 1) (.intSetMin n v) st).1 = .ok .unit ∧ (exec cx (fuel + 1) (.intSetMin n v) st).2.s = s') ↔
        specIntSetMin cx fuel n v st.s = some s') ∧
    (∀ v, ((exec cx (fuel + 1) (.intSetMax n v) st).1 = .ok .unit ∧ (exec cx (fuel + 1) (.intSetMax n v) st).2.s = s') ↔
        specIntSetMax cx fuel n v st.s = some s') ∧
    (∀ v, ((exec cx (fuel + 1) (.floatSetMin n v) st).1 = .ok .unit ∧ (exec cx (fuel + 1) (.floatSetMin n v) st).2.s = s') ↔
        specFloatSetMin cx fuel n v st.s = some s') ∧
    (∀ v, ((exec cx (fuel + 1) (.floatSetMax n v) st).1 = .ok .unit ∧ (exec cx (fuel + 1) (.floatSetMax n v) st).2.s = s') ↔
        specFloatSetMax cx fuel n v st.s = some s') ∧
    (∀ name, ((exec cx (fuel + 1) (.enumSetByName n name) st).1 = .ok .unit ∧
              (exec cx (fuel + 1) (.enumSetByName n name) st).2.s = s') ↔
        specEnumSetByName cx fuel n name st.s = some s') ∧
    (((exec cx (fuel + 1) (.cmdExecute n) st).1 = .ok .unit ∧ (exec cx (fuel + 1) (.cmdExecute n) st).2.s = s') ↔
        specCmdExecute cx fuel n st.s = some s') ∧
    (∀ data, ((exec cx (fuel + 1) (.regWrite n data) st).1 = .ok .unit ∧
              (exec cx (fuel + 1) (.regWrite n data) st).2.s = s') ↔
        specRegWrite cx fuel n data st.s = some s') := by
  have hs := IHs.full cx
  have ihB := hs.val fuel
  have ihA := hs.spec fuel
  have ihS := hs.set fuel
  refine ⟨fun a => ?_, fun l => ?_, fun bufLen bs => ?_, fun v => ?_, fun v => ?_, fun v => ?_, fun v => ?_,
    fun v => ?_, fun name => ?_, ?_, fun data => ?_⟩ <;> simp only [exec, top, runM_eff]
  · exact read_iff st a (fun a b h => by injection h) (fun x h => (regAddressF_iffI ihB ihA n st.s x).mp h)
      (fun x h => (regAddressF_iffI ihB ihA n st.s x).mpr h)
  · exact read_iff st l (fun a b h => by injection h) (fun x h => (regLengthF_iffI ihB ihA n st.s x).mp h)
      (fun x h => (regLengthF_iffI ihB ihA n st.s x).mpr h)
  · exact read_iff st bs (fun a b h => by injection h) (fun a h => (regReadF_iffH cx hs fuel n bufLen st.s a).mp h)
      (fun a h => (regReadF_iffH cx hs fuel n bufLen st.s a).mpr h)
  · have key := strMaxLength_iffH cx hs (fuel + 1) n st.s
    simp only [execRec, step] at key
    exact read_iff st v (fun a b h => by injection h) (fun a h => (key a).mp h) (fun a h => (key a).mpr h)
  · exact intSetMinF_iffH cx hs fuel n v st.s s'
  · exact intSetMaxF_iffH cx hs fuel n v st.s s'
  · exact floatSetMinF_iffH cx hs fuel n v st.s s'
  · exact floatSetMaxF_iffH cx hs fuel n v st.s s'
  · exact enumSetByNameF_iffH cx hs fuel n name st.s s'
  · unfold cmdExecuteF specCmdExecute
    cases hg : cx.graph n with
    | none => simp
    | some nd =>
      cases nd <;> simp only <;> try (simp; done)
      rename_i b value cmdValue
      simp only [commandExecute, M.eff_bind_ok_iff, M.eff_ofR, Prod.mk.injEq, Option.bind_eq_some_iff]
      constructor
      · rintro ⟨v, s1, ⟨hv, rfl⟩, h⟩
        exact ⟨v, slotOrNodeIntValue_spec ihB hv, (sonSetInt_iff ihS).mp h⟩
      · rintro ⟨v, hv, h⟩
        exact ⟨v, st.s, ⟨sonInt_exec ihA hv, rfl⟩, (sonSetInt_iff ihS).mpr h⟩
  · unfold regWriteF specRegWrite
    cases hg : cx.graph n with
    | none => simp
    | some nd =>
      simp only
      cases hr : nd.regBase? with
      | none => simp
      | some rb => exact writeAndCache_iff ihB ihA

/-- what `refines_spec_formula_reads` says for an IntSwissKnife, spelled out: the value is
`v` iff there are variable bindings `env1` (one per `<pVariable>`, F2 / F3) such that the
formula evaluates — in expressions ++ constants ++ variables, newest first — to a result
whose integer conversion is `v` -/
theorem swissknife_read_spec (cx : Ctx F E) (fuel : Nat) (n : NodeId) (b : Base) (fm : Formulaic F E)
    (formula : E) (st : St F) (hg : cx.graph n = some (.intSwissKnife b fm formula)) (v : Int) :
    (exec cx (fuel + 1) (.intValue n) st).1 = .ok (.int v) ↔
      ∃ env1 r, specVars cx (valSem cx fuel) fm.vars [] st.s = some env1 ∧
        cx.ops.eval cx.profile
          (Env.lookup (fm.exprs.reverse ++ ((fm.consts.map fun c => (c.1, numLitExpr cx c.2)).reverse ++ env1)))
          formula = .ok r ∧
        EvalResult.asInteger cx r = v := by
  rw [(refines_spec_formula_reads cx fuel n st).1 v]
  simp only [valSem, valStep, hg, knifeResult, specEnv, evalFormula, Option.map_eq_some_iff,
    Option.bind_eq_some_iff]
  constructor
  · rintro ⟨r, ⟨env, ⟨env1, h1, rfl⟩, hr⟩, rfl⟩
    exact ⟨env1, r, h1, by
      cases he : cx.ops.eval cx.profile
          (Env.lookup (fm.exprs.reverse ++ ((fm.consts.map fun c => (c.1, numLitExpr cx c.2)).reverse ++ env1)))
          formula <;> simp [he, resOpt] at hr ⊢
      exact hr, rfl⟩
  · rintro ⟨env1, r, h1, hr, rfl⟩
    exact ⟨r, ⟨_, ⟨env1, h1, rfl⟩, by simp [hr, resOpt]⟩, rfl⟩

/-- Without any restriction on the graph: wherever the reference semantics assigns a
value, the interpreter returns exactly it. -/
theorem spec_values_returned (cx : Ctx F E) (fuel : Nat) (n : NodeId) (st : St F) :
    (∀ v, (valSem cx (fuel + 1)).int n st.s = some v → (exec cx (fuel + 1) (.intValue n) st).1 = .ok (.int v)) ∧
    (∀ v, (valSem cx (fuel + 1)).float n st.s = some v → (exec cx (fuel + 1) (.floatValue n) st).1 = .ok (.float v)) ∧
    (∀ v, (valSem cx (fuel + 1)).str n st.s = some v → (exec cx (fuel + 1) (.strValue n) st).1 = .ok (.str v)) ∧
    (∀ v, (valSem cx (fuel + 1)).enum n st.s = some v → (exec cx (fuel + 1) (.enumCurrentValue n) st).1 = .ok (.int v)) := by
  have r := refines_spec_formula_reads cx fuel n st
  exact ⟨fun v h => (r.1 v).mpr h, fun v h => (r.2.1 v).mpr h, fun v h => (r.2.2.1 v).mpr h,
    fun v h => (r.2.2.2.1 v).mpr h⟩

/-- Reads never change value store or device image (they only append to the access log):
the frame half of "final device memory equals that of the reference". -/
theorem reads_preserve_state (cx : Ctx F E) (fuel : Nat) (n : NodeId) (len : Nat) (st : St F) :
    ∀ req ∈ [Req.intValue n, .intMin n, .intMax n, .intInc n, .floatValue n, .floatMin n, .floatMax n,
              .floatInc n, .strValue n, .strMaxLength n, .boolValue n, .enumCurrentValue n,
              .enumCurrentEntry n, .enumEntries n, .cmdIsDone n, .regRead n len, .regAddress n,
              .regLength n, .isReadable n, .isWritable n, .isImplemented n, .isAvailable n, .isLocked n],
      (exec cx fuel req st).2.vs = st.vs ∧ (exec cx fuel req st).2.dev = st.dev := by
  intro req hreq
  cases fuel with
  | zero => simp [exec]
  | succ f =>
    simp only [List.mem_cons, List.not_mem_nil, or_false] at hreq
    rcases hreq with h | h | h | h | h | h | h | h | h | h | h | h | h | h | h | h | h | h | h | h | h | h | h <;>
      subst h <;> simp only [exec, top, runR] <;> constructor <;> split <;> rfl

/-! ## Non-vacuity: concrete graph, states and histories exercising the clauses -/

namespace Ex
def ops : Ops Int Unit where
  i2f i := i
  f2i f := f
  fNonZero f := f != 0
  fMin := 0
  fMax := 0
  intFromSlice bs _ _ := if bs.length = 1 then .ok (fromLE bs) else .err .invalidBuffer
  bytesFromInt v n _ _ := if n = 1 then .ok (toLE n v.toNat) else .err .invalidBuffer
  floatFromSlice _ _ := .err .invalidBuffer
  bytesFromFloat _ _ _ := .err .invalidBuffer
  strDecode b := b
  applyMask _ _ v _ _ _ := .ok v
  maskedValue _ _ _ v _ _ _ := .ok v
  maskMin _ _ _ _ _ := .ok 0
  maskMax _ _ _ _ _ := .ok 0
  exprOfInt _ := ()
  exprOfFloat _ := ()
  eval _ _ _ := .err .invalidNode

/-- 0 port · 1 Integer(slot 0) selector · 2 Integer(slot 1) · 3 IntReg @0 len 1 ·
4 IntReg @ (1 + sel·1) len 1 · 5 Integer pValue 2, copies [3, 4] · 6 Integer pIndex(sel 1):
0 ↦ slot 2, 1 ↦ node 3, default slot 3 · 7 Enumeration{8 ↦ 0, 9 ↦ 5} over slot 4 ·
10 Boolean over node 3 (On 1 / Off 0) · 11 Command: value node 3, command value slot 5 -/
def graph : Graph Int Unit
  | 0 => some (.port {} false)
  | 1 => some (.integer {} (.value 0) (.imm 6) (.imm 7) (.imm 1))
  | 2 => some (.integer {} (.value 1) (.imm 6) (.imm 7) (.imm 1))
  | 3 => some (.intReg ⟨{}, [.address (.imm 0)], .imm 1, .rw, 0⟩ .unsigned .le)
  | 4 => some (.intReg ⟨{}, [.address (.imm 1), .pIndex 1 (some (.imm 1))], .imm 1, .rw, 0⟩ .unsigned .le)
  | 5 => some (.integer {} (.pValue 2 [3, 4]) (.imm 6) (.imm 7) (.imm 1))
  | 6 => some (.integer {} (.pIndex 1 [(0, .imm 2), (1, .pnode 3)] (.imm 3)) (.imm 6) (.imm 7) (.imm 1))
  | 7 => some (.enumeration {} [8, 9] (.imm 4))
  | 8 => some (.enumEntry {} 0 none "Off")
  | 9 => some (.enumEntry {} 5 none "On")
  | 10 => some (.boolean {} (.pnode 3) 1 0)
  | 11 => some (.command {} (.pnode 3) (.imm 5))
  | _ => none

def cx : Ctx Int Unit := ⟨ops, Profile.dev, graph⟩
def st : St Int :=
  ⟨[.int 1, .int 5, .int 20, .int 30, .int 0, .int 1, .int 0, .int 9], ⟨[7, 8, 9, 10], 0, 0⟩, []⟩
/-- same, but device bytes [2, 3) refuse writes -/
def stRo : St Int := { st with dev := ⟨[7, 8, 9, 10], 2, 3⟩ }
end Ex

/-- fan-out: slot of node 2, then register 3 (@0), then register 4 (@1 + 1·1 = 2), same value -/
example : exec Ex.cx 4 (.intSet 5 9) Ex.st =
    (.ok .unit, ⟨[.int 1, .int 9, .int 20, .int 30, .int 0, .int 1, .int 0, .int 9],
                 ⟨[9, 8, 9, 10], 0, 0⟩, [.write 0 [9] true, .write 2 [9] true]⟩) := by rfl
/-- first error stops the rest: with [2,3) refused the last copy fails, the earlier writes stay -/
example : exec Ex.cx 4 (.intSet 5 9) Ex.stRo =
    (.err .device, ⟨[.int 1, .int 9, .int 20, .int 30, .int 0, .int 1, .int 0, .int 9],
                    ⟨[9, 8, 9, 10], 2, 3⟩, [.write 0 [9] true, .write 2 [9] false]⟩) := by rfl
/-- pIndex: selector = 1 selects node 3 (device byte 7); address of 4 = 1 + 1·1; length 1 -/
example : (exec Ex.cx 4 (.intValue 6) Ex.st).1 = .ok (.int 7) ∧
    (exec Ex.cx 4 (.regAddress 4) Ex.st).1 = .ok (.int 2) ∧
    (exec Ex.cx 4 (.regLength 4) Ex.st).1 = .ok (.int 1) := by
  refine ⟨?_, ?_, ?_⟩ <;> rfl
/-- enumeration: 3 is not declared → refused, nothing touched; 5 is declared → stored -/
example : exec Ex.cx 3 (.enumSetByValue 7 3) Ex.st = (.err .invalidData, Ex.st) ∧
    (exec Ex.cx 3 (.enumSetByValue 7 5) Ex.st).1 = .ok .unit ∧
    (exec Ex.cx 3 (.enumCurrentEntry 7) Ex.st).1 = .ok (.node 8) := by
  refine ⟨?_, ?_, ?_⟩ <;> rfl
/-- boolean over a register holding 7: neither On (1) nor Off (0) → error; command not done
after execute (register holds the command value) -/
example : (exec Ex.cx 4 (.boolValue 10) Ex.st).1 = .err .invalidNode ∧
    (exec Ex.cx 4 (.cmdIsDone 11) (exec Ex.cx 4 (.cmdExecute 11) Ex.st).2).1 = .ok (.bool false) := by
  constructor <;> rfl
/-- the reference semantics assigns 7 to node 6 (selector 1 ↦ register 3 ↦ device byte 7) -/
example : (valSem Ex.cx 4).int 6 Ex.st.s = some 7 := by rfl
/-- the reference write semantics of the fan-out example: slot of node 2, registers 3 and 4 -/
example : (setSem Ex.cx 4).int 5 9 Ex.st.s =
    some ⟨[.int 1, .int 9, .int 20, .int 30, .int 0, .int 1, .int 0, .int 9], ⟨[9, 8, 9, 10], 0, 0⟩⟩ := by rfl
/-- limits and the remaining setters on the example graph: model answers and the reference
definitions of `refines_spec_partial_limits` (max from value-store slot 7, register range,
set by symbolic name; an undeclared name has no reference result and is refused) -/
example : (exec Ex.cx 4 (.intMax 6) Ex.st).1 = .ok (.int 9) ∧ specIntMax Ex.cx 3 6 Ex.st.s = some 9 ∧
    (exec Ex.cx 4 (.intMin 3) Ex.st).1 = .ok (.int 0) ∧ specIntMin Ex.cx 3 3 Ex.st.s = some 0 ∧
    specIntInc Ex.cx 3 6 Ex.st.s = some (some 1) ∧
    (exec Ex.cx 4 (.enumSetByName 7 "On") Ex.st).1 = .ok .unit ∧
    (specEnumSetByName Ex.cx 3 7 "On" Ex.st.s).isSome = true ∧
    specEnumSetByName Ex.cx 3 7 "Nope" Ex.st.s = none ∧
    (exec Ex.cx 4 (.enumSetByName 7 "Nope") Ex.st).1 = .err .invalidData := by
  refine ⟨?_, ?_, ?_, ?_, ?_, ?_, ?_, ?_, ?_⟩ <;> rfl
/-- raw register read on the example graph: register 4 (address 1 + 1·1 = 2, length 1) holds
device byte 9; a 2-byte buffer does not match its length -/
example : (exec Ex.cx 4 (.regRead 4 1) Ex.st).1 = .ok (.bytes [9]) ∧ specRegRead Ex.cx 3 4 1 Ex.st.s = some [9] ∧
    (exec Ex.cx 4 (.regRead 4 2) Ex.st).1 = .err .invalidBuffer ∧ specRegRead Ex.cx 3 4 2 Ex.st.s = none := by
  refine ⟨?_, ?_, ?_, ?_⟩ <;> rfl
/-- the first-principles pieces on concrete data -/
example : selectIndexed [(0, "a"), (1, "b"), (1, "c")] "d" 1 = "b" ∧
    selectIndexed [(0, "a"), (1, "b")] "d" 5 = "d" ∧
    firstEntryWithValue Ex.cx [8, 9] 5 = some 9 ∧ firstEntryWithValue Ex.cx [8, 9] 3 = none ∧
    i64Result Profile.dev (2 ^ 63) = none ∧ i64Result Profile.release (2 ^ 63) = some (-(2 ^ 63)) ∧
    imageRead [7, 8, 9, 10] 1 2 = some [8, 9] ∧ imageRead [7, 8, 9, 10] 3 2 = none ∧
    imagePatch [7, 8, 9, 10] 1 [1, 2] = [7, 1, 2, 10] ∧
    imageWrite ⟨[7, 8, 9, 10], 2, 3⟩ 1 [1, 2] = none ∧
    imageWrite ⟨[7, 8, 9, 10], 2, 3⟩ 0 [1, 2] = some ⟨[1, 2, 9, 10], 2, 3⟩ := by
  refine ⟨?_, ?_, ?_, ?_, ?_, ?_, ?_, ?_, ?_, ?_, ?_⟩ <;> first | rfl | decide
/-- the example graph is inside the scope of `refines_spec_partial` -/
example : NoFormulaNodes Ex.cx := fun n =>
  match n with
  | 0 | 1 | 2 | 3 | 4 | 5 | 6 | 7 | 8 | 9 | 10 | 11 => trivial
  | _ + 12 => trivial
/-- the 12-node example graph is well ranked by the node id (references go to smaller ids) -/
example : WellRanked Ex.cx (fun n => n) := by
  intro n nd p hg hr
  match n, hg with
  | 0, hg | 1, hg | 2, hg | 3, hg | 7, hg | 8, hg | 9, hg =>
    simp only [Ex.cx, Ex.graph, Option.some.injEq] at hg; subst hg
    simp [Node.Ref, RegBase.Ref, Base.Ref, ValueKind.Ref, ImmOrPNode.Ref, AddressKind.Ref] at hr
  | 4, hg | 5, hg | 6, hg | 10, hg | 11, hg =>
    simp only [Ex.cx, Ex.graph, Option.some.injEq] at hg; subst hg
    simp [Node.Ref, RegBase.Ref, Base.Ref, ValueKind.Ref, ImmOrPNode.Ref, AddressKind.Ref] at hr
    first
      | (subst hr; decide)
      | (rcases hr with rfl | rfl | rfl <;> decide)
      | (rcases hr with rfl | rfl <;> decide)
  | _ + 12, hg => simp [Ex.cx, Ex.graph] at hg
/-- the hypothesis of `fuel_mono` holds with fuel 4, and fails with fuel 1 -/
example : (exec Ex.cx 4 (.intSet 5 9) Ex.st).1 ≠ .err .outOfFuel ∧
    (exec Ex.cx 1 (.intSet 5 9) Ex.st).1 = .err .outOfFuel := by
  constructor
  · intro h; cases h
  · rfl

/-! ### The open doubt about the default `<pIndex>` offset, made concrete -/

namespace Ex3
/-- 0 port · 1 Integer (slot 0 = 2), the index · 2 IntReg: Address 16, `<pIndex>` 1 WITHOUT
Offset, Length 4 — element 2 of an array of 4-byte registers starting at 16 -/
def graph : Graph Int Unit
  | 0 => some (.port {} false)
  | 1 => some (.integer {} (.value 0) (.imm 1) (.imm 2) (.imm 1))
  | 2 => some (.intReg ⟨{}, [.address (.imm 16), .pIndex 1 none], .imm 4, .rw, 0⟩ .unsigned .le)
  | _ => none
def cx : Ctx Int Unit := ⟨Ex.ops, Profile.dev, graph⟩
def st : St Int := ⟨[.int 2, .int 0, .int 9], ⟨List.replicate 32 0, 0, 0⟩, []⟩
def rb : RegBase := ⟨{}, [.address (.imm 16), .pIndex 1 none], .imm 4, .rw, 0⟩
end Ex3

/-- The code, the model and the reference semantics (reading `.one`) put the register at
16 + 2·1 = 18; under the other reading of the default offset (`.registerLength`, the
register-array reading) the same description means 16 + 2·4 = 24.  Which one the standard
prescribes is NOT settled here (see the DOUBT note in Spec/GenApiSem.lean and
props/C03.json → assumptions). -/
example : (exec Ex3.cx 3 (.regAddress 2) Ex3.st).1 = .ok (.int 18) ∧
    specRegAddress Ex3.cx 2 2 Ex3.st.s = some 18 ∧
    addrSum Ex3.cx (valSem Ex3.cx 2) (effectiveAddrsFor .one Ex3.rb) 0 Ex3.st.s = some 18 ∧
    addrSum Ex3.cx (valSem Ex3.cx 2) (effectiveAddrsFor .registerLength Ex3.rb) 0 Ex3.st.s = some 24 := by
  refine ⟨?_, ?_, ?_, ?_⟩ <;> rfl

/-! ### Formula nodes: a concrete evaluator, graph and state for `refines_spec_formula_reads` -/

namespace Ex4
/-- a toy expression language standing in for the evaluator parameter -/
inductive XE where
  | lit (i : Int)
  | var (s : String)
  | add (a b : XE)

def evalXE (env : String → Option XE) : Nat → XE → Res Err Int
  | 0, _ => .err .outOfFuel
  | _ + 1, .lit i => .ok i
  | f + 1, .var s =>
    match env s with
    | some e => evalXE env f e
    | none => .err .invalidNode
  | f + 1, .add a b =>
    match evalXE env f a, evalXE env f b with
    | .ok x, .ok y => .ok (x + y)
    | .ok _, e => e
    | e, _ => e

def ops : Ops Int XE where
  i2f i := i
  f2i f := f
  fNonZero f := f != 0
  fMin := 0
  fMax := 0
  intFromSlice bs _ _ := if bs.length = 1 then .ok (fromLE bs) else .err .invalidBuffer
  bytesFromInt v n _ _ := if n = 1 then .ok (toLE n v.toNat) else .err .invalidBuffer
  floatFromSlice _ _ := .err .invalidBuffer
  bytesFromFloat _ _ _ := .err .invalidBuffer
  strDecode b := b
  applyMask _ _ v _ _ _ := .ok v
  maskedValue _ _ _ v _ _ _ := .ok v
  maskMin _ _ _ _ _ := .ok 0
  maskMax _ _ _ _ _ := .ok 0
  exprOfInt i := .lit i
  exprOfFloat f := .lit f
  eval _ env e :=
    match evalXE env 16 e with
    | .ok i => .ok (.int i)
    | .err x => .err x
    | .panic => .panic

/-- 0 Integer (slot 0 = 7, Max = slot 2 = 9) · 1 Enumeration {2 "Off" ↦ 0, 3 "On" ↦ 5} over slot 3 ·
4 IntSwissKnife without variables: constant K = 10, expressions X = K + 1 and (later, shadowing
the constant) K = 5; formula X + K ·
5 IntConverter over pValue 0: FormulaFrom = TO + K with constant K = 10 -/
def graph : Graph Int XE
  | 0 => some (.integer {} (.value 0) (.imm 1) (.imm 2) (.imm 1))
  | 1 => some (.enumeration {} [2, 3] (.imm 3))
  | 2 => some (.enumEntry {} 0 none "Off")
  | 3 => some (.enumEntry {} 5 none "On")
  | 4 => some (.intSwissKnife {} ⟨[], [("K", .int 10)], [("X", .add (.var "K") (.lit 1)), ("K", .lit 5)]⟩
            (.add (.var "X") (.var "K")))
  | 5 => some (.intConverter {} ⟨[], [("K", .int 10)], []⟩ (.var "FROM") (.add (.var "TO") (.var "K")) 0)
  | 6 => some (.boolean {} (.imm 4) 1 0)
  | 7 => some (.intConverter {} ⟨[], [], []⟩ (.var "FROM") (.var "TO") 6)
  | 8 => some (.port {} false)
  | 9 => some (.intReg ⟨{}, [.intSwissKnife 4], .imm 1, .rw, 8⟩ .unsigned .le)
  | _ => none
def cx : Ctx Int XE := ⟨ops, Profile.dev, graph⟩
def st : St Int :=
  ⟨[.int 7, .int 0, .int 9, .int 5, .int 0], ⟨[0, 0, 0, 0, 0, 0, 0, 0, 0, 0, 0, 42, 0, 0, 0, 0], 0, 0⟩, []⟩
end Ex4

/-- a register (node 9) whose address is the swiss knife 4 (value 11): address, raw read and
value go through the formula node — `refines_spec_formula_rest` / `_reads` apply where
`refines_spec_partial` does not -/
example : (exec Ex4.cx 5 (.regAddress 9) Ex4.st).1 = .ok (.int 11) ∧ specRegAddress Ex4.cx 4 9 Ex4.st.s = some 11 ∧
    (exec Ex4.cx 5 (.regRead 9 1) Ex4.st).1 = .ok (.bytes [42]) ∧ specRegRead Ex4.cx 4 9 1 Ex4.st.s = some [42] ∧
    (exec Ex4.cx 5 (.intValue 9) Ex4.st).1 = .ok (.int 42) ∧ (valSem Ex4.cx 5).int 9 Ex4.st.s = some 42 := by
  refine ⟨?_, ?_, ?_, ?_, ?_, ?_⟩ <;> rfl

/-- converter writes (node 5: FormulaTo = FROM, pValue = Integer 0; node 7: pValue = Boolean 6,
slot 4): writing 3 stores 3 in slot 0; writing 2 to the converter over the Boolean stores the
On value 1 (2 is non-zero); writing 0 stores Off — interpreter and reference agree; the swiss
knife has no reference write and refuses -/
example : (exec Ex4.cx 4 (.intSet 5 3) Ex4.st).2.vs = [.int 3, .int 0, .int 9, .int 5, .int 0] ∧
    ((setSem Ex4.cx 4).int 5 3 Ex4.st.s).map (·.vs) = some [.int 3, .int 0, .int 9, .int 5, .int 0] ∧
    (exec Ex4.cx 4 (.intSet 7 2) Ex4.st).2.vs = [.int 7, .int 0, .int 9, .int 5, .int 1] ∧
    ((setSem Ex4.cx 4).int 7 2 Ex4.st.s).map (·.vs) = some [.int 7, .int 0, .int 9, .int 5, .int 1] ∧
    ((setSem Ex4.cx 4).int 7 0 Ex4.st.s).map (·.vs) = some [.int 7, .int 0, .int 9, .int 5, .int 0] ∧
    (setSem Ex4.cx 4).int 4 1 Ex4.st.s = none ∧
    (exec Ex4.cx 4 (.intSet 4 1) Ex4.st).1 = .err .notWritable := by
  refine ⟨?_, ?_, ?_, ?_, ?_, ?_, ?_⟩ <;> rfl

/-- the swiss knife: the later expression K = 5 shadows the constant K = 10, so X = 6 and the
value is 11 — in the interpreter and in the reference semantics; the converter reads
TO + K = 7 + 10; both nodes are outside `NoFormulaNodes` -/
example : (exec Ex4.cx 3 (.intValue 4) Ex4.st).1 = .ok (.int 11) ∧
    (valSem Ex4.cx 3).int 4 Ex4.st.s = some 11 ∧
    (exec Ex4.cx 3 (.intValue 5) Ex4.st).1 = .ok (.int 17) ∧
    (valSem Ex4.cx 3).int 5 Ex4.st.s = some 17 ∧
    (valSem Ex4.cx 3).intMin 4 Ex4.st.s = some 11 ∧
    (valSem Ex4.cx 3).intInc 5 Ex4.st.s = some none ∧
    ¬ NoFormulaNodes Ex4.cx := by
  refine ⟨?_, ?_, ?_, ?_, ?_, ?_, fun h => h 4⟩ <;> rfl
/-- what the accessors of a `<pVariable>` denote on this graph (F2): the value, the current
maximum, the NumericValue of the current entry (5 ↦ entry "On"), an entry's declared value;
an entry that is not declared, and `.Min` of an enumeration, denote nothing -/
example : varExpr Ex4.cx (valSem Ex4.cx 2) .value 0 Ex4.st.s = some (.lit 7) ∧
    varExpr Ex4.cx (valSem Ex4.cx 2) .max 0 Ex4.st.s = some (.lit 9) ∧
    varExpr Ex4.cx (valSem Ex4.cx 2) .value 1 Ex4.st.s = some (.lit 5) ∧
    varExpr Ex4.cx (valSem Ex4.cx 2) (.enumEntry "Off") 1 Ex4.st.s = some (.lit 0) ∧
    varExpr Ex4.cx (valSem Ex4.cx 2) (.enumEntry "Nope") 1 Ex4.st.s = none ∧
    varExpr Ex4.cx (valSem Ex4.cx 2) .min 1 Ex4.st.s = none ∧
    (varGetValue Ex4.cx (execRec Ex4.cx 2) .max 0 Ex4.st.s).1 = .ok (.lit 9) := by
  refine ⟨?_, ?_, ?_, ?_, ?_, ?_, ?_⟩ <;> rfl

namespace Ex2
/-- 0: Integer over a value-store slot · 1: Integer with pValue 0, locked by 0, pMax 0, pInc 0 -/
def graph : Graph Int Unit
  | 0 => some (.integer {} (.value 0) (.imm 1) (.imm 2) (.imm 1))
  | 1 => some (.integer { pIsLocked := some 0 } (.pValue 0 []) (.imm 1) (.pnode 0) (.pnode 0))
  | _ => none
def cx : Ctx Int Unit := ⟨Ex.ops, Profile.dev, graph⟩
end Ex2

macro "unfold_ex2 " h:ident : tactic => `(tactic|
  simp only [step, top, runR, runM, intValueF, intSetF, intMinF, intMaxF, intIncF, intSetMinF, intSetMaxF,
    intIsReadableF, intIsWritableF, isReadableF, isWritableF, isImplementedF, isAvailableF, isLockedF,
    floatValueF, floatSetF, floatMinF, floatMaxF, floatIncF, floatSetMinF, floatSetMaxF, floatIsReadableF,
    floatIsWritableF, strValueF, strSetF, strMaxLengthF, strIsReadableF, strIsWritableF, boolValueF, boolSetF,
    boolIsReadableF, boolIsWritableF, enumCurrentValueF, enumCurrentEntryF, enumSetByValueF, enumSetByNameF,
    enumEntriesF, enumIsReadableF, enumIsWritableF, cmdExecuteF, cmdIsDoneF, cmdIsWritableF, regReadF,
    regWriteF, regAddressF, regLengthF, Node.base, Node.regBase?,
    Ex2.cx, Ex2.graph, vkIntValue, vkIntSet, vkIsReadable, vkIsWritable, pValueIntSet, pValueIsWritable,
    copiesIntSet, copiesIsWritable, nidIntValue, nidIntSet, nidIsReadable, nidIsWritable, isIntKind,
    isFloatKind, isStrKind, isBoolKind, isEnumKind,
    slotOrNodeIntValue, slotOrNodeIntSet, immIntValue, baseIsReadable, baseIsWritable, baseIsImplemented,
    baseIsAvailable, baseIsLocked, boolFromId, if_true, Bool.false_eq_true, if_false,
    ($h).intValue, ($h).intSet, ($h).intIsReadable, ($h).intIsWritable])

/-- the hypotheses of `acyclic_terminates` are satisfiable: this graph is acyclic for rank = id -/
theorem Ex2.acyclic : Acyclic Ex2.cx (fun n => n) where
  step n r1 r2 h := by
    match n with
    | 0 => constructor <;> rfl
    | 1 =>
      have h0 := h 0 (by decide)
      constructor
      all_goals first
        | rfl
        | (funext v; unfold_ex2 h0)
        | (unfold_ex2 h0)
    | _ + 2 => constructor <;> rfl
  top req st r1 r2 h := by
    cases req <;> simp only [reqNode] at h <;>
      (first
        | (rename_i n; match n, h with
            | 0, _ => rfl
            | 1, h => (have h0 := h 0 (by decide); first | rfl | (unfold_ex2 h0))
            | _ + 2, _ => rfl)
        | (rename_i n m; match n, h with
            | 0, _ => rfl
            | 1, h => (have h0 := h 0 (by decide); first | rfl | (unfold_ex2 h0))
            | _ + 2, _ => rfl))

theorem Ex2.opsTotal : OpsTotal Ex2.cx.ops := by
  constructor <;> intros <;> simp [Ex2.cx, Ex.ops] <;> (try split) <;> simp

/-- … and the conclusion applied: reading node 1 with fuel rank + 1 = 2 (or any more) is answered -/
example (st : St Int) (k : Nat) : (exec Ex2.cx (1 + 1 + k) (.intValue 1) st).1 ≠ .err .outOfFuel :=
  (acyclic_terminates Ex2.cx (fun n => n) Ex2.acyclic Ex2.opsTotal (.intValue 1) st k).1

end CamVerif.C03
