/-
C14 — Device description retrieval returns exactly the newest device XML or fails.

Property theorems only.  Vocabulary (`Proofs/C14.lean`): `Stateless o dev` = the device answers
every `read(addr, len)` with `dev addr len : Res Bytes` whatever its state (a conforming device
over a fixed image; unmapped ranges answer with an error); `fetchFrom o dev table` = the `genapi`
model specialised to such a device; `header dev ent` = what the selection loop reads of the entry
at `ent` (`some candidate` = device XML entry with its decoded version, `none` = buffer XML entry,
error = unreadable or reserved file type); `Newest dev first n r` = `r` is the first
maximal-version device-XML candidate among entries `0..n` (`none`: there is none);
`entAddr first i` = address of entry `i`.  `sha1`, `unzip`, `lossy` (= `String::from_utf8_lossy`)
are parameters: the theorems hold for every choice of them.
-/
import CamVerif.Proofs.C14
namespace CamVerif.C14
open CamVerif CamVerif.GenApiFetch

variable {σ : Type}

/-! ## 0. The model on a stateless device is a function of the device content -/

/-- **refinement (warm cache)**: with the manifest table address cached, `genapi` returns
`fetchFrom`, from every device state. -/
theorem genapi_refines_warm (o : Ops σ) (dev : Nat → Nat → R Bytes) (h : Stateless o dev)
    (st : St σ) (table : Nat) (hc : st.manifest = some table) :
    ∃ st', genapi o st = (fetchFrom o dev table, st') := by
  obtain ⟨st', hs, _⟩ := Always.genapiFrom h.on table st trivial
  refine ⟨st', ?_⟩
  show M.bind (manifestTable o) (genapiFrom o) st = _
  simp only [M.bind, manifestTable_warm o st table hc, hs]

/-- **refinement (cold cache)**: the table address is read from ABRM `0x1D0` first. -/
theorem genapi_refines_cold (o : Ops σ) (dev : Nat → Nat → R Bytes) (h : Stateless o dev)
    (st : St σ) (hc : st.manifest = none) :
    ∃ st', genapi o st =
      (readRegP dev 0 ABRM_MANIFEST_TABLE_ADDRESS 8 >>= fetchFrom o dev, st') := by
  -- from a cold cache `manifestTable` is `readReg` + `setManifest`
  obtain ⟨st1, h1, _⟩ := Always.readReg h.on 0 ABRM_MANIFEST_TABLE_ADDRESS 8 st trivial
  show ∃ st', M.bind (manifestTable o) (genapiFrom o) st = _
  cases hr : readRegP dev 0 ABRM_MANIFEST_TABLE_ADDRESS 8 with
  | ok a =>
    rw [hr] at h1
    obtain ⟨st', hs, _⟩ := Always.genapiFrom h.on a { st1 with manifest := some a } trivial
    exact ⟨st', by simp only [M.bind, manifestTable_cold_ok o st st1 a hc h1, hs]; rfl⟩
  | err e =>
    rw [hr] at h1
    exact ⟨st1, by simp only [M.bind, manifestTable_cold_err o st st1 e hc h1]; rfl⟩
  | panic =>
    rw [hr] at h1
    exact ⟨st1, by simp only [M.bind, manifestTable_cold_panic o st st1 hc h1]; rfl⟩

/-! ## 1. Selection -/

/-- **selects_newest**: if the retrieval succeeds, the table was readable as advertised
(`n` entries from `first`), and the entry whose file is returned is a device-XML entry whose
version is maximal among all device-XML entries and strictly newer than every device-XML entry
before it (the first of the maximal ones); every one of the `n` headers was readable with a
valid file type. -/
theorem selects_newest (o : Ops σ) (dev : Nat → Nat → R Bytes) (table : Nat) (t : Bytes)
    (h : fetchFrom o dev table = .ok t) :
    ∃ n first c i, entriesP dev table = .ok (n, first) ∧ i < n ∧
      header dev (entAddr first i) = .ok (some c) ∧
      (∀ j cj, j < n → header dev (entAddr first j) = .ok (some cj) → cj.version.le c.version = true) ∧
      (∀ j cj, j < i → header dev (entAddr first j) = .ok (some cj) → c.version.le cj.version = false) ∧
      (∀ j, j < n → ∃ hj, header dev (entAddr first j) = .ok hj) ∧
      fetchSelected o dev c = .ok t := by
  unfold fetchFrom at h
  obtain ⟨⟨n, first⟩, h1, h2⟩ := Res.bind_eq_ok h
  obtain ⟨newest, h3, h4⟩ := Res.bind_eq_ok h2
  have hinv : Newest dev first 0 none := fun j hj => by omega
  obtain ⟨g1, g2⟩ := scanP_newest dev first n 0 none newest hinv h3
  rw [Nat.zero_add] at g1 g2
  cases newest with
  | none => cases h4
  | some c =>
    obtain ⟨i, hi, hc, hmax, hfirst⟩ := g1
    exact ⟨n, first, c, i, h1, hi, hc, hmax, hfirst, fun j hj => g2 j (Nat.zero_le _) hj, h4⟩

/-- **none ⇒ err**: a readable table without any device-XML entry is an error. -/
theorem no_device_xml_is_error (o : Ops σ) (dev : Nat → Nat → R Bytes) (table n first : Nat)
    (h1 : entriesP dev table = .ok (n, first))
    (h2 : ∀ j, j < n → header dev (entAddr first j) = .ok none) :
    fetchFrom o dev table = .err .invalidDevice := by
  unfold fetchFrom
  rw [h1]
  simp only [Res.bind_ok]
  rw [scanP_all_none dev first n 0 none (fun j _ hj => h2 j (by omega))]
  rfl
/-- **selection is complete and deterministic**: if the table is readable as advertised, every
header is readable with a valid file type, and `c` is the first maximal device-XML candidate,
then the retrieval is exactly the retrieval of `c`'s file (`Ok` iff that succeeds, with the same
text or error). Together with `selects_newest`: `genapi` returns `Ok t` iff the device is
well-formed in this sense and `t` is the text of that entry. -/
theorem retrieves_exactly_newest (o : Ops σ) (dev : Nat → Nat → R Bytes) (table n first i : Nat)
    (c : Candidate)
    (h1 : entriesP dev table = .ok (n, first))
    (hall : ∀ j, j < n → ∃ hj, header dev (entAddr first j) = .ok hj)
    (hi : i < n) (hc : header dev (entAddr first i) = .ok (some c))
    (hmax : ∀ j cj, j < n → header dev (entAddr first j) = .ok (some cj) → cj.version.le c.version = true)
    (hfirst : ∀ j cj, j < i → header dev (entAddr first j) = .ok (some cj) → c.version.le cj.version = false) :
    fetchFrom o dev table = fetchSelected o dev c := by
  obtain ⟨r, hr⟩ := scanP_ok_of_headers dev first n 0 none (fun j _ hj => hall j (by omega))
  have hinv : Newest dev first 0 none := fun j hj => by omega
  obtain ⟨g1, _⟩ := scanP_newest dev first n 0 none r hinv hr
  rw [Nat.zero_add] at g1
  have hN : Newest dev first n (some c) := ⟨i, hi, hc, hmax, hfirst⟩
  have := g1.unique hN
  subst this
  unfold fetchFrom
  rw [h1]
  simp only [Res.bind_ok, hr]

/-- **table_must_fit**: a manifest table (8 byte count + 64 byte entries) that does not lie
within the 64 bit address space is refused before any entry is read; a table that ends exactly at
`2^64` is accepted (`entriesP` then yields its `n` entries from `table + 8`). -/
theorem table_must_fit (o : Ops σ) (dev : Nat → Nat → R Bytes) (table n : Nat)
    (h1 : readRegP dev table 0 8 = .ok n) :
    (2 ^ 64 < table + 8 + n * 64 → fetchFrom o dev table = .err .invalidDevice) ∧
    (table + 8 + n * 64 ≤ 2 ^ 64 → entriesP dev table = .ok (n, table + 8)) := by
  constructor
  · intro h2
    unfold fetchFrom entriesP
    simp only [h1, Res.bind_ok]
    rw [if_neg (by omega)]
    rfl
  · intro h2
    unfold entriesP
    simp only [h1, Res.bind_ok]
    rw [if_pos h2]
    rfl

/-- The version decoding the selection compares: all 16 bits of the subminor count
(`1.0.256` is newer than `1.0.255`). -/
theorem version_order_full_width :
    (decodeVersion 0x010000ff).le (decodeVersion 0x01000100) = true ∧
    (decodeVersion 0x01000100).le (decodeVersion 0x010000ff) = false ∧
    (decodeVersion 0x0100ffff).le (decodeVersion 0x01010000) = true := by decide

/-! ## 2. After the selection -/

/-- **returns_stored_text** (with **hash_gate** and the zip branch): if the retrieval of the
selected entry succeeds with text `t`, then the file is what the stepwise read `readFileP` of
the entry's advertised `(address, size)` returned (see `reads_whole_file`: exactly the `size`
bytes stored at `address`; one `DeviceControl::read` when `size ≤ 1 MiB`), the 20 stored hash bytes are all zero
or equal the SHA-1 of exactly those bytes, and `t` is `lossy file` when the entry is flagged
uncompressed, resp. `lossy xml` where `unzip file = some [some xml]` (exactly one member, which
was extractable) when it is flagged zip.  Nothing else can be returned. -/
theorem returns_stored_text (o : Ops σ) (dev : Nat → Nat → R Bytes) (c : Candidate) (t : Bytes)
    (h : fetchSelected o dev c = .ok t) :
    ∃ addr size file hashAddr hash,
      readRegP dev c.entry ENTRY_REGISTER_ADDRESS 8 = .ok addr ∧
      readRegP dev c.entry ENTRY_FILE_SIZE 8 = .ok size ∧
      readFileP dev addr size = .ok file ∧
      regAddr c.entry ENTRY_SHA1_HASH = .ok hashAddr ∧ dev hashAddr 20 = .ok hash ∧
      (hash.all (· == 0) = true ∨ o.sha1 file = hash) ∧
      ((compressionType c.info = .ok .uncompressed ∧ t = o.lossy file) ∨
       (compressionType c.info = .ok .zip ∧ ∃ xml, o.unzip file = some [some xml] ∧ t = o.lossy xml)) := by
  obtain ⟨addr, size, comp, buf, h1, h2, h3, h4, h5, h6⟩ := fetchSelected_inv h
  obtain ⟨r, g1, g2⟩ := verifyXmlP_inv h5
  obtain ⟨a, hb, k1, k2, k3⟩ := sha1HashP_inv g1
  refine ⟨addr, size, buf, a, hb, h1, h2, h4, k1, k2, ?_, ?_⟩
  · by_cases hz : hb.all (· == 0) = true
    · exact Or.inl hz
    · right
      rw [if_neg hz] at k3
      exact g2 hb k3
  · cases comp with
    | uncompressed =>
      left
      simp only [decodeFile, Res.ok.injEq] at h6
      exact ⟨h3, h6.symm⟩
    | zip =>
      right
      exact ⟨h3, (decodeFile_zip_iff o buf t).mp h6⟩

/-- **reads_whole_file**: the buffer is grown in steps of at most 1 MiB while data arrives
(nothing is allocated from the advertised size); when the device serves the advertised range
`[addr, addr+size)` from an image `mem`, the result is exactly the `size` bytes stored at
`addr` — for every size. -/
theorem reads_whole_file (dev : Nat → Nat → R Bytes) (mem : Nat → UInt8) (addr size : Nat)
    (hs : ServesFile dev mem addr size) (ha : addr + size ≤ 2 ^ 64) :
    readFileP dev addr size = .ok (memRange mem addr size) :=
  readFileP_mem dev mem addr size hs ha

/-- a file of at most one step (1 MiB) is one `DeviceControl::read` of exactly `(addr, size)`;
an advertised size of 0 causes no device access and yields the empty file -/
theorem file_read_one_step (dev : Nat → Nat → R Bytes) (addr size : Nat) (hs : size ≤ XML_READ_STEP)
    (ha : addr < 2 ^ 64) :
    readFileP dev addr size = if size = 0 then .ok [] else dev addr size := by
  by_cases h0 : size = 0
  · subst h0; simp [readFileP_zero]
  · rw [if_neg h0]; exact readFileP_small dev addr size (by omega) hs ha

/-- **absurd sizes**: if the device cannot serve the first step of the advertised range (e.g.
the advertised size exceeds what it maps), the retrieval of the file is that error — whatever
the advertised size (2^40, 2^63, u64::MAX …); with `total`: never a panic. -/
theorem absurd_size_is_error (dev : Nat → Nat → R Bytes) (addr size : Nat) (e : Err) (h0 : 0 < size)
    (ha : addr < 2 ^ 64) (hfail : dev addr (min XML_READ_STEP size) = .err e) :
    readFileP dev addr size = .err e := by
  have hf : size / XML_READ_STEP + 1 = (size / XML_READ_STEP) + 1 := rfl
  unfold readFileP
  rw [hf]
  unfold readFileLoopP
  simp only [h0, if_true, Nat.add_zero, Nat.sub_zero, ha, Res.bind_ok, hfail]
  rfl

/-- **hash_gate**: hash present and different from the SHA-1 of the retrieved file ⇒ error,
whatever the compression flag and the archive content. -/
theorem hash_gate (o : Ops σ) (dev : Nat → Nat → R Bytes) (c : Candidate)
    (addr size hashAddr : Nat) (file hash : Bytes)
    (h1 : readRegP dev c.entry ENTRY_REGISTER_ADDRESS 8 = .ok addr)
    (h2 : readRegP dev c.entry ENTRY_FILE_SIZE 8 = .ok size)
    (h3 : readFileP dev addr size = .ok file)
    (h4 : regAddr c.entry ENTRY_SHA1_HASH = .ok hashAddr) (h5 : dev hashAddr 20 = .ok hash)
    (hpresent : hash.all (· == 0) = false) (hdiff : o.sha1 file ≠ hash) :
    ∃ e, fetchSelected o dev c = .err e := by
  cases hres : fetchSelected o dev c with
  | err e => exact ⟨e, rfl⟩
  | panic =>
    -- no step of `fetchSelected` panics once the reads above succeed
    exfalso
    unfold fetchSelected at hres
    simp only [h1, h2, Res.bind_ok] at hres
    cases hc : compressionType c.info with
    | panic => exact compressionType_ne_panic _ hc
    | err e => rw [hc] at hres; cases hres
    | ok comp =>
      rw [hc] at hres
      simp only [Res.bind_ok, h3, verifyXmlP, sha1HashP, h4, h5, hpresent, Bool.false_eq_true,
        if_false, Res.pure_eq, hdiff] at hres
      cases hres
  | ok t =>
    exfalso
    obtain ⟨addr', size', file', ha', hash', g1, g2, g3, g4, g5, g6, _⟩ := returns_stored_text o dev c t hres
    rw [h1] at g1; cases g1
    rw [h2] at g2; cases g2
    rw [h3] at g3; cases g3
    rw [h4] at g4; cases g4
    rw [h5] at g5; cases g5
    rcases g6 with g | g
    · rw [hpresent] at g; cases g
    · exact hdiff g

/-- **zip_exactly_one**: the zip branch succeeds iff the archive opens, holds exactly one member
and that member can be extracted; the text is then that member (through `lossy`). -/
theorem zip_exactly_one (o : Ops σ) (buf t : Bytes) :
    decodeFile o .zip buf = .ok t ↔ ∃ xml, o.unzip buf = some [some xml] ∧ t = o.lossy xml :=
  decodeFile_zip_iff o buf t

/-- a corrupt archive, an empty one, one with two members, or one whose single member cannot be
extracted is an error -/
theorem zip_otherwise_error (o : Ops σ) (buf : Bytes)
    (h : ∀ xml, o.unzip buf ≠ some [some xml]) : decodeFile o .zip buf = .err .invalidDevice :=
  decodeFile_zip_err o buf h

/-- **completeness on a conforming device**: readable location, valid compression flag, readable
file, hash absent or matching, and (zip) exactly one extractable member ⇒ `Ok`. -/
theorem succeeds_when_wellformed (o : Ops σ) (dev : Nat → Nat → R Bytes) (c : Candidate)
    (addr size hashAddr : Nat) (file hash : Bytes) (comp : Compression) (t : Bytes)
    (h1 : readRegP dev c.entry ENTRY_REGISTER_ADDRESS 8 = .ok addr)
    (h2 : readRegP dev c.entry ENTRY_FILE_SIZE 8 = .ok size)
    (hc : compressionType c.info = .ok comp)
    (h3 : readFileP dev addr size = .ok file)
    (h4 : regAddr c.entry ENTRY_SHA1_HASH = .ok hashAddr) (h5 : dev hashAddr 20 = .ok hash)
    (hh : hash.all (· == 0) = true ∨ o.sha1 file = hash)
    (hd : decodeFile o comp file = .ok t) :
    fetchSelected o dev c = .ok t := by
  unfold fetchSelected
  simp only [h1, h2, hc, h3, Res.bind_ok, verifyXmlP, sha1HashP, h4, h5]
  by_cases hz : hash.all (· == 0) = true
  · simp only [hz, if_true, Res.pure_eq, Res.bind_ok, hd]
  · rcases hh with hh | hh
    · exact absurd hh hz
    · simp [hz, hh, hd]

/-! ## 3. Totality -/

/-- **total**: on any device whatsoever (any state machine behind `read`, answering anything:
garbage, errors, at any time) and for any `sha1` / `unzip` / `lossy`, `genapi` returns `Ok` or
`Err` — it never panics, provided the layer below (`DeviceControl::read`, C06/C07) does not. -/
theorem total (o : Ops σ) (h : ∀ a n s, (o.read a n s).1 ≠ .panic) (st : St σ) :
    (genapi o st).1 ≠ .panic :=
  NeverPanics.genapi h st

/-! ## 4. Histories: the device content may change between calls on one handle -/

/-- `view s` = what the device in state `s` answers to `read(addr, len)` (its current image);
a read returns exactly that and does not change it (other parts of the device state may move). -/
def Serves (o : Ops σ) (view : σ → Nat → Nat → R Bytes) : Prop :=
  ∀ a n s, (o.read a n s).1 = view s a n ∧ view (o.read a n s).2 = view s

/-- One call of `genapi` as a pure function of the ONLY thing the handle caches for it — the
manifest table address (`ControlHandle::manifest_table`; `None` = not yet read) — and the image
the device shows during the call.  Nothing else enters: in particular no manifest entry, version,
file address, size or hash of an earlier call. -/
def genapiPure (o : Ops σ) (cache : Option Nat) (img : Nat → Nat → R Bytes) : R Bytes :=
  match cache with
  | some table => fetchFrom o img table
  | none => readRegP img 0 ABRM_MANIFEST_TABLE_ADDRESS 8 >>= fetchFrom o img

/-- the cache after the call: filled by the first successful read of ABRM `0x1D0`, never updated -/
def cacheAfter (cache : Option Nat) (img : Nat → Nat → R Bytes) : Option Nat :=
  match cache with
  | some table => some table
  | none => match readRegP img 0 ABRM_MANIFEST_TABLE_ADDRESS 8 with
    | .ok table => some table
    | _ => none

/-- **one call, any cache state, any current image**: result, cache update, image untouched -/
theorem genapi_call (o : Ops σ) (view : σ → Nat → Nat → R Bytes) (h : Serves o view) (st : St σ) :
    (genapi o st).1 = genapiPure o st.manifest (view st.dev) ∧
    (genapi o st).2.manifest = cacheAfter st.manifest (view st.dev) ∧
    view (genapi o st).2.dev = view st.dev := by
  -- while the call runs the device shows `view st.dev` and the cache holds `c`
  have hS : ∀ c, StatelessOn (fun st' : St σ => view st'.dev = view st.dev ∧ st'.manifest = c) o (view st.dev) := by
    intro c a n st' hP
    refine ⟨(o.read a n st'.dev).2, ?_, ?_, hP.2⟩
    · rw [← hP.1, ← (h a n st'.dev).1]
    · exact ((h a n st'.dev).2).trans hP.1
  cases hc : st.manifest with
  | some table =>
    obtain ⟨st', hs, hP⟩ := Always.genapiFrom (hS (some table)) table st ⟨rfl, hc⟩
    have hg : genapi o st = (fetchFrom o (view st.dev) table, st') := by
      show M.bind (manifestTable o) (genapiFrom o) st = _
      simp only [M.bind, manifestTable_warm o st table hc, hs]
    rw [hg]
    exact ⟨rfl, hP.2, hP.1⟩
  | none =>
    obtain ⟨st1, h1, hP1⟩ := Always.readReg (hS none) 0 ABRM_MANIFEST_TABLE_ADDRESS 8 st ⟨rfl, hc⟩
    cases hr : readRegP (view st.dev) 0 ABRM_MANIFEST_TABLE_ADDRESS 8 with
    | ok a =>
      rw [hr] at h1
      obtain ⟨st', hs, hP⟩ := Always.genapiFrom (hS (some a)) a { st1 with manifest := some a } ⟨hP1.1, rfl⟩
      have hg : genapi o st = (fetchFrom o (view st.dev) a, st') := by
        show M.bind (manifestTable o) (genapiFrom o) st = _
        simp only [M.bind, manifestTable_cold_ok o st st1 a hc h1, hs]
      rw [hg]
      refine ⟨?_, ?_, hP.1⟩
      · simp only [genapiPure, hr, Res.bind_ok]
      · simp only [cacheAfter, hr]; exact hP.2
    | err e =>
      rw [hr] at h1
      have hg : genapi o st = (.err e, st1) := by
        show M.bind (manifestTable o) (genapiFrom o) st = _
        simp only [M.bind, manifestTable_cold_err o st st1 e hc h1]
      rw [hg]
      refine ⟨?_, ?_, hP1.1⟩
      · simp only [genapiPure, hr]; rfl
      · simp only [cacheAfter, hr]; exact hP1.2
    | panic =>
      rw [hr] at h1
      have hg : genapi o st = (.panic, st1) := by
        show M.bind (manifestTable o) (genapiFrom o) st = _
        simp only [M.bind, manifestTable_cold_panic o st st1 hc h1]
      rw [hg]
      refine ⟨?_, ?_, hP1.1⟩
      · simp only [genapiPure, hr]; rfl
      · simp only [cacheAfter, hr]; exact hP1.2

/-- A history on ONE handle: before the k-th call the device changes on its own (`g_k`: firmware
update, another manifest, other files …), then `genapi` is called.  Recorded: the device state the
k-th call starts from and its result. -/
def trace (o : Ops σ) : List (σ → σ) → St σ → List (σ × R Bytes)
  | [], _ => []
  | g :: gs, st =>
    (g st.dev, (genapi o { st with dev := g st.dev }).1) ::
      trace o gs (genapi o { st with dev := g st.dev }).2

/-- **genapi_reflects_current_table**: for every history of device changes and calls on one
handle, provided the one register whose value the handle caches for `genapi` — the manifest
table address, ABRM `0x1D0` — reads `T` in every device state (and the cache is empty or holds
`T`): the k-th call returns `fetchFrom` — the pure selection / retrieval function — applied to the
image the device shows at the k-th call.  Nothing about the entry choice, the versions, the file
location, size, hash or content is carried over from earlier calls.  (`abrm`/`sbrm` caches of the
handle are not used by `genapi`.) -/
theorem genapi_reflects_current_table (o : Ops σ) (view : σ → Nat → Nat → R Bytes) (h : Serves o view)
    (T : Nat) (hT : ∀ s, readRegP (view s) 0 ABRM_MANIFEST_TABLE_ADDRESS 8 = .ok T)
    (gs : List (σ → σ)) (st : St σ) (hc : st.manifest = none ∨ st.manifest = some T) :
    ∀ x ∈ trace o gs st, x.2 = fetchFrom o (view x.1) T := by
  induction gs generalizing st with
  | nil => intro x hx; simp [trace] at hx
  | cons g gs ih =>
    obtain ⟨h1, h2, _⟩ := genapi_call o view h { st with dev := g st.dev }
    simp only at h1 h2
    have hres : (genapi o { st with dev := g st.dev }).1 = fetchFrom o (view (g st.dev)) T := by
      rw [h1]
      rcases hc with hc | hc <;> simp [genapiPure, hc, hT]
    have hcache : (genapi o { st with dev := g st.dev }).2.manifest = some T := by
      rw [h2]
      rcases hc with hc | hc <;> simp [cacheAfter, hc, hT]
    intro x hx
    simp only [trace, List.mem_cons] at hx
    rcases hx with rfl | hx
    · exact hres
    · exact ih _ (Or.inr hcache) x hx

/-! ## Non-vacuity: a concrete device with four entries (buffer XML 9.0.0; device XML 1.0.255,
1.0.256 plain with hash, 1.0.256 again zipped) — the first 1.0.256 entry is returned; toy
external functions. -/

/-- device content from (base, bytes) regions; anything else answers with an error -/
def devOfRegions (rs : List (Nat × Bytes)) (a n : Nat) : R Bytes :=
  match rs.find? (fun r => r.1 ≤ a && a + n ≤ r.1 + r.2.length) with
  | some r => .ok ((r.2.drop (a - r.1)).take n)
  | none => .err .io

def exEntry (version info addr size : Nat) (hash : Bytes) : Bytes :=
  toLE 4 version ++ toLE 4 info ++ toLE 8 addr ++ toLE 8 size ++ hash ++ List.replicate (64 - 24 - hash.length) 0

/-- toy SHA-1: 20 bytes derived from the length and the byte sum -/
def exSha1 (b : Bytes) : Bytes := List.replicate 19 (UInt8.ofNat b.length) ++ [b.foldl (· + ·) 7]

def exFile : Bytes := [60, 97, 47, 62]         -- "<a/>"
def exOld : Bytes := [60, 111, 47, 62]         -- "<o/>"
def exZip : Bytes := [80, 75, 1, 2]

def exDev : Nat → Nat → R Bytes := devOfRegions
  [(0x1D0, toLE 8 0x1000),
   (0x1000, toLE 8 4 ++
      exEntry 0x09000000 1 0x5000 4 (List.replicate 20 0) ++          -- buffer XML 9.0.0
      exEntry 0x010000ff 0 0x6000 4 (List.replicate 20 0) ++          -- device XML 1.0.255
      exEntry 0x01000100 0 0x5000 4 (exSha1 exFile) ++                -- device XML 1.0.256, hash
      exEntry 0x01000100 (1 * 2 ^ 10) 0x7000 4 (List.replicate 20 0)), -- device XML 1.0.256, zip
   (0x5000, exFile), (0x6000, exOld), (0x7000, exZip)]

def exOps : Ops Unit :=
  { read := fun a n s => (exDev a n, s)
    sha1 := exSha1
    unzip := fun b => if b = exZip then some [some exOld] else none
    lossy := id }

example : Stateless exOps exDev := fun _ _ s => ⟨s, rfl⟩
example : ∀ a n s, (exOps.read a n s).1 ≠ .panic := by
  intro a n s
  show exDev a n ≠ .panic
  unfold exDev devOfRegions
  split <;> simp

/-- the hypotheses of `selects_newest` / `returns_stored_text` are satisfiable: the retrieval
succeeds with the file of entry 2 (the first of the two maximal versions, not the zipped twin) -/
example : fetchFrom exOps exDev 0x1000 = .ok exFile := by decide +kernel
example : (genapi exOps ⟨(), none⟩).1 = .ok exFile := by decide +kernel
example : header exDev (entAddr 0x1008 2) = .ok (some ⟨0x1088, ⟨1, 0, 256⟩, 0⟩) := by decide +kernel
example : header exDev (entAddr 0x1008 0) = .ok none := by decide +kernel

/-- `hash_gate`: the same device with one flipped file bit fails -/
def exDevFlipped : Nat → Nat → R Bytes := fun a n =>
  if a = 0x5000 ∧ n = 4 then .ok [60, 98, 47, 62] else exDev a n
example : fetchFrom exOps exDevFlipped 0x1000 = .err .invalidDevice := by decide +kernel

/-- `no_device_xml_is_error` / truncated table -/
example : fetchFrom exOps (devOfRegions [(0x1000, toLE 8 1 ++ exEntry 0x01000000 1 0x5000 4 [])]) 0x1000 =
    .err .invalidDevice := by decide +kernel
example : fetchFrom exOps (devOfRegions [(0x1000, toLE 8 2 ++ exEntry 0x01000000 0 0x5000 4 [])]) 0x1000 =
    .err .io := by decide +kernel

/-- `genapi_reflects_current_table`: a device with two images behind the same manifest table
address — `exDev`, and `exDev2` whose table got a newer device-XML entry (2.0.0, the file at
0x6000) appended by a firmware update.  The hypotheses hold and a history that flips between the
images returns the newest document of the CURRENT image each time. -/
def exDev2 : Nat → Nat → R Bytes := devOfRegions
  [(0x1D0, toLE 8 0x1000),
   (0x1000, toLE 8 5 ++
      exEntry 0x09000000 1 0x5000 4 (List.replicate 20 0) ++
      exEntry 0x010000ff 0 0x6000 4 (List.replicate 20 0) ++
      exEntry 0x01000100 0 0x5000 4 (exSha1 exFile) ++
      exEntry 0x01000100 (1 * 2 ^ 10) 0x7000 4 (List.replicate 20 0) ++
      exEntry 0x02000000 0 0x6000 4 (exSha1 exOld)),
   (0x5000, exFile), (0x6000, exOld), (0x7000, exZip)]

def exView (updated : Bool) : Nat → Nat → R Bytes := if updated then exDev2 else exDev

def exOpsB : Ops Bool :=
  { read := fun a n s => (exView s a n, s)
    sha1 := exSha1
    unzip := fun b => if b = exZip then some [some exOld] else none
    lossy := id }

example : Serves exOpsB exView := fun _ _ _ => ⟨rfl, rfl⟩
example : ∀ s, readRegP (exView s) 0 ABRM_MANIFEST_TABLE_ADDRESS 8 = .ok 0x1000 := by
  intro s; cases s <;> decide +kernel
example : trace exOpsB [fun _ => false, fun _ => true, fun _ => false] ⟨false, none⟩ =
    [(false, .ok exFile), (true, .ok exOld), (false, .ok exFile)] := by decide +kernel

end CamVerif.C14
