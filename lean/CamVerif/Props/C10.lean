/-
C10 — Chunked transfers partition the request exactly within the budget.

Property theorems only (helper lemmas are `private` and local to the induction).
All statements quantify over every address, length / data, budget and both build
profiles; nothing is bounded.
-/
import CamVerif.Model.Cmd
import CamVerif.Gen.CmdConsts
import CamVerif.Proofs.C10GenTie
import CamVerif.Proofs.C10GenTie2
import CamVerif.Proofs.C10Wrap
namespace CamVerif.C10
open CamVerif CamVerif.Cmd

/-! ## Specification predicates (plain list vocabulary) -/

/-- `cs` is an exact partition of the read request `[a, a+n)` into non-empty,
contiguous, ascending chunks of at most `m` bytes, all but the last of exactly `m`. -/
def ReadPartition (m : Nat) : Nat → Nat → List ReadMem → Prop
  | _, n, [] => n = 0
  | a, n, c :: cs =>
    c.address = a ∧ 0 < c.readLength ∧ c.readLength ≤ m ∧ c.readLength ≤ n ∧
    (cs ≠ [] → c.readLength = m) ∧ ReadPartition m (a + c.readLength) (n - c.readLength) cs

/-- Same for writes; additionally every chunk is a well-formed `WriteMem` whose
data is the corresponding slice of the original data. -/
def WritePartition (m : Nat) : Nat → Bytes → List WriteMem → Prop
  | _, d, [] => d = []
  | a, d, c :: cs =>
    c.address = a ∧ c.data ≠ [] ∧ c.data.length ≤ m ∧ c.data = d.take c.data.length ∧
    c.dataLen = c.data.length ∧ c.len = c.data.length + 8 ∧
    (cs ≠ [] → c.data.length = m) ∧
    WritePartition m (a + c.data.length) (d.drop c.data.length) cs

/-! ## Consequences of the partition predicates (so the headline theorems can be
read in list vocabulary) -/

theorem ReadPartition.sum_len {m a n : Nat} {cs : List ReadMem} (h : ReadPartition m a n cs) :
    (cs.map (·.readLength)).sum = n := by
  induction cs generalizing a n with
  | nil => simpa [ReadPartition] using h.symm
  | cons c cs ih =>
    obtain ⟨_, _, _, hle, _, hrest⟩ := h
    simp only [List.map_cons, List.sum_cons, ih hrest]
    omega

theorem ReadPartition.fits {m a n : Nat} {cs : List ReadMem} (h : ReadPartition m a n cs) :
    ∀ c ∈ cs, 0 < c.readLength ∧ ACK_HEADER_LENGTH + c.readLength ≤ ACK_HEADER_LENGTH + m := by
  induction cs generalizing a n with
  | nil => simp
  | cons c cs ih =>
    obtain ⟨_, hpos, hm, _, _, hrest⟩ := h
    intro x hx
    rcases List.mem_cons.mp hx with rfl | hx
    · exact ⟨hpos, by omega⟩
    · exact ih hrest x hx

theorem ReadPartition.within {m a n : Nat} {cs : List ReadMem} (h : ReadPartition m a n cs) :
    ∀ c ∈ cs, a ≤ c.address ∧ c.address + c.readLength ≤ a + n := by
  induction cs generalizing a n with
  | nil => simp
  | cons c cs ih =>
    obtain ⟨ha, _, _, hn, _, hrest⟩ := h
    intro x hx
    rcases List.mem_cons.mp hx with rfl | hx
    · omega
    · have := ih hrest x hx
      omega

theorem WritePartition.concat {m a : Nat} {d : Bytes} {cs : List WriteMem}
    (h : WritePartition m a d cs) : (cs.map (·.data)).flatten = d := by
  induction cs generalizing a d with
  | nil => simpa [WritePartition] using h.symm
  | cons c cs ih =>
    obtain ⟨_, _, _, htake, _, _, _, hrest⟩ := h
    simp only [List.map_cons, List.flatten_cons, ih hrest]
    conv => lhs; lhs; rw [htake]
    exact List.take_append_drop _ _

theorem WritePartition.fits {m a : Nat} {d : Bytes} {cs : List WriteMem}
    (h : WritePartition m a d cs) :
    ∀ c ∈ cs, c.data ≠ [] ∧ (Cmd.writeMem c).cmdLen ≤ HEADER_LEN + 8 + m := by
  induction cs generalizing a d with
  | nil => simp
  | cons c cs ih =>
    obtain ⟨_, hne, hm, _, _, hlen, _, hrest⟩ := h
    intro x hx
    rcases List.mem_cons.mp hx with rfl | hx
    · refine ⟨hne, ?_⟩
      simp only [Cmd.cmdLen, Cmd.scdLen, hlen, HEADER_LEN, CCD_LEN]
      omega
    · exact ih hrest x hx

/-! ## Read requests -/

private theorem read_collect (p : Profile) (fuel : Nat) (s : ReadMemChunks)
    (hf : s.readLength < fuel) (hm : 0 < s.maximumReadLength)
    (hn : s.readLength ≤ U16_MAX) (ha : s.address + s.readLength ≤ 2 ^ 64) :
    ∃ cs, s.collect p fuel = .ok cs ∧
      ReadPartition s.maximumReadLength s.address s.readLength cs := by
  induction fuel generalizing s with
  | zero => omega
  | succ fuel ih =>
    obtain ⟨a, n, m⟩ := s
    simp only [U16_MAX] at hf hm hn ha ⊢
    by_cases h0 : n = 0
    · subst h0
      exact ⟨[], by simp [ReadMemChunks.collect, ReadMemChunks.next], by simp [ReadPartition]⟩
    · by_cases hgt : n > m
      · have hm16 : m % 2 ^ 16 = m := Nat.mod_eq_of_lt (by omega)
        have hm64 : m % 2 ^ 64 = m := Nat.mod_eq_of_lt (by omega)
        have hsub : (subW p 16 n m : R Nat) = .ok (n - m) := by
          simp only [subW]; rw [if_pos (by omega)]
        have hadd : (addW p 64 a m : R Nat) = .ok (a + m) := by
          simp only [addW]; rw [if_pos (by omega)]
        obtain ⟨cs, hcs, hpart⟩ := ih ⟨a + m, n - m, m⟩ (by simp only; omega) hm
          (by simp only [U16_MAX]; omega) (by simp only; omega)
        refine ⟨⟨a, m⟩ :: cs, ?_, ?_⟩
        · simp only [ReadMemChunks.collect, ReadMemChunks.next, if_neg h0, if_pos hgt, hm16, hm64,
            hsub, hadd, Res.bind_ok, Res.pure_eq, bind_pure_comp]
          simp only [Bind.bind, Res.bind]
          rw [hcs]
        · rw [ReadPartition]
          refine ⟨rfl, hm, Nat.le_refl _, ?_, fun _ => rfl, hpart⟩
          dsimp only; omega
      · refine ⟨[⟨a, n⟩], ?_, ?_⟩
        · cases fuel with
          | zero => omega
          | succ f =>
            simp [ReadMemChunks.collect, ReadMemChunks.next, if_neg h0, if_neg hgt,
              Bind.bind, Res.bind, Functor.map]
        · rw [ReadPartition, ReadPartition]
          refine ⟨rfl, ?_, ?_, Nat.le_refl _, by simp, ?_⟩ <;> dsimp only <;> omega

/-- **budget_too_small (read)**: a budget that cannot carry one payload byte beyond
the acknowledge header is an error. -/
theorem read_budget_too_small (p : Profile) (a n b : Nat) (hb : b ≤ ACK_HEADER_LENGTH) :
    readChunks p a n b = .err .invalidPacket := by
  simp [readChunks, ReadMem.chunks, hb]

/-- **read_partition**: for every address, u16 length, budget above the header and
profile, chunking terminates without panic and yields an exact partition:
non-empty, contiguous ascending chunks, each with `12 + read_length ≤ budget`,
all but the last with `12 + read_length = budget`. -/
theorem read_partition (p : Profile) (a n b : Nat) (hb : ACK_HEADER_LENGTH < b)
    (hn : n ≤ U16_MAX) (ha : a + n ≤ 2 ^ 64) :
    ∃ cs, readChunks p a n b = .ok cs ∧ ReadPartition (b - ACK_HEADER_LENGTH) a n cs := by
  have := read_collect p (n + 1) ⟨a, n, b - ACK_HEADER_LENGTH⟩ (by simp only; omega)
    (by simp only; omega) hn ha
  obtain ⟨cs, h1, h2⟩ := this
  refine ⟨cs, ?_, h2⟩
  simp only [readChunks, ReadMem.chunks, if_neg (Nat.not_le.mpr hb), Res.bind_ok]
  exact h1

/-- **sum_len / fits_budget (read)** in list vocabulary. -/
theorem read_sum_and_fit (p : Profile) (a n b : Nat) (hb : ACK_HEADER_LENGTH < b)
    (hn : n ≤ U16_MAX) (ha : a + n ≤ 2 ^ 64) :
    ∃ cs, readChunks p a n b = .ok cs ∧ (cs.map (·.readLength)).sum = n ∧
      (∀ c ∈ cs, 0 < c.readLength ∧ ACK_HEADER_LENGTH + c.readLength ≤ b) ∧
      (∀ c ∈ cs, a ≤ c.address ∧ c.address + c.readLength ≤ a + n) := by
  obtain ⟨cs, h1, h2⟩ := read_partition p a n b hb hn ha
  refine ⟨cs, h1, h2.sum_len, ?_, h2.within⟩
  intro c hc
  have := h2.fits c hc
  omega

/-- **empty_request (read)**: a zero-length read yields no chunk. -/
theorem read_empty (p : Profile) (a b : Nat) (hb : ACK_HEADER_LENGTH < b) :
    readChunks p a 0 b = .ok [] := by
  simp [readChunks, ReadMem.chunks, Nat.not_le.mpr hb, ReadMemChunks.collect,
    ReadMemChunks.next]

/-- **maximum_read_length** is total: for EVERY budget and both profiles it is the budget's payload
room (0 when the budget cannot even hold the acknowledge header) clamped to u16; never a panic. -/
theorem maximumReadLength_total (p : Profile) (b : Nat) :
    maximumReadLength p b = .ok (min (b - ACK_HEADER_LENGTH) U16_MAX) := by
  simp only [maximumReadLength, Nat.min_def]

/-- Form used by the control-handle proofs (budget at least the header). -/
theorem maximumReadLength_ok (p : Profile) (b : Nat) (_hb : ACK_HEADER_LENGTH ≤ b) :
    maximumReadLength p b = .ok (min (b - ACK_HEADER_LENGTH) U16_MAX) :=
  maximumReadLength_total p b

/-- **maximum_read_length agrees with the iterator**: whenever chunking accepts the budget, the
chunks the iterator yields for a u16 request form a partition by pieces of `maximum_read_length`
(all but the last exactly that long) — the production `read` path, which splits its buffer by
`maximum_read_length`, and `ReadMem::chunks` cut the same pieces. -/
theorem maximumReadLength_is_chunk_size (p : Profile) (a n b : Nat) (hb : ACK_HEADER_LENGTH < b)
    (hn : n ≤ U16_MAX) (ha : a + n ≤ 2 ^ 64) :
    ∃ m cs, maximumReadLength p b = .ok m ∧ readChunks p a n b = .ok cs ∧
      ReadPartition m a n cs := by
  obtain ⟨cs, h1, h2⟩ := read_partition p a n b hb hn ha
  refine ⟨_, cs, maximumReadLength_total p b, h1, ?_⟩
  by_cases hle : b - ACK_HEADER_LENGTH ≤ U16_MAX
  · rw [Nat.min_eq_left hle]; exact h2
  · -- room above u16: a u16 request is a single chunk (or none)
    have hroom : U16_MAX < b - ACK_HEADER_LENGTH := Nat.lt_of_not_le hle
    rw [Nat.min_eq_right (Nat.le_of_lt hroom)]
    cases cs with
    | nil => exact h2
    | cons c rest =>
      rw [ReadPartition] at h2 ⊢
      obtain ⟨h_a, h_pos, h_m, h_n, h_full, h_rest⟩ := h2
      cases rest with
      | nil =>
        refine ⟨h_a, h_pos, ?_, h_n, fun h => absurd rfl h, h_rest⟩
        simp only [U16_MAX] at hn ⊢; omega
      | cons c2 rest2 =>
        exfalso
        have := h_full (by simp)
        simp only [U16_MAX] at hn hroom; omega

/-! ## Write requests -/

private theorem write_collect (p : Profile) (fuel : Nat) (s : WriteMemChunks)
    (hf : s.data.length - s.dataIdx < fuel) (hm : 0 < s.maximumDataLen)
    (hidx : s.dataIdx ≤ s.data.length)
    (hn : s.data.length + 8 ≤ U16_MAX) (hmax : s.maximumDataLen < 2 ^ 63)
    (ha : s.address + (s.data.length - s.dataIdx) ≤ 2 ^ 64) :
    ∃ cs, s.collect p fuel = .ok cs ∧
      WritePartition s.maximumDataLen s.address (s.data.drop s.dataIdx) cs := by
  induction fuel generalizing s with
  | zero => omega
  | succ fuel ih =>
    obtain ⟨a, d, i, m⟩ := s
    simp only at hf hm hidx hn hmax ha ⊢
    simp only [U16_MAX] at hn
    by_cases h0 : i = d.length
    · subst h0
      exact ⟨[], by simp [WriteMemChunks.collect, WriteMemChunks.next],
        by simp [WritePartition]⟩
    · have hadd1 : (addW p 64 i m : R Nat) = .ok (i + m) := by
        simp only [addW]; rw [if_pos (by omega)]
      by_cases hlt : i + m < d.length
      · have hm64 : m % 2 ^ 64 = m := Nat.mod_eq_of_lt (by omega)
        have hadd2 : (addW p 64 a m : R Nat) = .ok (a + m) := by
          simp only [addW]; rw [if_pos (by omega)]
        have hlen : ((d.drop i).take m).length = m := by
          simp only [List.length_take, List.length_drop]; omega
        have hnew : WriteMem.newUnwrap a ((d.drop i).take m) =
            .ok ⟨a, (d.drop i).take m, m, m + 8⟩ := by
          simp only [WriteMem.newUnwrap, WriteMem.new, intoScdLen, hlen, U16_MAX]
          rw [if_pos (by omega), if_pos (by omega)]
          rfl
        obtain ⟨cs, hcs, hpart⟩ := ih ⟨a + m, d, i + m, m⟩ (by simp only; omega) hm
          (by simp only; omega) (by simp only [U16_MAX]; omega) hmax (by simp only; omega)
        refine ⟨⟨a, (d.drop i).take m, m, m + 8⟩ :: cs, ?_, ?_⟩
        · simp only [WriteMemChunks.collect, WriteMemChunks.next, if_neg h0, hadd1, Res.bind_ok,
            if_pos hlt, hnew, hm64, hadd2, Res.pure_eq]
          simp only [Bind.bind, Res.bind]
          rw [hcs]
        · rw [WritePartition]
          simp only [hlen]
          refine ⟨trivial, ?_, Nat.le_refl _, trivial, trivial, trivial, fun _ => trivial, ?_⟩
          · intro h
            have := congrArg List.length h
            simp only [hlen, List.length_nil] at this
            omega
          · simpa [List.drop_drop, Nat.add_comm] using hpart
      · have hlen : (d.drop i).length = d.length - i := by simp
        have hnew : WriteMem.newUnwrap a (d.drop i) =
            .ok ⟨a, d.drop i, d.length - i, d.length - i + 8⟩ := by
          simp only [WriteMem.newUnwrap, WriteMem.new, intoScdLen, hlen, U16_MAX]
          rw [if_pos (by omega), if_pos (by omega)]
          rfl
        refine ⟨[⟨a, d.drop i, d.length - i, d.length - i + 8⟩], ?_, ?_⟩
        · cases fuel with
          | zero => omega
          | succ f =>
            simp [WriteMemChunks.collect, WriteMemChunks.next, if_neg h0, hadd1, if_neg hlt, hnew,
              Bind.bind, Res.bind]
        · rw [WritePartition, WritePartition]
          simp only [hlen]
          refine ⟨trivial, ?_, by omega, ?_, trivial, trivial, by simp, ?_⟩
          · intro h
            have := congrArg List.length h
            simp only [hlen, List.length_nil] at this
            omega
          · rw [← hlen, List.take_length]
          · rw [← hlen, List.drop_length]

/-- **ctor / budget_too_small (write)**: data that does not fit the 16-bit SCD
length is refused at construction; a budget ≤ header + address field is an error. -/
theorem write_refused (p : Profile) (a : Nat) (d : Bytes) (b : Nat)
    (h : U16_MAX < d.length + 8 ∨ b ≤ HEADER_LEN + 8) :
    writeChunks p a d b = .err .invalidPacket := by
  simp only [writeChunks, WriteMem.new, intoScdLen, U16_MAX] at *
  by_cases h1 : d.length ≤ 65535
  · by_cases h2 : d.length + 8 ≤ 65535
    · have hb : b ≤ HEADER_LEN + 8 := by omega
      simp [h1, h2, WriteMem.chunks, hb]
    · simp [h1, h2]
  · simp [h1]

/-- **write_partition**: for every address, constructible data, budget above the
command header and profile, chunking terminates without panic (the inner
`WriteMem::new(..).unwrap()` and the slice indexing are unreachable failures) and
yields an exact partition of the data into non-empty contiguous slices, each
command fitting the budget and all but the last using it fully. -/
theorem write_partition (p : Profile) (a : Nat) (d : Bytes) (b : Nat)
    (hb : HEADER_LEN + 8 < b) (hbu : b < 2 ^ 63) (hn : d.length + 8 ≤ U16_MAX)
    (ha : a + d.length ≤ 2 ^ 64) :
    ∃ cs, writeChunks p a d b = .ok cs ∧ WritePartition (b - (HEADER_LEN + 8)) a d cs := by
  have := write_collect p (d.length + 1) ⟨a, d, 0, b - (HEADER_LEN + 8)⟩ (by simp only; omega)
    (by simp only; omega) (by simp) hn (by simp only; omega) (by simpa using ha)
  obtain ⟨cs, h1, h2⟩ := this
  refine ⟨cs, ?_, by simpa using h2⟩
  simp only [U16_MAX] at hn
  simp only [writeChunks, WriteMem.new, intoScdLen, U16_MAX]
  rw [if_pos (by omega), if_pos (by omega)]
  simp only [Res.bind_ok, Res.pure_eq, WriteMem.chunks, if_neg (Nat.not_le.mpr hb)]
  exact h1

/-- **concat_data / fits_budget (write)** in list vocabulary. -/
theorem write_concat_and_fit (p : Profile) (a : Nat) (d : Bytes) (b : Nat)
    (hb : HEADER_LEN + 8 < b) (hbu : b < 2 ^ 63) (hn : d.length + 8 ≤ U16_MAX)
    (ha : a + d.length ≤ 2 ^ 64) :
    ∃ cs, writeChunks p a d b = .ok cs ∧ (cs.map (·.data)).flatten = d ∧
      ∀ c ∈ cs, c.data ≠ [] ∧ (Cmd.writeMem c).cmdLen ≤ b := by
  obtain ⟨cs, h1, h2⟩ := write_partition p a d b hb hbu hn ha
  refine ⟨cs, h1, h2.concat, ?_⟩
  intro c hc
  have := h2.fits c hc
  refine ⟨this.1, ?_⟩
  have h3 := this.2
  simp only [HEADER_LEN, CCD_LEN] at h3 hb ⊢
  omega

/-- **empty_request (write)**. -/
theorem write_empty (p : Profile) (a b : Nat) (hb : HEADER_LEN + 8 < b) :
    writeChunks p a [] b = .ok [] := by
  simp [writeChunks, WriteMem.new, intoScdLen, WriteMem.chunks, Nat.not_le.mpr hb,
    WriteMemChunks.collect, WriteMemChunks.next, U16_MAX, Bind.bind, Res.bind]

/-- **gen_consts_agree**: the constants the model uses are the ones regenerated from the
current `cmd.rs` on this run (tie by regeneration for the header arithmetic). -/
theorem gen_consts_agree :
    ACK_HEADER_LENGTH = Gen.CmdConsts.ACK_HEADER_LENGTH ∧
    HEADER_LEN = Gen.CmdConsts.HEADER_LEN ∧
    CCD_LEN = Gen.CmdConsts.CCD_LEN ∧
    HEADER_LEN + 8 = Gen.CmdConsts.WRITE_CHUNK_HEADER ∧
    (Cmd.readMem ⟨0, 0⟩).scdLen = Gen.CmdConsts.READMEM_SCD_LEN := by decide

/-! ## Non-vacuity: the hypotheses are satisfiable and the conclusions are the
expected concrete partitions. -/

example : readChunks .dev 0x1000 10 16 =
    .ok [⟨0x1000, 4⟩, ⟨0x1004, 4⟩, ⟨0x1008, 2⟩] := by decide

example : ReadPartition 4 0x1000 10 [⟨0x1000, 4⟩, ⟨0x1004, 4⟩, ⟨0x1008, 2⟩] := by
  simp [ReadPartition]

example : writeChunks .dev 8 [1, 2, 3, 4, 5] 22 =
    .ok [⟨8, [1, 2], 2, 10⟩, ⟨10, [3, 4], 2, 10⟩, ⟨12, [5], 1, 9⟩] := by decide

/-! ## Requests that reach or cross the top of the 64-bit address space

The headline theorems assume `a + n ≤ 2^64`.  What happens beyond is decided here for every
request: the iterators add the chunk length to the address after every non-final chunk, so the
build profile matters exactly when the START of a later chunk is `≥ 2^64`
(`ReadAddrOverflows` / `WriteAddrOverflows`: more than one chunk and
`2^64 ≤ a + m * ((n-1)/m)`, the start of the last chunk). -/

private theorem readPartitionP_iff {m a n : Nat} {cs : List ReadMem} :
    ReadPartitionP m a n cs ↔ ReadPartition m a n cs := by
  induction cs generalizing a n with
  | nil => simp [ReadPartitionP, ReadPartition]
  | cons c cs ih => simp only [ReadPartitionP, ReadPartition, ih]

private theorem writePartitionP_iff {m a : Nat} {d : Bytes} {cs : List WriteMem} :
    WritePartitionP m a d cs ↔ WritePartition m a d cs := by
  induction cs generalizing a d with
  | nil => simp [WritePartitionP, WritePartition]
  | cons c cs ih => simp only [WritePartitionP, WritePartition, ih]

/-- **read_partition_last_may_cross** (both profiles): as long as no later chunk STARTS at or
beyond `2^64`, chunking is Ok and is the exact partition — also when the last chunk ends beyond
the top of the address space.  Generalises `read_partition` (`a + n ≤ 2^64` implies the
hypothesis). -/
theorem read_partition_last_may_cross (p : Profile) (a n b : Nat) (hb : ACK_HEADER_LENGTH < b)
    (hn : n ≤ U16_MAX) (ho : ¬ ReadAddrOverflows (b - ACK_HEADER_LENGTH) a n) :
    ∃ cs, readChunks p a n b = .ok cs ∧ ReadPartition (b - ACK_HEADER_LENGTH) a n cs := by
  obtain ⟨cs, h1, h2⟩ := read_collect_no_overflow p (n + 1) ⟨a, n, b - ACK_HEADER_LENGTH⟩
    (by simp only; omega) (by simp only; omega) hn ho
  refine ⟨cs, ?_, readPartitionP_iff.mp h2⟩
  simp only [readChunks, ReadMem.chunks, if_neg (Nat.not_le.mpr hb), Res.bind_ok]
  exact h1

/-- **read_checked_panics_iff**: a build with overflow checks panics in read chunking EXACTLY
when a later chunk's start address leaves the 64-bit range; in every other case it returns the
partition (previous theorem). -/
theorem read_checked_panics_iff (p : Profile) (hp : p.overflowChecks = true) (a n b : Nat)
    (hb : ACK_HEADER_LENGTH < b) (hn : n ≤ U16_MAX) :
    readChunks p a n b = .panic ↔ ReadAddrOverflows (b - ACK_HEADER_LENGTH) a n := by
  constructor
  · intro h
    by_cases ho : ReadAddrOverflows (b - ACK_HEADER_LENGTH) a n
    · exact ho
    · obtain ⟨cs, h1, _⟩ := read_partition_last_may_cross p a n b hb hn ho
      rw [h1] at h; cases h
  · intro ho
    have := read_collect_checked_panics p hp (n + 1) ⟨a, n, b - ACK_HEADER_LENGTH⟩
      (by simp only; omega) (by simp only; omega) hn ho
    simp only [readChunks, ReadMem.chunks, if_neg (Nat.not_le.mpr hb), Res.bind_ok]
    exact this

/-- **read_wrapping_release**: a build without overflow checks never panics in read chunking;
for EVERY 64-bit start address it yields the exact partition of the request with chunk addresses
taken modulo `2^64` (same lengths, same budget use as in the headline theorem). -/
theorem read_wrapping_release (a n b : Nat) (hb : ACK_HEADER_LENGTH < b)
    (hn : n ≤ U16_MAX) (ha : a < 2 ^ 64) :
    ∃ cs, readChunks Profile.release a n b = .ok cs ∧
      ReadPartitionW (b - ACK_HEADER_LENGTH) a n cs := by
  obtain ⟨cs, h1, h2⟩ := read_collect_release (n + 1) ⟨a, n, b - ACK_HEADER_LENGTH⟩
    (by simp only; omega) (by simp only; omega) hn ha
  refine ⟨cs, ?_, h2⟩
  simp only [readChunks, ReadMem.chunks, if_neg (Nat.not_le.mpr hb), Res.bind_ok]
  exact h1

private theorem writeChunks_unfold (p : Profile) (a : Nat) (d : Bytes) (b : Nat)
    (hb : HEADER_LEN + 8 < b) (hn : d.length + 8 ≤ U16_MAX) :
    writeChunks p a d b =
      (⟨a, d, 0, b - (HEADER_LEN + 8)⟩ : WriteMemChunks).collect p (d.length + 1) := by
  simp only [U16_MAX] at hn
  simp only [writeChunks, WriteMem.new, intoScdLen, U16_MAX]
  rw [if_pos (by omega), if_pos (by omega)]
  simp only [Res.bind_ok, Res.pure_eq, WriteMem.chunks, if_neg (Nat.not_le.mpr hb)]

/-- **write_partition_last_may_cross** (both profiles), the write analogue. -/
theorem write_partition_last_may_cross (p : Profile) (a : Nat) (d : Bytes) (b : Nat)
    (hb : HEADER_LEN + 8 < b) (hbu : b < 2 ^ 63) (hn : d.length + 8 ≤ U16_MAX)
    (ho : ¬ WriteAddrOverflows (b - (HEADER_LEN + 8)) a d.length) :
    ∃ cs, writeChunks p a d b = .ok cs ∧ WritePartition (b - (HEADER_LEN + 8)) a d cs := by
  obtain ⟨cs, h1, h2⟩ := write_collect_no_overflow p (d.length + 1) ⟨a, d, 0, b - (HEADER_LEN + 8)⟩
    (by simp only; omega) (by simp only; omega) (by simp) hn (by simp only; omega)
    (by simpa using ho)
  refine ⟨cs, ?_, writePartitionP_iff.mp (by simpa using h2)⟩
  rw [writeChunks_unfold p a d b hb hn]; exact h1

/-- **write_checked_panics_iff**: with overflow checks, write chunking panics EXACTLY when a later
chunk's start address leaves the 64-bit range. -/
theorem write_checked_panics_iff (p : Profile) (hp : p.overflowChecks = true) (a : Nat) (d : Bytes)
    (b : Nat) (hb : HEADER_LEN + 8 < b) (hbu : b < 2 ^ 63) (hn : d.length + 8 ≤ U16_MAX) :
    writeChunks p a d b = .panic ↔ WriteAddrOverflows (b - (HEADER_LEN + 8)) a d.length := by
  constructor
  · intro h
    by_cases ho : WriteAddrOverflows (b - (HEADER_LEN + 8)) a d.length
    · exact ho
    · obtain ⟨cs, h1, _⟩ := write_partition_last_may_cross p a d b hb hbu hn ho
      rw [h1] at h; cases h
  · intro ho
    have := write_collect_checked_panics p hp (d.length + 1) ⟨a, d, 0, b - (HEADER_LEN + 8)⟩
      (by simp only; omega) (by simp only; omega) (by simp) hn (by simp only; omega)
      (by simpa using ho)
    rw [writeChunks_unfold p a d b hb hn]; exact this

/-- **write_wrapping_release**: without overflow checks write chunking never panics and yields,
for every 64-bit start address, the exact partition of the data with addresses modulo `2^64`. -/
theorem write_wrapping_release (a : Nat) (d : Bytes) (b : Nat)
    (hb : HEADER_LEN + 8 < b) (hbu : b < 2 ^ 63) (hn : d.length + 8 ≤ U16_MAX) (ha : a < 2 ^ 64) :
    ∃ cs, writeChunks Profile.release a d b = .ok cs ∧
      WritePartitionW (b - (HEADER_LEN + 8)) a d cs := by
  obtain ⟨cs, h1, h2⟩ := write_collect_release (d.length + 1) ⟨a, d, 0, b - (HEADER_LEN + 8)⟩
    (by simp only; omega) (by simp only; omega) (by simp) hn (by simp only; omega) ha
  refine ⟨cs, ?_, by simpa using h2⟩
  rw [writeChunks_unfold Profile.release a d b hb hn]; exact h1

/-- `a + n ≤ 2^64` (the headline hypothesis) rules the overflow out. -/
theorem no_overflow_of_within (m a n : Nat) (hm : 0 < m) (ha : a + n ≤ 2 ^ 64) :
    ¬ ReadAddrOverflows m a n := by
  intro ⟨hgt, h⟩
  have : m * ((n - 1) / m) ≤ n - 1 := Nat.mul_div_le _ _
  omega

/-! Non-vacuity of the wrap-region theorems: a 10-byte read at `2^64 - 6` with 4-byte chunks.
The last chunk would start at `2^64 + 2`: dev panics, release wraps to address 2. -/
example : ReadAddrOverflows 4 (2 ^ 64 - 6) 10 := by decide
example : readChunks .dev (2 ^ 64 - 6) 10 16 = .panic := by decide
example : readChunks .release (2 ^ 64 - 6) 10 16 =
    .ok [⟨2 ^ 64 - 6, 4⟩, ⟨2 ^ 64 - 2, 4⟩, ⟨2, 2⟩] := by decide
/-- a request whose LAST chunk merely ends beyond the top is Ok in both profiles -/
example : ¬ ReadAddrOverflows 4 (2 ^ 64 - 6) 8 ∧
    readChunks .dev (2 ^ 64 - 6) 8 16 = .ok [⟨2 ^ 64 - 6, 4⟩, ⟨2 ^ 64 - 2, 4⟩] := by decide

/-- **gen_fn_tie** (tie by regeneration, function bodies): the Lean functions that `rs2lean`
re-translates from the CURRENT Rust source on every run (FnCmd) are equal, for every input and both
build profiles, to the hand-written model functions the theorems above are about. -/
theorem gen_fn_tie : CamVerif.Proofs.C10GenTie.GenTie := CamVerif.Proofs.C10GenTie.gen_tie

/-- **gen_fn_tie_chunks** (tie by regeneration): `ReadMem::chunks` as re-translated from the
CURRENT Rust source (budget check, construction of the iterator state) equals the model's
`ReadMem.chunks`, for every command, every budget and both build profiles. -/
theorem gen_fn_tie_chunks : CamVerif.Proofs.C10GenTie2.GenTieChunks :=
  CamVerif.Proofs.C10GenTie2.gen_tie_chunks

/-- **gen_fn_tie_next** (tie by regeneration): `<ReadMemChunks as Iterator>::next` as re-translated
from the CURRENT Rust source — a state-passing step function `state ↦ (item, state')`, the
`&mut self` assignments turned into functional updates — equals the model's `ReadMemChunks.next`
(the step function every chunking theorem above is proved about), for every iterator state and
both build profiles, including the address-overflow panic / wrap. -/
theorem gen_fn_tie_next : CamVerif.Proofs.C10GenTie2.GenTieNext :=
  CamVerif.Proofs.C10GenTie2.gen_tie_next

/-- non-vacuity: one real step, through the tie -/
example : ReadMemChunks.next .dev ⟨0x1000, 128, 12⟩ = .ok (some ⟨0x1000, 12⟩, ⟨0x100c, 116, 12⟩) := by
  rw [gen_fn_tie_next.2 .dev ⟨0x1000, 128, 12⟩ (by unfold CamVerif.Proofs.C10GenTie2.ChInRange; decide)]; decide

end CamVerif.C10
