/-
C13 — Bootstrap register accessors follow the U3V register tables.

Property theorems only.  `Gen.RegMap.*` is regenerated from `/repo` on every check run, so
each theorem below is re-proved against what the source says now; `Spec.U3V.*` is my
transcription of the GenCP / USB3 Vision tables.  All statements quantify over every
memory image, base address, capability word, argument and device state; the build profile
does not occur because the (fixed) code has no profile-dependent arithmetic left.
Sections 13, 15, 17 quantify over an ARBITRARY `DeviceControl` (`ADev`: any state machine, any
error values); section 14 has one statement per pure method of the value structs, over all
words; section 16 decodes the fields of any 64-byte manifest entry.
-/
import CamVerif.Proofs.C13
import CamVerif.Proofs.C13More
import CamVerif.Proofs.C13Pure
import CamVerif.Proofs.C13Struct
namespace CamVerif.C13
open CamVerif CamVerif.RegMap

/-! ## Vocabulary -/

/-- address the standards assign to the register at `off` of a map starting at `base`
(ABRM registers are absolute) -/
def regAddr (b : Base) (base off : Nat) : Nat :=
  match b with
  | .abrm => off
  | _ => base + off

/-- `rr` is literally an entry of the standard's accessor table, with offset and length
looked up in the standard's register table -/
def IsSpecRow (rr : RRow) : Prop := ∃ a ∈ Spec.U3V.accessors, a.resolve = some rr

/-- optional registers return `Some(..)` -/
def wrapOpt (rr : RRow) (r : R Val) : R Val :=
  match rr.guardBit with
  | some _ => r.map Val.some
  | none => r

/-- a device in its initial observation state: nothing logged, not rejecting -/
def fresh (mem : Nat → UInt8) : Dev := ⟨mem, [], false⟩

/-- the device after one more logged access (memory and `broken` unchanged) -/
def logged (d : Dev) (a : Access) : Dev := { d with log := d.log ++ [a] }

/-! ## 1. The generated tables are the standards' tables -/

/-- **tables_match**: every `(offset, length)` constant of `device/src/u3v/register_map.rs`
(ABRM, SBRM, EIRM, SIRM, manifest entry) equals the standard's table entry, and no
constant is missing or extra. -/
theorem tables_match : Gen.RegMap.tables = Spec.U3V.tables := by decide

/-- capability / configuration bit positions, the bit fields of the version, alignment,
stream-enable and file-info decoders, the enumerant tables and the setter/getter pairing
are the standards'; so are the numeric widths under the `ParseBytes` newtypes (used by
`resolve` for `DeviceConfiguration` / `GenICamFileInfo` and by `layout` for the two capability
words). -/
theorem bits_match :
    Gen.RegMap.capBits = Spec.U3V.capBits ∧ Gen.RegMap.cfgBits = Spec.U3V.cfgBits ∧
    Gen.RegMap.cfgOps = Spec.U3V.cfgOps ∧ Gen.RegMap.pairs = Spec.U3V.pairs ∧
    Gen.RegMap.newtypes = Spec.U3V.newtypes ∧
    fileInfoLayout = some (let S : Spec.U3V.FileInfoSpec := {}
      ⟨S.fileType, S.fileTypes, S.compression, S.compressions, S.schemaMajor, S.schemaMinor⟩) := by
  decide

/-- transcription sanity: in each standard table the registers are sorted and do not overlap;
a manifest entry is 64 bytes -/
theorem spec_tables_disjoint :
    Spec.U3V.sortedDisjoint Spec.U3V.abrm = true ∧ Spec.U3V.sortedDisjoint Spec.U3V.sbrm = true ∧
    Spec.U3V.sortedDisjoint Spec.U3V.sirm = true ∧ Spec.U3V.sortedDisjoint Spec.U3V.eirm = true ∧
    Spec.U3V.sortedDisjoint Spec.U3V.manifestEntryLayout = true ∧
    (Spec.U3V.manifestEntryLayout.map (·.2.2)).sum = Spec.U3V.MANIFEST_ENTRY_SIZE := by decide

/-! ## 2. Every accessor row of the source is the standard's row -/

private def rowOkB (r : Row) : Bool :=
  match resolve r with
  | some rr =>
    rr.name == r.name && rr.kind == r.kind &&
    (Spec.U3V.accessors.any fun a => a.name == r.name && a.resolve == some rr) &&
    rr.len == Spec.U3V.widthOf rr.dec && Spec.U3V.decWf rr.dec &&
    (match rr.kind with
     | .get => true
     | .set => rr.dec == .u32 || rr.dec == .deviceConfiguration || rr.dec == .string
     | .setConst v => rr.dec == .u32 && decide (v < 2 ^ 32))
  | none => false

private theorem all_rows_ok : Gen.RegMap.accessors.all rowOkB = true := by decide

/-- well-formedness facts every generated row enjoys (consequences of being a spec row) -/
structure RowFacts (r : Row) (rr : RRow) : Prop where
  resolved : resolve r = some rr
  name : rr.name = r.name
  kind : rr.kind = r.kind
  spec : ∃ a ∈ Spec.U3V.accessors, a.name = r.name ∧ a.resolve = some rr
  len : rr.len = Spec.U3V.widthOf rr.dec
  wf : Spec.U3V.decWf rr.dec = true
  setDec : rr.kind = .set → rr.dec = .u32 ∨ rr.dec = .deviceConfiguration ∨ rr.dec = .string
  constDec : ∀ v, rr.kind = .setConst v → rr.dec = .u32 ∧ v < 2 ^ 32

private theorem row_facts (r : Row) (hr : r ∈ Gen.RegMap.accessors) : ∃ rr, RowFacts r rr := by
  have h := List.all_eq_true.mp all_rows_ok r hr
  unfold rowOkB at h
  cases hres : resolve r with
  | none => simp [hres] at h
  | some rr =>
    simp only [hres, Bool.and_eq_true, beq_iff_eq, List.any_eq_true] at h
    obtain ⟨⟨⟨⟨⟨hn, hk⟩, a, ha, han, har⟩, hl⟩, hw⟩, hkd⟩ := h
    refine ⟨rr, ⟨hres, hn, hk, ⟨a, ha, han, har⟩, hl, hw, ?_, ?_⟩⟩
    · intro hs
      simp only [hs, Bool.or_eq_true, beq_iff_eq] at hkd
      rcases hkd with (h1 | h2) | h3
      · exact Or.inl h1
      · exact Or.inr (Or.inl h2)
      · exact Or.inr (Or.inr h3)
    · intro v hs
      simp only [hs, Bool.and_eq_true, beq_iff_eq, decide_eq_true_eq] at hkd
      exact hkd

/-- **accessors_conform**: every accessor row read off the source resolves (its register
constant, capability predicate and bit fields exist) to exactly the row the standards
prescribe for the accessor of that name — same base kind, getter/setter kind, offset,
length, decoding and capability bit — and every accessor the standards' table lists exists
in the source. -/
theorem accessors_conform :
    (∀ r ∈ Gen.RegMap.accessors, ∃ rr, resolve r = some rr ∧
        ∃ a ∈ Spec.U3V.accessors, a.name = r.name ∧ a.resolve = some rr) ∧
    (∀ a ∈ Spec.U3V.accessors, ∃ r ∈ Gen.RegMap.accessors, r.name = a.name) := by
  constructor
  · intro r hr
    obtain ⟨rr, f⟩ := row_facts r hr
    exact ⟨rr, f.resolved, f.spec⟩
  · have h : (Spec.U3V.accessors.all fun a => Gen.RegMap.accessors.any fun r => r.name == a.name) = true := by
      decide
    intro a ha
    have := List.all_eq_true.mp h a ha
    simpa [List.any_eq_true] using this

example : ∃ r ∈ Gen.RegMap.accessors, r.name = "Sirm.maximum_trailer_size" ∧
    resolve r = some ⟨"Sirm.maximum_trailer_size", .sirm, .get, 0x2C, 4, .u32, none⟩ := by decide

/-! ## 3. Getters: one read of (base + offset, length), decoded as the standards say -/

private theorem widthOf_pos (dec : Dec) : 0 < Spec.U3V.widthOf dec := by
  cases dec <;> simp [Spec.U3V.widthOf]

private theorem addrOf_ok (b : Base) (base off : Nat) (h : b = .abrm ∨ base + off < 2 ^ 64) :
    addrOf b base off = .ok (regAddr b base off) := by
  cases b <;> simp_all [addrOf, regAddr, registerAddress]

private theorem getReg_ok (rr : RRow) (hlen : rr.len = Spec.U3V.widthOf rr.dec)
    (hwf : Spec.U3V.decWf rr.dec = true) (base : Nat) (d : Dev) (hb : d.broken = false)
    (hfit : regAddr rr.base base rr.off + rr.len ≤ 2 ^ 64) :
    getReg rr base d =
      (Spec.U3V.decode rr.dec (readBytes d.mem (regAddr rr.base base rr.off) rr.len),
       { d with log := d.log ++ [⟨.R, regAddr rr.base base rr.off, rr.len,
           some (readBytes d.mem (regAddr rr.base base rr.off) rr.len)⟩] }) := by
  have hpos : 0 < rr.len := hlen ▸ widthOf_pos rr.dec
  have haddr : rr.base = .abrm ∨ base + rr.off < 2 ^ 64 := by
    cases hbk : rr.base <;> simp_all [regAddr] <;> omega
  have hrej : d.rejects (regAddr rr.base base rr.off) rr.len = false := by
    simp [Dev.rejects, hb]; omega
  simp only [getReg, addrOf_ok _ _ _ haddr, readRegister, Dev.read, hrej, Bool.false_eq_true, if_false]
  rw [parse_eq_decode _ _ (by simp [hlen]) hwf]

/-- **accessor_reads_right_register**: for every getter row of the source there is the
standard's row `rr` (offset, length, decoding, capability bit all taken from `Spec.U3V`)
such that, on ANY memory image, base address and capability word with the capability bit
set (if the register is optional) and the register lying inside the 64-bit address
space, the accessor issues exactly one device access — a read of `rr.len` bytes at
`base + rr.off` (`rr.off` for the ABRM) — leaves the memory untouched, and returns the
standard's decoding of exactly those bytes (little-endian integers, millisecond
durations, NUL-terminated UTF-8 with invalid UTF-8 ⇒ `InvalidDevice`, one-hot bus speed,
version / alignment / stream-enable bit fields, SHA1 presence), wrapped in `Some` for
optional registers. -/
theorem accessor_reads_right_register (r : Row) (hr : r ∈ Gen.RegMap.accessors) (hk : r.kind = .get) :
    ∃ rr, resolve r = some rr ∧ IsSpecRow rr ∧ rr.name = r.name ∧
      ∀ (mem : Nat → UInt8) (base cap : Nat),
        guardOpen rr cap = true →
        regAddr rr.base base rr.off + rr.len ≤ 2 ^ 64 →
        rr.run base cap .none (fresh mem) =
          (wrapOpt rr (Spec.U3V.decode rr.dec (readBytes mem (regAddr rr.base base rr.off) rr.len)),
           ⟨mem, [⟨.R, regAddr rr.base base rr.off, rr.len,
                    some (readBytes mem (regAddr rr.base base rr.off) rr.len)⟩], false⟩) := by
  obtain ⟨rr, f⟩ := row_facts r hr
  obtain ⟨a, ha, _, har⟩ := f.spec
  refine ⟨rr, f.resolved, ⟨a, ha, har⟩, f.name, ?_⟩
  intro mem base cap hg hfit
  have hkind : rr.kind = .get := f.kind.trans hk
  have hget := getReg_ok rr f.len f.wf base (fresh mem) rfl hfit
  simp only [fresh, List.nil_append] at hget
  unfold RRow.run
  rw [hkind]
  cases hgb : rr.guardBit with
  | none => simp only [hget, wrapOpt, hgb, fresh]
  | some bit =>
    have : cap.testBit bit = true := by simpa [guardOpen, hgb] using hg
    simp only [this, if_true, hget, wrapOpt, hgb, fresh]

/-- non-vacuity: `Sirm::maximum_trailer_size` at SIRM base `0x20000` on an image holding
`0x11223344` there reads 4 bytes at `0x2002C` and returns that value -/
example :
    let mem : Nat → UInt8 := fun a =>
      if a = 0x2002C then 0x44 else if a = 0x2002D then 0x33 else if a = 0x2002E then 0x22
      else if a = 0x2002F then 0x11 else 0xEE
    ((⟨"Sirm.maximum_trailer_size", .sirm, .get, 0x2C, 4, .u32, none⟩ : RRow).run 0x20000 0 .none (fresh mem)).1
      = .ok (.nat 0x11223344) := by decide

/-! ## 4. Optional registers -/

/-- **optional_none_without_access**: an accessor guarded by a capability bit whose bit
is clear in the cached capability word returns `Ok(None)` (getter) / `Ok(())` (setter)
and leaves the device — memory AND access log — exactly as it was, whatever the image,
base, argument or device state. -/
theorem optional_none_without_access (r : Row) (hr : r ∈ Gen.RegMap.accessors) :
    ∃ rr, resolve r = some rr ∧ IsSpecRow rr ∧
      ∀ (bit : Nat), rr.guardBit = some bit →
      ∀ (base cap : Nat) (arg : Arg) (d : Dev), cap.testBit bit = false →
        rr.run base cap arg d = (.ok (if rr.kind = .get then Val.none else Val.unit), d) := by
  obtain ⟨rr, f⟩ := row_facts r hr
  obtain ⟨a, ha, _, har⟩ := f.spec
  refine ⟨rr, f.resolved, ⟨a, ha, har⟩, ?_⟩
  intro bit hbit base cap arg d hclear
  unfold RRow.run
  cases hk : rr.kind with
  | get => simp [hbit, hclear]
  | set => simp [guardOpen, hbit, hclear]
  | setConst v => simp [guardOpen, hbit, hclear]

/-- non-vacuity: guarded rows exist (family name: device capability bit 8) -/
example : ∃ r ∈ Gen.RegMap.accessors, ∃ rr, resolve r = some rr ∧ rr.guardBit = some 8 :=
  ⟨⟨"Abrm.family_name", .abrm, .get, "abrm", "FAMILY_NAME", .string,
    some ("DeviceCapability", "is_family_name_supported")⟩, by decide, _, rfl, rfl⟩

/-! ## 5. Registers outside the address space, rejecting devices -/

private theorem addrOf_overflow (b : Base) (base off : Nat) (hb : b ≠ .abrm) (h : 2 ^ 64 ≤ base + off) :
    addrOf b base off = .err .invalidDevice := by
  have : ¬ base + off < 2 ^ 64 := by omega
  cases b <;> simp_all [addrOf, registerAddress]

/-- **address_overflow_is_error** (both build profiles — the model has no profile-dependent
arithmetic): if `base + offset` does not fit 64 bits (only possible for SBRM / SIRM /
manifest bases, which come from device registers), every accessor whose capability guard
is open returns `InvalidDevice` without any device access.  (Before fix a9ca270 this was
a panic in the dev profile and an access to the wrapped-around address in release.) -/
theorem address_overflow_is_error (r : Row) (hr : r ∈ Gen.RegMap.accessors) :
    ∃ rr, resolve r = some rr ∧
      ∀ (base cap : Nat) (arg : Arg) (d : Dev), rr.base ≠ .abrm → 2 ^ 64 ≤ base + rr.off →
        guardOpen rr cap = true → rr.run base cap arg d = (.err .invalidDevice, d) := by
  obtain ⟨rr, f⟩ := row_facts r hr
  refine ⟨rr, f.resolved, ?_⟩
  intro base cap arg d hb hov hg
  have ha := addrOf_overflow rr.base base rr.off hb hov
  unfold RRow.run
  cases hk : rr.kind with
  | get =>
    cases hgb : rr.guardBit with
    | none => simp [getReg, ha]
    | some bit =>
      have : cap.testBit bit = true := by simpa [guardOpen, hgb] using hg
      simp [this, getReg, ha, R.map]
  | set => simp [hg, setReg, ha]
  | setConst v => simp [hg, setReg, ha]

example : ∃ r ∈ Gen.RegMap.accessors, ∃ rr, resolve r = some rr ∧ rr.base ≠ .abrm ∧
    2 ^ 64 ≤ (2 ^ 64 - 1) + rr.off :=
  ⟨⟨"Sirm.maximum_trailer_size", .sirm, .get, "sirm", "MAXIMUM_TRAILER_SIZE", .u32, none⟩, by decide,
    _, rfl, by decide, by decide⟩

/-- **device_rejection_propagates**: when the device rejects the read (here: `broken`, or
the register runs past the end of the address space) the getter returns the device's
error unchanged; the log shows exactly the one attempted read at the right address and
length, and memory is untouched. -/
theorem device_rejection_propagates (r : Row) (hr : r ∈ Gen.RegMap.accessors) (hk : r.kind = .get) :
    ∃ rr, resolve r = some rr ∧
      ∀ (base cap : Nat) (d : Dev), guardOpen rr cap = true →
        (rr.base = .abrm ∨ base + rr.off < 2 ^ 64) →
        d.rejects (regAddr rr.base base rr.off) rr.len = true →
        rr.run base cap .none d =
          (.err .dev, { d with log := d.log ++ [⟨.R, regAddr rr.base base rr.off, rr.len, none⟩] }) := by
  obtain ⟨rr, f⟩ := row_facts r hr
  refine ⟨rr, f.resolved, ?_⟩
  intro base cap d hg haddr hrej
  have hkind : rr.kind = .get := f.kind.trans hk
  unfold RRow.run
  rw [hkind]
  cases hgb : rr.guardBit with
  | none => simp [getReg, addrOf_ok _ _ _ haddr, readRegister, Dev.read, hrej]
  | some bit =>
    have : cap.testBit bit = true := by simpa [guardOpen, hgb] using hg
    simp [this, getReg, addrOf_ok _ _ _ haddr, readRegister, Dev.read, hrej, R.map]

/-! ## 6. Setters -/

/-- The byte image the standards prescribe for a setter argument: little-endian integer,
or the ASCII name padded with NUL to the register length; `none` for a name that cannot
be represented (non-ASCII, interior NUL, longer than the register). -/
def image (rr : RRow) (arg : Arg) : Option Bytes :=
  match rr.kind, arg with
  | .setConst v, _ => some (toLE 4 v)
  | .set, .nat v => some (toLE 4 v)
  | .set, .cfg raw => some (toLE 8 raw)
  | .set, .str s =>
    if s.all (· < 128) && !s.contains 0 && decide (s.length ≤ rr.len) then
      some (s ++ List.replicate (rr.len - s.length) 0)
    else none
  | _, _ => none

private theorem setReg_ok (rr : RRow) (base : Nat) (arg : Arg) (d : Dev) (buf : Bytes)
    (hd : dump rr.dec arg rr.len = .ok buf) (hl : buf.length = rr.len) (hb : d.broken = false)
    (hpos : 0 < rr.len) (hfit : regAddr rr.base base rr.off + rr.len ≤ 2 ^ 64) :
    setReg rr base arg d =
      (.ok .unit, { d with mem := writeMem d.mem (regAddr rr.base base rr.off) buf,
                           log := d.log ++ [⟨.W, regAddr rr.base base rr.off, rr.len, some buf⟩] }) := by
  have haddr : rr.base = .abrm ∨ base + rr.off < 2 ^ 64 := by
    cases hbk : rr.base <;> simp_all [regAddr] <;> omega
  have hrej : d.rejects (regAddr rr.base base rr.off) rr.len = false := by
    simp [Dev.rejects, hb]; omega
  simp only [setReg, addrOf_ok _ _ _ haddr, hd, Dev.write, hl, hrej, Bool.false_eq_true, if_false, R.map]

private theorem dump_image (rr : RRow) (arg : Arg) (hlen : rr.len = Spec.U3V.widthOf rr.dec)
    (hset : rr.kind = .set → rr.dec = .u32 ∨ rr.dec = .deviceConfiguration ∨ rr.dec = .string)
    (hconst : ∀ v, rr.kind = .setConst v → rr.dec = .u32 ∧ v < 2 ^ 32)
    (hne : rr.kind ≠ .get) (hok : argOk rr.dec rr.kind arg = true) :
    let arg' := match rr.kind with | .setConst v => Arg.nat v | _ => arg
    match image rr arg with
    | some buf => dump rr.dec arg' rr.len = .ok buf ∧ buf.length = rr.len
    | none => dump rr.dec arg' rr.len = .err .invalidData := by
  cases hk : rr.kind with
  | get => exact absurd hk hne
  | setConst v =>
    obtain ⟨hd, _⟩ := hconst v hk
    have h4 : rr.len = 4 := by rw [hlen, hd]; rfl
    simp [image, hk, hd, dump, h4]
  | set =>
    rcases hset hk with hd | hd | hd
    · have h4 : rr.len = 4 := by rw [hlen, hd]; rfl
      cases arg <;> simp_all [argOk, image, dump]
    · have h8 : rr.len = 8 := by rw [hlen, hd]; rfl
      cases arg <;> simp_all [argOk, image, dump]
    · cases arg with
      | str s =>
        simp only [image, hk, hd, dump]
        by_cases h1 : s.all (· < 128) = true
        · by_cases h2 : s.contains 0 = true
          · simp only [h1, h2]; simp
          · have h2' : s.contains 0 = false := by simpa using h2
            by_cases h3 : s.length ≤ rr.len
            · have h4 : ¬ s.length > rr.len := by omega
              simp only [h1, h2', h3, h4]
              simp
              omega
            · have h4 : s.length > rr.len := by omega
              simp only [h1, h2', h3, h4]; simp
        · have h1' : s.all (· < 128) = false := by simpa using h1
          simp only [h1']; simp
      | _ => simp_all [argOk]

/-- **setter_writes_right_register**: for every setter row of the source there is the
standard's row `rr` such that on any image, base and argument of the right Rust type, with
open capability guard and the register inside the address space: if the argument has a
byte image (always for integers; for a name iff it is ASCII, NUL-free and fits) the
accessor performs exactly one device access — a write of exactly that image (length
`rr.len`) at `base + rr.off` — and returns `Ok(())`; otherwise it returns `InvalidData`
without touching the device. -/
theorem setter_writes_right_register (r : Row) (hr : r ∈ Gen.RegMap.accessors) (hk : r.kind ≠ .get) :
    ∃ rr, resolve r = some rr ∧ IsSpecRow rr ∧
      ∀ (mem : Nat → UInt8) (base cap : Nat) (arg : Arg),
        argOk rr.dec rr.kind arg = true → guardOpen rr cap = true →
        regAddr rr.base base rr.off + rr.len ≤ 2 ^ 64 →
        match image rr arg with
        | some buf =>
          buf.length = rr.len ∧
          rr.run base cap arg (fresh mem) =
            (.ok .unit, ⟨writeMem mem (regAddr rr.base base rr.off) buf,
                         [⟨.W, regAddr rr.base base rr.off, rr.len, some buf⟩], false⟩)
        | none => rr.run base cap arg (fresh mem) = (.err .invalidData, fresh mem) := by
  obtain ⟨rr, f⟩ := row_facts r hr
  obtain ⟨a, ha, _, har⟩ := f.spec
  refine ⟨rr, f.resolved, ⟨a, ha, har⟩, ?_⟩
  intro mem base cap arg hok hg hfit
  have hne : rr.kind ≠ .get := by rw [f.kind]; exact hk
  have hpos : 0 < rr.len := f.len ▸ widthOf_pos rr.dec
  have hdi := dump_image rr arg f.len f.setDec f.constDec hne hok
  have haddr : rr.base = .abrm ∨ base + rr.off < 2 ^ 64 := by
    cases hbk : rr.base <;> simp_all [regAddr] <;> omega
  cases him : image rr arg with
  | some buf =>
    simp only [him] at hdi
    obtain ⟨hd, hl⟩ := hdi
    refine ⟨hl, ?_⟩
    cases hkk : rr.kind with
    | get => exact absurd hkk hne
    | set =>
      simp only [hkk] at hd
      have := setReg_ok rr base arg (fresh mem) buf hd hl rfl hpos hfit
      simp only [fresh, List.nil_append] at this
      simp only [RRow.run, hkk, hg, if_true, this, fresh]
    | setConst v =>
      simp only [hkk] at hd
      have := setReg_ok rr base (.nat v) (fresh mem) buf hd hl rfl hpos hfit
      simp only [fresh, List.nil_append] at this
      simp only [RRow.run, hkk, hg, if_true, this, fresh]
  | none =>
    simp only [him] at hdi
    cases hkk : rr.kind with
    | get => exact absurd hkk hne
    | set =>
      simp only [hkk] at hdi
      simp only [RRow.run, hkk, hg, if_true, setReg, addrOf_ok _ _ _ haddr, hdi]
    | setConst v =>
      simp only [hkk] at hdi
      simp only [RRow.run, hkk, hg, if_true, setReg, addrOf_ok _ _ _ haddr, hdi]

/-- non-vacuity: `Sirm::set_maximum_trailer_size(0x01020304)` at SIRM base 0x20000 -/
example :
    ((⟨"Sirm.set_maximum_trailer_size", .sirm, .set, 0x2C, 4, .u32, none⟩ : RRow).run 0x20000 0
        (.nat 0x01020304) (fresh fun _ => 0)).2.log = [⟨.W, 0x2002C, 4, some [4, 3, 2, 1]⟩] := by decide

/-- **setter_rejection_propagates**: when the device rejects the write (`broken`, or the
register starts inside the address space but runs past its end) a setter whose argument
has a byte image returns the device's error unchanged; the log gains exactly the one
attempted write of `rr.len` bytes at the right address and memory is untouched.  (The
complement of `setter_writes_right_register` for the device side.) -/
theorem setter_rejection_propagates (r : Row) (hr : r ∈ Gen.RegMap.accessors) (hk : r.kind ≠ .get) :
    ∃ rr, resolve r = some rr ∧
      ∀ (base cap : Nat) (arg : Arg) (buf : Bytes) (d : Dev),
        argOk rr.dec rr.kind arg = true → guardOpen rr cap = true →
        (rr.base = .abrm ∨ base + rr.off < 2 ^ 64) → image rr arg = some buf →
        d.rejects (regAddr rr.base base rr.off) rr.len = true →
        rr.run base cap arg d = (.err .dev, logged d ⟨.W, regAddr rr.base base rr.off, rr.len, none⟩) := by
  obtain ⟨rr, f⟩ := row_facts r hr
  refine ⟨rr, f.resolved, ?_⟩
  intro base cap arg buf d hok hg haddr him hrej
  have hne : rr.kind ≠ .get := by rw [f.kind]; exact hk
  have hdi := dump_image rr arg f.len f.setDec f.constDec hne hok
  simp only [him] at hdi
  obtain ⟨hd, hl⟩ := hdi
  cases hkk : rr.kind with
  | get => exact absurd hkk hne
  | set =>
    simp only [hkk] at hd
    simp only [RRow.run, hkk, hg, if_true, setReg, addrOf_ok _ _ _ haddr, hd, Dev.write, hl, hrej, R.map, logged]
  | setConst v =>
    simp only [hkk] at hd
    simp only [RRow.run, hkk, hg, if_true, setReg, addrOf_ok _ _ _ haddr, hd, Dev.write, hl, hrej, R.map, logged]

/-- non-vacuity: a SIRM setter whose 4-byte register starts 2 bytes below 2^64 -/
example :
    ((⟨"Sirm.set_maximum_trailer_size", .sirm, .set, 0x2C, 4, .u32, none⟩ : RRow).run (2 ^ 64 - 0x2E) 0
        (.nat 7) (fresh fun _ => 0)).1 = .err .dev := by decide

/-! ## 7. Setter → getter round trip -/

private theorem rowOf_mem {name : String} {rr : RRow} (h : rowOf name = some rr) :
    ∃ r ∈ Gen.RegMap.accessors, resolve r = some rr := by
  unfold rowOf at h
  cases hf : Gen.RegMap.accessors.find? (·.name == name) with
  | none => simp [hf] at h
  | some r =>
    simp only [hf, Option.bind_some] at h
    exact ⟨r, List.mem_of_find?_eq_some hf, h⟩

private theorem rowOf_facts {name : String} {rr : RRow} (h : rowOf name = some rr) :
    ∃ r ∈ Gen.RegMap.accessors, RowFacts r rr := by
  obtain ⟨r, hr, hres⟩ := rowOf_mem h
  obtain ⟨rr', f⟩ := row_facts r hr
  have : rr' = rr := Option.some.inj (f.resolved.symm.trans hres)
  exact ⟨r, hr, this ▸ f⟩

private def pairOkB (p : String × String) : Bool :=
  match rowOf p.1, rowOf p.2 with
  | some rs, some rg =>
    rs.base == rg.base && rs.off == rg.off && rs.len == rg.len && rg.kind == .get &&
    rs.guardBit == rg.guardBit &&
    (match rs.kind, rs.dec, rg.dec with
     | .set, .u32, .u32 => true
     | .set, .deviceConfiguration, .deviceConfiguration => true
     | .set, .string, .string => true
     | .setConst _, .u32, .bit f => f == ⟨0, 1⟩
     | _, _, _ => false)
  | _, _ => false

private theorem all_pairs_ok : Gen.RegMap.pairs.all pairOkB = true := by decide

/-- the value the paired getter must return for a written argument -/
def readBack (rs : RRow) (arg : Arg) : Val :=
  match rs.kind, arg with
  | .setConst v, _ => .bool (v % 2 == 1)     -- stream-enable bit of the constant written
  | .set, .nat v => .nat v
  | .set, .cfg raw => .cfg raw
  | .set, .str s => .str s
  | _, _ => .unit

private theorem decode_image (rs rg : RRow) (arg : Arg) (buf : Bytes)
    (hconst : ∀ v, rs.kind = .setConst v → rs.dec = .u32 ∧ v < 2 ^ 32)
    (hclass : (match rs.kind, rs.dec, rg.dec with
      | .set, .u32, .u32 => true
      | .set, .deviceConfiguration, .deviceConfiguration => true
      | .set, .string, .string => true
      | .setConst _, .u32, .bit f => f == ⟨0, 1⟩
      | _, _, _ => false) = true)
    (hok : argOk rs.dec rs.kind arg = true) (him : image rs arg = some buf) :
    Spec.U3V.decode rg.dec buf = .ok (readBack rs arg) := by
  split at hclass
  · next hk hd hg =>
    cases arg <;> simp_all [argOk, image, readBack, Spec.U3V.decode]
    subst him
    exact fromLE_toLE4 _ hok
  · next hk hd hg =>
    cases arg <;> simp_all [argOk, image, readBack, Spec.U3V.decode]
    subst him
    exact fromLE_toLE8 _ hok
  · next hk hd hg =>
    cases arg with
    | str s =>
      simp only [image, hk, Bool.and_eq_true, Bool.not_eq_true', decide_eq_true_eq] at him
      split at him
      · next hc =>
        obtain ⟨⟨h1, h2⟩, _⟩ := hc
        have ha : ∀ b ∈ s, b < 128 := by
          intro b hb; simpa using List.all_eq_true.mp h1 b hb
        have hz : ∀ b ∈ s, b ≠ 0 := by
          intro b hb h0; subst h0
          simp [hb] at h2
        have him' := Option.some.inj him
        subst him'
        simp [hg, Spec.U3V.decode, Spec.U3V.cString, takeWhile_append_zero s _ hz,
          validUtf8_ascii s ha, readBack, hk]
      · simp at him
    | _ => simp_all [argOk]
  · next v f hk hd hg =>
    have hf : f = ⟨0, 1⟩ := by simpa using hclass
    obtain ⟨_, hv⟩ := hconst v hk
    have him' : buf = toLE 4 v := by simpa [image, hk] using him.symm
    subst him' hf
    simp [hg, Spec.U3V.decode, readBack, hk, fromLE_toLE4 v hv, Bool.beq_eq_decide_eq]
  · simp at hclass

/-- **setter_getter**: for every setter/getter pair of the source (numeric SIRM setters,
`write_device_configuration`, `enable_stream`/`disable_stream` with `is_stream_enable`,
`set_user_defined_name`) — the two rows address the same register — and every image, base,
capability word with open guard, and argument that has a byte image (every u32 / u64
value; a name iff ASCII, NUL-free and at most the register length): the setter returns
`Ok(())` and the paired getter, run on the resulting device, returns exactly the value
written. -/
theorem setter_getter (s g : String) (hp : (s, g) ∈ Gen.RegMap.pairs) :
    ∃ rs rg, rowOf s = some rs ∧ rowOf g = some rg ∧
      ∀ (mem : Nat → UInt8) (base cap : Nat) (arg : Arg) (buf : Bytes),
        argOk rs.dec rs.kind arg = true → guardOpen rs cap = true →
        regAddr rs.base base rs.off + rs.len ≤ 2 ^ 64 → image rs arg = some buf →
        (rs.run base cap arg (fresh mem)).1 = .ok .unit ∧
        (rg.run base cap .none (rs.run base cap arg (fresh mem)).2).1 =
          wrapOpt rg (.ok (readBack rs arg)) := by
  have h := List.all_eq_true.mp all_pairs_ok (s, g) hp
  unfold pairOkB at h
  cases hrs : rowOf s with
  | none => simp [hrs] at h
  | some rs =>
    cases hrg : rowOf g with
    | none => simp [hrs, hrg] at h
    | some rg =>
      simp only [hrs, hrg, Bool.and_eq_true, beq_iff_eq] at h
      obtain ⟨⟨⟨⟨⟨hb, ho⟩, hl⟩, hkg⟩, hgb⟩, hclass⟩ := h
      refine ⟨rs, rg, rfl, rfl, ?_⟩
      intro mem base cap arg buf hok hg hfit him
      obtain ⟨_, _, fs⟩ := rowOf_facts hrs
      obtain ⟨_, _, fg⟩ := rowOf_facts hrg
      have hne : rs.kind ≠ .get := by
        intro hk; rw [hk] at hclass; simp at hclass
      have hpos : 0 < rs.len := fs.len ▸ widthOf_pos rs.dec
      have hdi := dump_image rs arg fs.len fs.setDec fs.constDec hne hok
      simp only [him] at hdi
      obtain ⟨hd, hbl⟩ := hdi
      -- the setter's effect
      have hrun : rs.run base cap arg (fresh mem) =
          (.ok .unit, ⟨writeMem mem (regAddr rs.base base rs.off) buf,
                       [⟨.W, regAddr rs.base base rs.off, rs.len, some buf⟩], false⟩) := by
        cases hkk : rs.kind with
        | get => exact absurd hkk hne
        | set =>
          simp only [hkk] at hd
          have := setReg_ok rs base arg (fresh mem) buf hd hbl rfl hpos hfit
          simp only [fresh, List.nil_append] at this
          simp only [RRow.run, hkk, hg, if_true, this, fresh]
        | setConst v =>
          simp only [hkk] at hd
          have := setReg_ok rs base (.nat v) (fresh mem) buf hd hbl rfl hpos hfit
          simp only [fresh, List.nil_append] at this
          simp only [RRow.run, hkk, hg, if_true, this, fresh]
      rw [hrun]
      refine ⟨rfl, ?_⟩
      -- the getter reads the same bytes back
      have hfit' : regAddr rg.base base rg.off + rg.len ≤ 2 ^ 64 := by rw [← hb, ← ho, ← hl]; exact hfit
      have hget := getReg_ok rg fg.len fg.wf base
        ⟨writeMem mem (regAddr rs.base base rs.off) buf,
         [⟨.W, regAddr rs.base base rs.off, rs.len, some buf⟩], false⟩ rfl hfit'
      have hbytes : readBytes (writeMem mem (regAddr rs.base base rs.off) buf)
          (regAddr rg.base base rg.off) rg.len = buf := by
        rw [← hb, ← ho, ← hl, ← hbl]; exact readBytes_writeMem_same _ _ _
      simp only [hbytes] at hget
      have hdec := decode_image rs rg arg buf fs.constDec hclass hok him
      have hgo : guardOpen rg cap = true := by simpa [guardOpen, ← hgb] using hg
      unfold RRow.run
      rw [hkg]
      cases hgbit : rg.guardBit with
      | none => simp only [hget, hdec, wrapOpt, hgbit]
      | some bit =>
        have : cap.testBit bit = true := by simpa [guardOpen, hgbit] using hgo
        simp only [this, if_true, hget, hdec, wrapOpt, hgbit]

/-- the name setter in the words of the property: an ASCII, NUL-free name of at most 64
bytes has a byte image (so `setter_getter` applies and the name reads back unchanged) -/
theorem name_has_image (rr : RRow) (hk : rr.kind = .set) (hl : rr.len = 64) (name : Bytes)
    (hascii : ∀ b ∈ name, b < 128) (hnul : ∀ b ∈ name, b ≠ 0) (hlen : name.length ≤ 64) :
    image rr (.str name) = some (name ++ List.replicate (64 - name.length) 0) := by
  have h1 : name.all (· < 128) = true := List.all_eq_true.mpr (by simpa using hascii)
  have h2 : name.contains 0 = false := by
    cases h : name.contains 0 with
    | false => rfl
    | true => exact absurd rfl (hnul 0 (by simpa using h))
  have h3 : ¬ (0 : UInt8) ∈ name := fun h => hnul 0 h rfl
  simp [image, hk, hl, h1, h3, hlen]

/-- non-vacuity: the pair list is inhabited and the name `cameleon` round-trips -/
example : ("Abrm.set_user_defined_name", "Abrm.user_defined_name") ∈ Gen.RegMap.pairs := by decide
example :
    let rs : RRow := ⟨"Abrm.set_user_defined_name", .abrm, .set, 0x184, 64, .string, some 0⟩
    let rg : RRow := ⟨"Abrm.user_defined_name", .abrm, .get, 0x184, 64, .string, some 0⟩
    let name : Bytes := [99, 97, 109, 101, 108, 101, 111, 110]
    (rg.run 0 1 .none (rs.run 0 1 (.str name) (fresh fun _ => 0xAA)).2).1 = .ok (.some (.str name)) := by
  decide

/-! ## 8. Structural accessors (any device state: prior log, rejecting or not) -/

/-- the constants the structural accessors use, as the standards give them -/
def L0 : Layout :=
  { devCap := (0x01C4, 8), devCapWidth := 8, u3vCap := (0x0004, 8), u3vCapWidth := 8,
    sbrmAddress := ⟨"Abrm.sbrm_address", .abrm, .get, 0x01D8, 8, .u64, none⟩,
    manifestTableAddress := ⟨"Abrm.manifest_table_address", .abrm, .get, 0x01D0, 8, .u64, none⟩,
    sirmAddress := ⟨"Sbrm.sirm_address", .sbrm, .get, 0x0020, 8, .u64, some 0⟩ }

/-- `Abrm::new`, `Sbrm::new`, `Abrm::sbrm`, `Abrm::manifest_table`, `Sbrm::sirm` use the
standards' device-capability (ABRM 0x1C4, 8 bytes, u64) and U3VCP-capability (SBRM+4, 8 bytes,
u64) registers and the address registers 0x1D8 / 0x1D0 / SBRM+0x20. -/
theorem layout_spec : layout = some L0 := by decide

private theorem read_rej {d : Dev} {a n : Nat} (h : d.rejects a n = true) :
    d.read a n = (.err .dev, logged d ⟨.R, a, n, none⟩) := by
  simp [Dev.read, h, logged]

private theorem read_acc {d : Dev} {a n : Nat} (h : ¬ d.rejects a n = true) :
    d.read a n = (.ok (readBytes d.mem a n), logged d ⟨.R, a, n, some (readBytes d.mem a n)⟩) := by
  simp [Dev.read, h, logged]

/-- `Abrm::new` performs exactly one access, a read of the 8-byte device capability word at
0x01C4: a rejecting device's error is returned unchanged, otherwise the little-endian word. -/
theorem abrm_new_reads_capability (d : Dev) :
    abrmNew L0 d =
      if d.rejects 0x01C4 8 = true then (.err .dev, logged d ⟨.R, 0x01C4, 8, none⟩)
      else (.ok (.abrm (fromLE (readBytes d.mem 0x01C4 8))),
            logged d ⟨.R, 0x01C4, 8, some (readBytes d.mem 0x01C4 8)⟩) := by
  by_cases hr : d.rejects 0x01C4 8 = true
  · simp only [abrmNew, L0, read_rej hr, hr, if_true]
  · simp only [abrmNew, L0, read_acc hr, parseNum_ok 8 _ (readBytes_length _ _ _), R.map]
    simp [hr]

/-- `Sbrm::new(base)`: `InvalidDevice` without access if `base + 4` overflows; otherwise
exactly one read of the 8-byte U3VCP capability word at `base + 4`. -/
theorem sbrm_new_reads_capability (d : Dev) (base : Nat) :
    sbrmNew L0 base d =
      if 2 ^ 64 ≤ base + 4 then (.err .invalidDevice, d)
      else if d.rejects (base + 4) 8 = true then (.err .dev, logged d ⟨.R, base + 4, 8, none⟩)
      else (.ok (.sbrm base (fromLE (readBytes d.mem (base + 4) 8))),
            logged d ⟨.R, base + 4, 8, some (readBytes d.mem (base + 4) 8)⟩) := by
  by_cases h : 2 ^ 64 ≤ base + 4
  · have : ¬ base + 4 < 2 ^ 64 := by omega
    simp only [sbrmNew, L0, registerAddress, this, h, if_true, if_false]
  · have : base + 4 < 2 ^ 64 := by omega
    by_cases hr : d.rejects (base + 4) 8 = true
    · simp only [sbrmNew, L0, registerAddress, this, h, if_true, if_false, read_rej hr, hr]
    · simp only [sbrmNew, L0, registerAddress, this, h, if_true, if_false, read_acc hr,
        parseNum_ok 8 _ (readBytes_length _ _ _), R.map]
      simp [hr]

/-- `Abrm::manifest_table` performs exactly one access, a read of the 8-byte manifest table
address register at 0x01D0, and wraps the little-endian value. -/
theorem abrm_manifest_table_reads (d : Dev) (cap : Nat) :
    abrmManifestTable L0 cap d =
      if d.rejects 0x01D0 8 = true then (.err .dev, logged d ⟨.R, 0x01D0, 8, none⟩)
      else (.ok (.table (fromLE (readBytes d.mem 0x01D0 8))),
            logged d ⟨.R, 0x01D0, 8, some (readBytes d.mem 0x01D0 8)⟩) := by
  by_cases hr : d.rejects 0x01D0 8 = true
  · simp only [abrmManifestTable, L0, RRow.run, getReg, addrOf, readRegister, read_rej hr, hr, if_true]
  · simp only [abrmManifestTable, L0, RRow.run, getReg, addrOf, readRegister, read_acc hr,
      parse, parseNum_ok 8 _ (readBytes_length _ _ _), R.map]
    simp [hr]

/-- `ManifestTable::entries` performs exactly one access, a read of the 8-byte entry count
`n` at the table address.  It yields `n` entries, the `i`-th at `base + 8 + 64 i`, **iff** the
whole table `[base, base + 8 + 64 n)` lies inside the 64-bit address space (its end may be
exactly 2^64), and reports `InvalidDevice` otherwise — no panic, no wrapped entry address. -/
theorem entries_spec (d : Dev) (base : Nat) (hb : base < 2 ^ 64) :
    tableEntries base d =
      if d.rejects base 8 = true then (.err .dev, logged d ⟨.R, base, 8, none⟩)
      else (if base + 8 + 64 * fromLE (readBytes d.mem base 8) ≤ 2 ^ 64
              then .ok (.entries (fromLE (readBytes d.mem base 8)) (base + 8)) else .err .invalidDevice,
            logged d ⟨.R, base, 8, some (readBytes d.mem base 8)⟩) := by
  have e1 : (registerAddress base 0 : R Nat) = .ok base := by
    simp only [registerAddress, Nat.add_zero, hb, if_true]
  by_cases hr : d.rejects base 8 = true
  · simp only [tableEntries, e1, read_rej hr, hr, if_true]
  · simp only [tableEntries, e1, read_acc hr, parseNum_ok 8 _ (readBytes_length _ _ _)]
    by_cases h4 : base + 8 + 64 * fromLE (readBytes d.mem base 8) ≤ 2 ^ 64
    · have : ¬ base + 8 + fromLE (readBytes d.mem base 8) * 64 > 2 ^ 64 := by omega
      simp only [h4, this, if_true, if_false]
      simp [hr]
    · have : base + 8 + fromLE (readBytes d.mem base 8) * 64 > 2 ^ 64 := by omega
      simp only [h4, this, if_true, if_false]
      simp [hr]

/-- non-vacuity / the boundary the first version of fix a9ca270 got wrong (repaired by
2f80436): a one-entry table whose entry occupies the last 64 bytes of the address space -/
example : (tableEntries (2 ^ 64 - 72) (fresh fun a => if a = 2 ^ 64 - 72 then 1 else 0)).1
    = .ok (.entries 1 (2 ^ 64 - 64)) := by decide

/-- the entries the iterator yields are disjoint 64-byte records inside the table -/
theorem entry_addresses (first n i : Nat) (hi : i < n) :
    first ≤ entryAddr first i ∧ entryAddr first i + Spec.U3V.MANIFEST_ENTRY_SIZE ≤ first + 64 * n ∧
    entryAddr first (i + 1) = entryAddr first i + Spec.U3V.MANIFEST_ENTRY_SIZE := by
  simp only [entryAddr, Spec.U3V.MANIFEST_ENTRY_SIZE]
  omega

/-! ## 9. Malformed register contents are errors, never panics -/

private theorem addrOf_cases (b : Base) (base off : Nat) :
    (∃ a, addrOf b base off = .ok a) ∨ addrOf b base off = .err .invalidDevice := by
  cases b <;> simp only [addrOf, registerAddress] <;> (try split) <;> simp

private theorem read_cases (d : Dev) (addr len : Nat) :
    (∃ d', d.read addr len = (.ok (readBytes d.mem addr len), d')) ∨ (∃ d', d.read addr len = (.err .dev, d')) := by
  unfold Dev.read
  split
  · exact Or.inr ⟨_, rfl⟩
  · exact Or.inl ⟨_, rfl⟩

private theorem getReg_ne_panic (rr : RRow) (hlen : rr.len = Spec.U3V.widthOf rr.dec)
    (hwf : Spec.U3V.decWf rr.dec = true) (base : Nat) (d : Dev) : (getReg rr base d).1 ≠ .panic := by
  unfold getReg
  rcases addrOf_cases rr.base base rr.off with ⟨a, ha⟩ | ha
  · rw [ha]
    simp only [readRegister]
    rcases read_cases d a rr.len with ⟨d', hr⟩ | ⟨d', hr⟩
    · rw [hr]; exact parse_ne_panic _ _ (by simp [hlen]) hwf
    · rw [hr]; simp
  · rw [ha]; simp

private theorem setReg_ne_panic (rr : RRow) (base : Nat) (arg : Arg) (d : Dev)
    (hd : (∃ buf, dump rr.dec arg rr.len = .ok buf) ∨ dump rr.dec arg rr.len = .err .invalidData) :
    (setReg rr base arg d).1 ≠ .panic := by
  unfold setReg
  rcases addrOf_cases rr.base base rr.off with ⟨a, ha⟩ | ha
  · rw [ha]
    rcases hd with ⟨buf, hb⟩ | hb
    · rw [hb]
      simp only [Dev.write]
      split <;> simp [R.map]
    · rw [hb]; simp
  · rw [ha]; simp

private theorem run_ne_panic (r : Row) (rr : RRow) (f : RowFacts r rr) (base cap : Nat) (arg : Arg)
    (d : Dev) (hok : argOk rr.dec rr.kind arg = true) : (rr.run base cap arg d).1 ≠ .panic := by
  unfold RRow.run
  cases hk : rr.kind with
  | get =>
    have hg := getReg_ne_panic rr f.len f.wf base d
    cases hgb : rr.guardBit with
    | none => simpa using hg
    | some bit =>
      by_cases hb : cap.testBit bit = true
      · simp only [hb, if_true]
        cases hres : (getReg rr base d).1 <;> simp_all [R.map]
      · simp [hb]
  | set =>
    have hne : rr.kind ≠ .get := by rw [hk]; simp
    have hdi := dump_image rr arg f.len f.setDec f.constDec hne hok
    simp only [hk] at hdi
    by_cases hg : guardOpen rr cap = true
    · simp only [hg, if_true]
      apply setReg_ne_panic
      cases him : image rr arg with
      | some buf => simp only [him] at hdi; exact Or.inl ⟨buf, hdi.1⟩
      | none => simp only [him] at hdi; exact Or.inr hdi
    · simp [hg]
  | setConst v =>
    have hne : rr.kind ≠ .get := by rw [hk]; simp
    have hdi := dump_image rr arg f.len f.setDec f.constDec hne hok
    simp only [hk] at hdi
    by_cases hg : guardOpen rr cap = true
    · simp only [hg, if_true]
      apply setReg_ne_panic
      cases him : image rr arg with
      | some buf => simp only [him] at hdi; exact Or.inl ⟨buf, hdi.1⟩
      | none => simp only [him] at hdi; exact Or.inr hdi
    · simp [hg]

private theorem abrmNew_ne_panic (d : Dev) : (abrmNew L0 d).1 ≠ .panic := by
  unfold abrmNew
  rcases read_cases d L0.devCap.1 L0.devCap.2 with ⟨d', hr⟩ | ⟨d', hr⟩
  · rw [hr]
    have h8 := parseNum_ok L0.devCapWidth (readBytes d.mem L0.devCap.1 L0.devCap.2) (by simp [L0])
    simp [h8, R.map]
  · rw [hr]; simp

private theorem sbrmNew_ne_panic (base : Nat) (d : Dev) : (sbrmNew L0 base d).1 ≠ .panic := by
  unfold sbrmNew
  by_cases h : base + L0.u3vCap.1 < 2 ^ 64
  · simp only [registerAddress, h, if_true]
    rcases read_cases d (base + L0.u3vCap.1) L0.u3vCap.2 with ⟨d', hr⟩ | ⟨d', hr⟩
    · rw [hr]
      have h8 := parseNum_ok L0.u3vCapWidth (readBytes d.mem (base + L0.u3vCap.1) L0.u3vCap.2) (by simp [L0])
      simp [h8, R.map]
    · rw [hr]; simp
  · simp only [registerAddress, h, if_false]
    simp

private theorem u64_getReg_cases (rr : RRow) (hd : rr.dec = .u64) (hl : rr.len = 8) (base : Nat) (d : Dev) :
    (∃ a d', getReg rr base d = (.ok (.nat a), d')) ∨ (∃ e d', getReg rr base d = (.err e, d')) := by
  unfold getReg
  rcases addrOf_cases rr.base base rr.off with ⟨a, ha⟩ | ha
  · rw [ha]
    simp only [readRegister]
    rcases read_cases d a rr.len with ⟨d', hr⟩ | ⟨d', hr⟩
    · rw [hr]
      refine Or.inl ⟨fromLE (readBytes d.mem a rr.len), d', ?_⟩
      simp [hd, parse, parseNum_ok 8 _ (by simp [hl] : (readBytes d.mem a rr.len).length = 8), R.map]
    · rw [hr]; exact Or.inr ⟨_, _, rfl⟩
  · rw [ha]; exact Or.inr ⟨_, _, rfl⟩

/-- outcome shapes of an unguarded u64 getter row -/
private theorem u64_get_cases (rr : RRow) (hk : rr.kind = .get) (hd : rr.dec = .u64) (hl : rr.len = 8)
    (hg : rr.guardBit = none) (base cap : Nat) (d : Dev) :
    (∃ a d', rr.run base cap .none d = (.ok (.nat a), d')) ∨
    (∃ e d', rr.run base cap .none d = (.err e, d')) := by
  unfold RRow.run
  rw [hk]
  simp only [hg]
  exact u64_getReg_cases rr hd hl base d

/-- outcome shapes of a capability-guarded u64 getter row -/
private theorem u64_get_guarded_cases (rr : RRow) (hk : rr.kind = .get) (hd : rr.dec = .u64) (hl : rr.len = 8)
    (bit : Nat) (hg : rr.guardBit = some bit) (base cap : Nat) (d : Dev) :
    (∃ d', rr.run base cap .none d = (.ok .none, d')) ∨
    (∃ a d', rr.run base cap .none d = (.ok (.some (.nat a)), d')) ∨
    (∃ e d', rr.run base cap .none d = (.err e, d')) := by
  unfold RRow.run
  rw [hk]
  simp only [hg]
  by_cases hb : cap.testBit bit = true
  · simp only [hb, if_true]
    rcases u64_getReg_cases rr hd hl base d with ⟨a, d', h⟩ | ⟨e, d', h⟩
    · exact Or.inr (Or.inl ⟨a, d', by rw [h]; rfl⟩)
    · exact Or.inr (Or.inr ⟨e, d', by rw [h]; rfl⟩)
  · exact Or.inl ⟨d, by simp [hb]⟩

private theorem abrmSbrm_ne_panic (cap : Nat) (d : Dev) : (abrmSbrm L0 cap d).1 ≠ .panic := by
  unfold abrmSbrm
  rcases u64_get_cases L0.sbrmAddress rfl rfl rfl rfl 0 cap d with ⟨a, d', h⟩ | ⟨e, d', h⟩
  · rw [h]; exact sbrmNew_ne_panic a d'
  · rw [h]; simp

private theorem abrmManifestTable_ne_panic (cap : Nat) (d : Dev) : (abrmManifestTable L0 cap d).1 ≠ .panic := by
  unfold abrmManifestTable
  rcases u64_get_cases L0.manifestTableAddress rfl rfl rfl rfl 0 cap d with ⟨a, d', h⟩ | ⟨e, d', h⟩
  · rw [h]; simp
  · rw [h]; simp

private theorem sbrmSirm_ne_panic (base cap : Nat) (d : Dev) : (sbrmSirm L0 base cap d).1 ≠ .panic := by
  unfold sbrmSirm
  rcases u64_get_guarded_cases L0.sirmAddress rfl rfl rfl 0 rfl base cap d with
    ⟨d', h⟩ | ⟨a, d', h⟩ | ⟨e, d', h⟩
  · rw [h]; simp
  · rw [h]; simp
  · rw [h]; simp

private theorem tableEntries_ne_panic (base : Nat) (d : Dev) : (tableEntries base d).1 ≠ .panic := by
  unfold tableEntries
  by_cases h0 : base + 0 < 2 ^ 64
  · simp only [registerAddress, h0, if_true]
    rcases read_cases d (base + 0) 8 with ⟨d', hr⟩ | ⟨d', hr⟩
    · rw [hr]
      simp only [parseNum_ok 8 _ (readBytes_length d.mem (base + 0) 8)]
      split <;> simp
    · rw [hr]; simp
  · simp only [registerAddress, h0, if_false]
    simp

/-- **malformed_total**: for EVERY accessor name the source has (uniform rows, hand-modelled
decoders, constructors, navigation, `ManifestTable::entries`), every memory image, base
address (anywhere in the address space, including where `base + offset` overflows),
capability word, well-typed argument and device state (rejecting or not, any prior log):
the accessor returns a value or an error — never a panic.  This holds identically in both
build profiles (no profile-dependent operation is left after fixes da8583f and a9ca270;
before them: `1 << exponent` with exponent ≥ 64 and `base + offset` overflow panicked in
the dev profile and wrapped in release). -/
theorem malformed_total (name : String) (base cap : Nat) (arg : Arg) (d : Dev) (out : R Val × Dev)
    (h : runNamed name base cap arg d = some out) : out.1 ≠ .panic := by
  unfold runNamed at h
  split at h
  · next rr hrow =>
    split at h
    · next hok =>
      obtain ⟨r, _, f⟩ := rowOf_facts hrow
      cases h
      exact run_ne_panic r rr f base cap arg d hok
    · cases h
  · by_cases hc : (Gen.RegMap.handModelled.any (·.1 == name) && arg == .none) = true
    · rw [if_pos hc, layout_spec] at h
      simp only [Option.bind_some] at h
      repeat' split at h
      all_goals first
        | (cases h; exact abrmNew_ne_panic d)
        | (cases h; exact abrmSbrm_ne_panic cap d)
        | (cases h; exact abrmManifestTable_ne_panic cap d)
        | (cases h; exact sbrmNew_ne_panic base d)
        | (cases h; exact sbrmSirm_ne_panic base cap d)
        | (cases h; exact tableEntries_ne_panic base d)
        | (cases h; simp)
        | cases h
    · rw [if_neg hc] at h
      cases h

/-- non-vacuity: `runNamed` is defined on all 63 accessor names of the source, e.g. the
alignment decoder on an image whose SI info exponent is 200 answers `InvalidDevice` -/
example : (runNamed "Sirm.payload_size_alignment" 0x1000 0 .none (fresh fun a => if a = 0x1003 then 200 else 0)).map (·.1)
    = some (.err .invalidDevice) := by decide
example : ((Gen.RegMap.accessors.map (·.name) ++ Gen.RegMap.handModelled.map (·.1)).all fun n =>
    (runNamed n 0 0 .none (fresh fun _ => 0)).isSome ||
    (runNamed n 0 0 (.nat 0) (fresh fun _ => 0)).isSome ||
    (runNamed n 0 0 (.cfg 0) (fresh fun _ => 0)).isSome ||
    (runNamed n 0 0 (.str []) (fresh fun _ => 0)).isSome) = true := by decide

/-! ## 10. Capability tests and navigation -/

/-- the guard of the accessors (`cap.testBit bit`) is the crate's `is_bit_set!(self.0, bit)`
= `((val >> bit) & 1) == 1` -/
theorem guard_is_bit_set (raw bit : Nat) : isBitSet raw bit = raw.testBit bit := by
  simp only [isBitSet, Nat.testBit, Nat.and_comm (raw >>> bit) 1, Nat.one_and_eq_mod_two,
    Bool.beq_eq_decide_eq]
  have := Nat.mod_two_eq_zero_or_one (raw >>> bit)
  rcases this with h | h <;> simp [h]

/-- `Abrm::sbrm` navigates as the standards describe, on any device: the SBRM address `a` is
the u64 read at ABRM 0x01D8 (a rejected read returns the device's error after that one
attempt), then exactly `Sbrm::new(a)` on the resulting device — whose behaviour, including
`a + 4` overflowing and a rejected capability read, is `sbrm_new_reads_capability`. -/
theorem abrm_sbrm_navigates (d : Dev) (cap : Nat) :
    abrmSbrm L0 cap d =
      if d.rejects 0x01D8 8 = true then (.err .dev, logged d ⟨.R, 0x01D8, 8, none⟩)
      else sbrmNew L0 (fromLE (readBytes d.mem 0x01D8 8))
             (logged d ⟨.R, 0x01D8, 8, some (readBytes d.mem 0x01D8 8)⟩) := by
  have hrow : L0.sbrmAddress = ⟨"Abrm.sbrm_address", .abrm, .get, 0x01D8, 8, .u64, none⟩ := rfl
  by_cases hr : d.rejects 0x01D8 8 = true
  · simp only [abrmSbrm, hrow, RRow.run, getReg, addrOf, readRegister, read_rej hr, hr, if_true]
  · simp only [abrmSbrm, hrow, RRow.run, getReg, addrOf, readRegister, read_acc hr,
      parse, parseNum_ok 8 _ (readBytes_length _ _ _), R.map]
    simp [hr]

/-- `Sbrm::sirm` on any device: `None` without access when the SIRM-available bit (U3VCP
capability bit 0) is clear; `InvalidDevice` without access if `SBRM + 0x20` overflows;
otherwise exactly one read of the u64 at `SBRM + 0x20` (a rejected read returns the device's
error). -/
theorem sbrm_sirm_navigates (d : Dev) (base cap : Nat) :
    sbrmSirm L0 base cap d =
      if cap.testBit 0 = false then (.ok .none, d)
      else if 2 ^ 64 ≤ base + 0x20 then (.err .invalidDevice, d)
      else if d.rejects (base + 0x20) 8 = true then (.err .dev, logged d ⟨.R, base + 0x20, 8, none⟩)
      else (.ok (.some (.sirm (fromLE (readBytes d.mem (base + 0x20) 8)))),
            logged d ⟨.R, base + 0x20, 8, some (readBytes d.mem (base + 0x20) 8)⟩) := by
  by_cases hb : cap.testBit 0 = true
  · by_cases h : 2 ^ 64 ≤ base + 0x20
    · have : ¬ base + 0x20 < 2 ^ 64 := by omega
      simp [sbrmSirm, L0, RRow.run, hb, getReg, addrOf, registerAddress, this, h, R.map]
    · have h1 : base + 0x20 < 2 ^ 64 := by omega
      by_cases hr : d.rejects (base + 0x20) 8 = true
      · simp only [sbrmSirm, L0, RRow.run, hb, if_true, getReg, addrOf, registerAddress, h1, readRegister,
          read_rej hr, hr, h, if_false, Bool.true_eq_false, R.map]
      · simp only [sbrmSirm, L0, RRow.run, hb, if_true, getReg, addrOf, registerAddress, h1, readRegister,
          read_acc hr, h, if_false, Bool.true_eq_false, parse, parseNum_ok 8 _ (readBytes_length _ _ _), R.map]
        simp [hr]
  · simp [sbrmSirm, L0, RRow.run, hb]

/-! ## 11. Strings (growth round) -/

private theorem string_rows_ok :
    (Gen.RegMap.accessors.all fun r => r.ty != .string ||
      (match resolve r with
       | some rr => rr.dec == .string && rr.len == 64
       | none => false)) = true := by decide

private theorem string_row (r : Row) (hr : r ∈ Gen.RegMap.accessors) (hty : r.ty = .string) (rr : RRow)
    (hres : resolve r = some rr) : rr.dec = .string ∧ rr.len = 64 := by
  have h := List.all_eq_true.mp string_rows_ok r hr
  simpa [hty, hres] using h

/-- **string_register_decodes**: for every string getter of the source and EVERY memory image
whose register holds NUL-free, well-formed UTF-8 `s` (any multi-byte content) either filling
the register completely with NO terminator, or followed by a NUL and arbitrary bytes after
it: the getter returns exactly `s` — all 64 bytes in the unterminated case — after its one
read. -/
theorem string_register_decodes (r : Row) (hr : r ∈ Gen.RegMap.accessors) (hk : r.kind = .get)
    (hty : r.ty = .string) :
    ∃ rr, resolve r = some rr ∧ IsSpecRow rr ∧ rr.dec = .string ∧ rr.len = 64 ∧
      ∀ (mem : Nat → UInt8) (base cap : Nat) (s : Bytes),
        guardOpen rr cap = true → regAddr rr.base base rr.off + rr.len ≤ 2 ^ 64 →
        validUtf8 s = true → (∀ b ∈ s, b ≠ 0) →
        (readBytes mem (regAddr rr.base base rr.off) rr.len = s ∨
         ∃ rest, readBytes mem (regAddr rr.base base rr.off) rr.len = s ++ 0 :: rest) →
        rr.run base cap .none (fresh mem) =
          (wrapOpt rr (.ok (.str s)),
           ⟨mem, [⟨.R, regAddr rr.base base rr.off, rr.len,
                    some (readBytes mem (regAddr rr.base base rr.off) rr.len)⟩], false⟩) := by
  obtain ⟨rr, hres, hspec, _, H⟩ := accessor_reads_right_register r hr hk
  obtain ⟨hdec, hlen⟩ := string_row r hr hty rr hres
  refine ⟨rr, hres, hspec, hdec, hlen, ?_⟩
  intro mem base cap s hg hfit hv hz hbytes
  rw [H mem base cap hg hfit, hdec]
  rcases hbytes with h | ⟨rest, h⟩
  · rw [h, decode_string_full s hv hz]
  · rw [h, decode_string_terminated s rest hv hz]

/-- non-vacuity: `Abrm::model_name` on an image whose 64-byte register holds 32 × "é"
(0xC3 0xA9), i.e. 64 bytes of multi-byte UTF-8 and no terminator, returns all 64 bytes -/
example :
    let s : Bytes := (List.replicate 32 [0xC3, 0xA9]).flatten
    let mem : Nat → UInt8 := fun a => if 0x44 ≤ a ∧ a < 0x84 then (if (a - 0x44) % 2 = 0 then 0xC3 else 0xA9) else 0
    ((⟨"Abrm.model_name", .abrm, .get, 0x44, 64, .string, none⟩ : RRow).run 0 0 .none (fresh mem)).1
      = .ok (.str s) := by decide

private theorem string_setters_abrm :
    (Gen.RegMap.accessors.all fun r =>
      (match resolve r with
       | some rr => !(rr.dec == .string && rr.kind == .set) || rr.base == .abrm
       | none => true)) = true := by decide

/-- **string_register_roundtrip**: for every setter/getter pair of the source whose setter
takes a string (`set_user_defined_name` / `user_defined_name`), every image, base,
capability word with the guard open, every device-addressable register and EVERY byte
string `name` (the UTF-8 bytes of the Rust `&str`):
* if `name` is ASCII, NUL-free and `|name| ≤ register length` — INCLUDING `|name|` exactly
  the register length, where no terminator is written — the setter performs exactly one
  write, of `name` padded with NUL to the register length, and the paired getter run on the
  resulting device returns exactly `name`;
* otherwise (longer than the register, non-ASCII, or containing NUL) the setter returns
  `InvalidData` and leaves the device — memory AND log — untouched, on ANY device state. -/
theorem string_register_roundtrip (s g : String) (hp : (s, g) ∈ Gen.RegMap.pairs) :
    ∃ rs rg, rowOf s = some rs ∧ rowOf g = some rg ∧ (rs.dec = .string →
      rs.kind = .set ∧ rs.len = 64 ∧
      ∀ (base cap : Nat) (name : Bytes), guardOpen rs cap = true →
        ((name.all (· < 128) = true ∧ (∀ b ∈ name, b ≠ 0) ∧ name.length ≤ rs.len) →
          ∀ (mem : Nat → UInt8), regAddr rs.base base rs.off + rs.len ≤ 2 ^ 64 →
            rs.run base cap (.str name) (fresh mem) =
              (.ok .unit,
               ⟨writeMem mem (regAddr rs.base base rs.off) (name ++ List.replicate (rs.len - name.length) 0),
                [⟨.W, regAddr rs.base base rs.off, rs.len,
                   some (name ++ List.replicate (rs.len - name.length) 0)⟩], false⟩) ∧
            (rg.run base cap .none (rs.run base cap (.str name) (fresh mem)).2).1 =
              wrapOpt rg (.ok (.str name))) ∧
        (¬ (name.all (· < 128) = true ∧ (∀ b ∈ name, b ≠ 0) ∧ name.length ≤ rs.len) →
          ∀ (d : Dev), rs.run base cap (.str name) d = (.err .invalidData, d))) := by
  obtain ⟨rs, rg, hrs, hrg, H⟩ := setter_getter s g hp
  refine ⟨rs, rg, hrs, hrg, ?_⟩
  intro hdec
  obtain ⟨r, hr, fs⟩ := rowOf_facts hrs
  have hpk := List.all_eq_true.mp all_pairs_ok (s, g) hp
  unfold pairOkB at hpk
  simp only [hrs, hrg, Bool.and_eq_true, beq_iff_eq] at hpk
  obtain ⟨_, hclass⟩ := hpk
  have hk : rs.kind = .set := by
    cases hkk : rs.kind with
    | get => simp [hkk] at hclass
    | set => rfl
    | setConst v => have := (fs.constDec v hkk).1; rw [hdec] at this; cases this
  have hlen64 : rs.len = 64 := by rw [fs.len, hdec]; rfl
  refine ⟨hk, hlen64, ?_⟩
  intro base cap name hg
  have hok : argOk rs.dec rs.kind (.str name) = true := by simp [argOk, hk, hdec]
  have hne : rs.kind ≠ .get := by rw [hk]; simp
  have hdi := dump_image rs (.str name) fs.len fs.setDec fs.constDec hne hok
  constructor
  · rintro ⟨h1, h2, h3⟩ mem hfit
    have h2' : ¬ (0 : UInt8) ∈ name := fun h => h2 0 h rfl
    have him : image rs (.str name) = some (name ++ List.replicate (rs.len - name.length) 0) := by
      simp [image, hk, h1, h2', h3]
    simp only [him, hk] at hdi
    obtain ⟨hd, hbl⟩ := hdi
    have hpos : 0 < rs.len := by omega
    have hrun := setReg_ok rs base (.str name) (fresh mem) _ hd hbl rfl hpos hfit
    simp only [fresh, List.nil_append] at hrun
    have hrun' : rs.run base cap (.str name) (fresh mem) =
        (.ok .unit,
         ⟨writeMem mem (regAddr rs.base base rs.off) (name ++ List.replicate (rs.len - name.length) 0),
          [⟨.W, regAddr rs.base base rs.off, rs.len,
             some (name ++ List.replicate (rs.len - name.length) 0)⟩], false⟩) := by
      simp only [RRow.run, hk, hg, if_true, fresh]
      exact hrun
    refine ⟨hrun', ?_⟩
    have := (H mem base cap (.str name) _ hok hg hfit him).2
    simpa [readBack, hk] using this
  · intro hbad d
    have him : image rs (.str name) = none := by
      simp only [image, hk]
      by_cases h1 : name.all (· < 128) = true
      · by_cases h2 : (0 : UInt8) ∈ name
        · simp [h1, h2]
        · by_cases h3 : name.length ≤ rs.len
          · exfalso; exact hbad ⟨h1, fun b hb h0 => h2 (h0 ▸ hb), h3⟩
          · simp [h1, h2, h3]
      · have : name.all (· < 128) = false := by simpa using h1
        simp [this]
    simp only [him, hk] at hdi
    have habrm : rs.base = .abrm := by
      have hb := List.all_eq_true.mp string_setters_abrm r hr
      simpa [fs.resolved, hdec, hk] using hb
    simp only [RRow.run, hk, hg, if_true, setReg, addrOf, habrm, hdi]

/-- non-vacuity: a 64-byte ASCII name (no room for a terminator) round-trips; a 65-byte name
is refused without a device access -/
example :
    let rs : RRow := ⟨"Abrm.set_user_defined_name", .abrm, .set, 0x184, 64, .string, some 0⟩
    let rg : RRow := ⟨"Abrm.user_defined_name", .abrm, .get, 0x184, 64, .string, some 0⟩
    let name : Bytes := List.replicate 64 0x41
    (rg.run 0 1 .none (rs.run 0 1 (.str name) (fresh fun _ => 0xAA)).2).1 = .ok (.some (.str name)) ∧
    (rs.run 0 1 (.str (List.replicate 65 0x41)) (fresh fun _ => 0xAA)).2.log = [] := by
  decide

/-! ## 12. Addresses (growth round) -/

/-- direction of the one device access an accessor kind performs -/
def dirOf : AccKind → Dir
  | .get => .R
  | _ => .W

private theorem write_rej {d : Dev} {a : Nat} {buf : Bytes} (h : d.rejects a buf.length = true) :
    d.write a buf = (.err .dev, logged d ⟨.W, a, buf.length, none⟩) := by
  simp [Dev.write, h, logged]

private theorem write_acc {d : Dev} {a : Nat} {buf : Bytes} (h : ¬ d.rejects a buf.length = true) :
    d.write a buf = (.ok (), { d with mem := writeMem d.mem a buf,
                                      log := d.log ++ [⟨.W, a, buf.length, some buf⟩] }) := by
  simp [Dev.write, h]

private theorem wrapOpt_err (rr : RRow) (e : Err) : wrapOpt rr (.err e) = .err e := by
  cases h : rr.guardBit <;> simp [wrapOpt, h, R.map]

private theorem set_one_access (rr : RRow) (base cap : Nat) (arg arg' : Arg) (d : Dev) (buf : Bytes)
    (hg : guardOpen rr cap = true)
    (hao : addrOf rr.base base rr.off = .ok (regAddr rr.base base rr.off))
    (hd : dump rr.dec arg' rr.len = .ok buf) (hbl : buf.length = rr.len)
    (hrun : rr.run base cap arg d = setReg rr base arg' d) (hk : rr.kind ≠ .get) :
    ∃ data,
      (rr.run base cap arg d).2.log =
        d.log ++ [⟨dirOf rr.kind, regAddr rr.base base rr.off, rr.len, data⟩] ∧
      (rr.run base cap arg d).2.broken = d.broken ∧
      (data = none ↔ d.rejects (regAddr rr.base base rr.off) rr.len = true) ∧
      (d.rejects (regAddr rr.base base rr.off) rr.len = true →
        (rr.run base cap arg d).1 = .err .dev ∧ (rr.run base cap arg d).2.mem = d.mem) ∧
      (rr.kind = .get → (rr.run base cap arg d).2.mem = d.mem) := by
  have hdir : dirOf rr.kind = .W := by
    cases h : rr.kind <;> simp_all [dirOf]
  by_cases hrej : d.rejects (regAddr rr.base base rr.off) rr.len = true
  · refine ⟨none, ?_⟩
    have hw := write_rej (d := d) (a := regAddr rr.base base rr.off) (buf := buf) (by rw [hbl]; exact hrej)
    have hval : rr.run base cap arg d = (.err .dev, logged d ⟨.W, regAddr rr.base base rr.off, rr.len, none⟩) := by
      rw [hrun]; simp only [setReg, hao, hd, hw, hbl, R.map]
    rw [hval, hdir]
    simp [logged, hrej, hk]
  · refine ⟨some buf, ?_⟩
    have hw := write_acc (d := d) (a := regAddr rr.base base rr.off) (buf := buf) (by rw [hbl]; exact hrej)
    have hval : rr.run base cap arg d =
        (.ok .unit, { d with mem := writeMem d.mem (regAddr rr.base base rr.off) buf,
                             log := d.log ++ [⟨.W, regAddr rr.base base rr.off, rr.len, some buf⟩] }) := by
      rw [hrun]; simp only [setReg, hao, hd, hw, hbl, R.map]
    rw [hval, hdir]
    simp [hrej, hk]

/-- **every_accessor_address_checked**: for EVERY accessor row of the source (all maps,
getters and setters), every base, capability word with open guard, well-typed argument that
has a byte image, and every device state `d` (any memory, any prior log, rejecting or not):
1. if the register address `base + offset` is not representable in 64 bits (only possible
   for SBRM / SIRM / manifest bases) the accessor returns `InvalidDevice` and the device is
   exactly as before — no access;
2. otherwise it performs EXACTLY ONE device access: the log grows by one entry, of the
   accessor's direction, at `base + offset` (`offset` for the ABRM) with length exactly the
   standard's register length; the entry carries data iff the device accepted; if the device
   rejected, its error is returned and memory is unchanged; getters never change memory.
(The code checks `base + offset`, not `base + offset + len`: a register that starts inside the
address space and runs past its end IS attempted and it is the device that rejects it — a
register ending exactly at 2^64 must be accessed, cf. seeded change C13-r2-seed1.) -/
theorem every_accessor_address_checked (r : Row) (hr : r ∈ Gen.RegMap.accessors) :
    ∃ rr, resolve r = some rr ∧ IsSpecRow rr ∧
      ∀ (base cap : Nat) (arg : Arg) (d : Dev),
        guardOpen rr cap = true → argOk rr.dec rr.kind arg = true →
        (rr.kind ≠ .get → (image rr arg).isSome = true) →
        ((rr.base ≠ .abrm ∧ 2 ^ 64 ≤ base + rr.off) → rr.run base cap arg d = (.err .invalidDevice, d)) ∧
        ((rr.base = .abrm ∨ base + rr.off < 2 ^ 64) →
          ∃ data,
            (rr.run base cap arg d).2.log =
              d.log ++ [⟨dirOf rr.kind, regAddr rr.base base rr.off, rr.len, data⟩] ∧
            (rr.run base cap arg d).2.broken = d.broken ∧
            (data = none ↔ d.rejects (regAddr rr.base base rr.off) rr.len = true) ∧
            (d.rejects (regAddr rr.base base rr.off) rr.len = true →
              (rr.run base cap arg d).1 = .err .dev ∧ (rr.run base cap arg d).2.mem = d.mem) ∧
            (rr.kind = .get → (rr.run base cap arg d).2.mem = d.mem)) := by
  obtain ⟨rr, f⟩ := row_facts r hr
  obtain ⟨a, ha, _, har⟩ := f.spec
  refine ⟨rr, f.resolved, ⟨a, ha, har⟩, ?_⟩
  intro base cap arg d hg hok him
  constructor
  · rintro ⟨hb, hov⟩
    have hao := addrOf_overflow rr.base base rr.off hb hov
    unfold RRow.run
    cases hk : rr.kind with
    | get =>
      cases hgb : rr.guardBit with
      | none => simp [getReg, hao]
      | some bit =>
        have : cap.testBit bit = true := by simpa [guardOpen, hgb] using hg
        simp [this, getReg, hao, R.map]
    | set => simp [hg, setReg, hao]
    | setConst v => simp [hg, setReg, hao]
  · intro haddr
    have hao := addrOf_ok rr.base base rr.off haddr
    cases hk : rr.kind with
    | get =>
      have hrun : rr.run base cap arg d =
          ((wrapOpt rr ((readRegister d (regAddr rr.base base rr.off) rr.len rr.dec).1)),
           (readRegister d (regAddr rr.base base rr.off) rr.len rr.dec).2) := by
        unfold RRow.run
        rw [hk]
        cases hgb : rr.guardBit with
        | none => simp [getReg, hao, wrapOpt, hgb]
        | some bit =>
          have : cap.testBit bit = true := by simpa [guardOpen, hgb] using hg
          simp [this, getReg, hao, wrapOpt, hgb]
      by_cases hrej : d.rejects (regAddr rr.base base rr.off) rr.len = true
      · refine ⟨none, ?_⟩
        have hval : rr.run base cap arg d =
            (.err .dev, logged d ⟨.R, regAddr rr.base base rr.off, rr.len, none⟩) := by
          rw [hrun]; simp only [readRegister, read_rej hrej, wrapOpt_err]
        rw [hval]
        simp [logged, dirOf, hrej]
      · refine ⟨some (readBytes d.mem (regAddr rr.base base rr.off) rr.len), ?_⟩
        have hval : rr.run base cap arg d =
            (wrapOpt rr (parse rr.dec (readBytes d.mem (regAddr rr.base base rr.off) rr.len)),
             logged d ⟨.R, regAddr rr.base base rr.off, rr.len,
               some (readBytes d.mem (regAddr rr.base base rr.off) rr.len)⟩) := by
          rw [hrun]; simp only [readRegister, read_acc hrej]
        rw [hval]
        simp [logged, dirOf, hrej]
    | set =>
      have hne : rr.kind ≠ .get := by rw [hk]; simp
      have hdi := dump_image rr arg f.len f.setDec f.constDec hne hok
      have hsome := him hne
      cases himg : image rr arg with
      | none => simp [himg] at hsome
      | some buf =>
        simp only [himg, hk] at hdi
        obtain ⟨hd, hbl⟩ := hdi
        have h1 := set_one_access rr base cap arg arg d buf hg hao hd hbl (by simp [RRow.run, hk, hg]) (by simp [hk])
        rw [hk] at h1
        exact h1
    | setConst v =>
      have hne : rr.kind ≠ .get := by rw [hk]; simp
      have hdi := dump_image rr arg f.len f.setDec f.constDec hne hok
      have hsome := him hne
      cases himg : image rr arg with
      | none => simp [himg] at hsome
      | some buf =>
        simp only [himg, hk] at hdi
        obtain ⟨hd, hbl⟩ := hdi
        have h1 := set_one_access rr base cap arg (.nat v) d buf hg hao hd hbl (by simp [RRow.run, hk, hg]) (by simp [hk])
        rw [hk] at h1
        exact h1

/-- non-vacuity: both branches are inhabited by generated rows (a SIRM getter at a base
where `base + offset` overflows; the same getter at base 0x1000) -/
example : ∃ r ∈ Gen.RegMap.accessors, ∃ rr, resolve r = some rr ∧
    (rr.base ≠ .abrm ∧ 2 ^ 64 ≤ (2 ^ 64 - 1) + rr.off) ∧ (rr.base = .abrm ∨ 0x1000 + rr.off < 2 ^ 64) :=
  ⟨⟨"Sirm.maximum_trailer_size", .sirm, .get, "sirm", "MAXIMUM_TRAILER_SIZE", .u32, none⟩, by decide,
    _, rfl, by decide, by decide⟩

/-- **sha1_hash_address** (the accessor that bypasses the struct's `read_register` helper and
forms its address itself, cf. seeded change C13-r3-seed1): on any device state,
`ManifestEntry::sha1_hash` of the entry at `entry` returns `InvalidDevice` without access iff
`entry + 0x18` is not representable, and otherwise performs exactly one read of the 20 bytes at
`entry + 0x18`: a rejecting device's error is returned, all-zero bytes are `None`, anything else
`Some(bytes)`. -/
theorem sha1_hash_address (d : Dev) (entry cap : Nat) :
    ∃ rr, rowOf "ManifestEntry.sha1_hash" = some rr ∧
      rr.run entry cap .none d =
        if 2 ^ 64 ≤ entry + 0x18 then (.err .invalidDevice, d)
        else if d.rejects (entry + 0x18) 20 = true then (.err .dev, logged d ⟨.R, entry + 0x18, 20, none⟩)
        else (.ok (if (readBytes d.mem (entry + 0x18) 20).all (· == 0) then .none
                   else .some (.hash (readBytes d.mem (entry + 0x18) 20))),
              logged d ⟨.R, entry + 0x18, 20, some (readBytes d.mem (entry + 0x18) 20)⟩) := by
  refine ⟨⟨"ManifestEntry.sha1_hash", .manifestEntry, .get, 0x18, 20, .sha1, none⟩, by decide, ?_⟩
  by_cases h : 2 ^ 64 ≤ entry + 0x18
  · have : ¬ entry + 0x18 < 2 ^ 64 := by omega
    simp [RRow.run, getReg, addrOf, registerAddress, this, h]
  · have h1 : entry + 0x18 < 2 ^ 64 := by omega
    by_cases hr : d.rejects (entry + 0x18) 20 = true
    · simp only [RRow.run, getReg, addrOf, registerAddress, h1, if_true, readRegister, read_rej hr, h, if_false, hr]
    · simp only [RRow.run, getReg, addrOf, registerAddress, h1, if_true, readRegister, read_acc hr, h, if_false, parse]
      simp [hr]

private theorem entry_rows_ok :
    (Gen.RegMap.accessors.all fun r => r.base != .manifestEntry ||
      (match resolve r with
       | some rr => rr.base == .manifestEntry && rr.guardBit == none && rr.kind == .get &&
                    decide (rr.off + rr.len ≤ Spec.U3V.MANIFEST_ENTRY_SIZE)
       | none => false)) = true := by decide

/-- **manifest_entry_walk**: whenever `ManifestTable::entries` succeeds for the table at `tb`
with `n` entries (i.e. `tb + 8 + 64 n ≤ 2^64`, INCLUDING a table that ends exactly at 2^64),
every accessor of EVERY entry `i < n` the iterator yields (entry address `tb + 8 + 64 i`) lies
inside the address space: it performs exactly one read of the standard's register at
`tb + 8 + 64 i + offset` and returns the standard's decoding — no overflow error and no
rejected access can occur inside a table that `entries` accepted. -/
theorem manifest_entry_walk (r : Row) (hr : r ∈ Gen.RegMap.accessors) (hb : r.base = .manifestEntry) :
    ∃ rr, resolve r = some rr ∧ IsSpecRow rr ∧ rr.off + rr.len ≤ 64 ∧
      ∀ (mem : Nat → UInt8) (tb n i cap : Nat), tb + 8 + 64 * n ≤ 2 ^ 64 → i < n →
        rr.run (entryAddr (tb + 8) i) cap .none (fresh mem) =
          (Spec.U3V.decode rr.dec (readBytes mem (tb + 8 + 64 * i + rr.off) rr.len),
           ⟨mem, [⟨.R, tb + 8 + 64 * i + rr.off, rr.len,
                    some (readBytes mem (tb + 8 + 64 * i + rr.off) rr.len)⟩], false⟩) := by
  have h := List.all_eq_true.mp entry_rows_ok r hr
  cases hres : resolve r with
  | none => simp [hb, hres] at h
  | some rr =>
    simp only [hb, hres, bne_self_eq_false, Bool.false_or, Bool.and_eq_true, beq_iff_eq,
      Spec.U3V.MANIFEST_ENTRY_SIZE] at h
    obtain ⟨⟨⟨hbase, hgb⟩, hkind⟩, hsz0⟩ := h
    have hsz : rr.off + rr.len ≤ 64 := of_decide_eq_true hsz0
    obtain ⟨rr', hres', hspec, _, H⟩ := accessor_reads_right_register r hr
      (by obtain ⟨rr2, f⟩ := row_facts r hr
          have : rr2 = rr := Option.some.inj (f.resolved.symm.trans hres)
          rw [← f.kind, this]; exact hkind)
    have hrr : rr' = rr := Option.some.inj (hres'.symm.trans hres)
    subst hrr
    refine ⟨rr', rfl, hspec, hsz, ?_⟩
    intro mem tb n i cap hfit hi
    have hA : regAddr rr'.base (entryAddr (tb + 8) i) rr'.off = tb + 8 + 64 * i + rr'.off := by
      simp [regAddr, hbase, entryAddr]; omega
    have hg : guardOpen rr' cap = true := by simp [guardOpen, hgb]
    have := H mem (entryAddr (tb + 8) i) cap hg (by rw [hA]; omega)
    rw [this, hA]
    simp [wrapOpt, hgb]

/-- non-vacuity: the last entry of a two-entry table that ends exactly at 2^64 -/
example : (2 ^ 64 - 136) + 8 + 64 * 2 ≤ 2 ^ 64 ∧ entryAddr ((2 ^ 64 - 136) + 8) 1 + 64 = 2 ^ 64 := by
  decide

/-! ## 13. Arbitrary devices (growth round)

`ADev σ ε` (`Proofs/C13More.lean`) is ANY `DeviceControl`: arbitrary state type, error values
and transition function (errors may depend on address, length, history; reads may be short).
`RRow.runG` is the uniform accessor body over such a device. -/

/-- **generic_accessor_is_model**: for every accessor row of the source, the generic accessor
run on the model's own logging memory device returns exactly what `RRow.run` — the function
the differential harness compares with the real crate — returns (device errors as
`dev ()`), with the same final device.  So the statements below are about the same accessor
the correspondence run ties to the Rust code. -/
theorem generic_accessor_is_model (r : Row) (hr : r ∈ Gen.RegMap.accessors) :
    ∃ rr, resolve r = some rr ∧
      ∀ (base cap : Nat) (arg : Arg) (d : Dev),
        rr.runG concreteDev base cap arg d = (toG (rr.run base cap arg d).1, (rr.run base cap arg d).2) := by
  obtain ⟨rr, f⟩ := row_facts r hr
  exact ⟨rr, f.resolved, fun base cap arg d => runG_concrete rr base cap arg d⟩

/-- **device_error_returned_unchanged**: for EVERY accessor row of the source and an ARBITRARY
device (any state machine, any error type): if the one device call the accessor makes — the
read of `(base + offset, len)` for a getter, the write of the argument's byte image there for
a setter — fails with the device's error `e` and leaves the device in state `st'`, the
accessor returns exactly that error `e` (not translated, not swallowed) and the device is in
exactly `st'`: no retry, no second call, whatever the error depends on. -/
theorem device_error_returned_unchanged (r : Row) (hr : r ∈ Gen.RegMap.accessors) :
    ∃ rr, resolve r = some rr ∧ IsSpecRow rr ∧
      ∀ {σ ε : Type} (A : ADev σ ε) (base cap : Nat) (arg : Arg) (st st' : σ) (e : ε),
        guardOpen rr cap = true → argOk rr.dec rr.kind arg = true →
        (rr.base = .abrm ∨ base + rr.off < 2 ^ 64) →
        (match rr.kind, image rr arg with
         | .get, _ => A.read st (regAddr rr.base base rr.off) rr.len = (.error e, st')
         | _, some buf => A.write st (regAddr rr.base base rr.off) buf = (.error e, st')
         | _, none => False) →
        rr.runG A base cap arg st = (.err (.dev e), st') := by
  obtain ⟨rr, f⟩ := row_facts r hr
  obtain ⟨a, ha, _, har⟩ := f.spec
  refine ⟨rr, f.resolved, ⟨a, ha, har⟩, ?_⟩
  intro σ ε A base cap arg st st' e hg hok haddr hcall
  have hao := addrOf_ok rr.base base rr.off haddr
  cases hk : rr.kind with
  | get =>
    simp only [hk] at hcall
    exact runG_get_dev_error A rr hk base cap arg st st' e _ hg hao hcall
  | set =>
    have hne : rr.kind ≠ .get := by rw [hk]; simp
    have hdi := dump_image rr arg f.len f.setDec f.constDec hne hok
    cases himg : image rr arg with
    | none => simp [hk, himg] at hcall
    | some buf =>
      simp only [hk, himg] at hcall hdi
      rw [runG_set A rr base cap arg arg st buf _ hg (Or.inl ⟨hk, rfl⟩) hao hdi.1, hcall]
  | setConst v =>
    have hne : rr.kind ≠ .get := by rw [hk]; simp
    have hdi := dump_image rr arg f.len f.setDec f.constDec hne hok
    cases himg : image rr arg with
    | none => simp [hk, himg] at hcall
    | some buf =>
      simp only [hk, himg] at hcall hdi
      rw [runG_set A rr base cap arg (.nat v) st buf _ hg (Or.inr ⟨v, hk, rfl⟩) hao hdi.1, hcall]

/-- **device_read_decoded**: for every getter row of the source and an ARBITRARY device: if
the one read of `(base + offset, len)` succeeds having stored `bs` into the buffer, the
accessor returns the standard's decoding of the `len`-byte buffer contents — `bs` itself when
the device delivered exactly `len` bytes, `bs` zero-padded when the read was SHORT (the
buffer is `vec![0; len]`), the first `len` bytes when it delivered more — and the device is in
the state that read left it in.  The result does not depend on anything else the device does. -/
theorem device_read_decoded (r : Row) (hr : r ∈ Gen.RegMap.accessors) (hk : r.kind = .get) :
    ∃ rr, resolve r = some rr ∧ IsSpecRow rr ∧
      ∀ {σ ε : Type} (A : ADev σ ε) (base cap : Nat) (st st' : σ) (bs : Bytes),
        guardOpen rr cap = true → (rr.base = .abrm ∨ base + rr.off < 2 ^ 64) →
        A.read st (regAddr rr.base base rr.off) rr.len = (.ok bs, st') →
        rr.runG A base cap .none st =
          (wrapG rr (liftR (Spec.U3V.decode rr.dec (fill rr.len bs))), st') := by
  obtain ⟨rr, f⟩ := row_facts r hr
  obtain ⟨a, ha, _, har⟩ := f.spec
  refine ⟨rr, f.resolved, ⟨a, ha, har⟩, ?_⟩
  intro σ ε A base cap st st' bs hg haddr hread
  have hao := addrOf_ok rr.base base rr.off haddr
  have hkind : rr.kind = .get := f.kind.trans hk
  rw [runG_get_ok A rr hkind base cap .none st st' bs _ hg hao hread,
    parse_eq_decode _ _ (by simp [f.len]) f.wf]

/-- **device_write_accepted**: for every setter row and an arbitrary device: if the one write
of the argument's byte image at `(base + offset)` succeeds, the setter returns `Ok(())` and the
device is in the state that write left it in. -/
theorem device_write_accepted (r : Row) (hr : r ∈ Gen.RegMap.accessors) (hk : r.kind ≠ .get) :
    ∃ rr, resolve r = some rr ∧ IsSpecRow rr ∧
      ∀ {σ ε : Type} (A : ADev σ ε) (base cap : Nat) (arg : Arg) (st st' : σ) (buf : Bytes),
        guardOpen rr cap = true → argOk rr.dec rr.kind arg = true →
        (rr.base = .abrm ∨ base + rr.off < 2 ^ 64) → image rr arg = some buf →
        A.write st (regAddr rr.base base rr.off) buf = (.ok (), st') →
        rr.runG A base cap arg st = (.ok .unit, st') := by
  obtain ⟨rr, f⟩ := row_facts r hr
  obtain ⟨a, ha, _, har⟩ := f.spec
  refine ⟨rr, f.resolved, ⟨a, ha, har⟩, ?_⟩
  intro σ ε A base cap arg st st' buf hg hok haddr himg hw
  have hao := addrOf_ok rr.base base rr.off haddr
  have hne : rr.kind ≠ .get := by rw [f.kind]; exact hk
  have hdi := dump_image rr arg f.len f.setDec f.constDec hne hok
  simp only [himg] at hdi
  cases hkk : rr.kind with
  | get => exact absurd hkk hne
  | set =>
    simp only [hkk] at hdi
    rw [runG_set A rr base cap arg arg st buf _ hg (Or.inl ⟨hkk, rfl⟩) hao hdi.1, hw]
  | setConst v =>
    simp only [hkk] at hdi
    rw [runG_set A rr base cap arg (.nat v) st buf _ hg (Or.inr ⟨v, hkk, rfl⟩) hao hdi.1, hw]

/-- non-vacuity: a device whose state counts calls, which fails every third call with the
call number as error value and otherwise delivers a SHORT read of two bytes: the u32 getter
returns the zero-padded value on the first call and the device's own error on the third -/
example :
    let A : ADev Nat Nat :=
      { read := fun n _ _ => if (n + 1) % 3 = 0 then (.error (n + 1), n + 1) else (.ok [0x34, 0x12], n + 1),
        write := fun n _ _ => (.ok (), n + 1) }
    let rr : RRow := ⟨"Sirm.maximum_trailer_size", .sirm, .get, 0x2C, 4, .u32, none⟩
    rr.runG A 0x1000 0 .none 0 = (.ok (.nat 0x1234), 1) ∧
    rr.runG A 0x1000 0 .none 2 = (.err (.dev 3), 3) := by
  decide

/-! ## 14. Pure methods of the value structs, one statement per method (growth round 2)

`bitTest`, `cfgOp`, `fileTypeOf`, `compressionOf`, `schemaOf` (Model/RegMap.lean) are the
functions the driver prints per method and the harness compares per method with the real
`is_…` / `set_multi_event_enable_bit` / `disable_multi_event` / `file_type` /
`compression_type` / `schema_version`.  All statements quantify over ALL words. -/

/-- **bit_test_reads_its_bit**: every bit test the standards' tables list — the five
`DeviceCapability::is_…`, the three `U3VCapablitiy::is_…` and
`DeviceConfiguration::is_multi_event_enabled` — returns, for EVERY word, exactly the bit the
standard assigns to it. -/
theorem bit_test_reads_its_bit (st pred : String) (bit : Nat)
    (h : (st, pred, bit) ∈ Spec.U3V.capBits ++ Spec.U3V.cfgBits) (raw : Nat) :
    bitTest st pred raw = some (raw.testBit bit) :=
  bitTest_spec st pred bit h raw

/-- the same, spelled out per method -/
theorem bit_tests_per_method (raw : Nat) :
    bitTest "DeviceCapability" "is_user_defined_name_supported" raw = some (raw.testBit 0) ∧
    bitTest "DeviceCapability" "is_family_name_supported" raw = some (raw.testBit 8) ∧
    bitTest "DeviceCapability" "is_multi_event_supported" raw = some (raw.testBit 12) ∧
    bitTest "DeviceCapability" "is_stacked_commands_supported" raw = some (raw.testBit 13) ∧
    bitTest "DeviceCapability" "is_device_software_interface_version_supported" raw = some (raw.testBit 14) ∧
    bitTest "U3VCapablitiy" "is_sirm_available" raw = some (raw.testBit 0) ∧
    bitTest "U3VCapablitiy" "is_eirm_available" raw = some (raw.testBit 1) ∧
    bitTest "U3VCapablitiy" "is_iidc2_available" raw = some (raw.testBit 2) ∧
    bitTest "DeviceConfiguration" "is_multi_event_enabled" raw = some (raw.testBit 1) := by
  refine ⟨?_, ?_, ?_, ?_, ?_, ?_, ?_, ?_, ?_⟩ <;> exact bitTest_spec _ _ _ (by decide) raw

/-- **bit_test_reads_only_its_bit**: a bit test depends on no other bit of the word — flipping
any other bit (inside or outside the 64-bit word) leaves the answer unchanged, flipping the
bit itself inverts it. -/
theorem bit_test_reads_only_its_bit (st pred : String) (bit : Nat)
    (h : (st, pred, bit) ∈ Spec.U3V.capBits ++ Spec.U3V.cfgBits) (raw : Nat) :
    (∀ j, j ≠ bit → bitTest st pred (raw ^^^ 2 ^ j) = bitTest st pred raw) ∧
    bitTest st pred (raw ^^^ 2 ^ bit) = (bitTest st pred raw).map (!·) := by
  constructor
  · intro j hj
    rw [bitTest_spec st pred bit h, bitTest_spec st pred bit h, testBit_flip_other raw bit j hj]
  · rw [bitTest_spec st pred bit h, bitTest_spec st pred bit h, testBit_flip_self]
    rfl

example : bitTest "DeviceCapability" "is_stacked_commands_supported" 0x2000 = some true ∧
    bitTest "DeviceCapability" "is_stacked_commands_supported" 0xFFFFFFFFFFFFDFFF = some false := by
  decide

/-- **cfg_mutator_sets_exactly_its_bit**: `DeviceConfiguration::set_multi_event_enable_bit`
(`set_bit`) and `disable_multi_event` (`unset_bit`), for EVERY 64-bit word: the result is
again a 64-bit word whose bit `bit` (the standard's multi-event-enable bit) is set
respectively cleared and whose every other bit is the input's. -/
theorem cfg_mutator_sets_exactly_its_bit (m kind : String) (bit : Nat)
    (h : (m, kind, bit) ∈ Spec.U3V.cfgOps) (raw : Nat) (hr : raw < 2 ^ 64) :
    ∃ r, cfgOp m raw = some r ∧ r < 2 ^ 64 ∧
      ∀ i, r.testBit i = if i = bit then Spec.U3V.opSets kind else raw.testBit i :=
  cfgOp_spec m kind bit h raw hr

/-- the same per method, with the standard's bit (Device Configuration bit 1) -/
theorem cfg_mutators_per_method (raw : Nat) (hr : raw < 2 ^ 64) :
    (∃ r, cfgOp "set_multi_event_enable_bit" raw = some r ∧ r < 2 ^ 64 ∧
      ∀ i, r.testBit i = if i = 1 then true else raw.testBit i) ∧
    (∃ r, cfgOp "disable_multi_event" raw = some r ∧ r < 2 ^ 64 ∧
      ∀ i, r.testBit i = if i = 1 then false else raw.testBit i) :=
  ⟨cfgOp_spec "set_multi_event_enable_bit" "set_bit" 1 (by decide) raw hr,
   cfgOp_spec "disable_multi_event" "unset_bit" 1 (by decide) raw hr⟩

/-- **cfg_mutator_then_test**: mutator, then `is_multi_event_enabled`: `true` after
`set_multi_event_enable_bit`, `false` after `disable_multi_event`, for every 64-bit word; and
every OTHER bit test of the word is unaffected by the mutator. -/
theorem cfg_mutator_then_test (m kind : String) (bit : Nat)
    (h : (m, kind, bit) ∈ Spec.U3V.cfgOps) (raw : Nat) (hr : raw < 2 ^ 64) :
    ∃ r, cfgOp m raw = some r ∧
      bitTest "DeviceConfiguration" "is_multi_event_enabled" r = some (Spec.U3V.opSets kind) ∧
      ∀ i, i ≠ bit → r.testBit i = raw.testBit i := by
  obtain ⟨r, h1, _, h3⟩ := cfgOp_spec m kind bit h raw hr
  have hb : bit = 1 := by
    simp only [Spec.U3V.cfgOps, List.mem_cons, Prod.mk.injEq, List.mem_nil_iff, or_false] at h
    rcases h with ⟨_, _, hb⟩ | ⟨_, _, hb⟩ <;> exact hb
  refine ⟨r, h1, ?_, fun i hi => by rw [h3 i, if_neg hi]⟩
  rw [bitTest_spec "DeviceConfiguration" "is_multi_event_enabled" 1 (by decide), h3 1, hb]
  simp

example : cfgOp "set_multi_event_enable_bit" 0xF0 = some 0xF2 ∧
    cfgOp "disable_multi_event" 0xFFFFFFFFFFFFFFFF = some 0xFFFFFFFFFFFFFFFD ∧
    (cfgOp "disable_multi_event" 0xF2).bind (cfgOp "set_multi_event_enable_bit") = some 0xF2 := by
  decide

/-- **file_type_decodes**: `GenICamFileInfo::file_type`, for EVERY word: reads exactly bits 2:0;
0 is the device XML, 1 the buffer XML, and exactly the reserved codes 2..7 are refused with
`InvalidDevice` (`Spec.U3V.fileTypeStd`). -/
theorem file_type_decodes (raw : Nat) : fileTypeOf raw = some (Spec.U3V.fileTypeStd raw) :=
  fileTypeOf_spec raw

/-- **compression_type_decodes**: `GenICamFileInfo::compression_type`, for EVERY word: reads
exactly bits 15:10; 0 is uncompressed, 1 zip, exactly the codes 2..63 are refused. -/
theorem compression_type_decodes (raw : Nat) :
    compressionOf raw = some (Spec.U3V.compressionStd raw) :=
  compressionOf_spec raw

/-- **schema_version_decodes**: `GenICamFileInfo::schema_version`, for EVERY word: major = bits
31:24, minor = bits 23:16 (patch 0), never an error. -/
theorem schema_version_decodes (raw : Nat) : schemaOf raw = some (Spec.U3V.schemaStd raw) :=
  schemaOf_spec raw

/-- **file_info_refuses_exactly_undefined**: the two fallible methods succeed iff the code in
their bit range is one the standard defines — stated arithmetically on the word. -/
theorem file_info_refuses_exactly_undefined (raw : Nat) :
    ((∃ v, fileTypeOf raw = some (.ok v)) ↔ raw % 8 ≤ 1) ∧
    (fileTypeOf raw = some (.err .invalidDevice) ↔ 2 ≤ raw % 8) ∧
    ((∃ v, compressionOf raw = some (.ok v)) ↔ raw / 1024 % 64 ≤ 1) ∧
    (compressionOf raw = some (.err .invalidDevice) ↔ 2 ≤ raw / 1024 % 64) := by
  rw [fileTypeOf_spec, compressionOf_spec]
  simp only [Spec.U3V.fileTypeStd, Spec.U3V.compressionStd, Spec.U3V.bitsOf]
  have e1 : raw / 2 ^ 0 % 2 ^ (2 + 1 - 0) = raw % 8 := by simp
  have e2 : raw / 2 ^ 10 % 2 ^ (15 + 1 - 10) = raw / 1024 % 64 := by simp
  rw [e1, e2]
  generalize raw % 8 = x
  generalize raw / 1024 % 64 = y
  refine ⟨?_, ?_, ?_, ?_⟩
  · match x with
    | 0 => simp
    | 1 => simp
    | n + 2 => simp
  · match x with
    | 0 => simp
    | 1 => simp
    | n + 2 => simp
  · match y with
    | 0 => simp
    | 1 => simp
    | n + 2 => simp
  · match y with
    | 0 => simp
    | 1 => simp
    | n + 2 => simp

/-- the bits outside a method's range do not influence it: words that agree on bits 2:0 have
the same file type, on bits 15:10 the same compression type, on bits 31:16 the same schema -/
theorem file_info_reads_only_its_bits (raw raw' : Nat) :
    (raw % 8 = raw' % 8 → fileTypeOf raw = fileTypeOf raw') ∧
    (raw / 1024 % 64 = raw' / 1024 % 64 → compressionOf raw = compressionOf raw') ∧
    (raw / 65536 % 65536 = raw' / 65536 % 65536 → schemaOf raw = schemaOf raw') := by
  refine ⟨?_, ?_, ?_⟩
  · intro h
    have e (r : Nat) : r / 2 ^ 0 % 2 ^ (2 + 1 - 0) = r % 8 := by simp
    simp only [fileTypeOf_spec, Spec.U3V.fileTypeStd, Spec.U3V.bitsOf, e, h]
  · intro h
    have e (r : Nat) : r / 2 ^ 10 % 2 ^ (15 + 1 - 10) = r / 1024 % 64 := by simp
    simp only [compressionOf_spec, Spec.U3V.compressionStd, Spec.U3V.bitsOf, e, h]
  · intro h
    have e1 (r : Nat) : r / 2 ^ 24 % 2 ^ (31 + 1 - 24) = r / 65536 % 65536 / 256 := by
      simp only [show (2:Nat) ^ 24 = 16777216 from rfl, show (2:Nat) ^ (31 + 1 - 24) = 256 from rfl]
      omega
    have e2 (r : Nat) : r / 2 ^ 16 % 2 ^ (23 + 1 - 16) = r / 65536 % 65536 % 256 := by
      simp only [show (2:Nat) ^ 16 = 65536 from rfl, show (2:Nat) ^ (23 + 1 - 16) = 256 from rfl]
      omega
    simp only [schemaOf_spec, Spec.U3V.schemaStd, Spec.U3V.bitsOf, e1, e2, h]

/-- non-vacuity: schema 1.1, zip, device XML; a reserved file type; a reserved file format -/
example : fileTypeOf 0x01010400 = some (.ok "DeviceXml") ∧
    compressionOf 0x01010400 = some (.ok "Zip") ∧ schemaOf 0x01010400 = some (1, 1) ∧
    fileTypeOf 0x00000005 = some (.err .invalidDevice) ∧
    compressionOf 0x00000800 = some (.err .invalidDevice) ∧
    fileTypeOf 0xFFFFFFF9 = some (.ok "BufferXml") := by
  decide

/-! ## 15. Structural accessors on ARBITRARY devices (growth round 2)

`abrmNewG` … `tableEntriesG`, `runNamedG` (`Proofs/C13Struct.lean`) are `Abrm::new`,
`Sbrm::new`, `Abrm::sbrm`, `Abrm::manifest_table`, `Sbrm::sirm`, `ManifestTable::entries` and
the by-name dispatcher over ANY `DeviceControl` (`ADev σ ε`: any state machine, any error
values, short or over-long reads).  The driver runs them on a scripted stateful device that
the harness implements as a second `DeviceControl` for the real accessors (`accg` requests). -/

/-- the layout constants of `Proofs/C13Struct.lean` are the ones of section 8 -/
theorem layout_same : L0 = LS := rfl

/-- **structural_accessors_are_model**: for EVERY accessor name (uniform rows and structural
accessors alike), the accessor over an arbitrary device, run on the model's own logging
memory device, returns exactly what `runNamed` — the function the differential harness
compares with the real crate — returns, with the same final device. -/
theorem structural_accessors_are_model (name : String) (base cap : Nat) (arg : Arg) (d : Dev) :
    runNamedG concreteDev name base cap arg d =
      (runNamed name base cap arg d).map fun out => (toG out.1, out.2) :=
  runNamedG_concrete name base cap arg d

/-- **abrm_new_any_device**: `Abrm::new` on an arbitrary device makes exactly one call, a read
of (0x01C4, 8): the device's error comes back unchanged with the device in the state that call
left; otherwise the capability word is the little-endian value of the buffer (zero-padded if
the device delivered fewer than 8 bytes). -/
theorem abrm_new_any_device {σ ε : Type} (A : ADev σ ε) (st : σ) :
    abrmNewG A L0 st =
      match A.read st 0x01C4 8 with
      | (.ok bs, st') => (.ok (.abrm (fromLE (fill 8 bs))), st')
      | (.error e, st') => (.err (.dev e), st') :=
  abrmNewG_spec A st

/-- **sbrm_new_any_device**: `Sbrm::new(base)`: `InvalidDevice` with NO device call if
`base + 4` is not a 64-bit address; otherwise exactly one read of (base + 4, 8), error
unchanged / capability word = the value read. -/
theorem sbrm_new_any_device {σ ε : Type} (A : ADev σ ε) (base : Nat) (st : σ) :
    sbrmNewG A L0 base st =
      if 2 ^ 64 ≤ base + 4 then (.err .invalidDevice, st)
      else match A.read st (base + 4) 8 with
        | (.ok bs, st') => (.ok (.sbrm base (fromLE (fill 8 bs))), st')
        | (.error e, st') => (.err (.dev e), st') :=
  sbrmNewG_spec A base st

/-- **abrm_sbrm_any_device**: `Abrm::sbrm` navigates on an arbitrary device: one read of the
SBRM address register (0x01D8, 8); its error is returned unchanged and NO further call is made;
otherwise the value `a` it returned — exactly that value — is the base `Sbrm::new` is run with,
on the device state the first read left (so the second read is at `a + 4`,
`sbrm_new_any_device`). -/
theorem abrm_sbrm_any_device {σ ε : Type} (A : ADev σ ε) (cap : Nat) (st : σ) :
    abrmSbrmG A L0 cap st =
      match A.read st 0x01D8 8 with
      | (.ok bs, st') => sbrmNewG A L0 (fromLE (fill 8 bs)) st'
      | (.error e, st') => (.err (.dev e), st') :=
  abrmSbrmG_spec A cap st

/-- **abrm_manifest_table_any_device**: `Abrm::manifest_table`: one read of (0x01D0, 8); the
table's address is exactly the value read. -/
theorem abrm_manifest_table_any_device {σ ε : Type} (A : ADev σ ε) (cap : Nat) (st : σ) :
    abrmManifestTableG A L0 cap st =
      match A.read st 0x01D0 8 with
      | (.ok bs, st') => (.ok (.table (fromLE (fill 8 bs))), st')
      | (.error e, st') => (.err (.dev e), st') :=
  abrmManifestTableG_spec A cap st

/-- **sbrm_sirm_any_device**: `Sbrm::sirm`: `None` with no device call when U3VCP capability
bit 0 is clear; `InvalidDevice` with no call when `base + 0x20` is not an address; otherwise
one read of (base + 0x20, 8), error unchanged / `Sirm` at exactly the value read. -/
theorem sbrm_sirm_any_device {σ ε : Type} (A : ADev σ ε) (base cap : Nat) (st : σ) :
    sbrmSirmG A L0 base cap st =
      if cap.testBit 0 = false then (.ok .none, st)
      else if 2 ^ 64 ≤ base + 0x20 then (.err .invalidDevice, st)
      else match A.read st (base + 0x20) 8 with
        | (.ok bs, st') => (.ok (.some (.sirm (fromLE (fill 8 bs)))), st')
        | (.error e, st') => (.err (.dev e), st') :=
  sbrmSirmG_spec A base cap st

/-- **entries_any_device**: `ManifestTable::entries` on an arbitrary device: one read of the
entry count (base, 8); error unchanged; otherwise `n` = the value read, and the iterator has
`n` entries from `base + 8` with stride 64 (`entry_addresses`) iff the table ends at or below
2^64, `InvalidDevice` otherwise. -/
theorem entries_any_device {σ ε : Type} (A : ADev σ ε) (base : Nat) (hb : base < 2 ^ 64) (st : σ) :
    tableEntriesG A base st =
      match A.read st base 8 with
      | (.ok bs, st') =>
        (if base + 8 + 64 * fromLE (fill 8 bs) ≤ 2 ^ 64
           then .ok (.entries (fromLE (fill 8 bs)) (base + 8)) else .err .invalidDevice, st')
      | (.error e, st') => (.err (.dev e), st') :=
  tableEntriesG_spec A base hb st

/-- non-vacuity: a device whose answers depend on its history (state = number of calls; every
read returns the call number as a SHORT one-byte read; the 2nd call fails with its number):
`Abrm::sbrm` from state 0 reads SBRM address 1 then fails at the capability read with the
device's own error 2; from state 2 it builds `Sbrm { addr 3, capability 4 }` in two calls. -/
example :
    let A : ADev Nat Nat :=
      { read := fun n _ _ => if n + 1 = 2 then (.error 2, n + 1) else (.ok [UInt8.ofNat (n + 1)], n + 1),
        write := fun n _ _ => (.ok (), n + 1) }
    abrmSbrmG A L0 0 0 = (.err (.dev 2), 2) ∧ abrmSbrmG A L0 0 2 = (.ok (.sbrm 3 4), 4) ∧
    tableEntriesG A 0x1000 4 = (.ok (.entries 5 0x1008), 5) := by
  decide

/-! ## 16. The fields of an arbitrary manifest entry (growth round 2) -/

/-- bytes `[off, off + len)` of a block -/
def field (e : Bytes) (off len : Nat) : Bytes := (e.drop off).take len

/-- **manifest_entry_fields**: let `e` be ANY 64 bytes lying at an entry address `a` inside the
address space of an accepting device (every memory, every `a` with `a + 64 ≤ 2^64`).  The five
`ManifestEntry` accessors decode exactly the standard's fields OF THOSE 64 BYTES: file version
= bytes 0..4 (major 31:24, minor 23:16, subminor 15:0), file info word = bytes 4..8, file
(register) address = the LE u64 of bytes 8..16, file size = the LE u64 of bytes 16..24, SHA-1 =
bytes 24..44 — `None` iff all twenty are zero, otherwise exactly those bytes.  Nothing of
bytes 44..64 (reserved) or outside the entry is used. -/
theorem manifest_entry_fields (mem : Nat → UInt8) (a cap : Nat) (ha : a + 64 ≤ 2 ^ 64) :
    let e := readBytes mem a 64
    let out := fun name => (runNamed name a cap .none (fresh mem)).map (·.1)
    out "ManifestEntry.genicam_file_version" =
      some (Spec.U3V.decode Spec.U3V.fileVersion (field e 0 4)) ∧
    out "ManifestEntry.file_info" = some (.ok (.fileInfo (fromLE (field e 4 4)))) ∧
    out "ManifestEntry.file_address" = some (.ok (.nat (fromLE (field e 8 8)))) ∧
    out "ManifestEntry.file_size" = some (.ok (.nat (fromLE (field e 16 8)))) ∧
    out "ManifestEntry.sha1_hash" =
      some (.ok (if (field e 24 20).all (· == 0) then .none else .some (.hash (field e 24 20)))) := by
  obtain ⟨r1, r2, r3, r4, r5⟩ := entry_rows
  have hf : fresh mem = freshDev mem := rfl
  simp only [field, readBytes_slice mem a 64 _ _ (by decide : 0 + 4 ≤ 64),
    readBytes_slice mem a 64 _ _ (by decide : 4 + 4 ≤ 64),
    readBytes_slice mem a 64 _ _ (by decide : 8 + 8 ≤ 64),
    readBytes_slice mem a 64 _ _ (by decide : 16 + 8 ≤ 64),
    readBytes_slice mem a 64 _ _ (by decide : 24 + 20 ≤ 64)]
  refine ⟨?_, ?_, ?_, ?_, ?_⟩
  · simp only [runNamed, r1, argOk, if_true, Option.map_some, hf,
      entry_get _ 0 4 _ mem a cap (by omega) (by decide)]
    rw [parse_eq_decode _ _ (by simp [Spec.U3V.widthOf]) (by decide)]
    rfl
  · simp only [runNamed, r2, argOk, if_true, Option.map_some, hf,
      entry_get _ 4 4 _ mem a cap (by omega) (by decide)]
    simp [parse, parseNum_ok 4 _ (readBytes_length _ _ _), R.map]
  · simp only [runNamed, r3, argOk, if_true, Option.map_some, hf,
      entry_get _ 8 8 _ mem a cap (by omega) (by decide)]
    simp [parse, parseNum_ok 8 _ (readBytes_length _ _ _), R.map]
  · simp only [runNamed, r4, argOk, if_true, Option.map_some, hf,
      entry_get _ 16 8 _ mem a cap (by omega) (by decide)]
    simp [parse, parseNum_ok 8 _ (readBytes_length _ _ _), R.map]
  · simp only [runNamed, r5, argOk, if_true, Option.map_some, hf,
      entry_get _ 24 20 _ mem a cap (by omega) (by decide)]
    simp [parse]

/-- non-vacuity: the last entry of the address space, file address 0x10000 and a hash whose
only non-zero byte is its last one -/
example :
    let mem : Nat → UInt8 := fun x =>
      if x = 2 ^ 64 - 64 + 10 then 1 else if x = 2 ^ 64 - 64 + 43 then 7 else 0
    (runNamed "ManifestEntry.file_address" (2 ^ 64 - 64) 0 .none (fresh mem)).map (·.1)
      = some (.ok (.nat 0x10000)) ∧
    (runNamed "ManifestEntry.sha1_hash" (2 ^ 64 - 64) 0 .none (fresh mem)).map (·.1)
      = some (.ok (.some (.hash (List.replicate 19 0 ++ [7])))) := by
  decide

/-! ## 17. When an arbitrary device is NOT called (growth round 2) -/

/-- **device_untouched**: for every accessor row of the source and an ARBITRARY device, the
three situations in which the accessor must not touch the device at all — the state is
returned exactly as it was, so no call was made, whatever the device is:
(1) capability bit clear: `Ok(None)` for a getter, `Ok(())` for a setter;
(2) `base + offset` not a 64-bit address: `InvalidDevice`;
(3) the name setter given a name that is non-ASCII, contains NUL or is longer than the
register: `InvalidData`.
Together with `device_error_returned_unchanged`, `device_read_decoded` and
`device_write_accepted` (exactly one call, its outcome passed through) this covers every path
of the uniform accessor body on any device. -/
theorem device_untouched (r : Row) (hr : r ∈ Gen.RegMap.accessors) :
    ∃ rr, resolve r = some rr ∧ IsSpecRow rr ∧
      ∀ {σ ε : Type} (A : ADev σ ε) (base cap : Nat) (arg : Arg) (st : σ),
        (guardOpen rr cap = false →
          rr.runG A base cap arg st = (.ok (if rr.kind = .get then .none else .unit), st)) ∧
        (guardOpen rr cap = true → rr.base ≠ .abrm → 2 ^ 64 ≤ base + rr.off →
          rr.runG A base cap arg st = (.err .invalidDevice, st)) ∧
        (guardOpen rr cap = true → rr.kind = .set → rr.dec = .string →
          (rr.base = .abrm ∨ base + rr.off < 2 ^ 64) →
          ∀ s : Bytes, (s.all (· < 128) = false ∨ s.contains 0 = true ∨ s.length > rr.len) →
            rr.runG A base cap (.str s) st = (.err .invalidData, st)) := by
  obtain ⟨rr, f⟩ := row_facts r hr
  obtain ⟨a, ha, _, har⟩ := f.spec
  refine ⟨rr, f.resolved, ⟨a, ha, har⟩, ?_⟩
  intro σ ε A base cap arg st
  exact ⟨fun hg => runG_guard_closed A rr base cap arg st hg,
    fun hg hb ho => runG_unaddressable A rr base cap arg st hg hb ho,
    fun hg hk hd haddr s hbad => runG_name_refused A rr base cap s st hk hd hg haddr hbad⟩

/-- non-vacuity: a device that would fail every call is never asked — closed guard, register
beyond the address space, a 65-byte name; the state (call counter) stays 0 -/
example :
    let A : ADev Nat Nat :=
      { read := fun n _ _ => (.error 1, n + 1), write := fun n _ _ => (.error 1, n + 1) }
    (⟨"Abrm.family_name", .abrm, .get, 0x84, 64, .string, some 8⟩ : RRow).runG A 0 0 .none 0
      = (.ok .none, 0) ∧
    (⟨"Sirm.maximum_trailer_size", .sirm, .get, 0x2C, 4, .u32, none⟩ : RRow).runG A (2 ^ 64 - 0x2C) 0 .none 0
      = (.err .invalidDevice, 0) ∧
    (⟨"Abrm.set_user_defined_name", .abrm, .set, 0x184, 64, .string, some 0⟩ : RRow).runG A 0 1
        (.str (List.replicate 65 0x41)) 0 = (.err .invalidData, 0) := by
  decide

/-- **manifest_entry_walk_any_device**: `manifest_entry_walk` on an ARBITRARY device: inside a
table `entries` accepted (`tb + 8 + 64 n ≤ 2^64`, possibly ending exactly at 2^64) every
accessor of every entry `i < n` makes exactly one call, the read of the standard's register
at `tb + 8 + 64 i + offset` — never an address-overflow error — and returns the device's
error unchanged or the standard's decoding of the (possibly short, zero-padded) buffer. -/
theorem manifest_entry_walk_any_device (r : Row) (hr : r ∈ Gen.RegMap.accessors)
    (hb : r.base = .manifestEntry) :
    ∃ rr, resolve r = some rr ∧ IsSpecRow rr ∧
      ∀ {σ ε : Type} (A : ADev σ ε) (tb n i cap : Nat) (st : σ),
        tb + 8 + 64 * n ≤ 2 ^ 64 → i < n →
        rr.runG A (entryAddr (tb + 8) i) cap .none st =
          match A.read st (tb + 8 + 64 * i + rr.off) rr.len with
          | (.ok bs, st') => (liftR (Spec.U3V.decode rr.dec (fill rr.len bs)), st')
          | (.error e, st') => (.err (.dev e), st') := by
  have h := List.all_eq_true.mp entry_rows_ok r hr
  obtain ⟨rr, f⟩ := row_facts r hr
  simp only [hb, f.resolved, bne_self_eq_false, Bool.false_or, Bool.and_eq_true, beq_iff_eq,
    Spec.U3V.MANIFEST_ENTRY_SIZE] at h
  obtain ⟨⟨⟨hbase, hgb⟩, hkind⟩, hsz0⟩ := h
  have hsz : rr.off + rr.len ≤ 64 := of_decide_eq_true hsz0
  obtain ⟨a, ha, _, har⟩ := f.spec
  refine ⟨rr, f.resolved, ⟨a, ha, har⟩, ?_⟩
  intro σ ε A tb n i cap st hfit hi
  have hpos : 0 < rr.len := by rw [f.len]; exact widthOf_pos rr.dec
  have he : entryAddr (tb + 8) i + rr.off = tb + 8 + 64 * i + rr.off := by
    simp only [entryAddr]; omega
  have hlt : entryAddr (tb + 8) i + rr.off < 2 ^ 64 := by rw [he]; omega
  have hao : addrOf rr.base (entryAddr (tb + 8) i) rr.off = .ok (tb + 8 + 64 * i + rr.off) := by
    rw [hbase, ← he]
    simp only [addrOf, registerAddress, hlt, if_true]
  have hg : guardOpen rr cap = true := by simp [guardOpen, hgb]
  cases hrd : A.read st (tb + 8 + 64 * i + rr.off) rr.len with
  | mk res st' =>
    cases res with
    | ok bs =>
      rw [runG_get_ok A rr hkind _ cap .none st st' bs _ hg hao hrd,
        parse_eq_decode _ _ (by simp [f.len]) f.wf]
      simp [wrapG, hgb]
    | error e => exact runG_get_dev_error A rr hkind _ cap .none st st' e _ hg hao hrd

/-- non-vacuity: the last entry of a two-entry table ending exactly at 2^64 on a device that
answers every read with the single byte 5 (a short read): file size 5, one call -/
example :
    let A : ADev Nat Nat := { read := fun n _ _ => (.ok [5], n + 1), write := fun n _ _ => (.ok (), n + 1) }
    (⟨"ManifestEntry.file_size", .manifestEntry, .get, 0x10, 8, .u64, none⟩ : RRow).runG A
      (entryAddr ((2 ^ 64 - 136) + 8) 1) 0 .none 0 = (.ok (.nat 5), 1) := by
  decide

end CamVerif.C13
