/-
C02 — Masked bit-field writes are isolated, range-checked and reversible.

Property theorems only.  Quantification: every register length in {1,2,4,8}, byte order,
sign, raw `LSB`/`MSB`/`Bit` description satisfying the decidable well-formedness predicate
`WF` (normalised pair `l ≤ m < 8·len`), every old register word, every value, every
device (memory, log, fault script), BOTH build profiles (`p : Profile` is universally
quantified everywhere).  Bit-level obligations are discharged by `bv_decide` with `l`,
`m`, the old word and the value as symbolic 64-bit vectors (axioms recorded by the audit);
ranges in mathematical integers and the device-level statements are kernel-only.

`fLo`/`fHi` are the normalised field bounds; `fieldMin/fieldMax/fieldWidth` and the
unsigned reading `readU` come from the independent `Spec.Codec`.
-/
import CamVerif.Proofs.C02
import CamVerif.Proofs.C02Bits
import CamVerif.Proofs.C02Kernel
import CamVerif.Props.C01
import CamVerif.Proofs.C02GenTie
import CamVerif.Proofs.C02Cached
import CamVerif.Proofs.C02CachedSib
import CamVerif.Model.BitMaskStruct
namespace CamVerif.C02
open CamVerif CamVerif.Reg CamVerif.BitMask CamVerif.Spec.Codec CamVerif.Proofs.C02
open CamVerif.Proofs.C01 (afterRead afterWrite)

/-- normalised least significant bit position of the field -/
abbrev fLo (n : Nat) (e : Endianness) (bm : BitMask) : BitVec 64 := normB n e bm.rawLsb
/-- normalised most significant bit position of the field -/
abbrev fHi (n : Nat) (e : Endianness) (bm : BitMask) : BitVec 64 := normB n e bm.rawMsb
/-- field width `m - l + 1` -/
abbrev width (n : Nat) (e : Endianness) (bm : BitMask) : Nat :=
  fieldWidth (fLo n e bm).toNat (fHi n e bm).toNat

/-- bit `i` lies in the field -/
def InField (n : Nat) (e : Endianness) (bm : BitMask) (i : Nat) : Prop :=
  (fLo n e bm).toNat ≤ i ∧ i ≤ (fHi n e bm).toNat

/-- `v` is within the reported `[min, max]` -/
def InRangeOf (mn mx v : I64) : Prop := mn.toInt ≤ v.toInt ∧ v.toInt ≤ mx.toInt

instance (mn mx v : I64) : Decidable (InRangeOf mn mx v) := by
  unfold InRangeOf; exact inferInstance

/-! ### `WF` is satisfiable and decidable (non-vacuity for everything below) -/

example : WF 4 .le (.range 3 7) := by decide
example : WF 1 .be (.range 6 3) := by decide          -- BE numbering: raw LSB > raw MSB
example : WF 8 .le (.range 60 63) := by decide        -- the field of finding F-C02-1
example : WF 8 .le (.range 0 62) := by decide         -- a 63-bit field (finding F-C02-2)
example : WF 8 .be (.singleBit 63) := by decide
example : ¬ WF 1 .le (.range 5 3) := by decide         -- swapped numbering
example : ¬ WF 2 .le (.range 0 16) := by decide        -- outside the register
example : ¬ WF 3 .le (.range 0 3) := by decide         -- unsupported length
example : (fLo 1 .be (.range 6 3)).toNat = 1 ∧ (fHi 1 .be (.range 6 3)).toNat = 4 := by decide

/-- position numbering: little-endian numbering is kept, big-endian numbering (bit 0 = most
significant bit of the register) is mirrored -/
def normPos (n : Nat) (e : Endianness) (raw : Nat) : Nat :=
  match e with
  | .le => raw
  | .be => 8 * n - 1 - raw

/-- **norm_BE**: the normalised position is the raw one for little-endian numbering and
`8·len - 1 - raw` for big-endian numbering; the normalised pair is ordered and inside the
register. -/
theorem norm_positions (n : Nat) (e : Endianness) (bm : BitMask) (wf : WF n e bm) :
    (fLo n e bm).toNat = normPos n e bm.rawLsb.toNat ∧
    (fHi n e bm).toNat = normPos n e bm.rawMsb.toNat ∧
    (fLo n e bm).toNat ≤ (fHi n e bm).toNat ∧ (fHi n e bm).toNat < 8 * n := by
  have h1 := normB_toNat n wf.1 e bm.rawLsb wf.2.1
  have h2 := normB_toNat n wf.1 e bm.rawMsb wf.2.2.1
  have h3 := wf.2.2.2
  rw [BitVec.le_def] at h3
  have h4 := wf.2.2.1
  have hn := wf.1
  refine ⟨?_, ?_, h3, ?_⟩
  · cases e <;> exact h1
  · cases e <;> exact h2
  · show (normB n e bm.rawMsb).toNat < 8 * n
    rw [h2]
    cases e <;> simp only [] <;> omega

/-! ## 5. no_panic (first, the others build on the closed forms) -/

/-- **no_panic**: under `WF` none of the seven `BitMask` functions panics, in the dev
profile (overflow checks on) as well as in release — for every old word and value. -/
theorem no_panic (p : Profile) (n : Nat) (e : Endianness) (s : Sign) (bm : BitMask)
    (wf : WF n e bm) (old v : I64) :
    (bm.lsb p (lenUsize n) e).isPanic = false ∧ (bm.msb p (lenUsize n) e).isPanic = false ∧
    (bm.min p (lenUsize n) e s).isPanic = false ∧ (bm.max p (lenUsize n) e s).isPanic = false ∧
    (bm.mask p (lenUsize n) e).isPanic = false ∧
    (bm.applyMask p old (lenUsize n) e s).isPanic = false ∧
    (bm.maskedValue p old v (lenUsize n) e s).isPanic = false := by
  rw [lsb_eq p n e bm wf, msb_eq p n e bm wf, min_eq p n e bm wf, max_eq p n e bm wf,
    mask_eq p n e bm wf, applyMask_eq p n e bm wf, maskedValue_eq p n e bm wf]
  refine ⟨rfl, rfl, rfl, rfl, rfl, rfl, ?_⟩
  split <;> rfl

/-! ## 1. range_exact -/

/-- **range_exact**: `[min, max]` is exactly the two's-complement range
`[-2^(w-1), 2^(w-1)-1]` (signed) or `[0, 2^w-1]` (unsigned) of a `w = m-l+1` bit field.
The one documented exception is part of the statement: an unsigned field of width 64
reports `max = i64::MAX = 2^63-1` because the API type is `i64`. -/
theorem range_exact (p : Profile) (n : Nat) (e : Endianness) (s : Sign) (bm : BitMask)
    (wf : WF n e bm) :
    ∃ mn mx, bm.min p (lenUsize n) e s = .ok mn ∧ bm.max p (lenUsize n) e s = .ok mx ∧
      mn.toInt = fieldMin s (width n e bm) ∧
      mx.toInt = (if s = .unsigned ∧ width n e bm = 64 then 2 ^ 63 - 1
                  else fieldMax s (width n e bm)) :=
  ⟨_, _, min_eq p n e bm wf s, max_eq p n e bm wf s,
    specMin_toInt s _ _ (wf_le n e bm wf) (wf_lt n e bm wf),
    specMax_toInt s _ _ (wf_le n e bm wf) (wf_lt n e bm wf)⟩

example : fieldMin .signed 4 = -8 ∧ fieldMax .signed 4 = 7 ∧ fieldMax .unsigned 4 = 15 ∧
    fieldMin .signed 1 = -1 ∧ fieldMax .signed 1 = 0 := by decide
example : width 8 .le (.range 60 63) = 4 ∧ width 8 .be (.singleBit 0) = 1 ∧
    width 8 .le (.range 0 63) = 64 := by decide

/-! ## 2–4. write_isolated, write_reads_back, out_of_range_refused (word level) -/

private theorem inRange_bits {mn mx v : I64} (h : InRangeOf mn mx v) :
    mn.sle v = true ∧ v.sle mx = true ∧ ¬ (mx.slt v = true) ∧ ¬ (v.slt mn = true) := by
  obtain ⟨h1, h2⟩ := h
  refine ⟨BitVec.sle_iff_toInt_le.mpr h1, BitVec.sle_iff_toInt_le.mpr h2, ?_, ?_⟩
  · rw [BitVec.slt_iff_toInt_lt]; omega
  · rw [BitVec.slt_iff_toInt_lt]; omega

/-- **write_isolated + write_reads_back**: for a value within `[min, max]`,
`masked_value` succeeds, the new word differs from the old one only inside the field
(every bit `i < 64` outside `l..m` is unchanged, bit `i` inside is bit `i-l` of the value),
and `apply_mask` of the new word returns exactly the value. -/
theorem write_isolated_reads_back (p : Profile) (n : Nat) (e : Endianness) (s : Sign)
    (bm : BitMask) (wf : WF n e bm) (old v mn mx : I64)
    (hmn : bm.min p (lenUsize n) e s = .ok mn) (hmx : bm.max p (lenUsize n) e s = .ok mx)
    (hv : InRangeOf mn mx v) :
    ∃ new, bm.maskedValue p old v (lenUsize n) e s = .ok new ∧
      (∀ i, i < 64 → ¬ InField n e bm i → new.getLsbD i = old.getLsbD i) ∧
      (∀ i, i < 64 → InField n e bm i → new.getLsbD i = v.getLsbD (i - (fLo n e bm).toNat)) ∧
      bm.applyMask p new (lenUsize n) e s = .ok v := by
  have hle := wf_le n e bm wf
  have hlt := wf_lt n e bm wf
  rw [min_eq p n e bm wf] at hmn
  rw [max_eq p n e bm wf] at hmx
  injection hmn with hmn; injection hmx with hmx
  subst hmn; subst hmx
  obtain ⟨b1, b2, b3, b4⟩ := inRange_bits hv
  refine ⟨specMerge (fLo n e bm) (fHi n e bm) old v, ?_, ?_, ?_, ?_⟩
  · rw [maskedValue_eq p n e bm wf, if_neg (by rintro (h | h) <;> contradiction)]
  · intro i hi64 hout
    have key := specMerge_bitAt (fLo n e bm) (fHi n e bm) old v (BitVec.ofNat 64 i) hle hlt (ofNat_lt_64 i hi64)
    rw [← getLsbD_eq_bitAt _ i hi64, ← getLsbD_eq_bitAt _ i hi64] at key
    rw [key, if_neg]
    intro ⟨ha, hb⟩
    apply hout
    rw [BitVec.le_def, BitVec.toNat_ofNat, Nat.mod_eq_of_lt (by omega)] at ha hb
    exact ⟨ha, hb⟩
  · intro i hi64 hin
    have key := specMerge_bitAt (fLo n e bm) (fHi n e bm) old v (BitVec.ofNat 64 i) hle hlt (ofNat_lt_64 i hi64)
    rw [← getLsbD_eq_bitAt _ i hi64] at key
    have hcond : fLo n e bm ≤ BitVec.ofNat 64 i ∧ BitVec.ofNat 64 i ≤ fHi n e bm := by
      rw [BitVec.le_def, BitVec.le_def, BitVec.toNat_ofNat, Nat.mod_eq_of_lt (by omega)]
      exact hin
    rw [key, if_pos hcond, bitAt_eq]
    congr 1
    rw [BitVec.toNat_sub_of_le hcond.1, BitVec.toNat_ofNat, Nat.mod_eq_of_lt (by omega)]
  · rw [applyMask_eq p n e bm wf, specExtract_merge s _ _ old v hle hlt b1 b2]

/-- **out_of_range_refused** (word level): a value outside `[min, max]` is `InvalidData`. -/
theorem out_of_range_refused (p : Profile) (n : Nat) (e : Endianness) (s : Sign)
    (bm : BitMask) (wf : WF n e bm) (old v mn mx : I64)
    (hmn : bm.min p (lenUsize n) e s = .ok mn) (hmx : bm.max p (lenUsize n) e s = .ok mx)
    (hv : ¬ InRangeOf mn mx v) :
    bm.maskedValue p old v (lenUsize n) e s = .err .invalidData := by
  rw [min_eq p n e bm wf] at hmn
  rw [max_eq p n e bm wf] at hmx
  injection hmn with hmn; injection hmx with hmx
  subst hmn; subst hmx
  rw [maskedValue_eq p n e bm wf, if_pos]
  simp only [BitVec.slt_iff_toInt_lt]
  unfold InRangeOf at hv
  omega

example : InRangeOf (BitVec.ofInt 64 (-8)) 7#64 (BitVec.ofInt 64 (-3)) ∧
    ¬ InRangeOf (BitVec.ofInt 64 (-8)) 7#64 8#64 := by decide

/-- bit-level form: bit `i` of the unsigned field is bit `l+i` of the word for `i < w`, else 0
(the arithmetic form against `Spec.Codec.fieldU/fieldS` is `value_is_spec_field`) -/
theorem value_is_field (p : Profile) (n : Nat) (e : Endianness) (bm : BitMask) (wf : WF n e bm)
    (w : I64) :
    ∃ x, bm.applyMask p w (lenUsize n) e .unsigned = .ok x ∧
      ∀ i, i < 64 → x.getLsbD i = (decide (i < width n e bm) && w.getLsbD ((fLo n e bm).toNat + i)) := by
  refine ⟨_, applyMask_eq p n e bm wf .unsigned w, ?_⟩
  intro i hi64
  have hle := wf_le n e bm wf
  have hlt := wf_lt n e bm wf
  have hle' : (fLo n e bm).toNat ≤ (fHi n e bm).toNat := by
    have := hle; rwa [BitVec.le_def] at this
  have hlt' : (fHi n e bm).toNat < 64 := by
    have := hlt; rw [BitVec.lt_def] at this; exact this
  simp only [specExtract]
  rw [BitVec.ushiftRight_eq', BitVec.getLsbD_ushiftRight, BitVec.getLsbD_and]
  by_cases hb : (fLo n e bm).toNat + i < 64
  · have key := fieldMask_bitAt (fLo n e bm) (fHi n e bm) (BitVec.ofNat 64 ((fLo n e bm).toNat + i)) hle hlt
      (ofNat_lt_64 _ hb)
    rw [← getLsbD_eq_bitAt _ _ hb] at key
    rw [key]
    have : (decide (fLo n e bm ≤ BitVec.ofNat 64 ((fLo n e bm).toNat + i)) &&
        decide (BitVec.ofNat 64 ((fLo n e bm).toNat + i) ≤ fHi n e bm)) = decide (i < width n e bm) := by
      rw [Bool.eq_iff_iff]
      simp only [Bool.and_eq_true, decide_eq_true_eq, BitVec.le_def, BitVec.toNat_ofNat,
        Nat.mod_eq_of_lt (show (fLo n e bm).toNat + i < 2 ^ 64 by omega)]
      show _ ∧ _ ↔ i < fieldWidth (fLo n e bm).toNat (fHi n e bm).toNat
      unfold fieldWidth
      omega
    rw [this, Bool.and_comm]
  · have h1 : w.getLsbD ((fLo n e bm).toNat + i) = false := BitVec.getLsbD_of_ge _ _ (by omega)
    have h2 : (fieldMask (fLo n e bm) (fHi n e bm)).getLsbD ((fLo n e bm).toNat + i) = false :=
      BitVec.getLsbD_of_ge _ _ (by omega)
    simp [h1, h2]

/-! ## 7. siblings: disjoint fields of one register, any interleaved write history -/

/-- a normalised field of a (≤ 64-bit) register -/
structure Field where
  s : Sign
  l : BitVec 64
  m : BitVec 64

def Field.Ok (f : Field) : Prop := f.l ≤ f.m ∧ f.m < 64
def Field.Disjoint (f g : Field) : Prop := f.m < g.l ∨ g.m < f.l
instance (f : Field) : Decidable f.Ok := by unfold Field.Ok; exact inferInstance
instance (f g : Field) : Decidable (f.Disjoint g) := by unfold Field.Disjoint; exact inferInstance
/-- the range check of `masked_value` (closed form, see `maskedValue_eq`) -/
def Field.accepts (f : Field) (v : I64) : Bool :=
  (specMin f.s f.l f.m).sle v && v.sle (specMax f.s f.l f.m)

/-- one uncached `set_value(v)` on field number `k`, seen on the register word: merge
when accepted, nothing when refused (or when there is no such field) -/
def stepWord (fs : List Field) (w : I64) (op : Nat × I64) : I64 :=
  match fs[op.1]? with
  | some f => if f.accepts op.2 then specMerge f.l f.m w op.2 else w
  | none => w

/-- the register word after a whole history -/
def runWord (fs : List Field) (w : I64) (ops : List (Nat × I64)) : I64 := ops.foldl (stepWord fs) w

/-- bookkeeping of the spec: last accepted value written to field `j`, starting from `acc` -/
def lastWritten (fs : List Field) (j : Nat) (acc : Option I64) (ops : List (Nat × I64)) : Option I64 :=
  ops.foldl (fun acc op =>
    match fs[op.1]? with
    | some f => if op.1 = j ∧ f.accepts op.2 = true then some op.2 else acc
    | none => acc) acc

/-- what field `f` must read after a history: its last accepted write, else its initial content -/
def expected (f : Field) (w0 : I64) : Option I64 → I64
  | some v => v
  | none => specExtract f.s f.l f.m w0

/-- **siblings**: for pairwise disjoint well-formed fields of one register and ANY
interleaved history of writes (accepted or refused, to any of the fields), every field
reads its last accepted written value — or its initial content if never written — so no
write ever disturbs a sibling.  By induction over the history. -/
theorem siblings (fs : List Field) (hok : ∀ f ∈ fs, f.Ok)
    (hdis : ∀ i j (hi : i < fs.length) (hj : j < fs.length), i ≠ j → (fs[i]).Disjoint (fs[j]))
    (w0 : I64) (ops : List (Nat × I64)) (j : Nat) (hj : j < fs.length) :
    specExtract (fs[j]).s (fs[j]).l (fs[j]).m (runWord fs w0 ops) =
      expected (fs[j]) w0 (lastWritten fs j none ops) := by
  -- generalise the starting word and the bookkeeping state
  suffices H : ∀ (ops : List (Nat × I64)) (w : I64) (acc : Option I64),
      specExtract (fs[j]).s (fs[j]).l (fs[j]).m w = expected (fs[j]) w0 acc →
      specExtract (fs[j]).s (fs[j]).l (fs[j]).m (ops.foldl (stepWord fs) w) =
        expected (fs[j]) w0 (lastWritten fs j acc ops) from H ops w0 none rfl
  intro ops
  induction ops with
  | nil => intro w acc h; exact h
  | cons op ops ih =>
    intro w acc h
    simp only [List.foldl_cons, lastWritten]
    apply ih
    -- one step preserves the invariant
    unfold stepWord
    cases hk : fs[op.1]? with
    | none => simpa using h
    | some f =>
      have hk' := List.getElem?_eq_some_iff.mp hk
      obtain ⟨hlt, hf⟩ := hk'
      by_cases hacc : f.accepts op.2 = true
      · simp only [hacc, if_true]
        by_cases heq : op.1 = j
        · -- the field itself is written: it reads back the value
          simp only [heq, true_and, if_true]
          have hfj : f = fs[j] := by rw [← hf]; congr 1
          subst hfj
          have hokj := hok _ (List.getElem_mem hj)
          simp only [Field.accepts, Bool.and_eq_true] at hacc
          exact specExtract_merge _ _ _ w op.2 hokj.1 hokj.2 hacc.1 hacc.2
        · -- a sibling is written: disjointness
          simp only [heq, false_and, if_false]
          rw [← h]
          have hokf := hok f (by rw [← hf]; exact List.getElem_mem hlt)
          have hokj := hok _ (List.getElem_mem hj)
          have hd := hdis op.1 j hlt hj heq
          rw [hf] at hd
          exact specExtract_merge_disjoint _ f.l f.m _ _ w op.2 hokf.1 hokf.2 hokj.1 hokj.2 hd
      · have hacc' : f.accepts op.2 = false := by simpa using hacc
        simp only [hacc', Bool.false_eq_true, if_false, and_false]
        exact h

/-- **siblings (rest of the register)**: bits that belong to no written field keep their
initial value through any history. -/
theorem siblings_other_bits (fs : List Field) (w0 : I64) (ops : List (Nat × I64)) (M : I64)
    (hM : ∀ f ∈ fs, fieldMask f.l f.m &&& ~~~M = 0) :
    runWord fs w0 ops &&& ~~~M = w0 &&& ~~~M := by
  have step : ∀ (w : I64) (op : Nat × I64), stepWord fs w op &&& ~~~M = w &&& ~~~M := by
    intro w op
    unfold stepWord
    split
    · rename_i f hk
      have hf := hM f (List.mem_of_getElem? hk)
      split
      · simp only [specMerge]
        generalize fieldMask f.l f.m = F at hf ⊢
        bv_decide
      · rfl
    · rfl
  unfold runWord
  induction ops generalizing w0 with
  | nil => rfl
  | cons op ops ih =>
    simp only [List.foldl_cons]
    rw [ih, step]

example : (⟨.unsigned, 0, 3⟩ : Field).Ok ∧ (⟨.signed, 4, 7⟩ : Field).Ok ∧
    (⟨.unsigned, 0, 3⟩ : Field).Disjoint ⟨.signed, 4, 7⟩ := by decide
example : runWord [⟨.unsigned, 0, 3⟩, ⟨.signed, 4, 7⟩] 0xff#64
    [(0, 5#64), (1, BitVec.ofInt 64 (-2)), (0, 99#64), (0, 9#64)] = 0xe9#64 := by decide

/-! ## Node level: `MaskedIntReg::{value,set_value}` on the device (with C01) -/

private theorem intLen_lt {n : Nat} (h : IntLen n) : n < 2 ^ 63 := by
  rcases h with rfl | rfl | rfl | rfl <;> decide

private theorem asUsize_nat (n : Nat) (h : n < 2 ^ 63) : asUsize (n : Int) = n := by
  rw [Proofs.C01.asUsize_of_nonneg _ (by omega) (by omega)]; simp

/-- **refused or failed writes never write**: whatever happens in `set_value` — value out
of range, unsupported length, chunk port, refusing device, any profile, even without
`WF` — if the call does not return `Ok`, device memory is unchanged and the log has no
new write entry (the preceding read of the old word may be logged). -/
theorem set_value_failure_no_write (p : Profile) (port : Port) (bm : BitMask) (e : Endianness)
    (s : Sign) (address length : Int) (v : I64) (d d' : Dev) (r : R Unit)
    (h : MaskedIntReg.setValue p port bm e s address length v d = (r, d')) (hr : r ≠ .ok ()) :
    d'.mem = d.mem ∧ writesIn d'.log = writesIn d.log ∧ d'.refuse = d.refuse := by
  unfold MaskedIntReg.setValue at h
  have hrd := Proofs.C01.withRead_cases port address length d (fun data => intFromSlice data e s)
  have fin : ∀ (r0 : R Unit) (d1 : Dev), d1.mem = d.mem → writesIn d1.log = writesIn d.log →
      d1.refuse = d.refuse →
      (r0, d1) = (r, d') → d'.mem = d.mem ∧ writesIn d'.log = writesIn d.log ∧ d'.refuse = d.refuse := by
    intro r0 d1 h1 h2 h3 heq
    injection heq with _ hd; subst hd; exact ⟨h1, h2, h3⟩
  rcases hrd with ⟨he, _⟩ | ⟨he, _⟩ | ⟨he, _⟩ | ⟨he, _⟩ <;> rw [he] at h
  · exact fin _ d rfl rfl rfl h
  · exact fin _ d rfl rfl rfl h
  · exact fin _ (Proofs.C01.afterRefusal d) rfl rfl rfl h
  · have hm : (afterRead d address (asUsize length)).mem = d.mem := rfl
    have hw : writesIn (afterRead d address (asUsize length)).log = writesIn d.log :=
      Proofs.C01.writesIn_append_read _ _ _ _
    cases hfs : intFromSlice (d.mem.readRange address (asUsize length)) e s with
    | err er => rw [hfs] at h; exact fin _ _ hm hw rfl h
    | panic => rw [hfs] at h; exact fin _ _ hm hw rfl h
    | ok old =>
      rw [hfs] at h
      simp only [] at h
      cases hmv : bm.maskedValue p old v (lenUsize length) e s with
      | err er => rw [hmv] at h; exact fin _ _ hm hw rfl h
      | panic => rw [hmv] at h; exact fin _ _ hm hw rfl h
      | ok new =>
        rw [hmv] at h
        simp only [] at h
        cases hal : allocLen length with
        | err er => rw [hal] at h; exact fin _ _ hm hw rfl h
        | panic => rw [hal] at h; exact fin _ _ hm hw rfl h
        | ok k =>
          rw [hal] at h
          simp only [] at h
          cases hb : bytesFromInt new k e s with
          | err er => rw [hb] at h; exact fin _ _ hm hw rfl h
          | panic => rw [hb] at h; exact fin _ _ hm hw rfl h
          | ok buf =>
            rw [hb] at h
            simp only [] at h
            rcases Proofs.C01.writeAndCache_cases port address length buf (afterRead d address (asUsize length)) with
              ⟨_, hw2⟩ | ⟨_, _, hw2⟩ | ⟨_, _, _, hw2⟩ | ⟨_, _, _, hw2⟩ <;> rw [hw2] at h
            · exact fin _ _ hm hw rfl h
            · exact fin _ _ hm hw rfl h
            · exact fin _ (Proofs.C01.afterRefusal (afterRead d address (asUsize length))) hm hw rfl h
            · injection h with h1 _
              exact absurd h1.symm hr

/-- **set_value on the device (bytes_isolated)**: plain port, answering device, `WF`, value
within `[min, max]`: the call succeeds with exactly two device accesses — a read of the
register and a write of `[address, address+n)` — after which
(a) every byte outside the register is unchanged,
(b) reading the register bytes as an unsigned word (`Spec.readU`, declared byte order),
    every bit `i < 8n` outside the field equals the old bit and bit `i` inside the field
    is bit `i - l` of the value,
(c) `value()` returns the written value (one more read, no write). -/
theorem set_value_on_device (p : Profile) (port : Port) (hp : port.hasChunkId = false)
    (n : Nat) (e : Endianness) (s : Sign) (bm : BitMask) (wf : WF n e bm) (address : Int)
    (v mn mx : I64) (hmn : bm.min p (lenUsize n) e s = .ok mn) (hmx : bm.max p (lenUsize n) e s = .ok mx)
    (hv : InRangeOf mn mx v) (d : Dev) (hd : d.Reliable) :
    ∃ d1 d2 newBytes,
      MaskedIntReg.setValue p port bm e s address n v d = (.ok (), d1) ∧
      d1.log = d.log ++ [⟨.read, address, n, d.mem.readRange address n⟩, ⟨.write, address, n, newBytes⟩] ∧
      d1.mem = d.mem.writeRange address newBytes ∧ newBytes.length = n ∧ d1.refuse = d.refuse ∧
      (∀ x, x < address ∨ address + (n : Int) ≤ x → d1.mem x = d.mem x) ∧
      (∀ i, i < 8 * n → ¬ InField n e bm i →
        (readU e (d1.mem.readRange address n)).testBit i = (readU e (d.mem.readRange address n)).testBit i) ∧
      (∀ i, i < 8 * n → InField n e bm i →
        (readU e (d1.mem.readRange address n)).testBit i = v.getLsbD (i - (fLo n e bm).toNat)) ∧
      MaskedIntReg.value p port bm e s address n d1 = (.ok v, d2) ∧
      d2.mem = d1.mem ∧ d2.log = d1.log ++ [⟨.read, address, n, newBytes⟩] := by
  have hn := wf.1
  have hlt := intLen_lt hn
  have h8 : n ≤ 8 := by rcases hn with rfl | rfl | rfl | rfl <;> omega
  let oldBytes := d.mem.readRange address n
  have hol : oldBytes.length = n := Proofs.C01.readRange_length _ _ _
  let old := intOfBytes n oldBytes e s
  obtain ⟨new, hmv, hout, hin, hback⟩ :=
    write_isolated_reads_back p n e s bm wf old v mn mx hmn hmx hv
  let newBytes := image n e new.toInt
  have hnl : newBytes.length = n := by cases e <;> simp [newBytes, image]
  have himg : bytesFromInt new n e s = .ok newBytes := CamVerif.C01.int_image new n hn e s
  let dA := afterRead d address n
  let d1 := afterWrite dA address newBytes
  have hmem1 : d1.mem.readRange address n = newBytes := by
    have := Proofs.C01.readRange_writeRange d.mem address newBytes
    rw [hnl] at this; exact this
  have hread : withRead port address n d (fun data => intFromSlice data e s) = (.ok old, dA) := by
    rcases Proofs.C01.withRead_cases port address n d (fun data => intFromSlice data e s) with
      ⟨_, h⟩ | ⟨_, h⟩ | ⟨_, h⟩ | ⟨h, _⟩
    · rw [asUsize_nat n hlt] at h; exact absurd hlt h
    · rw [hp] at h; cases h
    · rw [hd] at h; cases h
    · rw [h, asUsize_nat n hlt, Proofs.C01.intFromSlice_of_len n hn _ hol]
  have hread2 : withRead port address n d1 (fun data => intFromSlice data e s) =
      (.ok (intOfBytes n newBytes e s), afterRead d1 address n) := by
    rcases Proofs.C01.withRead_cases port address n d1 (fun data => intFromSlice data e s) with
      ⟨_, h⟩ | ⟨_, h⟩ | ⟨_, h⟩ | ⟨h, _⟩
    · rw [asUsize_nat n hlt] at h; exact absurd hlt h
    · rw [hp] at h; cases h
    · have := hd d1.attempts; rw [show d1.refuse = d.refuse from rfl] at h; rw [this] at h; cases h
    · rw [h, asUsize_nat n hlt, hmem1, Proofs.C01.intFromSlice_of_len n hn _ hnl]
  -- the word read back is the new word on the low 8n bits, sign/zero extended like `new`
  have hword : ∀ i, i < 8 * n → (readU e newBytes).testBit i = new.getLsbD i := by
    intro i hi
    rw [Proofs.C01.readU_eq]
    show (readUnsigned e (image n e new.toInt)).testBit i = _
    rw [Proofs.C01.image_eq_writeUnsigned n h8, Proofs.C01.readUnsigned_writeUnsigned,
      show (256 : Nat) = 2 ^ 8 from rfl, ← Nat.pow_mul, Nat.testBit_mod_two_pow]
    simp only [hi, decide_true, Bool.true_and]
    rfl
  have holdw : ∀ i, i < 8 * n → old.getLsbD i = (readU e oldBytes).testBit i := by
    intro i hi
    rw [Proofs.C01.readU_eq]
    exact Proofs.C01.intOfBytes_getLsbD n oldBytes e s i hi (by omega)
  have hnorm := norm_positions n e bm wf
  refine ⟨d1, afterRead d1 address n, newBytes, ?_, ?_, rfl, hnl, rfl, ?_, ?_, ?_, ?_, rfl, ?_⟩
  · unfold MaskedIntReg.setValue
    rw [hread]
    simp only []
    rw [hmv]
    simp only [allocLen, asUsize_nat n hlt, if_pos hlt, himg]
    rcases Proofs.C01.writeAndCache_cases port address n newBytes dA with
      ⟨h, _⟩ | ⟨_, h, _⟩ | ⟨_, _, h, _⟩ | ⟨_, _, _, h⟩
    · rw [hnl, asUsize_nat n hlt] at h; exact absurd rfl h
    · rw [hp] at h; cases h
    · have := hd dA.attempts; rw [show dA.refuse = d.refuse from rfl] at h; rw [this] at h; cases h
    · exact h
  · simp [d1, dA, afterWrite, afterRead, hnl]
  · intro x hx
    exact Proofs.C01.writeRange_outside d.mem address newBytes x (by rw [hnl]; exact hx)
  · intro i hi hout'
    rw [hmem1, hword i hi, hout i (by omega) hout', holdw i hi]
  · intro i hi hin'
    rw [hmem1, hword i hi, hin i (by omega) hin']
  · unfold MaskedIntReg.value
    rw [hread2]
    simp only []
    -- the word decoded from the written bytes is `new` again
    have hsame : bm.applyMask p (intOfBytes n newBytes e s) (lenUsize n) e s = .ok v := by
      rw [applyMask_eq p n e bm wf]
      rw [applyMask_eq p n e bm wf] at hback
      injection hback with hback
      rw [← hback]
      congr 1
      -- extraction only looks at bits below 8n, where both words agree
      exact specExtract_congr s (fLo n e bm) (fHi n e bm) _ _ (wf_le n e bm wf)
        (wf_lt n e bm wf)
        (by
          intro i hi
          have hi8 : i < 8 * n := by have := hnorm.2.2.2; omega
          have hnb : (intOfBytes n newBytes e s).getLsbD i = (readU e newBytes).testBit i := by
            rw [Proofs.C01.readU_eq]
            exact Proofs.C01.intOfBytes_getLsbD n newBytes e s i hi8 (by omega)
          rw [hnb, hword i hi8])
    rw [hsame]
  · simp [afterRead, hmem1]

/-! ## Kernel-only mirror of the headline isolation statement -/

/-- **write_isolated (kernel-only)**: the same isolation statement as in
`write_isolated_reads_back`, proved WITHOUT `bv_decide` (bit extensionality,
`Nat.testBit_two_pow_sub_one`, `omega`): whenever `masked_value` succeeds on a well-formed
description, every bit `i < 64` outside the field `l..m` of the new word equals the old
bit.  Its axiom set is the three standard ones only (see the audit), so isolation does not
rest on the native `bv_decide` axiom alone. -/
theorem write_isolated_kernel_only (p : Profile) (n : Nat) (e : Endianness) (s : Sign)
    (bm : BitMask) (wf : WF n e bm) (old v new : I64)
    (h : bm.maskedValue p old v (lenUsize n) e s = .ok new) :
    ∀ i, i < 64 → ¬ InField n e bm i → new.getLsbD i = old.getLsbD i := by
  intro i hi64 hout
  obtain ⟨mask, hmask, hiso⟩ := Proofs.C02K.maskedValue_isolated p bm old v _ e s new h
  rw [Proofs.C02K.mask_eq_kernel p n e bm wf] at hmask
  injection hmask with hmask
  subst hmask
  have hle := wf.2.2.2
  rw [BitVec.le_def] at hle
  have hm : (fHi n e bm).toNat < 64 := by
    have := normB_lt_64 n wf.1 e bm.rawMsb wf.2.2.1
    rw [BitVec.lt_def] at this; exact this
  have hbit := Proofs.C02K.fieldMask_getLsbD (fLo n e bm) (fHi n e bm) hle hm i hi64
  have hfalse : (fieldMask (fLo n e bm) (fHi n e bm)).getLsbD i = false := by
    rw [hbit]; exact decide_eq_false hout
  have := congrArg (fun w => BitVec.getLsbD w i) hiso
  simp only [BitVec.getLsbD_and, BitVec.getLsbD_not, hfalse, hi64, decide_true,
    Bool.not_false, Bool.and_true] at this
  exact this

/-! ## siblings on the device: any interleaved history of `set_value` calls -/

/-- the register word held by the device: unsigned reading (independent `Spec.readU`) of
the bytes `[address, address+n)` in the declared byte order -/
def regWord (e : Endianness) (address : Int) (n : Nat) (d : Dev) : I64 :=
  BitVec.ofNat 64 (readU e (d.mem.readRange address n))

private theorem specMerge_getLsbD (l m old v : BitVec 64) (hle : l ≤ m) (hlt : m < 64) (i : Nat)
    (hi64 : i < 64) :
    (specMerge l m old v).getLsbD i =
      if l.toNat ≤ i ∧ i ≤ m.toNat then v.getLsbD (i - l.toNat) else old.getLsbD i := by
  have key := specMerge_bitAt l m old v (BitVec.ofNat 64 i) hle hlt (ofNat_lt_64 i hi64)
  rw [← getLsbD_eq_bitAt _ i hi64, ← getLsbD_eq_bitAt _ i hi64] at key
  have hc : (l ≤ BitVec.ofNat 64 i ∧ BitVec.ofNat 64 i ≤ m) ↔ (l.toNat ≤ i ∧ i ≤ m.toNat) := by
    rw [BitVec.le_def, BitVec.le_def, BitVec.toNat_ofNat, Nat.mod_eq_of_lt (by omega)]
  rw [key]
  by_cases h : l.toNat ≤ i ∧ i ≤ m.toNat
  · rw [if_pos (hc.mpr h), if_pos h, bitAt_eq]
    congr 1
    rw [BitVec.toNat_sub_of_le (hc.mpr h).1, BitVec.toNat_ofNat, Nat.mod_eq_of_lt (by omega)]
  · rw [if_neg (fun h' => h (hc.mp h')), if_neg h]

private theorem regWord_getLsbD (e : Endianness) (address : Int) (n : Nat) (_hn : IntLen n) (d : Dev)
    (i : Nat) (hi64 : i < 64) :
    (regWord e address n d).getLsbD i = (readU e (d.mem.readRange address n)).testBit i ∧
    (8 * n ≤ i → (readU e (d.mem.readRange address n)).testBit i = false) := by
  constructor
  · simp only [regWord, BitVec.getLsbD_ofNat, hi64, decide_true, Bool.true_and]
  · intro hge
    have hlt := Proofs.C01.readUnsigned_lt e (d.mem.readRange address n)
    rw [Proofs.C01.readRange_length, show (256 : Nat) = 2 ^ 8 from rfl, ← Nat.pow_mul] at hlt
    rw [Proofs.C01.readU_eq]
    apply Nat.testBit_lt_two_pow
    exact Nat.lt_of_lt_of_le hlt (Nat.pow_le_pow_right (by omega) hge)

private theorem accepts_iff (s : Sign) (l m v : BitVec 64) :
    (Field.accepts ⟨s, l, m⟩ v = true) ↔ ¬ ((specMax s l m).slt v = true ∨ v.slt (specMin s l m) = true) := by
  simp only [Field.accepts, Bool.and_eq_true, BitVec.sle_iff_toInt_le, BitVec.slt_iff_toInt_lt]
  omega

/-- **one `set_value` step on the device** (plain port, answering device, `WF`): whatever the
value, afterwards the device still answers, no byte outside the register changed, and the
register word is `stepWord`: merged when the value is accepted, unchanged when refused. -/
theorem set_value_step (p : Profile) (port : Port) (hp : port.hasChunkId = false)
    (n : Nat) (e : Endianness) (s : Sign) (bm : BitMask) (wf : WF n e bm) (address : Int)
    (v : I64) (d : Dev) (hd : d.Reliable) :
    let d1 := (MaskedIntReg.setValue p port bm e s address n v d).2
    d1.Reliable ∧
    (∀ x, x < address ∨ address + (n : Int) ≤ x → d1.mem x = d.mem x) ∧
    regWord e address n d1 =
      (if Field.accepts ⟨s, fLo n e bm, fHi n e bm⟩ v then
        specMerge (fLo n e bm) (fHi n e bm) (regWord e address n d) v
       else regWord e address n d) ∧
    ((MaskedIntReg.setValue p port bm e s address n v d).1 = .ok () ↔
      Field.accepts ⟨s, fLo n e bm, fHi n e bm⟩ v = true) := by
  have hn := wf.1
  have hlt := intLen_lt hn
  have hle := wf_le n e bm wf
  have hlt64 := wf_lt n e bm wf
  have hnorm := norm_positions n e bm wf
  by_cases hacc : Field.accepts ⟨s, fLo n e bm, fHi n e bm⟩ v = true
  · -- accepted
    have hv : InRangeOf (specMin s (fLo n e bm) (fHi n e bm)) (specMax s (fLo n e bm) (fHi n e bm)) v := by
      simp only [Field.accepts, Bool.and_eq_true, BitVec.sle_iff_toInt_le] at hacc
      exact hacc
    obtain ⟨d1, d2, newBytes, hset, hlog, hmem, hnl, hrefuse, hframe, hout, hin, _⟩ :=
      set_value_on_device p port hp n e s bm wf address v _ _ (min_eq p n e bm wf s)
        (max_eq p n e bm wf s) hv d hd
    simp only [hset, hacc, if_true]
    refine ⟨?_, hframe, ?_, by simp⟩
    · intro k; rw [hrefuse]; exact hd k
    · apply BitVec.eq_of_getLsbD_eq
      intro i hi64
      rw [specMerge_getLsbD _ _ _ _ hle hlt64 i hi64]
      obtain ⟨hw1, hz1⟩ := regWord_getLsbD e address n hn d1 i hi64
      obtain ⟨hw0, hz0⟩ := regWord_getLsbD e address n hn d i hi64
      rw [hw1, hw0]
      by_cases hi8 : i < 8 * n
      · by_cases hf : InField n e bm i
        · have hf' : (fLo n e bm).toNat ≤ i ∧ i ≤ (fHi n e bm).toNat := hf
          rw [if_pos hf']; exact hin i hi8 hf
        · have hf' : ¬ ((fLo n e bm).toNat ≤ i ∧ i ≤ (fHi n e bm).toNat) := hf
          rw [if_neg hf']; exact hout i hi8 hf
      · have hf : ¬ ((fLo n e bm).toNat ≤ i ∧ i ≤ (fHi n e bm).toNat) := by
          have := hnorm.2.2.2; omega
        rw [if_neg hf, hz1 (by omega), hz0 (by omega)]
  · -- refused: the result is an error, hence nothing was written
    have hacc' : Field.accepts ⟨s, fLo n e bm, fHi n e bm⟩ v = false := by simpa using hacc
    have herr : (MaskedIntReg.setValue p port bm e s address n v d).1 ≠ .ok () := by
      have hol : (d.mem.readRange address n).length = n := Proofs.C01.readRange_length _ _ _
      have hread : withRead port address n d (fun data => intFromSlice data e s) =
          (.ok (intOfBytes n (d.mem.readRange address n) e s), afterRead d address n) := by
        rcases Proofs.C01.withRead_cases port address n d (fun data => intFromSlice data e s) with
          ⟨_, h⟩ | ⟨_, h⟩ | ⟨_, h⟩ | ⟨h, _⟩
        · rw [asUsize_nat n hlt] at h; exact absurd hlt h
        · rw [hp] at h; cases h
        · rw [hd] at h; cases h
        · rw [h, asUsize_nat n hlt, Proofs.C01.intFromSlice_of_len n hn _ hol]
      unfold MaskedIntReg.setValue
      rw [hread]
      simp only []
      have hcond : (specMax s (fLo n e bm) (fHi n e bm)).slt v = true ∨
          v.slt (specMin s (fLo n e bm) (fHi n e bm)) = true := by
        apply Classical.byContradiction
        intro hc
        exact hacc ((accepts_iff s (fLo n e bm) (fHi n e bm) v).mpr hc)
      rw [maskedValue_eq p n e bm wf, if_pos hcond]
      simp
    have hnw := set_value_failure_no_write p port bm e s address n v d
      (MaskedIntReg.setValue p port bm e s address n v d).2
      (MaskedIntReg.setValue p port bm e s address n v d).1 rfl herr
    simp only [hacc', Bool.false_eq_true, if_false, iff_false]
    refine ⟨?_, fun x _ => by rw [hnw.1], ?_, herr⟩
    · intro k; rw [hnw.2.2]; exact hd k
    · simp only [regWord, hnw.1]

/-- **`value()` on the device** (plain port, answering device, `WF`): one read, and the
result is the specification's field extraction from the register word held by the device. -/
theorem value_on_device (p : Profile) (port : Port) (hp : port.hasChunkId = false)
    (n : Nat) (e : Endianness) (s : Sign) (bm : BitMask) (wf : WF n e bm) (address : Int)
    (d : Dev) (hd : d.Reliable) :
    MaskedIntReg.value p port bm e s address n d =
      (.ok (specExtract s (fLo n e bm) (fHi n e bm) (regWord e address n d)), afterRead d address n) := by
  have hn := wf.1
  have hlt := intLen_lt hn
  have hnorm := norm_positions n e bm wf
  have hol : (d.mem.readRange address n).length = n := Proofs.C01.readRange_length _ _ _
  have hread : withRead port address n d (fun data => intFromSlice data e s) =
      (.ok (intOfBytes n (d.mem.readRange address n) e s), afterRead d address n) := by
    rcases Proofs.C01.withRead_cases port address n d (fun data => intFromSlice data e s) with
      ⟨_, h⟩ | ⟨_, h⟩ | ⟨_, h⟩ | ⟨h, _⟩
    · rw [asUsize_nat n hlt] at h; exact absurd hlt h
    · rw [hp] at h; cases h
    · rw [hd] at h; cases h
    · rw [h, asUsize_nat n hlt, Proofs.C01.intFromSlice_of_len n hn _ hol]
  unfold MaskedIntReg.value
  rw [hread]
  simp only []
  rw [applyMask_eq p n e bm wf]
  congr 2
  apply specExtract_congr s _ _ _ _ (wf_le n e bm wf) (wf_lt n e bm wf)
  intro i hi
  have hm8 : (fHi n e bm).toNat < 8 * n := hnorm.2.2.2
  have hi' : i ≤ (fHi n e bm).toNat := hi
  have hi8 : i < 8 * n := by omega
  have h64 : i < 64 := by rcases hn with rfl | rfl | rfl | rfl <;> omega
  rw [Proofs.C01.intOfBytes_getLsbD n _ e s i hi8 h64, (regWord_getLsbD e address n hn d i h64).1,
    Proofs.C01.readU_eq]

/-- one field of a shared register: its mask description and sign (what a `StructEntry`
or a `MaskedIntReg` on the same address contributes) -/
structure FieldDesc where
  bm : BitMask
  s : Sign

/-- the normalised field of a description -/
def toField (n : Nat) (e : Endianness) (fd : FieldDesc) : Field :=
  ⟨fd.s, fLo n e fd.bm, fHi n e fd.bm⟩

/-- the device after a history of uncached `set_value(v)` calls on fields of one register
(`(k, v)` = write `v` through field number `k`; results are ignored like a caller that
carries on after a refusal) -/
def runDev (p : Profile) (port : Port) (n : Nat) (e : Endianness) (address : Int)
    (descs : List FieldDesc) : Dev → List (Nat × I64) → Dev
  | d, [] => d
  | d, op :: ops =>
    match descs[op.1]? with
    | some fd => runDev p port n e address descs
        (MaskedIntReg.setValue p port fd.bm e fd.s address n op.2 d).2 ops
    | none => runDev p port n e address descs d ops

private theorem runDev_word (p : Profile) (port : Port) (hp : port.hasChunkId = false)
    (n : Nat) (e : Endianness) (address : Int) (descs : List FieldDesc)
    (hwf : ∀ fd ∈ descs, WF n e fd.bm) (ops : List (Nat × I64)) (d : Dev) (hd : d.Reliable) :
    (runDev p port n e address descs d ops).Reliable ∧
    (∀ x, x < address ∨ address + (n : Int) ≤ x → (runDev p port n e address descs d ops).mem x = d.mem x) ∧
    regWord e address n (runDev p port n e address descs d ops) =
      runWord (descs.map (toField n e)) (regWord e address n d) ops := by
  induction ops generalizing d with
  | nil => exact ⟨hd, fun _ _ => rfl, rfl⟩
  | cons op ops ih =>
    simp only [runDev, runWord, List.foldl_cons]
    cases hk : descs[op.1]? with
    | none =>
      have : (descs.map (toField n e))[op.1]? = none := by simp [hk]
      simp only [stepWord, this]
      exact ih d hd
    | some fd =>
      have hmem : fd ∈ descs := List.mem_of_getElem? hk
      have hmap : (descs.map (toField n e))[op.1]? = some (toField n e fd) := by simp [hk]
      obtain ⟨h1, h2, h3, _⟩ := set_value_step p port hp n e fd.s fd.bm (hwf fd hmem) address op.2 d hd
      obtain ⟨i1, i2, i3⟩ := ih _ h1
      refine ⟨i1, fun x hx => by rw [i2 x hx, h2 x hx], ?_⟩
      rw [i3, h3]
      simp only [stepWord, hmap, toField, runWord]

/-- **siblings on the device**: several bit fields (entries of one `StructReg`, or
`MaskedIntReg`s on the same register) with pairwise disjoint normalised bit ranges, caching
off, plain port, answering device.  After ANY interleaved history of `set_value` calls —
accepted or refused, in any order, any number — `value()` of every field returns its last
accepted written value, or its initial content if it was never written; and no byte of the
device outside the register has changed.  By induction over the history. -/
theorem siblings_on_device (p : Profile) (port : Port) (hp : port.hasChunkId = false)
    (n : Nat) (e : Endianness) (address : Int) (descs : List FieldDesc)
    (hwf : ∀ fd ∈ descs, WF n e fd.bm)
    (hdis : ∀ i j (hi : i < descs.length) (hj : j < descs.length), i ≠ j →
      (toField n e descs[i]).Disjoint (toField n e descs[j]))
    (d : Dev) (hd : d.Reliable) (ops : List (Nat × I64)) (j : Nat) (hj : j < descs.length) :
    (MaskedIntReg.value p port descs[j].bm e descs[j].s address n
        (runDev p port n e address descs d ops)).1 =
      .ok (expected (toField n e descs[j]) (regWord e address n d)
            (lastWritten (descs.map (toField n e)) j none ops)) ∧
    (∀ x, x < address ∨ address + (n : Int) ≤ x →
      (runDev p port n e address descs d ops).mem x = d.mem x) := by
  obtain ⟨h1, h2, h3⟩ := runDev_word p port hp n e address descs hwf ops d hd
  refine ⟨?_, h2⟩
  rw [value_on_device p port hp n e descs[j].s descs[j].bm (hwf _ (List.getElem_mem hj)) address _ h1, h3]
  simp only []
  congr 1
  let fs := descs.map (toField n e)
  have hlen : fs.length = descs.length := by simp [fs]
  have hget : ∀ k (hk : k < descs.length), fs[k]'(by rw [hlen]; exact hk) = toField n e descs[k] := by
    intro k hk; simp [fs]
  have hok : ∀ f ∈ fs, f.Ok := by
    intro f hf
    obtain ⟨fd, hfd, rfl⟩ := List.mem_map.mp hf
    exact ⟨wf_le n e fd.bm (hwf fd hfd), wf_lt n e fd.bm (hwf fd hfd)⟩
  have hdis' : ∀ i k (hi : i < fs.length) (hk : k < fs.length), i ≠ k → (fs[i]).Disjoint (fs[k]) := by
    intro i k hi hk hne
    rw [hget i (by rw [← hlen]; exact hi), hget k (by rw [← hlen]; exact hk)]
    exact hdis i k _ _ hne
  have := siblings fs hok hdis' (regWord e address n d) ops j (by rw [hlen]; exact hj)
  rw [hget j hj] at this
  exact this

example : WF 2 .le (.range 0 3) ∧ WF 2 .le (.range 4 11) ∧ WF 2 .le (.singleBit 15) ∧
    (toField 2 .le ⟨.range 0 3, .unsigned⟩).Disjoint (toField 2 .le ⟨.range 4 11, .signed⟩) ∧
    (toField 2 .le ⟨.range 4 11, .signed⟩).Disjoint (toField 2 .le ⟨.singleBit 15, .unsigned⟩) := by
  decide

/-! ## The same statements in the vocabulary of the independent codec (`Spec.Codec`) -/

/-- the unsigned word the device holds in the register (`Spec.readU`, declared byte order) -/
abbrev regNat (e : Endianness) (address : Int) (n : Nat) (d : Dev) : Nat :=
  readU e (d.mem.readRange address n)

private theorem regWord_toNat (e : Endianness) (address : Int) (n : Nat) (hn : IntLen n) (d : Dev) :
    (regWord e address n d).toNat = regNat e address n d := by
  have hlt := Proofs.C01.readUnsigned_lt e (d.mem.readRange address n)
  rw [Proofs.C01.readRange_length, show (256 : Nat) = 2 ^ 8 from rfl, ← Nat.pow_mul,
    ← Proofs.C01.readU_eq] at hlt
  have h64 : 2 ^ (8 * n) ≤ 2 ^ 64 :=
    Nat.pow_le_pow_right (by omega) (by rcases hn with rfl | rfl | rfl | rfl <;> omega)
  simp only [regWord, regNat, BitVec.toNat_ofNat]
  exact Nat.mod_eq_of_lt (Nat.lt_of_lt_of_le hlt h64)

/-- **`apply_mask` is the independent codec's bit-field reading**: for every word,
`apply_mask` returns the value whose `i64` reading is `Spec.Codec.fieldReading` — the
unsigned field `(word / 2^l) mod 2^w` (`fieldU`), read as two's complement (`fieldS`) when
the field is signed.  (Kernel-only link between the proofs-local `specExtract` and the
independent specification.) -/
theorem value_is_spec_field (p : Profile) (n : Nat) (e : Endianness) (s : Sign) (bm : BitMask)
    (wf : WF n e bm) (w : I64) :
    ∃ x, bm.applyMask p w (lenUsize n) e s = .ok x ∧
      x.toInt = fieldReading s (fLo n e bm).toNat (fHi n e bm).toNat w.toNat := by
  refine ⟨_, applyMask_eq p n e bm wf s w, ?_⟩
  have hle := wf_le n e bm wf
  have hlt := wf_lt n e bm wf
  rw [BitVec.le_def] at hle; rw [BitVec.lt_def] at hlt
  exact Proofs.C02K.specExtract_toInt s _ _ w hle hlt

example : fieldReading .signed 4 7 0xf0 = -1 ∧ fieldReading .unsigned 4 7 0xf0 = 15 ∧
    fieldReading .unsigned 60 63 0xf000000000000000 = 15 ∧ fieldReading .signed 0 0 1 = -1 := by
  decide

/-- **`value()` on the device, against the independent codec**: plain port, answering
device, `WF`: `value()` performs one read and returns the integer
`fieldReading sign l m U`, where `U` is the unsigned reading (`Spec.readU`) of the register
bytes held by the device. -/
theorem value_on_device_spec (p : Profile) (port : Port) (hp : port.hasChunkId = false)
    (n : Nat) (e : Endianness) (s : Sign) (bm : BitMask) (wf : WF n e bm) (address : Int)
    (d : Dev) (hd : d.Reliable) :
    ∃ x, MaskedIntReg.value p port bm e s address n d = (.ok x, afterRead d address n) ∧
      x.toInt = fieldReading s (fLo n e bm).toNat (fHi n e bm).toNat (regNat e address n d) := by
  refine ⟨_, value_on_device p port hp n e s bm wf address d hd, ?_⟩
  have hle := wf_le n e bm wf
  have hlt := wf_lt n e bm wf
  rw [BitVec.le_def] at hle; rw [BitVec.lt_def] at hlt
  rw [Proofs.C02K.specExtract_toInt s _ _ _ hle hlt, regWord_toNat e address n wf.1 d]

/-- the integer a field must report after a history: its last accepted written value, else
the independent codec's reading of the register's INITIAL content -/
def expectedInt (n : Nat) (e : Endianness) (fd : FieldDesc) (u0 : Nat) : Option I64 → Int
  | some v => v.toInt
  | none => fieldReading fd.s (fLo n e fd.bm).toNat (fHi n e fd.bm).toNat u0

/-- **siblings on the device, against the independent codec**: as `siblings_on_device`, with
the result stated as an integer: after any interleaved history every field's `value()`
is its last accepted written value, or — if never written — `Spec.Codec.fieldReading` of
the register word the device held initially. -/
theorem siblings_on_device_spec (p : Profile) (port : Port) (hp : port.hasChunkId = false)
    (n : Nat) (e : Endianness) (address : Int) (descs : List FieldDesc)
    (hwf : ∀ fd ∈ descs, WF n e fd.bm)
    (hdis : ∀ i j (hi : i < descs.length) (hj : j < descs.length), i ≠ j →
      (toField n e descs[i]).Disjoint (toField n e descs[j]))
    (d : Dev) (hd : d.Reliable) (ops : List (Nat × I64)) (j : Nat) (hj : j < descs.length) :
    ∃ x, (MaskedIntReg.value p port descs[j].bm e descs[j].s address n
        (runDev p port n e address descs d ops)).1 = .ok x ∧
      x.toInt = expectedInt n e descs[j] (regNat e address n d)
        (lastWritten (descs.map (toField n e)) j none ops) ∧
      (∀ y, y < address ∨ address + (n : Int) ≤ y →
        (runDev p port n e address descs d ops).mem y = d.mem y) := by
  obtain ⟨h1, h2⟩ := siblings_on_device p port hp n e address descs hwf hdis d hd ops j hj
  refine ⟨_, h1, ?_, h2⟩
  have wf := hwf _ (List.getElem_mem hj)
  have hle := wf_le n e descs[j].bm wf
  have hlt := wf_lt n e descs[j].bm wf
  rw [BitVec.le_def] at hle; rw [BitVec.lt_def] at hlt
  cases hl : lastWritten (descs.map (toField n e)) j none ops with
  | some v => rfl
  | none =>
    simp only [expected, expectedInt, toField]
    rw [Proofs.C02K.specExtract_toInt _ _ _ _ hle hlt, regWord_toNat e address n wf.1 d]

/-! ## `StructReg` entries ARE such masked nodes (model of `into_masked_int_regs`) -/

/-- **struct_entry_is_masked_node**: the expansion `StructRegNode::into_masked_int_regs`
(`Model/BitMaskStruct.lean`, tied by the `c02 s<op>` requests of the harness) yields one node per
entry, in document order; node `k` has the StructReg's address, length and byte order and entry
`k`'s mask and sign, and its `value / set_value / min / max` are `MaskedIntReg`'s with exactly these
parameters — the same `BitMask` functions, fed by the entry's lsb / msb / sign and the StructReg's
endianness / length.  So every theorem above about a `MaskedIntReg` node is a theorem about a
`StructEntry`. -/
theorem struct_entry_is_masked_node (r : StructReg) :
    r.intoMaskedIntRegs.length = r.entries.length ∧
    ∀ (k : Nat) (ent : StructEntry), r.entries[k]? = some ent →
      ∃ node, r.intoMaskedIntRegs[k]? = some node ∧
        node.address = r.address ∧ node.length = r.length ∧ node.e = r.e ∧
        node.bm = ent.bm ∧ node.s = ent.s ∧
        (∀ p port d, node.value p port d = MaskedIntReg.value p port ent.bm r.e ent.s r.address r.length d) ∧
        (∀ p port v d, node.setValue p port v d =
          MaskedIntReg.setValue p port ent.bm r.e ent.s r.address r.length v d) ∧
        (∀ p, node.min p = ent.bm.min p (lenUsize r.length) r.e ent.s) ∧
        (∀ p, node.max p = ent.bm.max p (lenUsize r.length) r.e ent.s) := by
  refine ⟨by simp [StructReg.intoMaskedIntRegs], ?_⟩
  intro k ent hk
  refine ⟨ent.intoMaskedIntReg r.address r.length r.e, ?_, rfl, rfl, rfl, rfl, rfl,
    fun _ _ _ => rfl, fun _ _ _ _ => rfl, fun _ => rfl, fun _ => rfl⟩
  simp [StructReg.intoMaskedIntRegs, hk]

/-- the device after a history of uncached `set_value(v)` calls through the NODES a StructReg
expands to (`(k, v)` = write `v` through node number `k`) -/
def runNodes (p : Profile) (port : Port) (nodes : List MaskedNode) : Dev → List (Nat × I64) → Dev
  | d, [] => d
  | d, op :: ops =>
    match nodes[op.1]? with
    | some node => runNodes p port nodes (node.setValue p port op.2 d).2 ops
    | none => runNodes p port nodes d ops

/-- the field descriptions of a StructReg's entries -/
def entryDescs (r : StructReg) : List FieldDesc := r.entries.map fun ent => ⟨ent.bm, ent.s⟩

private theorem runNodes_eq_runDev (p : Profile) (port : Port) (r : StructReg) (n : Nat)
    (hlen : r.length = n) (ops : List (Nat × I64)) (d : Dev) :
    runNodes p port r.intoMaskedIntRegs d ops = runDev p port n r.e r.address (entryDescs r) d ops := by
  induction ops generalizing d with
  | nil => rfl
  | cons op ops ih =>
    have hN : r.intoMaskedIntRegs[op.1]? =
        (r.entries[op.1]?).map (fun ent => ent.intoMaskedIntReg r.address r.length r.e) := by
      simp [StructReg.intoMaskedIntRegs]
    have hD : (entryDescs r)[op.1]? = (r.entries[op.1]?).map (fun ent => (⟨ent.bm, ent.s⟩ : FieldDesc)) := by
      simp [entryDescs]
    simp only [runNodes, runDev, hN, hD]
    cases hk : r.entries[op.1]? with
    | none => simp only [Option.map_none]; exact ih d
    | some ent =>
      simp only [Option.map_some, MaskedNode.setValue, StructEntry.intoMaskedIntReg, hlen]
      exact ih _

/-- **struct_entries_siblings**: the entries of ONE `StructReg` (length in {1,2,4,8}, every
entry's description well formed for the StructReg's length and byte order) whose normalised bit
ranges are pairwise disjoint satisfy the hypotheses of `siblings` / `siblings_on_device`: after
ANY interleaved history of `set_value` calls through the expanded nodes — accepted or refused —
`value()` of every entry's node returns its last accepted written value, or its initial content,
and no device byte outside the register changed (caching off, plain port, answering device). -/
theorem struct_entries_siblings (p : Profile) (port : Port) (hp : port.hasChunkId = false)
    (r : StructReg) (n : Nat) (hlen : r.length = n)
    (hwf : ∀ ent ∈ r.entries, WF n r.e ent.bm)
    (hdis : ∀ i j (hi : i < r.entries.length) (hj : j < r.entries.length), i ≠ j →
      (toField n r.e ⟨r.entries[i].bm, r.entries[i].s⟩).Disjoint
        (toField n r.e ⟨r.entries[j].bm, r.entries[j].s⟩))
    (d : Dev) (hd : d.Reliable) (ops : List (Nat × I64)) (j : Nat) (hj : j < r.entries.length) :
    ∃ node, r.intoMaskedIntRegs[j]? = some node ∧
      (node.value p port (runNodes p port r.intoMaskedIntRegs d ops)).1 =
        .ok (expected (toField n r.e ⟨r.entries[j].bm, r.entries[j].s⟩) (regWord r.e r.address n d)
              (lastWritten ((entryDescs r).map (toField n r.e)) j none ops)) ∧
      (∀ x, x < r.address ∨ r.address + (n : Int) ≤ x →
        (runNodes p port r.intoMaskedIntRegs d ops).mem x = d.mem x) := by
  have hlenD : (entryDescs r).length = r.entries.length := by simp [entryDescs]
  have hgetD : ∀ k (hk : k < r.entries.length),
      (entryDescs r)[k]'(by rw [hlenD]; exact hk) = ⟨r.entries[k].bm, r.entries[k].s⟩ := by
    intro k hk; simp [entryDescs]
  have hwfD : ∀ fd ∈ entryDescs r, WF n r.e fd.bm := by
    intro fd hfd
    obtain ⟨ent, hent, rfl⟩ := List.mem_map.mp hfd
    exact hwf ent hent
  have hdisD : ∀ i k (hi : i < (entryDescs r).length) (hk : k < (entryDescs r).length), i ≠ k →
      (toField n r.e (entryDescs r)[i]).Disjoint (toField n r.e (entryDescs r)[k]) := by
    intro i k hi hk hne
    rw [hgetD i (by rw [← hlenD]; exact hi), hgetD k (by rw [← hlenD]; exact hk)]
    exact hdis i k _ _ hne
  obtain ⟨h1, h2⟩ := siblings_on_device p port hp n r.e r.address (entryDescs r) hwfD hdisD d hd ops j
    (by rw [hlenD]; exact hj)
  rw [hgetD j hj] at h1
  refine ⟨r.entries[j].intoMaskedIntReg r.address r.length r.e, ?_, ?_, ?_⟩
  · simp [StructReg.intoMaskedIntRegs, hj]
  · rw [runNodes_eq_runDev p port r n hlen]
    simp only [MaskedNode.value, StructEntry.intoMaskedIntReg, hlen]
    exact h1
  · rw [runNodes_eq_runDev p port r n hlen]
    exact h2

/-- non-vacuity: a 2-byte big-endian StructReg with three entries (one signed, one single bit) -/
example :
    let r : StructReg := ⟨0x100, 2, .be, [⟨.range 15 12, .unsigned⟩, ⟨.range 11 4, .signed⟩, ⟨.singleBit 0, .unsigned⟩]⟩
    (∀ ent ∈ r.entries, WF 2 r.e ent.bm) ∧
    (toField 2 r.e ⟨.range 15 12, .unsigned⟩).Disjoint (toField 2 r.e ⟨.range 11 4, .signed⟩) ∧
    (toField 2 r.e ⟨.range 11 4, .signed⟩).Disjoint (toField 2 r.e ⟨.singleBit 0, .unsigned⟩) ∧
    (toField 2 r.e ⟨.range 15 12, .unsigned⟩).Disjoint (toField 2 r.e ⟨.singleBit 0, .unsigned⟩) ∧
    r.intoMaskedIntRegs.map (·.address) = [0x100, 0x100, 0x100] := by
  decide

/-- **gen_fn_tie** (tie by regeneration, function bodies): the Lean functions that `rs2lean`
re-translates from the CURRENT Rust source on every run (FnBitMask) are equal, for every input and both
build profiles, to the hand-written model functions the theorems above are about. -/
theorem gen_fn_tie : CamVerif.Proofs.C02GenTie.GenTie := CamVerif.Proofs.C02GenTie.gen_tie

/-! ## Caching ON: composition with C04's cache model

The statement's quantifier: "with caching on, siblings are declared as each other's
invalidators".  C04's model (`CamVerif.Model.Cache`, `Props/C04.lean`) proves that for every
description satisfying `Declared` the build with the DEFAULT cache store is indistinguishable
from the build without cache.  The sibling descriptions of this property satisfy `Declared`,
so caching is transparent for them; C04's field codec is tied to the same independent
`Spec.Codec` as the uncached theorems above. -/

/-- **sibGraph_declared**: one port and any number of bit fields of one register (any masks,
signs, per-field caching modes) that all name each other as `pInvalidator` satisfy C04's
`Declared`, in both build profiles. -/
theorem sibGraph_declared (p : Profile) (base : Int) (len : Nat) (e : Cache.Endian)
    (fs : List Proofs.C02Cached.SibField) :
    C04.Declared p (Proofs.C02Cached.sibGraph base len e fs) :=
  Proofs.C02Cached.sibGraph_declared p base len e fs

/-- **siblings_cached_transparent**: for such a sibling group, any device (image, static and
dynamic rejections incl. writes that are applied but reported failed or only partially applied)
and ANY interleaved history of `value` / `set_value` / raw `read` / `write` on the fields, the
build with the DEFAULT cache store returns exactly the results of the build without cache —
every read, every refusal —, leaves the same bytes in the device and issues the very same device
writes in the same order.  Hence whatever the uncached read-modify-write guarantees (sibling
isolation, `siblings_on_device`) holds verbatim with caching on. -/
theorem siblings_cached_transparent (p : Profile) (base : Int) (len : Nat) (e : Cache.Endian)
    (fs : List Proofs.C02Cached.SibField) (d : Cache.Dev) (h : List Cache.Op)
    (hh : Proofs.C02Cached.NoPortWrite h) :
    let g := Proofs.C02Cached.sibGraph base len e fs
    (Cache.runHist Cache.defaultCache p g (Cache.initDefault g d) h).1 =
      (Cache.runHist Cache.sinkCache p g (Cache.initSink d) h).1 ∧
    (Cache.runHist Cache.defaultCache p g (Cache.initDefault g d) h).2.dev.mem =
      (Cache.runHist Cache.sinkCache p g (Cache.initSink d) h).2.dev.mem ∧
    ((Cache.runHist Cache.defaultCache p g (Cache.initDefault g d) h).2.dev.log.filter (·.write) =
      (Cache.runHist Cache.sinkCache p g (Cache.initSink d) h).2.dev.log.filter (·.write)) :=
  Proofs.C02Cached.siblings_cached_transparent p base len e fs d h hh

/-- **bridge (field extraction)**: C04's `apply_mask` is the independent codec's bit-field
reading of the 64-bit pattern of the register word — `fieldU`, two's complement `fieldS` when
signed — the reference `value_is_spec_field` ties this property's model to. -/
theorem cache_applyMask_is_field (x : Int) (l w : Nat) (hw : 0 < w) (s : Cache.Sign) :
    Cache.applyMask x l w s =
      (match s with
       | .signed => fieldS l (l + w - 1) (Cache.ofI64 x)
       | .unsigned => (fieldU l (l + w - 1) (Cache.ofI64 x) : Int)) :=
  Proofs.C02Cached.cache_applyMask_is_field x l w hw s

/-- non-vacuity: three fields of a 2-byte register (default WriteThrough, WriteAround, NoCache),
warm caches, writes through two of them: the cached build reads back what the uncached one
does and the device word holds all three fields -/
example :
    let fs : List Proofs.C02Cached.SibField :=
      [⟨.unsigned, 0, 3, .writeThrough⟩, ⟨.signed, 4, 11, .writeAround⟩, ⟨.unsigned, 12, 15, .noCache⟩]
    let g := Proofs.C02Cached.sibGraph 0 2 .le fs
    let d : Cache.Dev := ⟨[0xC3, 0xA5], [], [], [], [], 0, []⟩
    let h : List Cache.Op := [.value 1, .value 2, .value 3, .setValue 2 (.int (-2)), .setValue 1 (.int 9),
      .value 2, .value 1, .value 3]
    (Cache.runHist Cache.defaultCache Profile.dev g (Cache.initDefault g d) h).1 =
      [.ok (.int 3), .ok (.int 0x5C), .ok (.int 0xA), .ok .unit, .ok .unit, .ok (.int (-2)),
       .ok (.int 9), .ok (.int 0xA)] ∧
    (Cache.runHist Cache.defaultCache Profile.dev g (Cache.initDefault g d) h).2.dev.mem = [0xE9, 0xAF] ∧
    Proofs.C02Cached.NoPortWrite h := by
  refine ⟨by decide +kernel, by decide +kernel, ?_⟩
  intro n a d hm
  simp at hm

/-! ### `siblings_cached`: the sibling statement itself with the DEFAULT cache store

Vocabulary (all in `Proofs/C02CachedSib.lean`): `HOp` = `get k` (`value()` of field `k`) or
`set k v` (`set_value(v)`), `NF` = normalised field (sign, lsb `l`, width `w`), `norm` =
`BitMask::{lsb,msb}` normalisation of a description, `NF.read f U` = reading of the field in the
unsigned register word `U` (`siblings_cached_read_is_field`: it is `Spec.Codec.fieldU/fieldS`),
`word e base len d` = unsigned reading of the device bytes `[base, base+len)` in the declared byte
order, `lastOk k none (h.zip results)` = last value written to field `k` by a `set_value` that
RETURNED `Ok` (bookkeeping over the results of the run itself), `expect f U0 (some v) = v`,
`expect f U0 none = f.read U0`, `SetOutcome rejW f v r` = out of range ⇒ `r = InvalidData`; in range ⇒
`r = Ok` or (the device rejected the write attempt) `r = Err(Device)`; in range and no scripted
rejection ⇒ `r = Ok`. -/

open Proofs.C02CachedSib in
/-- **siblings_cached**: a conforming device (`Conf`: the register is inside the image, no static
no-access / no-write range touches it and no write is left half applied — a write the device
acts on applies completely; the device MAY reject any scripted set of write attempts atomically,
`rejW` is arbitrary), any number of well-formed
(`FieldOk`) bit fields of ONE register with pairwise disjoint normalised bit ranges, every
per-field caching mode, every sign, both byte orders, both build profiles, all fields naming
each other as `pInvalidator` (`sibGraph`), the DEFAULT cache store, and ANY interleaved history
`h` of `value()` / `set_value(v)` calls on the fields.  Then, for the cached build:
(1) every `value()` of field `k` in the history succeeds and returns the last value
    SUCCESSFULLY written to field `k` before it (its `set_value` returned `Ok`; refused and
    device-rejected writes do not count) — or the field's content in the initial device word if
    there was none (warm caches never serve a stale sibling, a failed write disturbs nothing);
(2) every `set_value(v)` returns `InvalidData` when `v` is outside the field's range, else `Ok`
    or — when the device rejects the write attempt — `Err(Device)` (`SetOutcome`);
(3) in the final device word every field reads its last successfully written value (else its
    initial content);
(4) every bit of the final device word that belongs to no field equals the initial bit;
(5) no device byte outside the register changed. -/
theorem siblings_cached (p : Profile) (base : Int) (len : Nat) (hn : IntLen len) (e : Cache.Endian)
    (fs : List Proofs.C02Cached.SibField) (hok : ∀ f ∈ fs, FieldOk len e f)
    (hdis : ∀ i (hi : i < fs.length) j (hj : j < fs.length), i ≠ j →
      (norm len e fs[i]).Disjoint (norm len e fs[j]))
    (d : Cache.Dev) (hc : Conf d base len) (h : List HOp) :
    let g := Proofs.C02Cached.sibGraph base len e fs
    let nfs := nfsOf len e fs
    let U0 := word e base len d
    let R := Cache.runHist Cache.defaultCache p g (Cache.initDefault g d) (h.map HOp.toOp)
    (∀ (idx k : Nat) (f : NF), h[idx]? = some (.get k) → nfs[k]? = some f →
      R.1[idx]? = some (.ok (.int (expect f U0 (lastOk k none ((h.zip R.1).take idx)))))) ∧
    (∀ (idx k : Nat) (v : Int) (f : NF), h[idx]? = some (.set k v) → nfs[k]? = some f →
      ∃ r, R.1[idx]? = some r ∧ SetOutcome d.rejW f v r) ∧
    (∀ (k : Nat) (f : NF), nfs[k]? = some f →
      f.read (word e base len R.2.dev) = expect f U0 (lastOk k none (h.zip R.1))) ∧
    (∀ i, (∀ f ∈ nfs, ¬ (f.l ≤ i ∧ i < f.l + f.w)) →
      (word e base len R.2.dev).testBit i = U0.testBit i) ∧
    (∀ i, i < base.toNat ∨ base.toNat + len ≤ i → R.2.dev.mem[i]? = d.mem[i]?) := by
  apply Proofs.C02CachedSib.siblings_cached p base len hn e fs hok _ d hc h
  intro i j f g hne hi hj
  rw [nfsOf_get] at hi hj
  cases hfi : fs[i]? with
  | none => rw [hfi] at hi; cases hi
  | some a =>
    cases hfj : fs[j]? with
    | none => rw [hfj] at hj; cases hj
    | some b =>
      rw [hfi] at hi; rw [hfj] at hj
      simp only [Option.map_some, Option.some.injEq] at hi hj
      obtain ⟨hil, hia⟩ := List.getElem?_eq_some_iff.mp hfi
      obtain ⟨hjl, hjb⟩ := List.getElem?_eq_some_iff.mp hfj
      have := hdis i hil j hjl hne
      rw [hia, hjb, hi, hj] at this
      exact this

open Proofs.C02CachedSib in
/-- the reading used in `siblings_cached` is the independent codec's bit field: `fieldU`, read
as two's complement (`fieldS`) when the field is signed -/
theorem siblings_cached_read_is_field (f : NF) (hw : 0 < f.w) (U : Nat) :
    f.read U = (match f.s with
      | .signed => fieldS f.l (f.l + f.w - 1) U
      | .unsigned => (fieldU f.l (f.l + f.w - 1) U : Int)) :=
  Proofs.C02CachedSib.read_is_field f hw U

open Proofs.C02CachedSib in
/-- the reference step used in `siblings_cached` IS the uncached model's step: one `value` /
`set_value` of the build without cache on a conforming device returns the reference result and
leaves the reference state (register word, write-attempt counter) in the device -/
theorem siblings_sink_step (p : Profile) (base : Int) (len : Nat) (hn : IntLen len) (e : Cache.Endian)
    (fs : List Proofs.C02Cached.SibField) (hok : ∀ f ∈ fs, FieldOk len e f) (op : HOp) (d : Cache.Dev)
    (hc : Conf d base len) :
    ∃ d', Cache.run Cache.sinkCache p (Proofs.C02Cached.sibGraph base len e fs) ⟨(), d⟩ op.toOp =
        ((specStep d.rejW (nfsOf len e fs) (stOf e base len d) op).1, ⟨(), d'⟩) ∧
      Conf d' base len ∧ d'.rejW = d.rejW ∧
      stOf e base len d' = (specStep d.rejW (nfsOf len e fs) (stOf e base len d) op).2 ∧
      Frame base len d d' :=
  Proofs.C02CachedSib.sink_step p base len hn e fs hok op d hc

section SiblingsCachedExample
open Proofs.C02CachedSib Proofs.C02Cached

/-- four fields of an 8-byte register at address 1: unsigned 0..3 (WriteThrough), signed 4..11
(WriteAround), unsigned 60..63 (contains bit 63, NoCache), signed 32..47 (WriteThrough) -/
private def exFs : List SibField :=
  [⟨.unsigned, 0, 3, .writeThrough⟩, ⟨.signed, 4, 11, .writeAround⟩, ⟨.unsigned, 60, 63, .noCache⟩,
   ⟨.signed, 32, 47, .writeThrough⟩]
private def exDev : Cache.Dev :=
  ⟨[0xAA, 0xC3, 0xA5, 0x11, 0x22, 0x33, 0x44, 0x75, 0xBB], [], [], [], [], 0, []⟩
private def exH : List HOp :=
  [.get 0, .get 1, .get 2, .get 3, .set 1 (-2), .set 0 9, .set 2 15, .set 0 99, .set 3 (-300),
   .get 0, .get 1, .get 2, .get 3, .set 2 8]

/-- non-vacuity of every hypothesis of `siblings_cached` -/
example : (∀ f ∈ exFs, FieldOk 8 .le f) ∧
    (∀ i (hi : i < exFs.length) j (hj : j < exFs.length), i ≠ j →
      (norm 8 .le exFs[i]).Disjoint (norm 8 .le exFs[j])) ∧
    Conf exDev 1 8 ∧ IntLen 8 := by
  refine ⟨by decide, by decide, ⟨by decide, by decide, by decide, by decide, rfl⟩, by decide⟩

/-- … and what the theorem says on it: warm caches, writes through three fields (one signed,
one containing bit 63), a refused write (99 into 4 bits), reads after the writes -/
example :
    let g := sibGraph 1 8 .le exFs
    (Cache.runHist Cache.defaultCache Profile.dev g (Cache.initDefault g exDev) (exH.map HOp.toOp)).1 =
      [.ok (.int 3), .ok (.int 92), .ok (.int 11), .ok (.int 17459), .ok .unit, .ok .unit, .ok .unit,
       .err .invalidData, .ok .unit, .ok (.int 9), .ok (.int (-2)), .ok (.int 15), .ok (.int (-300)),
       .ok .unit] ∧
    (Cache.runHist Cache.defaultCache Profile.dev g (Cache.initDefault g exDev) (exH.map HOp.toOp)).2.dev.mem =
      [0xAA, 0xE9, 0xAF, 0x11, 0x22, 0xD4, 0xFE, 0x75, 0x8B] ∧
    NoPortWrite (exH.map HOp.toOp) := by
  refine ⟨by decide +kernel, by decide +kernel, noPortWrite_map exH⟩

/-- the same history on a device that rejects its write attempts number 1 and 3 (atomically): the
two `set_value`s fail with `Err(Device)`, their fields keep the previous content (field 0 still
reads 3, field 3 still 17459), the other writes land -/
example :
    let g := sibGraph 1 8 .le exFs
    let dev : Cache.Dev := { exDev with rejW := [1, 3] }
    Conf dev 1 8 ∧
    (Cache.runHist Cache.defaultCache Profile.dev g (Cache.initDefault g dev) (exH.map HOp.toOp)).1 =
      [.ok (.int 3), .ok (.int 92), .ok (.int 11), .ok (.int 17459), .ok .unit, .err .device, .ok .unit,
       .err .invalidData, .err .device, .ok (.int 3), .ok (.int (-2)), .ok (.int 15), .ok (.int 17459),
       .ok .unit] ∧
    (Cache.runHist Cache.defaultCache Profile.dev g (Cache.initDefault g dev) (exH.map HOp.toOp)).2.dev.mem =
      [0xAA, 0xE3, 0xAF, 0x11, 0x22, 0x33, 0x44, 0x75, 0x8B] := by
  refine ⟨⟨by decide, by decide, by decide, by decide, rfl⟩, by decide +kernel, by decide +kernel⟩

end SiblingsCachedExample

end CamVerif.C02
