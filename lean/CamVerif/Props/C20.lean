/-
C20 — Emulated register memory enforces access rights and typed round trips.

Property theorems only; helper lemmas are in `CamVerif/Proofs/C20*.lean`.  All statements are
about `CamVerif.Model.Memory` (model of `impl/src/memory.rs`, `impl/src/bytes_io.rs` and of the
`#[memory]` / `#[register_map]` macro templates) and quantify over every memory state, address,
length, value, register position, width and build profile — nothing is bounded.
-/
import CamVerif.Proofs.C20Raw
import CamVerif.Proofs.C20Typed
import CamVerif.Proofs.C20BitField
import CamVerif.Proofs.C20Post
import CamVerif.Proofs.C20GenTie
namespace CamVerif.C20
open CamVerif CamVerif.Memory CamVerif.Memory.AccessRight CamVerif.Memory.MemoryProtection

/-! ## Access rights: a four-element lattice coded on two bits -/

/-- **meet_is_lattice_meet**: `meet` is commutative, associative, idempotent, has `RW` as unit
and is the bitwise AND of the 2-bit codes; readability/writability of a meet is the
conjunction. -/
theorem meet_is_lattice_meet (a b c : AccessRight) :
    a.meet b = b.meet a ∧ (a.meet b).meet c = a.meet (b.meet c) ∧ a.meet a = a ∧
    AccessRight.RW.meet a = a ∧ (a.meet b).asNum = a.asNum &&& b.asNum ∧
    (a.meet b).isReadable = (a.isReadable && b.isReadable) ∧
    (a.meet b).isWritable = (a.isWritable && b.isWritable) := by
  cases a <;> cases b <;> cases c <;> decide

/-- `as_num`/`from_num` are inverse on the four codes and `from_num` never panics (nor trips
its `debug_assert!`) on what `access_right` feeds it, in both profiles. -/
theorem from_num_total (p : Profile) (a : AccessRight) (x : BitVec 8) :
    AccessRight.fromNum p a.asNum = .ok a ∧
    ∃ r, AccessRight.fromNum p (x &&& 3#8) = .ok r ∧ r.asNum = x &&& 3#8 :=
  ⟨fromNum_asNum p a, fromNum_and3 p x⟩

example : AccessRight.RO.meet .WO = .NA ∧ AccessRight.RW.meet .WO = .WO := by decide

/-! ## Per-byte rights are independent cells; a range right is their meet -/

/-- **cells_independent**: for every protection vector (any size) and in-range cells `i`, `j`:
writing cell `i` succeeds, and reading cell `j` afterwards gives the written right if `i = j`
and the previous content of cell `j` otherwise.  (`capacity = 4 * inner.len() ≥ memory_size`.) -/
theorem cells_independent (p : Profile) (mp : MemoryProtection) (i j : Nat) (r : AccessRight)
    (hi : i < mp.capacity) (hj : j < mp.capacity) :
    ∃ mp' old, mp.setAccessRight i r = .ok mp' ∧ mp.accessRight p j = .ok old ∧
      mp'.accessRight p j = .ok (if i = j then r else old) ∧
      mp'.memorySize = mp.memorySize ∧ mp'.capacity = mp.capacity := by
  obtain ⟨mp', h1, hs, hl, hc⟩ := setAccessRight_ok mp i r hi
  have hcap : mp'.capacity = mp.capacity := by simp [capacity, hl]
  refine ⟨mp', mp.cell j, h1, accessRight_eq_cell p mp j hj, ?_, hs, hcap⟩
  rw [accessRight_eq_cell p mp' j (by omega), hc]

/-- out of the packed vector both accessors panic (index out of range) — never a wrong answer. -/
theorem cells_out_of_range (p : Profile) (mp : MemoryProtection) (i : Nat) (r : AccessRight)
    (hi : mp.capacity ≤ i) : mp.setAccessRight i r = .panic ∧ mp.accessRight p i = .panic :=
  ⟨setAccessRight_panic mp i r hi, accessRight_panic p mp i hi⟩

/-- a fresh protection has every cell `NA`, room for `memory_size` cells (and < 4 spare). -/
theorem cells_new (p : Profile) (n i : Nat) (hi : i < n) :
    (MemoryProtection.new n).accessRight p i = .ok .NA ∧ n ≤ (MemoryProtection.new n).capacity ∧
    (MemoryProtection.new n).capacity < n + 4 := by
  have := new_capacity n
  exact ⟨by rw [accessRight_eq_cell p _ i (by omega), new_cell], this.1, this.2⟩

/-- **range_right_is_fold**: the right of a range inside the vector is the meet of its cells
starting from `RW`; it is readable (writable) iff every cell of the range is. -/
theorem range_right_is_fold (p : Profile) (mp : MemoryProtection) (s e : Nat) (h : s ≤ e)
    (he : e ≤ mp.capacity) :
    ∃ r, mp.accessRightWithRange p s e = .ok r ∧ r = mp.meetCells .RW s (e - s) ∧
      (r.isReadable = true ↔ ∀ i, s ≤ i → i < e → (mp.cell i).isReadable = true) ∧
      (r.isWritable = true ↔ ∀ i, s ≤ i → i < e → (mp.cell i).isWritable = true) := by
  refine ⟨_, accessRange_inside p mp h he, rfl, ?_, ?_⟩
  · rw [meetCells_isReadable]
    constructor
    · exact fun h2 i h3 h4 => h2.2 i h3 (by omega)
    · exact fun h2 => ⟨by decide, fun i h3 h4 => h2 i h3 (by omega)⟩
  · rw [meetCells_isWritable]
    constructor
    · exact fun h2 i h3 h4 => h2.2 i h3 (by omega)
    · exact fun h2 => ⟨by decide, fun i h3 h4 => h2 i h3 (by omega)⟩

/-- setting the right of a range changes exactly the cells of the range. -/
theorem range_set_frame (mp : MemoryProtection) (s e : Nat) (r : AccessRight) (h : s ≤ e)
    (he : e ≤ mp.capacity) :
    ∃ mp', mp.setAccessRightWithRange s e r = .ok mp' ∧ mp'.memorySize = mp.memorySize ∧
      mp'.capacity = mp.capacity ∧
      ∀ j, mp'.cell j = if s ≤ j ∧ j < e then r else mp.cell j := by
  obtain ⟨mp', h1, h2, h3, h4⟩ := setAccessRightFrom_ok r mp s (e - s) (by omega)
  refine ⟨mp', by rw [setAccessRightWithRange, rangeCount_le h]; exact h1, h2, by simp [capacity, h3], ?_⟩
  intro j
  rw [h4]
  have : (s ≤ j ∧ j < s + (e - s)) ↔ (s ≤ j ∧ j < e) := by omega
  simp only [this]

/-- `verify_address(_with_range)`: ok iff the address (every address of the range) is below
`memory_size`; the only failure is `InvalidAddress`. -/
theorem verify_iff (mp : MemoryProtection) (a s e : Nat) :
    (mp.verifyAddress a = .ok () ↔ a < mp.memorySize) ∧
    (mp.verifyAddressWithRange s e = .ok () ↔ (e ≤ s ∨ e ≤ mp.memorySize)) ∧
    (mp.verifyAddressWithRange s e = .ok () ∨ mp.verifyAddressWithRange s e = .err .invalidAddress) := by
  refine ⟨?_, ?_, verifyFrom_cases _ _ _⟩
  · unfold verifyAddress; split <;> simp <;> omega
  · rw [verifyAddressWithRange, verifyFrom_ok]; unfold rangeCount; split <;> omega

example : ∃ mp, (MemoryProtection.new 5).setAccessRight 3 .WO = .ok mp ∧
    mp.accessRight .dev 3 = .ok .WO ∧ mp.accessRight .dev 2 = .ok .NA ∧ mp.capacity = 8 := by
  exact ⟨_, rfl, by decide, by decide, by decide⟩

/-! ## Raw access -/

/-- **raw_ok_iff (read)**: on a well-formed memory, `read_raw(s..e)` never panics; it succeeds
exactly when the whole range exists (`s ≤ e ≤ len`) and every byte of it is readable, returning
exactly those bytes; a range that does not exist gives `InvalidAddress` (checked first), an
unreadable byte `AddressNotReadable`. -/
theorem raw_read_ok_iff (p : Profile) (m : Mem) (hwf : m.WF) (s e : Nat) :
    (m.readRaw p s e = .ok ((m.raw.drop s).take (e - s)) ↔
      (s ≤ e ∧ e ≤ m.raw.length ∧ m.allReadable s e)) ∧
    (¬(s ≤ e ∧ e ≤ m.raw.length) → m.readRaw p s e = .err .invalidAddress) ∧
    (s ≤ e → e ≤ m.raw.length → ¬m.allReadable s e → m.readRaw p s e = .err .addressNotReadable) := by
  have key : s ≤ e → e ≤ m.raw.length →
      ((m.protection.meetCells .RW s (e - s)).isReadable = true ↔ m.allReadable s e) := by
    intro h he
    rw [meetCells_isReadable]
    unfold Mem.allReadable
    constructor
    · exact fun h2 i h3 h4 => h2.2 i h3 (by omega)
    · exact fun h2 => ⟨by decide, fun i h3 h4 => h2 i h3 (by omega)⟩
  refine ⟨⟨fun hok => ?_, fun ⟨h, he, hr⟩ => ?_⟩, fun hout => ?_, fun h he hr => ?_⟩
  · by_cases hin : s ≤ e ∧ e ≤ m.raw.length
    · refine ⟨hin.1, hin.2, ?_⟩
      rw [readRaw_inside p m hwf hin.1 hin.2] at hok
      by_cases hr : (m.protection.meetCells .RW s (e - s)).isReadable = true
      · exact (key hin.1 hin.2).mp hr
      · simp [hr] at hok
    · have : s > e ∨ e > m.raw.length := by omega
      simp [Mem.readRaw, this] at hok
  · rw [readRaw_inside p m hwf h he, if_pos ((key h he).mpr hr)]
  · have : s > e ∨ e > m.raw.length := by omega
    simp [Mem.readRaw, this]
  · rw [readRaw_inside p m hwf h he, if_neg (fun hc => hr ((key h he).mp hc))]

/-- **raw_ok_iff (write)**: `write_raw(addr, buf)` never panics; it succeeds exactly when
`addr + len` does not overflow, the whole range exists and every byte is writable.  On success
exactly the range is replaced by `buf` (protection and observers untouched) and the observers
fired are those of `notify_all(addr .. addr+len)`; every failure is an `Err` — `InvalidAddress`
first, then `AddressNotWritable`.  (That a failing call leaves the real memory untouched is NOT
a theorem: the model's result type carries no post-state on failure; it is checked on the
implementation by the harness after every call — see `partial`.) -/
theorem raw_write_ok_iff (p : Profile) (m : Mem) (hwf : m.WF) (addr : Nat) (buf : Bytes) :
    let inside := addr + buf.length < 2 ^ 64 ∧ addr + buf.length ≤ m.raw.length
    (inside → m.allWritable addr (addr + buf.length) →
      m.writeRaw p addr buf = .ok
        ({ m with raw := m.raw.take addr ++ buf ++ m.raw.drop (addr + buf.length) },
          m.notifyAll addr (addr + buf.length))) ∧
    (¬inside → m.writeRaw p addr buf = .err .invalidAddress) ∧
    (inside → ¬m.allWritable addr (addr + buf.length) →
      m.writeRaw p addr buf = .err .addressNotWritable) := by
  intro inside
  have key : (m.protection.meetCells .RW addr buf.length).isWritable = true ↔
      m.allWritable addr (addr + buf.length) := by
    rw [meetCells_isWritable]
    unfold Mem.allWritable
    exact ⟨fun h2 i h3 h4 => h2.2 i h3 h4, fun h2 => ⟨by decide, h2⟩⟩
  refine ⟨fun hin hw => ?_, fun hout => ?_, fun hin hw => ?_⟩
  · rw [writeRaw_inside p m hwf addr buf hin.2 hin.1, if_pos (key.mpr hw)]
  · by_cases h1 : addr + buf.length ≥ 2 ^ 64
    · simp [Mem.writeRaw, h1]
    · have h2 : addr + buf.length > m.raw.length := by
        simp only [inside] at hout; omega
      simp [Mem.writeRaw, h1, h2]
  · rw [writeRaw_inside p m hwf addr buf hin.2 hin.1, if_neg (fun hc => hw (key.mp hc))]

/-- a successful raw write keeps the invariant, the size, the protection and the observers, and
changes no byte outside `addr .. addr+len`. -/
theorem raw_write_frame (p : Profile) (m m' : Mem) (hwf : m.WF) (addr : Nat) (buf : Bytes)
    (fired : List Nat) (h : m.writeRaw p addr buf = .ok (m', fired)) :
    m'.WF ∧ m'.raw.length = m.raw.length ∧ m'.protection = m.protection ∧
    m'.observers = m.observers ∧ fired = m.notifyAll addr (addr + buf.length) ∧
    (∀ i, i < addr ∨ addr + buf.length ≤ i → m'.raw[i]? = m.raw[i]?) ∧
    (∀ i, i < buf.length → m'.raw[addr + i]? = buf[i]?) := by
  by_cases hin : addr + buf.length < 2 ^ 64 ∧ addr + buf.length ≤ m.raw.length
  · rw [writeRaw_inside p m hwf addr buf hin.2 hin.1] at h
    split at h
    · cases h
      have hlen : (m.raw.take addr ++ buf ++ m.raw.drop (addr + buf.length)).length = m.raw.length := by
        simp only [List.length_append, List.length_take, List.length_drop]; omega
      refine ⟨⟨by simp only [hlen]; exact hwf.size, by simp only [hlen]; exact hwf.cap⟩, hlen, rfl, rfl, rfl,
        fun i hi => ?_, fun i hi => ?_⟩
      · simp only
        rcases hi with hi | hi
        · rw [List.append_assoc, List.getElem?_append_left (by simp; omega), List.getElem?_take_of_lt hi]
        · rw [List.getElem?_append_right (by simp; omega)]
          simp only [List.length_append, List.length_take, List.getElem?_drop]
          congr 1; omega
      · simp only
        rw [List.append_assoc, List.getElem?_append_right (by simp; omega),
          List.getElem?_append_left (by simp; omega)]
        congr 1; simp; omega
    · cases h
  · have := (raw_write_ok_iff p m hwf addr buf).2.1 hin
    rw [this] at h; cases h

example : (Mem.mk [1, 2, 3, 4] ⟨[0xFF#8], 4⟩ [(1, 3)]).writeRaw .dev 2 [9, 9] =
    .ok (⟨[1, 2, 9, 9], ⟨[0xFF#8], 4⟩, [(1, 3)]⟩, [0]) := by decide

example : (Mem.mk [1, 2, 3, 4] ⟨[0xFF#8], 4⟩ []).readRaw .dev 5 5 = .err .invalidAddress ∧
    (Mem.mk [1, 2, 3, 4] ⟨[0xFF#8], 4⟩ []).readRaw .dev 4 4 = .ok [] ∧
    (Mem.mk [1, 2, 3, 4] ⟨[0xF3#8], 4⟩ []).readRaw .dev 0 2 = .err .addressNotReadable := by decide

/-! ## Observers -/

/-- **observers_fire_iff_overlap**: `notify_all(ws..we)` calls `update()` of observer `i`
(registration index) iff the written range and the observer's register range share at least
one byte; observers fire at most once each, in registration order. -/
theorem observers_fire_iff_overlap (m : Mem) (ws we i : Nat) :
    (i ∈ m.notifyAll ws we ↔
      ∃ h : i < m.observers.length, overlaps ws we (m.observers[i]).1 (m.observers[i]).2) ∧
    (m.notifyAll ws we).Pairwise (· < ·) := by
  refine ⟨?_, notifyFrom_sorted _ _ _ _⟩
  unfold Mem.notifyAll
  rw [mem_notifyFrom]
  constructor
  · rintro ⟨j, hj, h⟩; simp only [Nat.zero_add] at hj; subst hj; exact h
  · intro h; exact ⟨i, by simp, h⟩

/-- an empty write fires nothing, an observer on an empty register never fires. -/
theorem observers_empty_ranges (m : Mem) (a : Nat) :
    m.notifyAll a a = [] ∧
    ∀ ws we i (h : i < m.observers.length), (m.observers[i]).2 ≤ (m.observers[i]).1 →
      i ∉ m.notifyAll ws we := by
  constructor
  · apply List.eq_nil_iff_forall_not_mem.mpr
    intro i hi
    rw [(observers_fire_iff_overlap m a a i).1] at hi
    obtain ⟨_, x, h1, h2, _⟩ := hi; omega
  · intro ws we i h hemp hi
    rw [(observers_fire_iff_overlap m ws we i).1] at hi
    obtain ⟨_, x, _, _, h3, h4⟩ := hi; omega

/-- registering appends one observer watching exactly the register's range. -/
theorem observers_register {α} (m : Mem) (r : Register α) :
    (m.registerObserver r).observers = m.observers ++ [(r.address, r.address + r.length)] ∧
    (m.registerObserver r).raw = m.raw ∧ (m.registerObserver r).protection = m.protection :=
  ⟨rfl, rfl, rfl⟩

example : (Mem.mk [0, 0, 0, 0, 0, 0] ⟨[0#8, 0#8], 6⟩ [(0, 2), (2, 4), (3, 3)]).notifyAll 1 3 = [0, 1] ∧
    (Mem.mk [0, 0, 0, 0, 0, 0] ⟨[0#8, 0#8], 6⟩ [(0, 2), (2, 4)]).notifyAll 2 2 = [] := by decide

/-! ## Layout -/

/-- **layout**: the offsets the macro assigns (threading a running offset through the
declarations) are the specified ones — the explicit `offset = ..` if present, else `0` for the
first register and `previous offset + previous len` for the others; `ADDRESS = base + offset`;
without explicit offsets the registers are laid out back to back. -/
theorem layout (base : Nat) (ds : List RegDecl) (i : Nat) :
    (layoutAddresses base ds)[i]? = (specOffset 0 ds i).map (base + ·) ∧
    (layoutAddresses base ds).length = ds.length ∧
    ((∀ d ∈ ds, d.offset = none) → i < ds.length →
      (layoutAddresses base ds)[i]? = some (base + ((ds.take i).map (·.len)).sum)) := by
  refine ⟨by simp [layoutAddresses, layoutOffsets_spec], by simp [layoutAddresses, layoutOffsets_length], ?_⟩
  intro hno hi
  simp [layoutAddresses, layoutOffsets_contiguous 0 ds hno i hi]

/-- `size()` is the largest `offset + len` of the map and `memory_size` the largest
`base() + size()` of the fragments: every declared register lies inside the memory. -/
theorem layout_size (ds : List RegDecl) (sz : Nat) (h : mapSize ds = some sz)
    (frags : List Fragment) (n : Nat) (hn : memorySize frags = some n) :
    (∀ (i off : Nat) (d : RegDecl), (layoutOffsets 0 ds)[i]? = some off → ds[i]? = some d →
      off + d.len ≤ sz) ∧
    (∀ f ∈ frags, f.base + f.size ≤ n) ∧ (∃ f ∈ frags, n = f.size + f.base) := by
  have hs := maxFrom_spec _ _ h
  have hm := maxFrom_spec _ _ hn
  refine ⟨fun i off d h1 h2 => hs.2 _ ?_, fun f hf => ?_, ?_⟩
  · rw [List.mem_iff_getElem?]
    exact ⟨i, by simp [List.getElem?_zipWith, h1, h2]⟩
  · have := hm.2 (f.size + f.base) (List.mem_map.mpr ⟨f, hf, rfl⟩); omega
  · obtain ⟨f, hf, heq⟩ := List.mem_map.mp hm.1
    exact ⟨f, hf, heq.symm⟩

example : layoutAddresses 0x100 [⟨2, none⟩, ⟨2, none⟩, ⟨8, some 0x20⟩, ⟨1, none⟩, ⟨2, some 8⟩, ⟨2, none⟩] =
    [0x100, 0x102, 0x120, 0x128, 0x108, 0x10a] ∧
    mapSize [⟨2, none⟩, ⟨2, none⟩, ⟨8, some 0x20⟩, ⟨1, none⟩, ⟨2, some 8⟩, ⟨2, none⟩] = some 0x29 := by decide

/-! ## The representation invariant `Mem.WF` (hypothesis of the raw-access theorems) -/

/-- `new()` establishes the invariant (image and protection have the computed memory size, no
observers), and every call keeps it: typed writes of all templates keep the image length,
`set_access_right` keeps the protection's size, `register_observer` touches neither. -/
theorem wf_established_and_preserved :
    (∀ (frags : List Fragment) (m : Mem), (∀ f ∈ frags, ∀ r ∈ f.regs, r.LengthPreserving) →
      Mem.new frags = .ok m → m.WF ∧ memorySize frags = some m.raw.length ∧ m.observers = []) ∧
    (∀ {α} (address len : Nat) (ser : α → R Bytes) (v : α) (raw raw' : Bytes),
      defaultWrite address len ser v raw = .ok raw' → raw'.length = raw.length) ∧
    (∀ {w} (e : Endian) (sg : Bool) (lsb msb : Nat) (mn mx : Int) (address len : Nat) (data : BitVec w)
      (raw raw' : Bytes), bfWrite e sg w lsb msb mn mx address len data raw = .ok raw' →
      raw'.length = raw.length) ∧
    (∀ {α} (m m' : Mem) (r : Register α) (v : α) (fired : List Nat), m.WF →
      (∀ raw', r.write v m.raw = .ok raw' → raw'.length = m.raw.length) →
      m.write r v = .ok (m', fired) → m'.WF) ∧
    (∀ {α} (m m' : Mem) (r : Register α) (ar : AccessRight), m.WF →
      m.setAccessRight r ar = .ok m' → m'.WF ∧ m'.raw = m.raw ∧ m'.observers = m.observers) ∧
    (∀ {α} (m : Mem) (r : Register α), m.WF → (m.registerObserver r).WF) := by
  refine ⟨fun frags m hp h => new_wf frags m hp h, fun a l s v r r' h => defaultWrite_length a l s v r r' h,
    fun e sg l ms mn mx a len d r r' h => bfWrite_length e sg l ms mn mx a len d r r' h, ?_, ?_, ?_⟩
  · intro α m m' r v fired hwf hlen h
    unfold Mem.write at h
    split at h
    · cases h
    · cases h
    · next raw' hw =>
      cases h
      have := hlen raw' hw
      exact ⟨by simp only [this]; exact hwf.size, by simp only [this]; exact hwf.cap⟩
  · intro α m m' r ar hwf h
    unfold Mem.setAccessRight at h
    split at h
    · next pr hp =>
      cases h
      have := setAccessRightFrom_sizes _ _ _ _ _ hp
      exact ⟨⟨by simp only [this.1]; exact hwf.size, by simp only [capacity, this.2]; exact hwf.cap⟩, rfl, rfl⟩
    · cases h
    · cases h
  · intro α m r hwf
    exact ⟨hwf.size, hwf.cap⟩

/-! ## Typed registers: write then read returns the value -/

/-- **typed_roundtrip (scalars)**: for every primitive register type (`size` = 1, 2, 4, 8 bytes;
integers and floats as bit patterns), byte order, address and memory image in which the
register fits: the typed write succeeds, replaces exactly the register's bytes by the value's
little/big-endian image, fires `notify_all(range)`, leaves protection/observers alone, and the
typed read then returns the value.  (`len = size_of(ty)` — a well-formed declaration.) -/
theorem typed_roundtrip_scalar (e : Endian) (size address : Nat) (ar : AccessRight) (m : Mem)
    (v : BitVec (8 * size)) (hin : address + size ≤ m.raw.length) :
    let r := scalarReg e size address size ar
    let raw' := m.raw.take address ++ wordBytes e size v.toNat ++ m.raw.drop (address + size)
    m.write r v = .ok ({ m with raw := raw' }, m.notifyAll address (address + size)) ∧
    ({ m with raw := raw' } : Mem).read r = .ok v ∧ raw'.length = m.raw.length ∧
    (wordBytes e size v.toNat).length = size ∧
    ∀ i, i < address ∨ address + size ≤ i → raw'[i]? = m.raw[i]? := by
  intro r raw'
  obtain ⟨hs, hp⟩ := scalar_codec e size v
  obtain ⟨h1, h2, h3, h4⟩ := default_roundtrip address size ar (scalarParse e size)
    (scalarSerialize e size) v _ m.raw hs (wordBytes_length e size _) hp hin
  exact ⟨mem_write_ok m r v raw' h1, h2, h3, wordBytes_length e size _, h4⟩

/-- the two byte orders are each other's reverse, and the image is the value's base-256 digits. -/
theorem typed_scalar_image (size x : Nat) :
    wordBytes .BE size x = (wordBytes .LE size x).reverse ∧ fromLE (wordBytes .LE size x) = x % 256 ^ size :=
  ⟨rfl, fromLE_toLE size x⟩

/-- Full-strength string statement of the property (every ASCII string that fits reads back).
NOT proved: false for strings containing NUL (known finding F-C20-5, witness in
`CamVerif/Findings/C20.lean`); `typed_roundtrip_string_partial` excludes exactly those. -/
def C20_string_roundtrip_full_statement : Prop :=
  ∀ (len address : Nat) (ar : AccessRight) (m : Mem) (s : Bytes),
    address + len ≤ m.raw.length → isAscii s = true → s.length ≤ len →
    ∃ m' fired, m.write (strReg address len ar) s = .ok (m', fired) ∧
      m'.read (strReg address len ar) = .ok s

/-- **typed_roundtrip (strings)**: an ASCII string without NUL that fits the register is stored
NUL-padded to `len` bytes and read back unchanged; a non-ASCII or too long string is refused
with `InvalidRegisterData`.  Strings containing NUL are outside this theorem
(known finding F-C20-5: accepted, read back truncated). -/
theorem typed_roundtrip_string_partial (len address : Nat) (ar : AccessRight) (m : Mem) (s : Bytes)
    (hin : address + len ≤ m.raw.length) :
    let r := strReg address len ar
    (isAscii s = true → (∀ b ∈ s, b ≠ 0) → s.length ≤ len →
      let raw' := m.raw.take address ++ (s ++ List.replicate (len - s.length) 0) ++ m.raw.drop (address + len)
      m.write r s = .ok ({ m with raw := raw' }, m.notifyAll address (address + len)) ∧
      ({ m with raw := raw' } : Mem).read r = .ok s ∧
      ∀ i, i < address ∨ address + len ≤ i → raw'[i]? = m.raw[i]?) ∧
    (isAscii s = false ∨ len < s.length → m.write r s = .err .invalidRegisterData) := by
  intro r
  refine ⟨fun ha hn hl => ?_, fun hbad => ?_⟩
  · obtain ⟨d, hs, hd, hdeq, hp⟩ := str_codec len s ha hn hl
    obtain ⟨h1, h2, _, h4⟩ := default_roundtrip address len ar (strParse len) (strSerialize len) s d m.raw
      hs hd hp hin
    subst hdeq
    exact ⟨mem_write_ok m r s _ h1, h2, h4⟩
  · exact mem_write_err m r s _ (default_write_err address len _ s m.raw _ (str_refused len s hbad))

/-- **typed_roundtrip (bytes)**: exactly `len` bytes are stored verbatim and read back; any other
length is refused with `InvalidRegisterData`. -/
theorem typed_roundtrip_bytes (len address : Nat) (ar : AccessRight) (m : Mem) (b : Bytes)
    (hin : address + len ≤ m.raw.length) :
    let r := bytesReg address len ar
    (b.length = len →
      let raw' := m.raw.take address ++ b ++ m.raw.drop (address + len)
      m.write r b = .ok ({ m with raw := raw' }, m.notifyAll address (address + len)) ∧
      ({ m with raw := raw' } : Mem).read r = .ok b ∧
      ∀ i, i < address ∨ address + len ≤ i → raw'[i]? = m.raw[i]?) ∧
    (b.length ≠ len → m.write r b = .err .invalidRegisterData) := by
  intro r
  refine ⟨fun hl => ?_, fun hbad => ?_⟩
  · obtain ⟨hs, hp⟩ := bytes_codec len b hl
    obtain ⟨h1, h2, _, h4⟩ := default_roundtrip address len ar bytesParse (bytesSerialize len) b b m.raw
      hs hl hp hin
    exact ⟨mem_write_ok m r b _ h1, h2, h4⟩
  · exact mem_write_err m r b _ (default_write_err address len _ b m.raw _ (bytes_refused len b hbad))

example : (Mem.mk [0, 0, 0, 0, 0, 0] ⟨[0#8, 0#8], 6⟩ [(0, 4)]).write (scalarReg .BE 2 1 2 .RW) 0x1234#16 =
    .ok (⟨[0, 0x12, 0x34, 0, 0, 0], ⟨[0#8, 0#8], 6⟩, [(0, 4)]⟩, [0]) := by decide

example : (strReg 0 4 .RW).write [0x61, 0x62] [9, 9, 9, 9, 9] = .ok [0x61, 0x62, 0, 0, 9] ∧
    (strReg 0 4 .RW).read [0x61, 0x62, 0, 0, 9] = .ok [0x61, 0x62] ∧
    (strReg 0 4 .RW).write [0x61, 0, 0x62] [9, 9, 9, 9, 9] = .ok [0x61, 0, 0x62, 0, 9] ∧
    (strReg 0 4 .RW).read [0x61, 0, 0x62, 0, 9] = .ok [0x61] := by decide

/-! ## Bit fields -/

/-- **bitfield declaration**: which `BitField<ty, LSB = l, MSB = m>` literals the macro accepts
(`BitField::lsb/msb` normalisation + `BitField::verify`): little endian `l ≤ m < w`, big endian
(bit 0 = most significant) `m ≤ l < w`; the accepted ones have normalised positions
`lsb ≤ msb < w` — exactly the hypothesis of the theorems below — with `lsb = l`, `msb = m` (LE)
resp. `lsb = w-1-l`, `msb = w-1-m` (BE). -/
theorem bitfield_declaration (e : Endian) (w l m : Nat) :
    ((∃ lsb msb, bfNormalise e w l = some lsb ∧ bfNormalise e w m = some msb ∧ bfVerify w lsb msb = true) ↔
      (match e with
        | .LE => l ≤ m ∧ m < w
        | .BE => m ≤ l ∧ l < w)) ∧
    (∀ lsb msb, bfNormalise e w l = some lsb → bfNormalise e w m = some msb → bfVerify w lsb msb = true →
      lsb ≤ msb ∧ msb < w ∧
      (match e with
        | .LE => lsb = l ∧ msb = m
        | .BE => lsb = w - 1 - l ∧ msb = w - 1 - m)) := by
  cases e
  · simp only [bfNormalise, bfVerify, Option.some.injEq, Bool.and_eq_true, decide_eq_true_eq]
    exact ⟨⟨fun ⟨_, _, h1, h2, h3⟩ => by omega, fun h => ⟨l, m, rfl, rfl, h⟩⟩,
      fun lsb msb h1 h2 h3 => by omega⟩
  · simp only [bfNormalise, bfVerify, Bool.and_eq_true, decide_eq_true_eq]
    refine ⟨⟨fun ⟨lsb, msb, h1, h2, h3⟩ => ?_, fun h => ⟨w - l - 1, w - m - 1, ?_, ?_, ?_⟩⟩,
      fun lsb msb h1 h2 h3 => ?_⟩
    · split at h1 <;> split at h2 <;> simp at h1 h2 <;> omega
    · rw [if_pos (by omega)]
    · rw [if_pos (by omega)]
    · omega
    · split at h1 <;> split at h2 <;> simp at h1 h2 <;> omega

/-- **bitfield mask / range**: for every integer width, signedness and positions `lsb ≤ msb < w`
the generated `mask()` is exactly the bits `lsb..=msb`, the macro-time `min`/`max` (computed in
`i128`, cast `as ty`) are `-2^(width-1)`, `2^(width-1)-1` (signed) resp. `0`, `2^width-1`
(unsigned), and `masked_int` accepts exactly the integers of that range — including the 63 and
64 bit wide fields of 64-bit types (F-C20-3, repaired). -/
theorem bitfield_mask_and_range {w : Nat} (hw : IsIntWidth w) (sg : Bool) (lsb msb : Nat) (h : lsb ≤ msb)
    (hm : msb < w) (data : BitVec w) :
    bfMask sg w lsb msb = specMask w lsb msb ∧
    (∀ i, i < w → (bfMask sg w lsb msb).getLsbD i = (decide (lsb ≤ i) && decide (i ≤ msb))) ∧
    bfMin sg lsb msb = (if sg then -(2 : Int) ^ (msb - lsb) else 0) ∧
    bfMax sg lsb msb = (if sg then (2 : Int) ^ (msb - lsb) - 1 else (2 : Int) ^ (msb - lsb + 1) - 1) ∧
    (bfOutOfRange sg data (BitVec.ofInt w (bfMin sg lsb msb)) (BitVec.ofInt w (bfMax sg lsb msb)) = false ↔
      (if sg then bfMin sg lsb msb ≤ data.toInt ∧ data.toInt ≤ bfMax sg lsb msb
        else (data.toNat : Int) ≤ bfMax sg lsb msb)) := by
  have hmask := (bf_word hw sg lsb msb h hm _ _ rfl rfl 0#w data).1
  exact ⟨hmask, fun i hi => by rw [hmask, specMask_bit lsb msb i hm hi], by rw [bfMin], by rw [bfMax],
    oor_iff hw sg lsb msb h hm _ _ rfl rfl data⟩

/-- **bitfield_isolated_roundtrip** (widths 8/16/32/64, both signs, both byte orders, every
`lsb ≤ msb < w`, every old memory content, every in-range value): the typed write succeeds; the
register's word changes only inside the field (`new & !mask = old & !mask`, mask = bits
`lsb..=msb`), no byte outside the register changes, `notify_all(range)` fires, and the typed read
returns the value (sign-extended for signed types). -/
theorem bitfield_isolated_roundtrip {w : Nat} (hw : IsIntWidth w) (e : Endian) (sg : Bool) (lsb msb : Nat)
    (h : lsb ≤ msb) (hm : msb < w) (address : Nat) (ar : AccessRight) (m : Mem)
    (hin : address + w / 8 ≤ m.raw.length) (data : BitVec w)
    (hr : bfOutOfRange sg data (BitVec.ofInt w (bfMin sg lsb msb)) (BitVec.ofInt w (bfMax sg lsb msb)) = false) :
    let r := bfReg e sg w lsb msb (bfMin sg lsb msb) (bfMax sg lsb msb) address (w / 8) ar
    ∃ old new : BitVec w,
      readWord e (w / 8) ((m.raw.drop address).take (w / 8)) = .ok old.toNat ∧
      new &&& ~~~(specMask w lsb msb) = old &&& ~~~(specMask w lsb msb) ∧
      (let raw' := m.raw.take address ++ wordBytes e (w / 8) new.toNat ++ m.raw.drop (address + w / 8)
       m.write r data = .ok ({ m with raw := raw' }, m.notifyAll address (address + w / 8)) ∧
       ({ m with raw := raw' } : Mem).read r = .ok data ∧ raw'.length = m.raw.length ∧
       ∀ i, i < address ∨ address + w / 8 ≤ i → raw'[i]? = m.raw[i]?) := by
  intro r
  obtain ⟨old, new, raw', h1, h2, h3, h4, h5, h6, h7⟩ :=
    bf_mem hw e sg lsb msb h hm _ _ rfl rfl address ar m.raw hin data hr
  subst h3
  exact ⟨old, new, h1, h2, mem_write_ok m r data _ h4, h5, h6, h7⟩

/-- **bitfield_refuses_out_of_range**: a value outside `[min, max]` is refused with
`InvalidRegisterData` by `serialize` and by the typed write, whatever the memory holds (even if
the register did not fit): `masked_int` runs before the memory is looked at. -/
theorem bitfield_refuses_out_of_range {w : Nat} (e : Endian) (sg : Bool) (lsb msb : Nat) (mn mx : Int)
    (address len : Nat) (ar : AccessRight) (m : Mem) (data : BitVec w)
    (hr : bfOutOfRange sg data (BitVec.ofInt w mn) (BitVec.ofInt w mx) = true) :
    let r := bfReg e sg w lsb msb mn mx address len ar
    m.write r data = .err .invalidRegisterData ∧ r.serialize data = .err .invalidRegisterData := by
  intro r
  obtain ⟨h1, h2⟩ := bf_refused e sg lsb msb mn mx address len ar m.raw data hr
  exact ⟨mem_write_err m r data _ h1, h2⟩

-- i16 field bits 11..=15 over 0x07ff, write -1: only the top five bits change, reads back -1
example : (bfReg .LE true 16 11 15 (-16) 15 0 2 .RW).write 0xFFFF#16 [0xff, 0x07, 0xAA] = .ok [0xff, 0xff, 0xAA] ∧
    (bfReg .LE true 16 11 15 (-16) 15 0 2 .RW).read [0xff, 0xff, 0xAA] = .ok 0xFFFF#16 ∧
    (bfReg .LE true 16 11 15 (-16) 15 0 2 .RW).write 16#16 [0xff, 0x07, 0xAA] = .err .invalidRegisterData ∧
    bfMin true 11 15 = -16 ∧ bfMax true 11 15 = 15 ∧
    bfMax false 0 63 = 18446744073709551615 ∧ bfMin true 0 63 = -9223372036854775808 := by decide

/-! ## State after `new()` -/

/-- **declared rights and init values**: after `new()` the right of byte `i` is the `access =`
of the last register (fragment order, then declaration order) whose range covers `i`, and `NA`
where no register lies; and a typed read of a register declared `X = init` returns `init`,
provided no register initialised after it writes into its bytes (`KeepRange`) and its own
write/read round-trips (the typed round-trip theorems above). -/
theorem new_rights_and_inits (frags : List Fragment) (m : Mem) (h : Mem.new frags = .ok m) :
    (∀ n, memorySize frags = some n → (∀ f ∈ frags, ∀ r ∈ f.regs, r.address + r.length ≤ n) →
      ∀ i, m.protection.cell i = specRight (frags.flatMap (·.regs)) i .NA) ∧
    (∀ {α} (reg : Register α) (v : α) (pre post : List RegInit) (r : RegInit),
      frags.flatMap (·.regs) = pre ++ r :: post → r.init = some (reg.write v) →
      (∀ x x', reg.write v x = .ok x' → reg.read x' = .ok v) →
      KeepRange post reg.address reg.length → m.read reg = .ok v) :=
  ⟨fun n hn hin => new_cells frags m n hn hin h,
   fun reg v pre post r hs hr hrt hp => new_read_init frags m h reg v pre post r hs hr hrt hp⟩

example : specRight [⟨0, 4, .RW, none⟩, ⟨2, 2, .RO, none⟩, ⟨8, 0, .WO, none⟩] 3 .NA = .RO ∧
    specRight [⟨0, 4, .RW, none⟩, ⟨2, 2, .RO, none⟩, ⟨8, 0, .WO, none⟩] 1 .NA = .RW ∧
    specRight [⟨0, 4, .RW, none⟩, ⟨2, 2, .RO, none⟩, ⟨8, 0, .WO, none⟩] 8 .NA = .NA := by decide

example : ∃ m, Mem.new [⟨0, 4, [⟨0, 2, .RO, some ((scalarReg .LE 2 0 2 .RO).write 321#16)⟩, ⟨2, 2, .RW, none⟩]⟩] = .ok m ∧
    m.read (scalarReg .LE 2 0 2 .RO) = .ok 321#16 ∧ m.protection.cell 1 = .RO ∧ m.protection.cell 2 = .RW :=
  ⟨_, rfl, by decide, by decide, by decide⟩

/-! ## `&mut self` calls as total state transitions: a failing call changes nothing

`Mem.writeRawPost`, `Mem.writePost`, `Mem.setAccessRightPost` (what the driver runs) return the
memory AFTER the call in every outcome, the observers notified during the call and the outcome. -/

/-- **post_refines**: the total transitions agree with the result-only functions all theorems
above are about — same outcome, and on `Ok` the same new memory and fired observers — for raw
writes and for typed writes of every template instance (scalar, string, bytes, bit field; any
parameters, well-formed or not) and of every register whose statement-level `write` is coherent
with its result-only `write`. -/
theorem post_refines :
    (∀ (p : Profile) (m : Mem) (addr : Nat) (buf : Bytes),
      (m.writeRawPost p addr buf).toRes = m.writeRaw p addr buf) ∧
    (∀ {α} (m : Mem) (r : Register α) (v : α), r.Coherent → (m.writePost r v).toRes = m.write r v) ∧
    (∀ e size address len ar, (scalarReg e size address len ar).Coherent) ∧
    (∀ address len ar, (strReg address len ar).Coherent) ∧
    (∀ address len ar, (bytesReg address len ar).Coherent) ∧
    (∀ {w} e sg lsb msb mn mx address len ar, (bfReg (w := w) e sg lsb msb mn mx address len ar).Coherent) :=
  ⟨writeRawPost_toRes, fun m r v hc => writePost_toRes m r hc v, scalarReg_coherent, strReg_coherent,
    bytesReg_coherent, fun e sg lsb msb mn mx address len ar => bfReg_coherent e sg lsb msb mn mx address len ar⟩

/-- **err_leaves_state_unchanged (raw)**: for every memory state, address and buffer, a
`write_raw` that does not return `Ok` (any `Err`; the model also shows it cannot panic on a
well-formed memory) leaves the whole memory — raw bytes, every protection cell, the registered
observers — exactly as it was and notifies no observer. -/
theorem err_leaves_state_unchanged_raw (p : Profile) (m : Mem) (addr : Nat) (buf : Bytes)
    (h : ∀ u, (m.writeRawPost p addr buf).res ≠ .ok u) :
    let post := m.writeRawPost p addr buf
    post.mem = m ∧ post.fired = [] ∧ post.mem.raw = m.raw ∧
    (∀ i, post.mem.protection.cell i = m.protection.cell i) ∧ post.mem.observers = m.observers := by
  intro post
  obtain ⟨h1, h2⟩ := writeRawPost_fail p m addr buf h
  exact ⟨h1, h2, by rw [h1], fun i => by rw [h1], by rw [h1]⟩

/-- **err_leaves_state_unchanged (typed)**: for every memory state, every template instance —
numeric register of any size/byte order, `String`, `Bytes`, bit field of any width, sign,
position, min/max, at any address and with any `len` (mis-sized and out-of-memory declarations
included) — and every value: a typed `write::<T>` that does not return `Ok` (refused value, short
register, or a panic of the slice index / length assertion) leaves raw bytes, protection cells
and observers exactly as they were and notifies no observer.  The same for any register whose
statement-level `write` is coherent. -/
theorem err_leaves_state_unchanged_typed :
    (∀ {α} (m : Mem) (r : Register α) (v : α), r.Coherent → (∀ u, (m.writePost r v).res ≠ .ok u) →
      (m.writePost r v).mem = m ∧ (m.writePost r v).fired = []) ∧
    (∀ (m : Mem) e size address len ar (v : BitVec (8 * size)),
      (∀ u, (m.writePost (scalarReg e size address len ar) v).res ≠ .ok u) →
      (m.writePost (scalarReg e size address len ar) v).mem = m ∧
      (m.writePost (scalarReg e size address len ar) v).fired = []) ∧
    (∀ (m : Mem) address len ar (v : Bytes),
      (∀ u, (m.writePost (strReg address len ar) v).res ≠ .ok u) →
      (m.writePost (strReg address len ar) v).mem = m ∧ (m.writePost (strReg address len ar) v).fired = []) ∧
    (∀ (m : Mem) address len ar (v : Bytes),
      (∀ u, (m.writePost (bytesReg address len ar) v).res ≠ .ok u) →
      (m.writePost (bytesReg address len ar) v).mem = m ∧ (m.writePost (bytesReg address len ar) v).fired = []) ∧
    (∀ {w} (m : Mem) e sg lsb msb mn mx address len ar (v : BitVec w),
      (∀ u, (m.writePost (bfReg e sg w lsb msb mn mx address len ar) v).res ≠ .ok u) →
      (m.writePost (bfReg e sg w lsb msb mn mx address len ar) v).mem = m ∧
      (m.writePost (bfReg e sg w lsb msb mn mx address len ar) v).fired = []) :=
  ⟨fun m r v hc h => writePost_fail m r hc v h,
   fun m e size address len ar v h => writePost_fail m _ (scalarReg_coherent e size address len ar) v h,
   fun m address len ar v h => writePost_fail m _ (strReg_coherent address len ar) v h,
   fun m address len ar v h => writePost_fail m _ (bytesReg_coherent address len ar) v h,
   fun m e sg lsb msb mn mx address len ar v h =>
     writePost_fail m _ (bfReg_coherent e sg lsb msb mn mx address len ar) v h⟩

/-- **ok_notifies_exactly_overlapping**: a raw or typed write that returns `Ok` leaves protection
and registered observers untouched and notifies EXACTLY the observers whose register shares at
least one byte with the written range (`addr..addr+len` resp. `T::range()`), each once, in
registration order. -/
theorem ok_notifies_exactly_overlapping :
    (∀ (p : Profile) (m : Mem) (addr : Nat) (buf : Bytes), (m.writeRawPost p addr buf).res = .ok () →
      let post := m.writeRawPost p addr buf
      post.mem.protection = m.protection ∧ post.mem.observers = m.observers ∧
      post.fired.Pairwise (· < ·) ∧
      ∀ i, i ∈ post.fired ↔ ∃ h : i < m.observers.length,
        overlaps addr (addr + buf.length) (m.observers[i]).1 (m.observers[i]).2) ∧
    (∀ {α} (m : Mem) (r : Register α) (v : α), (m.writePost r v).res = .ok () →
      let post := m.writePost r v
      post.mem.protection = m.protection ∧ post.mem.observers = m.observers ∧
      post.mem.raw = (r.writeSt v m.raw).1 ∧ post.fired.Pairwise (· < ·) ∧
      ∀ i, i ∈ post.fired ↔ ∃ h : i < m.observers.length,
        overlaps r.address (r.address + r.length) (m.observers[i]).1 (m.observers[i]).2) := by
  refine ⟨fun p m addr buf h => ?_, fun m r v h => ?_⟩
  · obtain ⟨h1, h2, h3⟩ := writeRawPost_ok p m addr buf h
    have ho := observers_fire_iff_overlap m addr (addr + buf.length)
    exact ⟨h1, h2, by rw [h3]; exact (ho 0).2, fun i => by rw [h3]; exact (ho i).1⟩
  · obtain ⟨h1, h2, h3, h4⟩ := writePost_ok m r v h
    have ho := observers_fire_iff_overlap m r.address (r.address + r.length)
    exact ⟨h1, h2, h3, by rw [h4]; exact (ho 0).2, fun i => by rw [h4]; exact (ho i).1⟩

/-- **set_access_right as a total transition**: it never returns `Err`, never touches the raw
image or the observers and notifies nobody, in every outcome (also when the `for_each` panics on a
cell outside the packed vector: cells already written then stay written, sizes are kept); when the
register lies inside the protection vector it returns normally and changes exactly the cells of
the register's range. -/
theorem set_access_right_post {α} (m : Mem) (r : Register α) (ar : AccessRight) :
    let post := m.setAccessRightPost r ar
    post.mem.raw = m.raw ∧ post.mem.observers = m.observers ∧ post.fired = [] ∧
    (∀ e, post.res ≠ .err e) ∧
    post.mem.protection.memorySize = m.protection.memorySize ∧
    post.mem.protection.capacity = m.protection.capacity ∧
    (r.address + r.length ≤ m.protection.capacity →
      post.res = .ok () ∧ m.setAccessRight r ar = .ok post.mem ∧
      ∀ j, post.mem.protection.cell j =
        if r.address ≤ j ∧ j < r.address + r.length then ar else m.protection.cell j) := by
  intro post
  have hs := setRangeKeep_sizes ar m.protection r.address (rangeCount r.address r.rangeEnd)
  refine ⟨rfl, rfl, rfl, ?_, hs.1, congrArg (4 * ·) hs.2, fun hin => ?_⟩
  · intro e
    show (if _ then _ else _) ≠ _
    split <;> simp
  · obtain ⟨mp', h1, _, _, h4⟩ := range_set_frame m.protection r.address (r.address + r.length) ar
      (Nat.le_add_right _ _) hin
    have h1' : setAccessRightFrom ar m.protection r.address (rangeCount r.address r.rangeEnd) = .ok mp' := h1
    have hk := setRangeKeep_of_ok ar m.protection mp' r.address _ h1'
    have hpost : post = ⟨{ m with protection := mp' }, [], .ok ()⟩ := by
      show Mem.setAccessRightPost m r ar = _
      simp only [Mem.setAccessRightPost, hk, if_true]
    rw [hpost]
    refine ⟨rfl, ?_, h4⟩
    simp only [Mem.setAccessRight, Register.rangeEnd, h1]

-- a refused bit-field value / an unwritable byte, with an observer on the register: nothing changes
example :
    let m : Mem := ⟨[0xff, 0x07, 0xAA], ⟨[0x3F#8], 3⟩, [(0, 2)]⟩
    (m.writePost (bfReg .LE true 16 11 15 (-16) 15 0 2 .RW) 16#16).res = .err .invalidRegisterData ∧
    (m.writePost (bfReg .LE true 16 11 15 (-16) 15 0 2 .RW) 16#16).mem = m ∧
    (m.writePost (bfReg .LE true 16 11 15 (-16) 15 0 2 .RW) 16#16).fired = [] ∧
    (m.writePost (bfReg .LE true 16 11 15 (-16) 15 0 2 .RW) 0xFFFF#16).res = .ok () ∧
    (m.writePost (bfReg .LE true 16 11 15 (-16) 15 0 2 .RW) 0xFFFF#16).fired = [0] ∧
    (m.writeRawPost .dev 1 [9, 9]).res = .ok () ∧ (m.writeRawPost .dev 1 [9, 9]).fired = [0] ∧
    (m.writeRawPost .dev 2 [9, 9]).res = .err .invalidAddress ∧ (m.writeRawPost .dev 2 [9, 9]).mem = m ∧
    (m.setAccessRightPost (strReg 1 2 .RW) .RO).res = .ok () ∧
    (m.setAccessRightPost (strReg 1 2 .RW) .RO).mem.protection.cell 2 = .RO := by decide

/-- **later initialiser wins** (`new_rights_and_inits` without the `KeepRange` hypothesis, for
fixed-data initialisers): when every declared init value is stored by a fixed-data write over
its register (numeric, `String` and `Bytes` registers: `default_splices`; bit-field initialisers
are read-modify-write and not covered), registers may overlap arbitrarily and after `new()` every
byte holds the data byte of the LAST initialiser (fragment order, then declaration order) whose
register covers it, and 0 where none does. -/
theorem new_bytes_later_initialiser_wins (frags : List Fragment) (m : Mem) (h : Mem.new frags = .ok m)
    (rs : List (RegInit × Option Bytes)) (hrs : frags.flatMap (·.regs) = rs.map (·.1))
    (n : Nat) (hn : memorySize frags = some n)
    (hall : ∀ x ∈ rs, x.1.address + x.1.length ≤ n ∧
      (match x.2 with | none => x.1.init = none | some d => x.1.Splices d)) :
    m.raw.length = n ∧ (∀ i, i < n → m.raw[i]? = some (specByte rs i 0)) ∧
    (∀ {α} (address len : Nat) (acc : AccessRight) (ser : α → R Bytes) (v : α) (d : Bytes),
      ser v = .ok d → d.length = len →
      (⟨address, len, acc, some (defaultWrite address len ser v)⟩ : RegInit).Splices d) :=
  ⟨(new_bytes frags m h rs hrs n hn hall).1, (new_bytes frags m h rs hrs n hn hall).2,
    fun address len acc ser v d hs hd => default_splices address len acc ser v d hs hd⟩

-- u32 0xdeadbeef at 0, then bytes [1,2] over its middle: the later initialiser wins on bytes 1..3
example : specByte [(⟨0, 4, .RW, none⟩, some [0xef, 0xbe, 0xad, 0xde]), (⟨1, 2, .RO, none⟩, some [1, 2]),
      (⟨3, 0, .RW, none⟩, none)] 1 0 = 1 ∧
    specByte [(⟨0, 4, .RW, none⟩, some [0xef, 0xbe, 0xad, 0xde]), (⟨1, 2, .RO, none⟩, some [1, 2])] 3 0 = 0xde ∧
    (∃ m, Mem.new [⟨0, 4, [⟨0, 4, .RW, some ((scalarReg .LE 4 0 4 .RW).write 0xdeadbeef#32)⟩,
        ⟨1, 2, .RO, some ((bytesReg 1 2 .RO).write [1, 2])⟩]⟩] = .ok m ∧ m.raw = [0xef, 1, 2, 0xde]) :=
  ⟨by decide, by decide, _, rfl, by decide⟩

/-! ## Histories -/

private theorem step_invariants (p : Profile) (m : Mem) (hwf : m.WF) (c : Call) (hc : c.Fits m) :
    (m.step p c).1.WF ∧ (m.step p c).1.raw.length = m.raw.length ∧
    (m.step p c).1.protection.capacity = m.protection.capacity ∧
    (∀ j, (m.step p c).1.protection.cell j = histRight [c] j (m.protection.cell j)) ∧
    (m.step p c).1.observers = m.observers ++ histObservers [c] := by
  cases c with
  | writeRaw addr buf =>
    simp only [Mem.step, histRight, histObservers, List.foldl_cons, List.foldl_nil, List.filterMap_cons,
      List.filterMap_nil, List.append_nil]
    by_cases hok : (m.writeRawPost p addr buf).res = .ok ()
    · have h2 := writeRawPost_toRes p m addr buf
      simp only [Post.toRes, hok] at h2
      obtain ⟨h3, h4, h5, h6, _⟩ := raw_write_frame p m _ hwf addr buf _ h2.symm
      exact ⟨h3, h4, by rw [h5], fun j => by rw [h5], h6⟩
    · have hf := writeRawPost_fail p m addr buf (fun u => by cases u; exact hok)
      rw [hf.1]
      exact ⟨hwf, rfl, rfl, fun j => rfl, rfl⟩
  | write a l st =>
    simp only [Mem.step, histRight, histObservers, List.foldl_cons, List.foldl_nil, List.filterMap_cons,
      List.filterMap_nil, List.append_nil]
    obtain ⟨c1, c2, c3⟩ := writePost_cases m { rangeReg a l with writeSt := fun _ => st } ()
    have hl : (st m.raw).1.length = m.raw.length := hc m.raw
    have key : (m.writeCore a l st).mem = { m with raw := (st m.raw).1 } := by
      unfold Mem.writeCore
      cases hr : (st m.raw).2 with
      | ok u => cases u; rw [c1 hr]
      | err e => rw [c2 e hr]
      | panic => rw [c3 hr]
    rw [key]
    exact ⟨⟨by simp only [hl]; exact hwf.size, by simp only [hl]; exact hwf.cap⟩, hl, rfl, fun j => rfl, rfl⟩
  | setAccessRight a l ar =>
    simp only [Mem.step, histRight, histObservers, List.foldl_cons, List.foldl_nil, List.filterMap_cons,
      List.filterMap_nil, List.append_nil]
    obtain ⟨h1, h2, _, _, h5, h6, h7⟩ := set_access_right_post m (rangeReg a l) ar
    obtain ⟨_, _, h8⟩ := h7 hc
    refine ⟨⟨by rw [h5, h1]; exact hwf.size, by rw [h6, h1]; exact hwf.cap⟩, by rw [h1], h6, h8, h2⟩
  | registerObserver a l =>
    simp only [Mem.step, histRight, histObservers, List.foldl_cons, List.foldl_nil, List.filterMap_cons,
      List.filterMap_nil]
    exact ⟨⟨hwf.size, hwf.cap⟩, rfl, rfl, fun j => rfl, rfl⟩

private theorem fits_transfer (m m' : Mem) (h : m'.protection.capacity = m.protection.capacity) (c : Call)
    (hc : c.Fits m) : c.Fits m' := by
  cases c <;> simp only [Call.Fits] at hc ⊢
  · exact hc
  · rw [h]; exact hc

/-- **history_invariants** (all set_access_right / write / register_observer histories): for every
well-formed memory and every history of `&mut self` calls — raw writes with any arguments, typed
writes of registers whose `write` keeps the image length (every template does:
`wf_established_and_preserved`), `set_access_right` of registers inside the protection vector,
`register_observer` — in any order and with any outcomes (failing calls included): the invariant
`WF`, the image length and the protection capacity are kept; the right of every cell `j` at the
end is the right of the LAST `set_access_right` whose register covers `j` and the initial right
otherwise (independent cells along histories — writes never change rights); the observers are
the initial ones followed by the registered ones in order. -/
theorem history_invariants (p : Profile) (m : Mem) (hwf : m.WF) (cs : List Call) (hc : Fits m cs) :
    (Mem.run p m cs).1.WF ∧ (Mem.run p m cs).1.raw.length = m.raw.length ∧
    (Mem.run p m cs).1.protection.capacity = m.protection.capacity ∧
    (∀ j, (Mem.run p m cs).1.protection.cell j = histRight cs j (m.protection.cell j)) ∧
    (Mem.run p m cs).1.observers = m.observers ++ histObservers cs := by
  induction cs generalizing m with
  | nil => exact ⟨hwf, rfl, rfl, fun j => rfl, by simp [histObservers, Mem.run]⟩
  | cons c cs ih =>
    obtain ⟨s1, s2, s3, s4, s5⟩ := step_invariants p m hwf c (hc c (by simp))
    obtain ⟨r1, r2, r3, r4, r5⟩ := ih (m.step p c).1 s1
      (fun d hd => fits_transfer m _ s3 d (hc d (by simp [hd])))
    simp only [Mem.run]
    refine ⟨r1, by omega, by omega, fun j => ?_, ?_⟩
    · rw [r4, s4]; simp only [histRight, List.foldl_cons, List.foldl_nil]
    · rw [r5, s5]; simp only [histObservers, List.filterMap_cons, List.append_assoc]
      cases c <;> simp

example :
    let m : Mem := ⟨[1, 2, 3, 4], ⟨[0xFF#8], 4⟩, []⟩
    let cs : List Call := [.registerObserver 1 2, .setAccessRight 0 2 .RO, .writeRaw 0 [9], .writeRaw 2 [7, 8],
      .write 0 4 ((bytesReg 0 4 .RW).writeSt [5, 5]), .setAccessRight 1 2 .NA]
    Fits m cs ∧ (Mem.run .dev m cs).1.raw = [1, 2, 7, 8] ∧ (Mem.run .dev m cs).2 = [0] ∧
    (Mem.run .dev m cs).1.observers = [(1, 3)] ∧ (Mem.run .dev m cs).1.protection.cell 0 = .RO ∧
    (Mem.run .dev m cs).1.protection.cell 1 = .NA ∧ (Mem.run .dev m cs).1.protection.cell 3 = .RW ∧
    histRight cs 1 .RW = .NA := by
  refine ⟨?_, by decide, by decide, by decide, by decide, by decide, by decide, by decide⟩
  intro c hc
  simp only [List.mem_cons, List.not_mem_nil, or_false] at hc
  rcases hc with rfl | rfl | rfl | rfl | rfl | rfl <;> simp only [Call.Fits] <;> try decide
  intro raw
  show (defaultWriteSt 0 4 (bytesSerialize 4) [5, 5] raw).1.length = raw.length
  simp [defaultWriteSt, bytesSerialize]

/-- **gen_fn_tie** (tie by regeneration, function bodies): the Lean functions that `rs2lean`
re-translates from the CURRENT Rust source on every run (FnAccessRight) are equal, for every input and both
build profiles, to the hand-written model functions the theorems above are about. -/
theorem gen_fn_tie : CamVerif.Proofs.C20GenTie.GenTie := CamVerif.Proofs.C20GenTie.gen_tie

end CamVerif.C20
