/-
C20 — Emulated register memory enforces access rights and typed round trips.

Property theorems only; helper lemmas are in `CamVerif/Proofs/C20*.lean`.  All statements are
about `CamVerif.Model.Memory` (model of `impl/src/memory.rs`, `impl/src/bytes_io.rs` and of the
`#[memory]` / `#[register_map]` macro templates) and quantify over every memory state, address,
length, value, register position, width and build profile — nothing is bounded.
-/
import CamVerif.Proofs.C20Raw
import CamVerif.Proofs.C20Typed
import CamVerif.Proofs.C20BitField
namespace CamVerif.C20
open CamVerif CamVerif.Memory CamVerif.Memory.AccessRight CamVerif.Memory.MemoryProtection

/-! ## Access rights: a four-element lattice coded on two bits -/

/-- **meet_is_lattice_meet**: `meet` is commutative, associative, idempotent, has `RW` as unit
and is the bitwise AND of the 2-bit codes; readability/writability of a meet is the
conjunction. -/
theorem meet_is_lattice_meet (a b c : AccessRight) :
    a.meet b = b.meet a ∧ (a.meet b).meet c = a.meet (b.meet c) ∧ a.meet a = a ∧
    AccessRight.RW.meet a = a ∧ (a.meet b).asNum = a.asNum &&& b.asNum ∧
    (a.meet b).isReadable = (a.isReadable && b.isReadable) ∧
    (a.meet b).isWritable = (a.isWritable && b.isWritable) := by
  cases a <;> cases b <;> cases c <;> decide

/-- `as_num`/`from_num` are inverse on the four codes and `from_num` never panics (nor trips
its `debug_assert!`) on what `access_right` feeds it, in both profiles. -/
theorem from_num_total (p : Profile) (a : AccessRight) (x : BitVec 8) :
    AccessRight.fromNum p a.asNum = .ok a ∧
    ∃ r, AccessRight.fromNum p (x &&& 3#8) = .ok r ∧ r.asNum = x &&& 3#8 :=
  ⟨fromNum_asNum p a, fromNum_and3 p x⟩

example : AccessRight.RO.meet .WO = .NA ∧ AccessRight.RW.meet .WO = .WO := by decide

/-! ## Per-byte rights are independent cells; a range right is their meet -/

/-- **cells_independent**: for every protection vector (any size) and in-range cells `i`, `j`:
writing cell `i` succeeds, and reading cell `j` afterwards gives the written right if `i = j`
and the previous content of cell `j` otherwise.  (`capacity = 4 * inner.len() ≥ memory_size`.) -/
theorem cells_independent (p : Profile) (mp : MemoryProtection) (i j : Nat) (r : AccessRight)
    (hi : i < mp.capacity) (hj : j < mp.capacity) :
    ∃ mp' old, mp.setAccessRight i r = .ok mp' ∧ mp.accessRight p j = .ok old ∧
      mp'.accessRight p j = .ok (if i = j then r else old) ∧
      mp'.memorySize = mp.memorySize ∧ mp'.capacity = mp.capacity := by
  obtain ⟨mp', h1, hs, hl, hc⟩ := setAccessRight_ok mp i r hi
  have hcap : mp'.capacity = mp.capacity := by simp [capacity, hl]
  refine ⟨mp', mp.cell j, h1, accessRight_eq_cell p mp j hj, ?_, hs, hcap⟩
  rw [accessRight_eq_cell p mp' j (by omega), hc]

/-- out of the packed vector both accessors panic (index out of range) — never a wrong answer. -/
theorem cells_out_of_range (p : Profile) (mp : MemoryProtection) (i : Nat) (r : AccessRight)
    (hi : mp.capacity ≤ i) : mp.setAccessRight i r = .panic ∧ mp.accessRight p i = .panic :=
  ⟨setAccessRight_panic mp i r hi, accessRight_panic p mp i hi⟩

/-- a fresh protection has every cell `NA`, room for `memory_size` cells (and < 4 spare). -/
theorem cells_new (p : Profile) (n i : Nat) (hi : i < n) :
    (MemoryProtection.new n).accessRight p i = .ok .NA ∧ n ≤ (MemoryProtection.new n).capacity ∧
    (MemoryProtection.new n).capacity < n + 4 := by
  have := new_capacity n
  exact ⟨by rw [accessRight_eq_cell p _ i (by omega), new_cell], this.1, this.2⟩

/-- **range_right_is_fold**: the right of a range inside the vector is the meet of its cells
starting from `RW`; it is readable (writable) iff every cell of the range is. -/
theorem range_right_is_fold (p : Profile) (mp : MemoryProtection) (s e : Nat) (h : s ≤ e)
    (he : e ≤ mp.capacity) :
    ∃ r, mp.accessRightWithRange p s e = .ok r ∧ r = mp.meetCells .RW s (e - s) ∧
      (r.isReadable = true ↔ ∀ i, s ≤ i → i < e → (mp.cell i).isReadable = true) ∧
      (r.isWritable = true ↔ ∀ i, s ≤ i → i < e → (mp.cell i).isWritable = true) := by
  refine ⟨_, accessRange_inside p mp h he, rfl, ?_, ?_⟩
  · rw [meetCells_isReadable]
    constructor
    · exact fun h2 i h3 h4 => h2.2 i h3 (by omega)
    · exact fun h2 => ⟨by decide, fun i h3 h4 => h2 i h3 (by omega)⟩
  · rw [meetCells_isWritable]
    constructor
    · exact fun h2 i h3 h4 => h2.2 i h3 (by omega)
    · exact fun h2 => ⟨by decide, fun i h3 h4 => h2 i h3 (by omega)⟩

/-- setting the right of a range changes exactly the cells of the range. -/
theorem range_set_frame (mp : MemoryProtection) (s e : Nat) (r : AccessRight) (h : s ≤ e)
    (he : e ≤ mp.capacity) :
    ∃ mp', mp.setAccessRightWithRange s e r = .ok mp' ∧ mp'.memorySize = mp.memorySize ∧
      mp'.capacity = mp.capacity ∧
      ∀ j, mp'.cell j = if s ≤ j ∧ j < e then r else mp.cell j := by
  obtain ⟨mp', h1, h2, h3, h4⟩ := setAccessRightFrom_ok r mp s (e - s) (by omega)
  refine ⟨mp', by rw [setAccessRightWithRange, rangeCount_le h]; exact h1, h2, by simp [capacity, h3], ?_⟩
  intro j
  rw [h4]
  have : (s ≤ j ∧ j < s + (e - s)) ↔ (s ≤ j ∧ j < e) := by omega
  simp only [this]

/-- `verify_address(_with_range)`: ok iff the address (every address of the range) is below
`memory_size`; the only failure is `InvalidAddress`. -/
theorem verify_iff (mp : MemoryProtection) (a s e : Nat) :
    (mp.verifyAddress a = .ok () ↔ a < mp.memorySize) ∧
    (mp.verifyAddressWithRange s e = .ok () ↔ (e ≤ s ∨ e ≤ mp.memorySize)) ∧
    (mp.verifyAddressWithRange s e = .ok () ∨ mp.verifyAddressWithRange s e = .err .invalidAddress) := by
  refine ⟨?_, ?_, verifyFrom_cases _ _ _⟩
  · unfold verifyAddress; split <;> simp <;> omega
  · rw [verifyAddressWithRange, verifyFrom_ok]; unfold rangeCount; split <;> omega

example : ∃ mp, (MemoryProtection.new 5).setAccessRight 3 .WO = .ok mp ∧
    mp.accessRight .dev 3 = .ok .WO ∧ mp.accessRight .dev 2 = .ok .NA ∧ mp.capacity = 8 := by
  exact ⟨_, rfl, by decide, by decide, by decide⟩

/-! ## Raw access -/

/-- **raw_ok_iff (read)**: on a well-formed memory, `read_raw(s..e)` never panics; it succeeds
exactly when the whole range exists (`s ≤ e ≤ len`) and every byte of it is readable, returning
exactly those bytes; a range that does not exist gives `InvalidAddress` (checked first), an
unreadable byte `AddressNotReadable`. -/
theorem raw_read_ok_iff (p : Profile) (m : Mem) (hwf : m.WF) (s e : Nat) :
    (m.readRaw p s e = .ok ((m.raw.drop s).take (e - s)) ↔
      (s ≤ e ∧ e ≤ m.raw.length ∧ m.allReadable s e)) ∧
    (¬(s ≤ e ∧ e ≤ m.raw.length) → m.readRaw p s e = .err .invalidAddress) ∧
    (s ≤ e → e ≤ m.raw.length → ¬m.allReadable s e → m.readRaw p s e = .err .addressNotReadable) := by
  have key : s ≤ e → e ≤ m.raw.length →
      ((m.protection.meetCells .RW s (e - s)).isReadable = true ↔ m.allReadable s e) := by
    intro h he
    rw [meetCells_isReadable]
    unfold Mem.allReadable
    constructor
    · exact fun h2 i h3 h4 => h2.2 i h3 (by omega)
    · exact fun h2 => ⟨by decide, fun i h3 h4 => h2 i h3 (by omega)⟩
  refine ⟨⟨fun hok => ?_, fun ⟨h, he, hr⟩ => ?_⟩, fun hout => ?_, fun h he hr => ?_⟩
  · by_cases hin : s ≤ e ∧ e ≤ m.raw.length
    · refine ⟨hin.1, hin.2, ?_⟩
      rw [readRaw_inside p m hwf hin.1 hin.2] at hok
      by_cases hr : (m.protection.meetCells .RW s (e - s)).isReadable = true
      · exact (key hin.1 hin.2).mp hr
      · simp [hr] at hok
    · have : s > e ∨ e > m.raw.length := by omega
      simp [Mem.readRaw, this] at hok
  · rw [readRaw_inside p m hwf h he, if_pos ((key h he).mpr hr)]
  · have : s > e ∨ e > m.raw.length := by omega
    simp [Mem.readRaw, this]
  · rw [readRaw_inside p m hwf h he, if_neg (fun hc => hr ((key h he).mp hc))]

/-- **raw_ok_iff (write)**: `write_raw(addr, buf)` never panics; it succeeds exactly when
`addr + len` does not overflow, the whole range exists and every byte is writable.  On success
exactly the range is replaced by `buf` (protection and observers untouched) and the observers
fired are those of `notify_all(addr .. addr+len)`; every failure is an `Err` — `InvalidAddress`
first, then `AddressNotWritable` — and (next theorem) leaves the memory as it was. -/
theorem raw_write_ok_iff (p : Profile) (m : Mem) (hwf : m.WF) (addr : Nat) (buf : Bytes) :
    let inside := addr + buf.length < 2 ^ 64 ∧ addr + buf.length ≤ m.raw.length
    (inside → m.allWritable addr (addr + buf.length) →
      m.writeRaw p addr buf = .ok
        ({ m with raw := m.raw.take addr ++ buf ++ m.raw.drop (addr + buf.length) },
          m.notifyAll addr (addr + buf.length))) ∧
    (¬inside → m.writeRaw p addr buf = .err .invalidAddress) ∧
    (inside → ¬m.allWritable addr (addr + buf.length) →
      m.writeRaw p addr buf = .err .addressNotWritable) := by
  intro inside
  have key : (m.protection.meetCells .RW addr buf.length).isWritable = true ↔
      m.allWritable addr (addr + buf.length) := by
    rw [meetCells_isWritable]
    unfold Mem.allWritable
    exact ⟨fun h2 i h3 h4 => h2.2 i h3 h4, fun h2 => ⟨by decide, h2⟩⟩
  refine ⟨fun hin hw => ?_, fun hout => ?_, fun hin hw => ?_⟩
  · rw [writeRaw_inside p m hwf addr buf hin.2 hin.1, if_pos (key.mpr hw)]
  · by_cases h1 : addr + buf.length ≥ 2 ^ 64
    · simp [Mem.writeRaw, h1]
    · have h2 : addr + buf.length > m.raw.length := by
        simp only [inside] at hout; omega
      simp [Mem.writeRaw, h1, h2]
  · rw [writeRaw_inside p m hwf addr buf hin.2 hin.1, if_neg (fun hc => hw (key.mp hc))]

/-- a successful raw write keeps the invariant, the size, the protection and the observers, and
changes no byte outside `addr .. addr+len`. -/
theorem raw_write_frame (p : Profile) (m m' : Mem) (hwf : m.WF) (addr : Nat) (buf : Bytes)
    (fired : List Nat) (h : m.writeRaw p addr buf = .ok (m', fired)) :
    m'.WF ∧ m'.raw.length = m.raw.length ∧ m'.protection = m.protection ∧
    m'.observers = m.observers ∧ fired = m.notifyAll addr (addr + buf.length) ∧
    (∀ i, i < addr ∨ addr + buf.length ≤ i → m'.raw[i]? = m.raw[i]?) ∧
    (∀ i, i < buf.length → m'.raw[addr + i]? = buf[i]?) := by
  by_cases hin : addr + buf.length < 2 ^ 64 ∧ addr + buf.length ≤ m.raw.length
  · rw [writeRaw_inside p m hwf addr buf hin.2 hin.1] at h
    split at h
    · cases h
      have hlen : (m.raw.take addr ++ buf ++ m.raw.drop (addr + buf.length)).length = m.raw.length := by
        simp only [List.length_append, List.length_take, List.length_drop]; omega
      refine ⟨⟨by simp only [hlen]; exact hwf.size, by simp only [hlen]; exact hwf.cap⟩, hlen, rfl, rfl, rfl,
        fun i hi => ?_, fun i hi => ?_⟩
      · simp only
        rcases hi with hi | hi
        · rw [List.append_assoc, List.getElem?_append_left (by simp; omega), List.getElem?_take_of_lt hi]
        · rw [List.getElem?_append_right (by simp; omega)]
          simp only [List.length_append, List.length_take, List.getElem?_drop]
          congr 1; omega
      · simp only
        rw [List.append_assoc, List.getElem?_append_right (by simp; omega),
          List.getElem?_append_left (by simp; omega)]
        congr 1; simp; omega
    · cases h
  · have := (raw_write_ok_iff p m hwf addr buf).2.1 hin
    rw [this] at h; cases h

/-- **on error memory unchanged and no observer fired**: the state transition of a failing
`write_raw` call is the identity and its fired list is empty. -/
theorem raw_write_err_unchanged (p : Profile) (m : Mem) (addr : Nat) (buf : Bytes)
    (h : ∀ r, m.writeRaw p addr buf ≠ .ok r) :
    m.afterWrite (m.writeRaw p addr buf) = (m, []) := by
  unfold Mem.afterWrite
  split
  · next m' fired heq => exact absurd heq (h _)
  · rfl

example : (Mem.mk [1, 2, 3, 4] ⟨[0xFF#8], 4⟩ [(1, 3)]).writeRaw .dev 2 [9, 9] =
    .ok (⟨[1, 2, 9, 9], ⟨[0xFF#8], 4⟩, [(1, 3)]⟩, [0]) := by decide

example : (Mem.mk [1, 2, 3, 4] ⟨[0xFF#8], 4⟩ []).readRaw .dev 5 5 = .err .invalidAddress ∧
    (Mem.mk [1, 2, 3, 4] ⟨[0xFF#8], 4⟩ []).readRaw .dev 4 4 = .ok [] ∧
    (Mem.mk [1, 2, 3, 4] ⟨[0xF3#8], 4⟩ []).readRaw .dev 0 2 = .err .addressNotReadable := by decide

/-! ## Observers -/

/-- **observers_fire_iff_overlap**: `notify_all(ws..we)` calls `update()` of observer `i`
(registration index) iff the written range and the observer's register range share at least
one byte; observers fire at most once each, in registration order. -/
theorem observers_fire_iff_overlap (m : Mem) (ws we i : Nat) :
    (i ∈ m.notifyAll ws we ↔
      ∃ h : i < m.observers.length, overlaps ws we (m.observers[i]).1 (m.observers[i]).2) ∧
    (m.notifyAll ws we).Pairwise (· < ·) := by
  refine ⟨?_, notifyFrom_sorted _ _ _ _⟩
  unfold Mem.notifyAll
  rw [mem_notifyFrom]
  constructor
  · rintro ⟨j, hj, h⟩; simp only [Nat.zero_add] at hj; subst hj; exact h
  · intro h; exact ⟨i, by simp, h⟩

/-- an empty write fires nothing, an observer on an empty register never fires. -/
theorem observers_empty_ranges (m : Mem) (a : Nat) :
    m.notifyAll a a = [] ∧
    ∀ ws we i (h : i < m.observers.length), (m.observers[i]).2 ≤ (m.observers[i]).1 →
      i ∉ m.notifyAll ws we := by
  constructor
  · apply List.eq_nil_iff_forall_not_mem.mpr
    intro i hi
    rw [(observers_fire_iff_overlap m a a i).1] at hi
    obtain ⟨_, x, h1, h2, _⟩ := hi; omega
  · intro ws we i h hemp hi
    rw [(observers_fire_iff_overlap m ws we i).1] at hi
    obtain ⟨_, x, _, _, h3, h4⟩ := hi; omega

/-- registering appends one observer watching exactly the register's range. -/
theorem observers_register {α} (m : Mem) (r : Register α) :
    (m.registerObserver r).observers = m.observers ++ [(r.address, r.address + r.length)] ∧
    (m.registerObserver r).raw = m.raw ∧ (m.registerObserver r).protection = m.protection :=
  ⟨rfl, rfl, rfl⟩

example : (Mem.mk [0, 0, 0, 0, 0, 0] ⟨[0#8, 0#8], 6⟩ [(0, 2), (2, 4), (3, 3)]).notifyAll 1 3 = [0, 1] ∧
    (Mem.mk [0, 0, 0, 0, 0, 0] ⟨[0#8, 0#8], 6⟩ [(0, 2), (2, 4)]).notifyAll 2 2 = [] := by decide

/-! ## Layout -/

/-- **layout**: the offsets the macro assigns (threading a running offset through the
declarations) are the specified ones — the explicit `offset = ..` if present, else `0` for the
first register and `previous offset + previous len` for the others; `ADDRESS = base + offset`;
without explicit offsets the registers are laid out back to back. -/
theorem layout (base : Nat) (ds : List RegDecl) (i : Nat) :
    (layoutAddresses base ds)[i]? = (specOffset 0 ds i).map (base + ·) ∧
    (layoutAddresses base ds).length = ds.length ∧
    ((∀ d ∈ ds, d.offset = none) → i < ds.length →
      (layoutAddresses base ds)[i]? = some (base + ((ds.take i).map (·.len)).sum)) := by
  refine ⟨by simp [layoutAddresses, layoutOffsets_spec], by simp [layoutAddresses, layoutOffsets_length], ?_⟩
  intro hno hi
  simp [layoutAddresses, layoutOffsets_contiguous 0 ds hno i hi]

/-- `size()` is the largest `offset + len` of the map and `memory_size` the largest
`base() + size()` of the fragments: every declared register lies inside the memory. -/
theorem layout_size (ds : List RegDecl) (sz : Nat) (h : mapSize ds = some sz)
    (frags : List Fragment) (n : Nat) (hn : memorySize frags = some n) :
    (∀ (i off : Nat) (d : RegDecl), (layoutOffsets 0 ds)[i]? = some off → ds[i]? = some d →
      off + d.len ≤ sz) ∧
    (∀ f ∈ frags, f.base + f.size ≤ n) ∧ (∃ f ∈ frags, n = f.size + f.base) := by
  have hs := maxFrom_spec _ _ h
  have hm := maxFrom_spec _ _ hn
  refine ⟨fun i off d h1 h2 => hs.2 _ ?_, fun f hf => ?_, ?_⟩
  · rw [List.mem_iff_getElem?]
    exact ⟨i, by simp [List.getElem?_zipWith, h1, h2]⟩
  · have := hm.2 (f.size + f.base) (List.mem_map.mpr ⟨f, hf, rfl⟩); omega
  · obtain ⟨f, hf, heq⟩ := List.mem_map.mp hm.1
    exact ⟨f, hf, heq.symm⟩

example : layoutAddresses 0x100 [⟨2, none⟩, ⟨2, none⟩, ⟨8, some 0x20⟩, ⟨1, none⟩, ⟨2, some 8⟩, ⟨2, none⟩] =
    [0x100, 0x102, 0x120, 0x128, 0x108, 0x10a] ∧
    mapSize [⟨2, none⟩, ⟨2, none⟩, ⟨8, some 0x20⟩, ⟨1, none⟩, ⟨2, some 8⟩, ⟨2, none⟩] = some 0x29 := by decide

end CamVerif.C20
