/-
C06 — Device memory transfers are exact for any size under any negotiated limits.

Property theorems only (helper lemmas: `Proofs/C06.lean`, `Proofs/C06Ops.lean`).

Everything is quantified over: every transport `dev` with state type `σ` that is a
`Spec.Conf.Conforming` device (any memory type, any limits, any pending plan below the retry
count, any announced pending timeout), every handle state (any request id, any buffer
length, any retry count), every address / length / data with `a + n ≤ 2^64`, both build
profiles.  Nothing is bounded.

Vocabulary (defined in `Proofs/`): `runEvents plan ms t steps ⟨id, bufLen, txn⟩` is the
chronological wire log of a run of transactions (`txnEvents`: the command, then per pending
acknowledge a receive + sleep, then the final receive); `readChunkList` / `writeChunkList`
are the chunk commands; `wireIds`, `sentOf` project a log to the request ids / command
packets on the wire.
-/
import CamVerif.Proofs.C06Ops
import CamVerif.Proofs.C06Open
namespace CamVerif.C06
open CamVerif CamVerif.Control CamVerif.Spec.Conf
open CamVerif.Spec.GenCP (decodeCmd CmdFields CmdBody)

variable {σ M : Type} [MemLike M] {dev : Dev σ} {view : σ → View M} {lim : Limits}
  {plan : Nat → Nat} {ms : Nat}

/-- Hypotheses shared by the C06 theorems: the handle is open, has negotiated the device's
limits, its request id is a u16, and every pending count of the plan is below the retry
count. -/
structure Ready {M : Type} (view : σ → View M) (s : St σ) (lim : Limits) (plan : Nat → Nat)
    (ms : Nat) : Prop where
  /-- the device has nothing queued for the host (no unfetched acknowledge of an earlier,
  abandoned command; for that situation see C07 `usable_after_error`) -/
  queue_empty : (view s.d).queue = []
  opened : s.h.opened = true
  maxCmd : s.h.cfg.maxCmd = lim.maxCmd
  maxAck : s.h.cfg.maxAck = lim.maxAck
  id16 : s.h.nextReqId < 2 ^ 16
  ms16 : ms < 2 ^ 16
  plan_lt_retry : ∀ i, plan i < s.h.cfg.retry

/-- chunk size of `read`: `maximum_read_length(maxAck)` -/
def readChunk (lim : Limits) : Nat := min (lim.maxAck - 12) 65535

/-- the transactions of `read(a, n)` -/
def readSteps (mem : M) (lim : Limits) (a n : Nat) : List Step :=
  (readChunkList (readChunk lim) a (n + 1) 0 n).map (readStep mem)

/-- the transactions of `write(a, data)` -/
def writeSteps (p : Profile) (lim : Limits) (a : Nat) (data : Bytes) : List Step :=
  (writeChunkList p a lim.maxCmd (data.length + 1) 0 data).map writeStep

/-! ## 1. read_exact -/

/-- **read_exact**: against any conforming device, for every address and length with
`a + n ≤ 2^64`, every negotiated `maxCmd ≥ 24` (a ReadMem command is 24 bytes) and
`maxAck > 12`, every pending plan below the retry count and every initial request id,
`read(a, n)` returns exactly device memory `[a, a+n)`, leaves the device memory unchanged,
the handle open with the same configuration, and the wire log is exactly the run of the
read's chunk transactions. -/
theorem read_exact (hc : Conforming dev view lim plan ms) (p : Profile) (s : St σ) (a n : Nat)
    (hr : Ready view s lim plan ms) (hsp : a + n ≤ 2 ^ 64) (hn : n < 2 ^ 64)
    (hcmd : 24 ≤ lim.maxCmd) (hack : 12 < lim.maxAck) :
    ∃ s', Control.read dev p s a n = (s', .ok (readRange (view s.d).mem a n)) ∧
      (view s'.d).mem = (view s.d).mem ∧ s'.h.cfg = s.h.cfg ∧ s'.h.opened = true ∧
      (view s'.d).queue = [] ∧
      s'.logRev = (runEvents plan ms s.h.cfg.xfer (readSteps (view s.d).mem lim a n)
          ⟨s.h.nextReqId, s.h.bufLen, (view s.d).txn⟩).1.reverse ++ s.logRev ∧
      (⟨s'.h.nextReqId, s'.h.bufLen, (view s'.d).txn⟩ : Prog) =
        (runEvents plan ms s.h.cfg.xfer (readSteps (view s.d).mem lim a n)
          ⟨s.h.nextReqId, s.h.bufLen, (view s.d).txn⟩).2 := by
  have hm : Cmd.maximumReadLength p lim.maxAck = .ok (readChunk lim) := by
    rw [C10.maximumReadLength_ok p lim.maxAck (by simp only [Cmd.ACK_HEADER_LENGTH]; omega)]
    simp only [readChunk, Cmd.ACK_HEADER_LENGTH, U16_MAX, Nat.reduceAdd]
  have hmpos : 0 < readChunk lim := by simp only [readChunk]; omega
  have hm16 : readChunk lim < 2 ^ 16 := by simp only [readChunk]; omega
  have hmack : 12 + readChunk lim ≤ lim.maxAck := by simp only [readChunk]; omega
  obtain ⟨s', hs', hmem, hq, hcfg, hop, _, hlog, hpr⟩ :=
    readLoop_conforming hc p (readChunk lim) a hmpos hm16 hmack hcmd hr.ms16 s.h.cfg.retry
      hr.plan_lt_retry s.h.cfg.xfer lim.maxCmd hcmd (n + 1) 0 n s [] (by omega) (by omega)
      (by omega) hr.id16 rfl hr.maxCmd rfl hr.queue_empty
  refine ⟨s', ?_, hmem, hcfg, by rw [hop]; exact hr.opened, hq, hlog, hpr⟩
  have hva : verifyAddressRange a n = .ok () := by
    simp only [verifyAddressRange]
    by_cases h0 : n = 0
    · simp [h0]
    · rw [if_neg h0, if_pos (by omega)]
  have hch : (Cmd.ReadMem.mk a 0).chunks lim.maxAck =
      .ok ⟨a, 0, lim.maxAck - Cmd.ACK_HEADER_LENGTH⟩ := by
    have h12 : Cmd.ACK_HEADER_LENGTH = 12 := rfl
    simp only [Cmd.ReadMem.chunks]
    rw [if_neg (by omega)]
  simp only [Control.read, hr.opened, Bool.not_true, Bool.false_eq_true, if_false, hva, hr.maxAck, hch,
    hm, if_neg (Nat.ne_of_gt hmpos)]
  simpa using hs'

/-! ## 2. write_exact -/

/-- **write_exact**: against any conforming device, for every address and data with
`a + |data| ≤ 2^64` (any size, also beyond what one WriteMem command can carry), every
negotiated `maxCmd > 20` and `maxAck ≥ 16` (a WriteMem acknowledge is 16 bytes), every
pending plan below the retry count and every initial request id, `write(a, data)` succeeds
and the device memory afterwards is the old memory with `data` stored at `a`. -/
theorem write_exact (hc : Conforming dev view lim plan ms) (p : Profile) (s : St σ) (a : Nat)
    (data : Bytes) (hr : Ready view s lim plan ms) (hsp : a + data.length ≤ 2 ^ 64)
    (hn : data.length < 2 ^ 64) (hcmd : 20 < lim.maxCmd) (hu32 : lim.maxCmd < 2 ^ 32)
    (hack : 16 ≤ lim.maxAck) :
    ∃ s', write dev p s a data = (s', .ok ()) ∧
      (view s'.d).mem = writeRange (view s.d).mem a data ∧ s'.h.cfg = s.h.cfg ∧
      s'.h.opened = true ∧
      (view s'.d).queue = [] ∧
      s'.logRev = (runEvents plan ms s.h.cfg.xfer (writeSteps p lim a data)
          ⟨s.h.nextReqId, s.h.bufLen, (view s.d).txn⟩).1.reverse ++ s.logRev ∧
      (⟨s'.h.nextReqId, s'.h.bufLen, (view s'.d).txn⟩ : Prog) =
        (runEvents plan ms s.h.cfg.xfer (writeSteps p lim a data)
          ⟨s.h.nextReqId, s.h.bufLen, (view s.d).txn⟩).2 := by
  obtain ⟨s', hs', hmem, hq, hcfg, hop, _, hlog, hpr⟩ :=
    writeBlockLoop_conforming hc p a hcmd (by omega) hack hr.ms16 s.h.cfg.retry hr.plan_lt_retry
      s.h.cfg.xfer (data.length + 1) 0 data s (by omega) (by omega) (by omega) hr.id16 rfl
      hr.maxCmd rfl hr.queue_empty
  refine ⟨s', ?_, by simpa using hmem, hcfg, by rw [hop]; exact hr.opened, hq, hlog, hpr⟩
  have hva : verifyAddressRange a data.length = .ok () := by
    simp only [verifyAddressRange]
    by_cases h0 : data.length = 0
    · simp [h0]
    · rw [if_neg h0, if_pos (by omega)]
  simp only [write, hr.opened, Bool.not_true, Bool.false_eq_true, if_false, hva, hr.maxCmd]
  exact hs'

/-- **write_exact, pointwise**: after the write, byte `a+i` holds `data[i]` and every byte
outside `[a, a+|data|)` is unchanged — exactly the requested range is modified. -/
theorem write_exact_pointwise (hc : Conforming dev view lim plan ms) (p : Profile) (s : St σ)
    (a : Nat) (data : Bytes) (hr : Ready view s lim plan ms) (hsp : a + data.length ≤ 2 ^ 64)
    (hn : data.length < 2 ^ 64) (hcmd : 20 < lim.maxCmd) (hu32 : lim.maxCmd < 2 ^ 32)
    (hack : 16 ≤ lim.maxAck) :
    (write dev p s a data).2 = .ok () ∧
    (∀ i (hi : i < data.length),
      MemLike.get (view (write dev p s a data).1.d).mem (a + i) = data[i]) ∧
    (∀ x, x < a ∨ a + data.length ≤ x →
      MemLike.get (view (write dev p s a data).1.d).mem x = MemLike.get (view s.d).mem x) := by
  obtain ⟨s', hs', hmem, _⟩ := write_exact hc p s a data hr hsp hn hcmd hu32 hack
  rw [hs']
  refine ⟨rfl, ?_, ?_⟩
  · intro i hi
    simp only [hmem]
    exact get_writeRange_inside _ _ _ _ hi
  · intro x hx
    simp only [hmem]
    exact get_writeRange_outside _ _ _ _ hx

/-- **Ready is preserved by read**: after an exact read the handle / device pair satisfies the
hypotheses of all C06 theorems again (open, same limits, u16 id, nothing queued) — so the
theorems compose over any history of reads and writes. -/
theorem ready_after_read (hc : Conforming dev view lim plan ms) (p : Profile) (s : St σ)
    (a n : Nat) (hr : Ready view s lim plan ms) (hsp : a + n ≤ 2 ^ 64) (hn : n < 2 ^ 64)
    (hcmd : 24 ≤ lim.maxCmd) (hack : 12 < lim.maxAck) :
    Ready view (Control.read dev p s a n).1 lim plan ms := by
  obtain ⟨s1, hs1, _, hcfg, hop, hq, _, hpr⟩ := read_exact hc p s a n hr hsp hn hcmd hack
  rw [hs1]
  have hid1 : s1.h.nextReqId < 2 ^ 16 := by
    have h := congrArg Prog.id hpr
    simp only at h
    rw [h]
    rcases runEvents_final plan ms s.h.cfg.xfer (readSteps (view s.d).mem lim a n)
      ⟨s.h.nextReqId, s.h.bufLen, (view s.d).txn⟩ with h2 | h2
    · rw [h2]; exact Nat.mod_lt _ (by omega)
    · rw [h2]; simp only [runEvents]; exact hr.id16
  exact ⟨hq, hop, by rw [hcfg]; exact hr.maxCmd, by rw [hcfg]; exact hr.maxAck, hid1, hr.ms16,
    by rw [hcfg]; exact hr.plan_lt_retry⟩

/-- **Ready is preserved by write**. -/
theorem ready_after_write (hc : Conforming dev view lim plan ms) (p : Profile) (s : St σ)
    (a : Nat) (data : Bytes) (hr : Ready view s lim plan ms) (hsp : a + data.length ≤ 2 ^ 64)
    (hn : data.length < 2 ^ 64) (hcmd : 20 < lim.maxCmd) (hu32 : lim.maxCmd < 2 ^ 32)
    (hack : 16 ≤ lim.maxAck) :
    Ready view (write dev p s a data).1 lim plan ms := by
  obtain ⟨s1, hs1, _, hcfg, hop, hq, _, hpr⟩ := write_exact hc p s a data hr hsp hn hcmd hu32 hack
  rw [hs1]
  have hid1 : s1.h.nextReqId < 2 ^ 16 := by
    have h := congrArg Prog.id hpr
    simp only at h
    rw [h]
    rcases runEvents_final plan ms s.h.cfg.xfer (writeSteps p lim a data)
      ⟨s.h.nextReqId, s.h.bufLen, (view s.d).txn⟩ with h2 | h2
    · rw [h2]; exact Nat.mod_lt _ (by omega)
    · rw [h2]; simp only [runEvents]; exact hr.id16
  exact ⟨hq, hop, by rw [hcfg]; exact hr.maxCmd, by rw [hcfg]; exact hr.maxAck, hid1, hr.ms16,
    by rw [hcfg]; exact hr.plan_lt_retry⟩

/-- a read after a write returns the written data (composition of the two exactness
theorems through `Ready` and the device memory). -/
theorem read_after_write (hc : Conforming dev view lim plan ms) (p : Profile) (s : St σ)
    (a : Nat) (data : Bytes) (hr : Ready view s lim plan ms) (hsp : a + data.length ≤ 2 ^ 64)
    (hn : data.length < 2 ^ 64) (hcmd : 24 ≤ lim.maxCmd) (hu32 : lim.maxCmd < 2 ^ 32)
    (hack : 16 ≤ lim.maxAck) :
    (Control.read dev p (write dev p s a data).1 a data.length).2 = .ok data := by
  have hr1 := ready_after_write hc p s a data hr hsp hn (by omega) hu32 hack
  obtain ⟨s1, hs1, hmem, _⟩ := write_exact hc p s a data hr hsp hn (by omega) hu32 hack
  obtain ⟨s2, hs2, _⟩ := read_exact hc p _ a data.length hr1 hsp hn hcmd (by omega)
  rw [hs2, hs1]
  simp only [hmem, readRange_writeRange_same]

/-- **read respects maxCmd**: a ReadMem command is 24 bytes; when the negotiated maximum
command length is smaller, `read` of a non-empty buffer returns an error and puts NOTHING on
the wire (state and log unchanged) — whatever the device is.  Together with
`wire_within_limits_read` (`maxCmd ≥ 24`): for every negotiated `maxCmd`, no command longer
than `maxCmd` is ever sent by `read`. -/
theorem read_refused_small_maxCmd {σ' : Type} (dev' : Dev σ') (p : Profile) (s : St σ')
    (a n : Nat) (ha : a < 2 ^ 64) (hn : 0 < n) (hsmall : s.h.cfg.maxCmd < 24) :
    ∃ e, Control.read dev' p s a n = (s, .err e) := by
  unfold Control.read
  by_cases hop : (!s.h.opened) = true
  · exact ⟨_, by rw [if_pos hop]⟩
  · rw [if_neg hop]
    by_cases hv : a + (n - 1) < 2 ^ 64
    · have hva : verifyAddressRange a n = .ok () := by
        simp only [verifyAddressRange]; rw [if_neg (by omega), if_pos hv]
      simp only [hva]
      have h12 : Cmd.ACK_HEADER_LENGTH = 12 := rfl
      by_cases hack : s.h.cfg.maxAck ≤ 12
      · have : (Cmd.ReadMem.mk a 0).chunks s.h.cfg.maxAck = .err .invalidPacket := by
          simp only [Cmd.ReadMem.chunks]; rw [if_pos (by omega)]
        exact ⟨_, by simp only [this]; rfl⟩
      · have hch : (Cmd.ReadMem.mk a 0).chunks s.h.cfg.maxAck =
            .ok ⟨a, 0, s.h.cfg.maxAck - Cmd.ACK_HEADER_LENGTH⟩ := by
          simp only [Cmd.ReadMem.chunks]; rw [if_neg (by omega)]
        have hm : Cmd.maximumReadLength p s.h.cfg.maxAck =
            .ok (min (s.h.cfg.maxAck - 12) 65535) := by
          rw [C10.maximumReadLength_ok p s.h.cfg.maxAck (by omega)]; rfl
        have hmpos : min (s.h.cfg.maxAck - 12) 65535 ≠ 0 := by omega
        simp only [hch, hm, if_neg hmpos]
        refine ⟨.io, ?_⟩
        rw [readLoop]
        have hgt : ¬ min (min (s.h.cfg.maxAck - 12) 65535) n > U16_MAX := by
          simp only [U16_MAX]; omega
        have hadd : (addW p 64 a 0 : R Nat) = .ok a := by
          simp only [addW, Nat.add_zero]; rw [if_pos ha]
        have hguard : (Cmd.Cmd.readMem ⟨a, min (min (s.h.cfg.maxAck - 12) 65535) n⟩).cmdLen >
            s.h.cfg.maxCmd := by
          simp only [Cmd.Cmd.cmdLen, Cmd.Cmd.scdLen, Cmd.CCD_LEN]; omega
        simp only [if_neg (Nat.ne_of_gt hn), if_neg hgt, hadd, sendCmd, if_pos hguard]
    · have hva : verifyAddressRange a n = .err .invalidData := by
        simp only [verifyAddressRange]; rw [if_neg (by omega), if_neg hv]
      exact ⟨_, by simp only [hva]; rfl⟩

/-! ## 3. wire_within_limits -/

/-- **wire_within_limits (read)**: every command of a read is a 24-byte ReadMem command
(`≤ maxCmd`), every chunk requests at most `maxAck − 12` bytes; every received packet fits
the receive buffer (`maximum_ack_len` of its command — nothing is truncated) and — when
`maxAck ≥ 16` or the device sends no pending acknowledges (a pending acknowledge is 16
bytes) — the negotiated maximum acknowledge length; no transfer fails. -/
theorem wire_within_limits_read (mem : M) (lim : Limits) (plan : Nat → Nat) (ms t a n : Nat)
    (pr : Prog) (hcmd : 24 ≤ lim.maxCmd) (hack : 12 < lim.maxAck) :
    (∀ c ∈ readChunkList (readChunk lim) a (n + 1) 0 n,
      0 < c.readLength ∧ 12 + c.readLength ≤ lim.maxAck) ∧
    ∀ e ∈ (runEvents plan ms t (readSteps mem lim a n) pr).1,
      EvWithin lim (16 ≤ lim.maxAck ∨ ∀ i, plan i = 0) e := by
  have hmpos : 0 < readChunk lim := by simp only [readChunk]; omega
  have hpart := readChunkList_partition (readChunk lim) a hmpos (n + 1) 0 n (by omega)
  have hfits : ∀ c ∈ readChunkList (readChunk lim) a (n + 1) 0 n,
      0 < c.readLength ∧ 12 + c.readLength ≤ lim.maxAck := by
    intro c hcm
    have := hpart.fits c hcm
    simp only [Cmd.ACK_HEADER_LENGTH, readChunk] at this
    omega
  refine ⟨hfits, ?_⟩
  apply within_runEvents
  · intro st hst id
    simp only [readSteps, List.mem_map] at hst
    obtain ⟨c, _, rfl⟩ := hst
    have : ((Cmd.Cmd.readMem c).serialize id).length = 24 := by
      rw [C09.serialize_eq]; simp [C09.hdr, Cmd.Cmd.scdBytes, Cmd.ReadMem.scdBytes]
    simp only [readStep]; omega
  · intro st hst id
    simp only [readSteps, List.mem_map] at hst
    obtain ⟨c, hcm, rfl⟩ := hst
    have := hfits c hcm
    simp only [readStep, readAck, encodeAck_length, readRange_length, Cmd.Cmd.maximumAckLen,
      Cmd.Cmd.ackScdLen, Cmd.ACK_HEADER_LENGTH, Cmd.MINIMUM_ACK_SCD_LENGTH]
    exact ⟨by omega, fun _ => by omega⟩
  · exact id

/-- **wire_within_limits (write)**: every command of a write is at most `maxCmd` bytes long;
every received packet (WriteMem and pending acknowledges are 16 bytes) fits the receive
buffer and, given `maxAck ≥ 16`, the negotiated maximum acknowledge length. -/
theorem wire_within_limits_write (p : Profile) (lim : Limits) (plan : Nat → Nat) (ms t a : Nat)
    (data : Bytes) (pr : Prog) (hsp : a + data.length ≤ 2 ^ 64) (hcmd : 20 < lim.maxCmd)
    (hu32 : lim.maxCmd < 2 ^ 32) :
    ∀ e ∈ (runEvents plan ms t (writeSteps p lim a data) pr).1, EvWithin lim (16 ≤ lim.maxAck) e := by
  obtain ⟨_, hok⟩ := writeChunkList_spec p lim a hcmd (by omega) (data.length + 1) 0 data
    (by omega) (by omega)
  apply within_runEvents
  · intro st hst id
    simp only [writeSteps, List.mem_map] at hst
    obtain ⟨c, hcm, rfl⟩ := hst
    obtain ⟨hb, hl, _⟩ := hok c hcm
    have := (C09.len_agree p (.writeMem c) id (.writeMem _ hb)).1
    simp only [writeStep]
    rw [this, built_cmdLen hb]
    exact hl
  · intro st hst id
    simp only [writeSteps, List.mem_map] at hst
    obtain ⟨c, _, rfl⟩ := hst
    simp only [writeStep, writeAck, encodeAck_length, List.length_append, toLE_length,
      writeMem_maximumAckLen]
    exact ⟨by omega, fun h => by omega⟩
  · intro h; exact Or.inl h

/-! ## 4. ids_sequential -/

/-- **ids_sequential**: in the wire log of any run starting with request id `id0`, the k-th
command SENT carries `id0 + k mod 2^16` — the code draws a fresh id for every command it puts
on the wire, whatever that command's outcome (C07 `fresh_id_per_command`); in a conforming run
every command completes, so this is also one id per completed transaction —, every
acknowledge received for it — the pending ones and the final one — carries the same id
(`idsFrom`), and afterwards `next_req_id = id0 + #commands mod 2^16`.  Instantiated below for
`read` and `write`. -/
theorem ids_sequential_read (mem : M) (lim : Limits) (plan : Nat → Nat) (ms t a n : Nat) (pr : Prog)
    (hid : pr.id < 2 ^ 16) :
    wireIds (runEvents plan ms t (readSteps mem lim a n) pr).1 =
      idsFrom plan (readSteps mem lim a n).length pr.id pr.txn ∧
    (runEvents plan ms t (readSteps mem lim a n) pr).2.txn = pr.txn + (readSteps mem lim a n).length ∧
    ((runEvents plan ms t (readSteps mem lim a n) pr).2.id =
        (pr.id + (readSteps mem lim a n).length) % 2 ^ 16) := by
  refine ⟨?_, runEvents_txn .., ?_⟩
  · apply wireIds_runEvents _ _ _ _ _ pr hid
    intro st hst id hid'
    simp only [readSteps, List.mem_map] at hst
    obtain ⟨c, _, rfl⟩ := hst
    exact pktId_encodeAck _ _ _ _ hid'
  · rcases runEvents_final plan ms t (readSteps mem lim a n) pr with h | h
    · exact h
    · rw [h]; simp only [runEvents, List.length_nil, Nat.add_zero]
      exact (Nat.mod_eq_of_lt hid).symm

theorem ids_sequential_write (p : Profile) (lim : Limits) (plan : Nat → Nat) (ms t a : Nat)
    (data : Bytes) (pr : Prog) (hid : pr.id < 2 ^ 16) :
    wireIds (runEvents plan ms t (writeSteps p lim a data) pr).1 =
      idsFrom plan (writeSteps p lim a data).length pr.id pr.txn ∧
    (runEvents plan ms t (writeSteps p lim a data) pr).2.txn =
      pr.txn + (writeSteps p lim a data).length ∧
    ((runEvents plan ms t (writeSteps p lim a data) pr).2.id =
        (pr.id + (writeSteps p lim a data).length) % 2 ^ 16) := by
  refine ⟨?_, runEvents_txn .., ?_⟩
  · apply wireIds_runEvents _ _ _ _ _ pr hid
    intro st hst id hid'
    simp only [writeSteps, List.mem_map] at hst
    obtain ⟨c, _, rfl⟩ := hst
    exact pktId_encodeAck _ _ _ _ hid'
  · rcases runEvents_final plan ms t (writeSteps p lim a data) pr with h | h
    · exact h
    · rw [h]; simp only [runEvents, List.length_nil, Nat.add_zero]
      exact (Nat.mod_eq_of_lt hid).symm

/-! ## 5. footprint -/

/-- **footprint (read)**: the commands on the wire are exactly the serialized ReadMem chunk
commands, which the independent decoder reads back as `(address, length)` pairs that
partition `[a, a+n)` exactly: non-empty, contiguous, ascending, each at most the chunk size,
all but the last of exactly the chunk size (C10's `ReadPartition`). -/
theorem footprint_read (p : Profile) (mem : M) (lim : Limits) (plan : Nat → Nat) (ms t a n : Nat)
    (pr : Prog) (hack : 12 < lim.maxAck) (hsp : a + n ≤ 2 ^ 64) :
    C10.ReadPartition (readChunk lim) a n (readChunkList (readChunk lim) a (n + 1) 0 n) ∧
    sentOf (runEvents plan ms t (readSteps mem lim a n) pr).1 =
      serializeFrom (readSteps mem lim a n) pr.id ∧
    ∀ c ∈ readChunkList (readChunk lim) a (n + 1) 0 n, ∀ id, id < 2 ^ 16 →
      decodeCmd ((Cmd.Cmd.readMem c).serialize id) =
        some ⟨id, 12, .readMem c.address c.readLength⟩ := by
  have hmpos : 0 < readChunk lim := by simp only [readChunk]; omega
  have hpart := readChunkList_partition (readChunk lim) a hmpos (n + 1) 0 n (by omega)
  refine ⟨by simpa using hpart, sentOf_runEvents .., ?_⟩
  intro c hcm id hid'
  have hw := hpart.within c hcm
  have hf := hpart.fits c hcm
  have hcons : C09.Constructible p (.readMem c) :=
    .readMem _ ⟨by omega, by simp only [readChunk] at hf; omega⟩
  have := C09.decode_serialize p (.readMem c) id hcons hid'
  simpa only [C09.fields, C09.body, Spec.GenCP.scdLenOf] using this

/-- **footprint (write)**: the commands on the wire are exactly the serialized WriteMem chunk
commands; the chunks are non-empty, contiguous from `a`, and their data concatenates to
`data` (`Contig`), so the union of the written ranges is exactly `[a, a+|data|)` and every
byte is written once; the independent decoder reads each command back as its
`(address, data)`. -/
theorem footprint_write (p : Profile) (lim : Limits) (plan : Nat → Nat) (ms t a : Nat)
    (data : Bytes) (pr : Prog) (hsp : a + data.length ≤ 2 ^ 64) (hcmd : 20 < lim.maxCmd)
    (hu32 : lim.maxCmd < 2 ^ 32) :
    Contig a data (writeChunkList p a lim.maxCmd (data.length + 1) 0 data) ∧
    sentOf (runEvents plan ms t (writeSteps p lim a data) pr).1 =
      serializeFrom (writeSteps p lim a data) pr.id ∧
    ∀ c ∈ writeChunkList p a lim.maxCmd (data.length + 1) 0 data, ∀ id, id < 2 ^ 16 →
      decodeCmd ((Cmd.Cmd.writeMem c).serialize id) =
        some ⟨id, 8 + c.data.length, .writeMem c.address c.data⟩ := by
  obtain ⟨hcontig, hok⟩ := writeChunkList_spec p lim a hcmd (by omega) (data.length + 1) 0 data
    (by omega) (by omega)
  refine ⟨by simpa using hcontig, sentOf_runEvents .., ?_⟩
  intro c hcm id hid'
  obtain ⟨hb, _, _⟩ := hok c hcm
  have := C09.decode_serialize p (.writeMem c) id (.writeMem _ hb) hid'
  simpa only [C09.fields, C09.body, Spec.GenCP.scdLenOf] using this

/-! ## 6. open negotiates -/

/-- **open_negotiates**: take ANY closed handle (whatever configuration an earlier connection
left behind, ABRM capability cached or not, any u16 request id, any buffer) and any transport
that is a conforming device with limits `lim` (at least 24 / 20 bytes: the bootstrap commands
and their acknowledges must fit) whose control requests succeed (`CtlOk`) and whose bootstrap
registers (`Boot`) advertise exactly those limits and the response time `T`.  Then `open`
succeeds and
* the handle is `Ready` for `lim` — open, `maximum_cmd_length = lim.maxCmd`,
  `maximum_ack_length = lim.maxAck`, nothing queued — so `read_exact`, `write_exact` and all
  other C06 theorems apply to the state AFTER `open`; `timeout_duration = T`, the retry count is
  untouched, the device memory unchanged;
* the log is exactly: claim, SET_HALT IN/OUT (with the timeout in force before), CLEAR_HALT
  IN/OUT, then the run of the bootstrap transactions `bootSteps` — ONE ReadMem command per
  register (capability only while uncached; SBRM address, U3VCP capability, response time,
  maximum command length, maximum acknowledge length), whatever limits the previous connection
  had negotiated (the initial 128/128 are in force again), with consecutive request ids
  continuing from the handle's `next_req_id`. -/
theorem open_negotiates (hc : Conforming dev view lim plan ms) (hk : CtlOk dev view)
    (p : Profile) (s : St σ) (T sbrm : Nat) (hboot : Boot (view s.d).mem lim T sbrm)
    (hclosed : s.h.opened = false) (hid : s.h.nextReqId < 2 ^ 16)
    (hplan : ∀ i, plan i < s.h.cfg.retry) (hcmd : 24 ≤ lim.maxCmd) (hack : 20 ≤ lim.maxAck)
    (hms : ms < 2 ^ 16) :
    ∃ s', Control.open dev p s = (s', .ok ()) ∧
      Ready view s' lim plan ms ∧ s'.h.cfg.timeoutMs = T ∧ s'.h.cfg.retry = s.h.cfg.retry ∧
      (view s'.d).mem = (view s.d).mem ∧
      s'.logRev = (runEvents plan ms s.h.cfg.xfer
          (bootSteps (view s.d).mem sbrm s.h.abrm.isSome)
          ⟨s.h.nextReqId, s.h.bufLen, (view s.d).txn⟩).1.reverse ++
        (openCtlEvents s.h.cfg.xfer ++ s.logRev) ∧
      sentOf (runEvents plan ms s.h.cfg.xfer (bootSteps (view s.d).mem sbrm s.h.abrm.isSome)
          ⟨s.h.nextReqId, s.h.bufLen, (view s.d).txn⟩).1 =
        serializeFrom (bootSteps (view s.d).mem sbrm s.h.abrm.isSome) s.h.nextReqId ∧
      s'.h.nextReqId = (s.h.nextReqId +
        (bootSteps (view s.d).mem sbrm s.h.abrm.isSome).length) % 2 ^ 16 := by
  obtain ⟨s', hs', hcfg, hop, _, hid', hm, hq, hl, hp⟩ :=
    open_conforming hc hk p s T sbrm hboot hclosed hid hplan hcmd hack hms
  refine ⟨s', hs', ⟨hq, hop, by rw [hcfg], by rw [hcfg], hid', hms, by rw [hcfg]; exact hplan⟩,
    by rw [hcfg], by rw [hcfg], hm, hl, sentOf_runEvents .., ?_⟩
  have h := congrArg Prog.id hp
  simp only at h
  rw [h]
  rcases runEvents_final plan ms s.h.cfg.xfer (bootSteps (view s.d).mem sbrm s.h.abrm.isSome)
    ⟨s.h.nextReqId, s.h.bufLen, (view s.d).txn⟩ with h2 | h2
  · exact h2
  · exfalso
    simp only [bootSteps] at h2
    split at h2 <;> simp at h2

/-- **re-open renegotiates**: closing an open handle (whatever it had negotiated — its old
limits are NOT assumed to be the device's) and opening it again against a conforming device
leaves it `Ready` for the limits the device advertises now, with the request ids continuing
(`close` sends nothing and keeps `next_req_id`). -/
theorem reopen_renegotiates (hc : Conforming dev view lim plan ms) (hk : CtlOk dev view)
    (p : Profile) (s : St σ) (T sbrm : Nat) (hboot : Boot (view s.d).mem lim T sbrm)
    (hopen : s.h.opened = true) (hid : s.h.nextReqId < 2 ^ 16)
    (hplan : ∀ i, plan i < s.h.cfg.retry) (hcmd : 24 ≤ lim.maxCmd) (hack : 20 ≤ lim.maxAck)
    (hms : ms < 2 ^ 16) :
    (close dev s).2 = .ok () ∧ (close dev s).1.h.opened = false ∧
    (close dev s).1.h.nextReqId = s.h.nextReqId ∧ sentOf (close dev s).1.logRev = sentOf s.logRev ∧
    ∃ s', Control.open dev p (close dev s).1 = (s', .ok ()) ∧ Ready view s' lim plan ms ∧
      s'.h.cfg.timeoutMs = T ∧
      s'.h.nextReqId = (s.h.nextReqId +
        (bootSteps (view s.d).mem sbrm s.h.abrm.isSome).length) % 2 ^ 16 := by
  obtain ⟨d1, e1, m1, _, _, _⟩ := ctlReq_ok hk s .release
  have hnop : ¬ ((!s.h.opened) = true) := by simp [hopen]
  have hclose : close dev s = (⟨{ s.h with opened := false }, d1,
      .ctl .release (ctlTimeout s.h.cfg .release) none :: s.logRev⟩, .ok ()) := by
    simp only [close, if_neg hnop, e1]
  rw [hclose]
  refine ⟨rfl, rfl, rfl, by simp [sentOf], ?_⟩
  obtain ⟨s', hs', hr, hT, _, _, _, _, hidn⟩ :=
    open_negotiates hc hk p (⟨{ s.h with opened := false }, d1,
      .ctl .release (ctlTimeout s.h.cfg .release) none :: s.logRev⟩ : St σ) T sbrm
      (by simp only; rw [m1]; exact hboot) rfl hid hplan hcmd hack hms
  refine ⟨s', hs', hr, hT, ?_⟩
  simp only [m1] at hidn
  exact hidn

/-! ## Non-vacuity -/

/-- a device memory with bootstrap registers: SBRM at 0x10000, advertising 64 / 64 bytes and a
response time of 5 ms -/
def bootMem : Nat → UInt8 := fun a =>
  if a = 0x01D8 + 2 then 1                    -- SBRM address 0x0001_0000
  else if a = 0x01CC then 5                   -- response time 5 ms
  else if a = 0x10014 then 64 else if a = 0x10018 then 64 else 0

example : Boot bootMem ⟨64, 64⟩ 5 0x10000 := ⟨by decide, by decide, by decide, by decide, by decide⟩

example : CtlOk (refDev (M := Nat → UInt8) ⟨64, 64⟩ (fun _ => 0) 0) refView := refDev_ctlOk _ _ _

/-- `open` of a fresh handle on the reference device negotiates 64 / 64 / 5 ms with six
bootstrap commands; closing and re-opening needs five (the capability is cached). -/
example :
    let dev := refDev (M := Nat → UInt8) ⟨64, 64⟩ (fun _ => 0) 0
    let s1 := (Control.open dev .dev ⟨Handle.new, ⟨bootMem, [], 0⟩, []⟩).1
    let s2 := (Control.open dev .dev (close dev s1).1).1
    s1.h.cfg = ⟨5, 3, 64, 64⟩ ∧ s1.h.opened = true ∧ s1.h.nextReqId = 6 ∧
    s2.h.cfg = ⟨5, 3, 64, 64⟩ ∧ s2.h.nextReqId = 11 := by decide +kernel

/-! ## Non-vacuity (read / write) -/

/-- a concrete ready handle over the reference device: limits 64/64, one pending
acknowledge before every third answer, retry count 3, request id 65535 (about to wrap). -/
def exDev : Dev (RefState (Nat → UInt8)) :=
  refDev ⟨64, 64⟩ (fun i => if i % 3 = 0 then 1 else 0) 1

def exState : St (RefState (Nat → UInt8)) :=
  ⟨⟨65535, ⟨1, 3, 64, 64⟩, 0, true, none⟩, ⟨fun a => UInt8.ofNat a, [], 0⟩, []⟩

example : Ready (σ := RefState (Nat → UInt8)) refView exState ⟨64, 64⟩
    (fun i => if i % 3 = 0 then 1 else 0) 1 :=
  ⟨rfl, rfl, rfl, rfl, by decide, by decide, by intro i; simp only [exState]; split <;> omega⟩

/-- with a negotiated maximum command length of 23 a read is refused and nothing is sent -/
example : (Control.read exDev .dev
      { exState with h := { exState.h with cfg := ⟨1, 3, 23, 64⟩ } } 0x1000 4).2 = .err .io ∧
    (Control.read exDev .dev
      { exState with h := { exState.h with cfg := ⟨1, 3, 23, 64⟩ } } 0x1000 4).1.logRev.length = 0 := by
  decide +kernel

/-- a 100-byte read with 52-byte chunks across the id wrap returns the memory pattern -/
example : (Control.read exDev .dev exState 0x1000 100).2 =
    .ok ((List.range 100).map fun i => UInt8.ofNat (0x1000 + i)) := by decide +kernel

example : wireIds (Control.read exDev .dev exState 0x1000 100).1.logRev.reverse =
    [(true, 65535), (false, 65535), (false, 65535), (true, 0), (false, 0)] := by decide +kernel

example : (write exDev .release exState 5 [1, 2, 3]).2 = .ok () := by decide +kernel

end CamVerif.C06
